/-
Trie.Find on the in-memory representation, as it really runs (trie.go:582-642): the start node is looked
for with `getWithPath(t.root, prefix, strict=false)`, which loads the HashNodes on the prefix path IN
PLACE (the returned root is dropped, but the children of in-memory branches / extensions are assigned);
then a Billet with `keepNodes` traverses from the start node — a node of the trie itself — forwards,
replacing every HashNode it goes through by the loaded node, calling `process` on every node reached
with an exhausted start position and stopping as soon as `count >= maxNum`. What is loaded therefore
depends on `from` and on where the traversal stops. Results are `LNode × …`: the node standing at this
position afterwards (conventions of Model/Mpt/Lazy.lean). Proofs/MptLazyFind.lean: over a store from
which the trie can be loaded the result is `findX` (Model/Mpt/FindExact.lean) and the root keeps
representing the same trie.
-/
import NeoModel.Model.Mpt.Lazy
import NeoModel.Model.Mpt.FindExact
namespace NeoModel.Mpt

/-- a node `process` was called on. -/
abbrev Vis := Path × Option Val
/-- visited nodes, `count`, status: 0 = go on, 1 = `process` returned true (errStop), 2 = storage error. -/
abbrev TR := List Vis × Nat × Nat

/-- trie.go:625-636: `count` after `process` was called on a node. -/
def procCount (frm : Option Path) (c : Nat) (e : Vis) : Nat :=
  match e.2 with
  | some _ => if notFrom frm e.1 then c + 1 else c
  | none => c

/-- the traversal over a list of nodes to visit, stopped after the first call of `process` that
returns true (`count >= maxNum`). -/
def runProc (m : Nat) (frm : Option Path) : List Vis → Nat → TR
  | [], c => ([], c, 0)
  | e :: rest, c =>
    let c' := procCount frm c e
    if c' ≥ m then ([e], c', 1)
    else
      let r := runProc m frm rest c'
      (e :: r.1, r.2.1, r.2.2)

/-- billet.go:279-297: the loop over the children of a branch, forwards, stopping at the first child
whose traversal stopped or failed; the children visited are replaced (`n.Children[i] = r`). -/
def loopKids (rec : Nib → LNode → Nat → LNode × TR) : List Nib → (Nib → LNode) → Nat → (Nib → LNode) × TR
  | [], cs, c => (cs, ([], c, 0))
  | i :: rest, cs, c =>
    let r := rec i (cs i) c
    if r.2.2.2 ≠ 0 then (lupd cs i r.1, r.2)
    else
      let rr := loopKids rec rest (lupd cs i r.1) r.2.2.1
      (rr.1, (r.2.1 ++ rr.2.1, rr.2.2.1, rr.2.2.2))

/-- billet.go:229-339 `traverse` forwards as `Trie.Find` runs it (`keepNodes`, `process` of
trie.go:625-636 with its stop test): the node that stands at this position afterwards — every HashNode
the traversal went through is replaced by the loaded node, in place — and what was visited. -/
def ltravF (S : LStore) (m : Nat) (frm : Option Path) : Nat → LNode → Path → Path → Nat → LNode × TR
  | 0, l, _, _, c => (l, ([], c, 2))
  | _ + 1, .empty, _, _, c => (.empty, ([], c, 0))
  | f + 1, .hash h, path, fr, c =>
    match resolve S h with
    | none => (.hash h, ([], c, 2))
    | some l =>
      let r := ltravF S m frm f l path fr c
      if r.2.2.2 = 2 then (.hash h, r.2) else r
  | _ + 1, .leaf v, path, fr, c =>
    if fr = [] then
      let c' := procCount frm c (path, some v)
      (.leaf v, ([(path, some v)], c', if c' ≥ m then 1 else 0))
    else (.leaf v, ([], c, 0))
  | f + 1, .ext k n, path, fr, c =>
    match fr with
    | [] =>
      if c ≥ m then (.ext k n, ([(path, none)], c, 1))
      else
        let r := ltravF S m frm f n (path ++ k) [] c
        (.ext k r.1, ((path, none) :: r.2.1, r.2.2.1, r.2.2.2))
    | _ :: _ =>
      match stripPre k fr with
      | some rest =>
        let r := ltravF S m frm f n (path ++ k) rest c
        (.ext k r.1, r.2)
      | none =>
        if isPre fr k ∨ pathLt fr k then
          let r := ltravF S m frm f n (path ++ k) [] c
          (.ext k r.1, r.2)
        else (.ext k n, ([], c, 0))
  | f + 1, .branch cs lv, path, fr, c =>
    match fr with
    | [] =>
      if c ≥ m then (.branch cs lv, ([(path, none)], c, 1))
      else
        let rv := ltravF S m frm f lv path [] c
        if rv.2.2.2 ≠ 0 then (.branch cs rv.1, ((path, none) :: rv.2.1, rv.2.2.1, rv.2.2.2))
        else
          let rk := loopKids (fun i l c => ltravF S m frm f l (path ++ [i]) [] c) (List.finRange 16) cs rv.2.2.1
          (.branch rk.1 rv.1, ((path, none) :: (rv.2.1 ++ rk.2.1), rk.2.2.1, rk.2.2.2))
    | s :: fr' =>
      let rk := loopKids (fun i l c => ltravF S m frm f l (path ++ [i]) (if i = s then fr' else []) c)
        ((List.finRange 16).filter (fun i => s ≤ i)) cs c
      (.branch rk.1 lv, rk.2)

/-! ### Find -/

def leavesV (vs : List Vis) : List (Path × Val) := vs.filterMap fun e => e.2.map fun v => (e.1, v)

/-- a HashNode that was the start node stays: `_, err = b.traverse(start, …)` drops the loaded node
(trie.go:637); likewise `_, start, path, err := t.getWithPath(t.root, …)` drops a loaded root. -/
def keepHash (old new : LNode) : LNode := if old.isHash then old else new

/-- trie.go:597 `getWithPath(t.root, prefixP, false)` with the in-place loading of the nodes on the
path, followed by whatever `k` does with the start node and its full path (the result of `k` takes
the start node's place). Second component: `none` = ErrNotFound (nothing is changed then). -/
def ldescend (S : LStore) : (LNode → Path → LNode × Option (List (Path × Val))) → Nat → LNode → Path →
    LNode × Option (Option (List (Path × Val)))
  | _, 0, l, _ => (l, none)
  | _, _ + 1, .empty, _ => (.empty, none)
  | k, f + 1, .hash h, p =>
    match resolve S h with
    | none => (.hash h, none)
    | some l =>
      let r := ldescend S k f l p
      if r.2.isNone then (.hash h, none) else r
  | k, _ + 1, .leaf v, [] => let r := k (.leaf v) []; (r.1, some r.2)
  | _, _ + 1, .leaf v, _ :: _ => (.leaf v, none)
  | k, _ + 1, .branch cs lv, [] => let r := k (.branch cs lv) []; (r.1, some r.2)
  | k, f + 1, .branch cs lv, i :: p =>
    let r := ldescend S (fun s full => k s (i :: full)) f (cs i) p
    if r.2.isNone then (.branch cs lv, none) else (.branch (lupd cs i r.1) lv, r.2)
  | k, f + 1, .ext key n, p =>
    match p with
    | [] => let r := k n key; (.ext key (keepHash n r.1), some r.2)
    | _ :: _ =>
      match stripPre key p with
      | some rest =>
        let r := ldescend S (fun s full => k s (key ++ full)) f n rest
        if r.2.isNone then (.ext key n, none) else (.ext key r.1, r.2)
      | none =>
        if (stripPre p key).isSome then let r := k n key; (.ext key (keepHash n r.1), some r.2)
        else (.ext key n, none)

/-- trie.go:601-641: the adjustment of `from` to the start node's path and the traversal. `none` in
the second component = storage error. -/
def lfindK (S : LStore) (F m : Nat) (pre : Path) (frm : Option Path) (start : LNode) (full : Path) :
    LNode × Option (List (Path × Val)) :=
  let path := full.drop pre.length
  let fromP := frm.getD []
  let go := fun (f : Path) =>
    let r := ltravF S m frm F start path f 0
    (r.1, if r.2.2.2 = 2 then none else some ((leavesV r.2.1).filter fun e => notFrom frm e.1))
  if fromP = [] then go []
  else if path.length ≤ fromP.length ∧ isPre path fromP then go (fromP.drop path.length)
  else if path.length > fromP.length ∧ isPre fromP path then go []
  else if pathLt path fromP then (start, some [])
  else go []

/-- trie.go:582-642 `Trie.Find` on the in-memory representation: the root afterwards (the nodes on the
prefix path and the nodes the traversal went through are loaded in place, unless the root itself is a
HashNode: then everything happens on a loaded copy that is dropped) and the result (`none` = error). -/
def lfind (S : LStore) (F : Nat) (l : LNode) (pre : Path) (frm : Option Path) (m : Nat) :
    LNode × Option (List (Path × Val)) :=
  let r := ldescend S (lfindK S F m pre frm) F l pre
  (keepHash l r.1, r.2.join)

/-- the pure counterpart of `lfindK`: what `findX` does once the start node is known. -/
def findK (m : Nat) (pre : Path) (frm : Option Path) (start : Node) (full : Path) : Option (List (Path × Val)) :=
  let path := full.drop pre.length
  let fromP := frm.getD []
  let go := fun (f : Path) => some (collect m frm (visits start path f) 0)
  if fromP = [] then go []
  else if path.length ≤ fromP.length ∧ isPre path fromP then go (fromP.drop path.length)
  else if path.length > fromP.length ∧ isPre fromP path then go []
  else if pathLt path fromP then some []
  else go []

end NeoModel.Mpt
