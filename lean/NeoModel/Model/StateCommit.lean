/-
C03 — how the per-height state trie is derived from contract storage
(pkg/core/blockchain.go storeBlock: `GetStorageChanges` of the block's private layer →
`mpt.MapToMPTBatch` (sort by key, strip the storage prefix) → `stateroot.Module.AddMPTBatch` →
`Trie.PutBatch`; the root of the result is the state root of the height).

The trie implementation is a parameter (`AuthMap`): anything with `lookup`/`putBatch` that satisfies
the batch law. The MPT model of C10 is an instance (see Props/C03.lean, section "instance").
Core-only.
-/
namespace NeoModel.StateCommit

abbrev Key := List UInt8
abbrev Val := List UInt8

/-- contract storage at one height, as a function. -/
abbrev Storage := Key → Option Val

/-- one element of a change set: `some v` = put, `none` = delete (a tombstone in the cache layer). -/
abbrev Change := Key × Option Val

def applyChange (s : Storage) (c : Change) : Storage :=
  fun k => if k = c.1 then c.2 else s k

/-- applying the changes in list order (later entries win). -/
def applyBatch (s : Storage) (b : List Change) : Storage := b.foldl applyChange s

/-- The block's private cache layer is a Go `map[string][]byte`: one entry per key (the last write
    to that key in the block wins). `netOf ws` is that map for the write sequence `ws`,
    as an association list without duplicate keys (order irrelevant, see `applyBatch_perm`). -/
def netOf : List Change → List Change
  | [] => []
  | c :: rest => if rest.any (fun d => d.1 == c.1) then netOf rest else c :: netOf rest

/-- keys of a batch are pairwise distinct (what a Go map guarantees, and what
    `MapToMPTBatch` hands to `PutBatch`). -/
def DistinctKeys (b : List Change) : Prop := b.Pairwise (fun a c => a.1 ≠ c.1)

/-- abstract authenticated map: the interface C03 needs from the trie. -/
structure AuthMap (T : Type) where
  empty : T
  lookup : T → Key → Option Val
  putBatch : T → List Change → T
  /-- precondition under which the implementation is specified (sorted, key-distinct). -/
  okBatch : List Change → Prop
  lookup_empty : ∀ k, lookup empty k = none
  lookup_putBatch : ∀ t b, okBatch b → ∀ k, lookup (putBatch t b) k = applyBatch (lookup t) b k

/-- the chain of tries: `trieAt M bs` is the trie after the batches `bs` (one per block). -/
def trieAt {T : Type} (M : AuthMap T) (bs : List (List Change)) : T := bs.foldl M.putBatch M.empty

/-- the chain of storages. -/
def storageAt (bs : List (List Change)) : Storage := bs.foldl applyBatch (fun _ => none)

end NeoModel.StateCommit
