/-
The NeoVM model (C12, C13): one machine.
  Vm/Num.lean      integer semantics from mathematics (range, two's complement codec, division,
                   shifts, sqrt, modular arithmetic, bitwise)
  Vm/Item.lean     stack items, heap of reference objects, conversions, equality, clone, CONVERT
  Vm/Ops.lean      `Op`, `execPure`: every instruction over (evaluation stack, heap)
  Vm/Machine.lean  decoding, frames / call contexts / slots / try stacks, exceptions, gas,
                   `exec`, `step`, `run`, the reference count `reach`
-/
import NeoModel.Model.Vm.Num
import NeoModel.Model.Vm.Item
import NeoModel.Model.Vm.Ops
import NeoModel.Model.Vm.Machine
