/-
The NeoVM model (C12, C13): one machine, the independent executable specification of NeoVM.
  Vm/Num.lean      integer semantics from mathematics: `Int256` (an `Int` with its range proof),
                   `checkInt`, two's complement codec, truncated division, floor shift, integer
                   square root, modular power / inverse, 256-bit bitwise operations
  Vm/Item.lean     stack items, heap of reference objects (Buffer/Array/Struct/Map), TryBool /
                   TryInteger / TryBytes, EQUAL with its budgets, Struct.Clone, CONVERT, map keys,
                   UTF-8 validity, the checked conversions of stackitem/conversion.go
  Vm/Ops.lean      `Op`, `execPure`: every instruction over (evaluation stack, heap), result =
                   next state | catchable exception | FAULT
  Vm/Machine.lean  decoding (`Op.ofByte`, operand layout, `decode`), frames (loaded scripts) with
                   call contexts (CALL*), slots, try stacks, `handleException` (`Vm.raise`), gas,
                   `exec`, `step`, `run`, the reference count of the specification `reach`

API: `Vm.load prog args gasLimit`, `step cfg v`, `run cfg fuel v`, `Cfg.price`, `Vm.estack`,
`Vm.depth`, `reach v`. Evaluation stacks are lists with the top at the head. A FAULT is
`state = .fault` (message in `faultMsg`, informational). SYSCALL / CALLT fault (no handler).
Not modelled: the implementation's incremental item counter (C12 adds it on top); the model
faults when `reach > MaxStackSize`.
-/
import NeoModel.Model.Vm.Num
import NeoModel.Model.Vm.Item
import NeoModel.Model.Vm.Ops
import NeoModel.Model.Vm.Machine
