/-
Compile — reference compiler MiniGo → NeoVM for the modelled core (C14), mirroring pkg/compiler
as it is written:
  * `compE`, `compS`, `compFunc`: the AST walk of codegen.go (`Visit`, `emitBinaryExpr`, `emitBoolExpr`,
    `convertFuncDecl`) producing assembly with symbolic labels; slot allocation as in vars.go /
    func_scope.go (`newLocal` on every `:=`/`var`, slots are never reused, innermost scope first,
    arguments in their own slot kind);
  * `assemble`: `writeJumps` + `removeNOPs` of codegen.go: label resolution in the long layout, shortening
    of jumps whose long-layout offset fits a signed byte, removal of `JMPL +5` and of `INITSLOT 0,0`.
Core Lean only.
-/
import NeoModel.Model.MiniGo
namespace NeoModel.Compile
open NeoModel.MiniVm NeoModel.MiniVm.Asm NeoModel.MiniGo

abbrev Scopes := List (List (String × Nat))

/-- varScope.getVarInfo (vars.go:50-64): innermost scope first. -/
def lookupSlot : Scopes → String → Option Nat
  | [], _ => none
  | f :: fs, x => match f.lookup x with
    | some i => some i
    | none => lookupSlot fs x

def indexOf : List String → String → Option Nat
  | [], _ => none
  | y :: r, x => if y == x then some 0 else (indexOf r x).map (· + 1)

/-- compile-time context of one function. -/
structure Ctx where
  funcs : List (String × Nat × Nat)     -- name ↦ (label, number of results)
  args : List String
  deriving Repr

def Ctx.func (cx : Ctx) (f : String) : Nat × Nat :=
  match cx.funcs.lookup f with
  | some r => r
  | none => (0, 0)

/-- emitLoadVar / emitLoadByIndex (codegen.go:330-366). A name that is neither a local nor an argument
    does not occur in a well-scoped program (the real compiler would allocate a new local for it). -/
def loadVar (cx : Ctx) (sc : Scopes) (x : String) : Code :=
  match lookupSlot sc x with
  | some i => [.ins (.ldloc i)]
  | none => match indexOf cx.args x with
    | some j => [.ins (.ldarg j)]
    | none => [.ins .pushNull]

/-- emitStoreVar / emitStoreByIndex (codegen.go:369-391). -/
def storeVar (cx : Ctx) (sc : Scopes) (x : String) : Code :=
  match lookupSlot sc x with
  | some i => [.ins (.stloc i)]
  | none => match indexOf cx.args x with
    | some j => [.ins (.starg j)]
    | none => [.ins .drop]

/-- convertToken (codegen.go:2590-2653) for the strict operators. -/
def tokenOp : BinOp → Op Nat
  | .add => .add | .sub => .sub | .mul => .mul | .div => .div | .mod => .mod
  | .lt => .lt | .le => .le | .gt => .gt | .ge => .ge
  | .eq => .numEq | .ne => .numNe | .eqb => .equal | .neb => .notEqual
  | .land => .boolAnd | .lor => .boolOr

/-- getJumpForToken (codegen.go:1944-1964): comparisons of numbers have a fused jump. -/
def jumpFor : BinOp → Option Cmp
  | .gt => some .gt | .ge => some .ge | .lt => some .lt | .le => some .le
  | .eq => some .eq | .ne => some .ne
  | _ => none

/-- negateJmp (codegen.go:3092-3113). -/
def negCmp : Cmp → Cmp
  | .eq => .ne | .ne => .eq | .gt => .le | .ge => .lt | .le => .gt | .lt => .ge

/-- how the value of a boolean expression is consumed (emitBoolExpr's needJump/cond/jmpLabel). -/
inductive Mode
  | val
  | jump (cond : Bool) (target : Nat)
  deriving Repr

/-- emitJumpOnCondition (codegen.go:1793-1799). -/
def jumpOn (cond : Bool) (t : Nat) : Item := if cond then .ins (.jmpIf t) else .ins (.jmpIfNot t)

def withMode (m : Mode) (c : Code) : Code :=
  match m with
  | .val => c
  | .jump cond t => c ++ [jumpOn cond t]

/-- emitReverse (codegen.go:1912-1925). -/
def emitReverse : Nat → Code
  | 0 | 1 => []
  | 2 => [.ins .swap]
  | 3 => [.ins .reverse3]
  | 4 => [.ins .reverse4]
  | n => [.ins (.pushInt n), .ins .reverseN]

/-- expressions: Visit / emitBinaryExpr / emitBoolExpr. `nl` is the label counter (`len(c.l)`). -/
def compE (cx : Ctx) (sc : Scopes) : Expr → Mode → Nat → Code × Nat
  | .lit n, m, nl => (withMode m [.ins (.pushInt n)], nl)
  | .tt, m, nl => (withMode m [.ins .pushT], nl)
  | .ff, m, nl => (withMode m [.ins .pushF], nl)
  | .var x, m, nl => (withMode m (loadVar cx sc x), nl)
  | .paren e, m, nl =>
    -- *ast.ParenExpr is not handled by Visit: its child is walked in value mode
    let (c, nl1) := compE cx sc e .val nl
    (withMode m c, nl1)
  | .neg e, m, nl =>
    let (c, nl1) := compE cx sc e .val nl
    (withMode m (c ++ [.ins .negate]), nl1)
  | .not e, m, nl =>
    let (c, nl1) := compE cx sc e .val nl
    (withMode m (c ++ [.ins .not]), nl1)
  | .bin op a b, m, nl =>
    if op == .land || op == .lor then
      -- `&&` / `||` (codegen.go:1843-1863)
      let condShort := op == .lor
      let end_ := nl
      match m with
      | .jump cond t =>
        let l := if cond == condShort then t else end_
        let (ca, nl1) := compE cx sc a (.jump condShort l) (nl + 1)
        let (cb, nl2) := compE cx sc b (.jump cond t) nl1
        (ca ++ cb ++ [.lbl end_], nl2)
      | .val =>
        let push := nl + 1
        let (ca, nl1) := compE cx sc a (.jump condShort push) (nl + 2)
        let (cb, nl2) := compE cx sc b .val nl1
        (ca ++ cb ++ [.ins (.jmp end_), .lbl push, .ins (if condShort then .pushT else .pushF), .lbl end_], nl2)
    else
      let (ca, nl1) := compE cx sc a .val nl
      let (cb, nl2) := compE cx sc b .val nl1
      match m with
      | .val => (ca ++ cb ++ [.ins (tokenOp op)], nl2)
      | .jump cond t => match jumpFor op with
        | some c => (ca ++ cb ++ [.ins (.jmpCmp (if cond then c else negCmp c) t)], nl2)
        | none => (ca ++ cb ++ [.ins (tokenOp op), jumpOn cond t], nl2)
  | .call0 f, m, nl => (withMode m [.ins (.call (cx.func f).1)], nl)
  | .call1 f a, m, nl =>
    let (ca, nl1) := compE cx sc a .val nl
    (withMode m (ca ++ [.ins (.call (cx.func f).1)]), nl1)
  | .call2 f a b, m, nl =>
    let (ca, nl1) := compE cx sc a .val nl
    let (cb, nl2) := compE cx sc b .val nl1
    (withMode m (ca ++ cb ++ emitReverse 2 ++ [.ins (.call (cx.func f).1)]), nl2)
  | .call3 f a b c, m, nl =>
    let (ca, nl1) := compE cx sc a .val nl
    let (cb, nl2) := compE cx sc b .val nl1
    let (cc, nl3) := compE cx sc c .val nl2
    (withMode m (ca ++ cb ++ cc ++ emitReverse 3 ++ [.ins (.call (cx.func f).1)]), nl3)

/-- compile-time state threaded through statements. -/
structure St where
  nl : Nat                 -- label counter
  cnt : Nat                -- varScope.localsCnt
  scopes : Scopes
  nextLabel : Option String := none      -- codegen.nextLabel: the Go label of the statement being entered
  sb : Nat := 0                          -- SwitchStmt's startLabels[i]: the start label of the clause being compiled
  deriving Repr

/-- varScope.newLocal (vars.go:92-103). -/
def St.newLocal (st : St) (x : String) : St :=
  match st.scopes with
  | f :: fs => { st with cnt := st.cnt + 1, scopes := ((x, st.cnt) :: f) :: fs }
  | [] => { st with cnt := st.cnt + 1, scopes := [[(x, st.cnt)]] }

def St.push (st : St) : St := { st with scopes := [] :: st.scopes }
def St.pop (st : St) : St := { st with scopes := st.scopes.tail }

/-- one entry of codegen.labelList (pushStackLabel, codegen.go:1886-1897) together with what codegen.labels maps the
    entry's name to: the enclosing `for` and `switch` statements, innermost first.  An unlabeled statement has
    `name = none` (the compiler invents "@<n>", which no Go label can equal).  `scLen` is not used for code: it
    records how many scopes are open at the statement's end / post marks (the proofs need it). -/
structure LEntry where
  name : Option String
  isFor : Bool             -- `for` (keeps nothing on the stack) or `switch` (keeps its tag: labelList sz = 1)
  eqNum : Bool := false    -- `switch`: the tag is a number, cases are compared with NUMEQUAL (else EQUAL)
  endL : Nat               -- labelEnd
  postL : Nat              -- labelPost (`for` only; codegen.labels yields 0 for a missing key)
  scLen : Nat
  deriving Repr

def LEntry.sz (e : LEntry) : Nat := if e.isFor then 0 else 1

abbrev LoopCtx := List LEntry

/-- stack items kept by all enclosing statements (ReturnStmt, codegen.go:886-894). -/
def totalSz : LoopCtx → Nat
  | [] => 0
  | e :: r => e.sz + totalSz r

/-- BranchStmt (codegen.go:1425-1450), `break`: the entry that is left and the number of stack items to drop on the
    way (the sizes of the entries inside it).  Unlabeled: codegen.currentSwitch = the innermost entry. -/
def findBrk (l : Option String) : LoopCtx → Nat → Option (Nat × LEntry)
  | [], _ => none
  | e :: r, acc =>
    if (match l with | none => true | some x => e.name == some x) then some (acc, e)
    else findBrk l r (acc + e.sz)

/-- `continue`: unlabeled = codegen.currentFor = the innermost `for`. -/
def findCont (l : Option String) : LoopCtx → Nat → Option (Nat × LEntry)
  | [], _ => none
  | e :: r, acc =>
    if (match l with | none => e.isFor | some x => e.name == some x) then some (acc, e)
    else findCont l r (acc + e.sz)

/-- the `case *ast.BranchStmt` of Visit (codegen.go:1425-1450) has no `return nil` after the jump is emitted, so
    ast.Walk goes on to the children of the statement: the label identifier of `break L` / `continue L`.  Visit
    treats it as a variable — emitLoadVar — and getVarIndex (codegen.go:299-314) allocates a NEW LOCAL of that name
    when there is neither a local nor an argument called `L`.  The load is dead code behind the jump, but the slot
    counts for INITSLOT. -/
def St.phantom (cx : Ctx) (st : St) (l : String) : St :=
  match lookupSlot st.scopes l, indexOf cx.args l with
  | none, none => st.newLocal l
  | _, _ => st

def dropN : Nat → Code
  | 0 => []
  | n + 1 => .ins .drop :: dropN n

/-- dropItems (codegen.go:1899-1909). -/
def dropItems (n : Nat) : Code :=
  if n < 4 then dropN n else [.ins (.pushInt n), .ins .pack, .ins .drop]

def clauseCount : Stmt → Nat
  | .caseS _ _ _ _ rest => clauseCount rest + 1
  | .defaultS _ => 1
  | _ => 0

/-- statements: Visit for AssignStmt, IncDecStmt, GenDecl, ExprStmt, IfStmt, ForStmt, SwitchStmt, ReturnStmt,
    BranchStmt, LabeledStmt, BlockStmt. -/
def compS (cx : Ctx) (lp : LoopCtx) : Stmt → St → Code × St
  | .skip, st => ([], st)
  | .seq a b, st =>
    let (ca, st1) := compS cx lp a st
    let (cb, st2) := compS cx lp b st1
    (ca ++ cb, st2)
  | .define x e, st =>
    -- the right-hand side is walked first, then emitStoreExpr allocates the local (codegen.go:831-851, 2860-2863)
    let (ce, nl1) := compE cx st.scopes e .val st.nl
    let st1 := { st with nl := nl1 }.newLocal x
    (ce ++ storeVar cx st1.scopes x, st1)
  | .assign x e, st =>
    let (ce, nl1) := compE cx st.scopes e .val st.nl
    (ce ++ storeVar cx st.scopes x, { st with nl := nl1 })
  | .opAssign x op e, st =>
    let (ce, nl1) := compE cx st.scopes e .val st.nl
    (loadVar cx st.scopes x ++ ce ++ [.ins (tokenOp op)] ++ storeVar cx st.scopes x, { st with nl := nl1 })
  | .inc x, st => (loadVar cx st.scopes x ++ [.ins .inc] ++ storeVar cx st.scopes x, st)
  | .dec x, st => (loadVar cx st.scopes x ++ [.ins .dec] ++ storeVar cx st.scopes x, st)
  | .varDecl x isBool init, st =>
    -- GenDecl (codegen.go:736-790): the value (or the type's default) is walked first, the local is allocated when it
    -- is stored — the scope of `x` begins after its ValueSpec, so `var x T = e` compiles exactly like `x := e`
    match init with
    | none =>
      let st1 := st.newLocal x
      ([.ins (if isBool then .pushF else .pushInt 0)] ++ storeVar cx st1.scopes x, st1)
    | some e =>
      let (ce, nl1) := compE cx st.scopes e .val st.nl
      let st1 := { st with nl := nl1 }.newLocal x
      (ce ++ storeVar cx st1.scopes x, st1)
  | .exprStmt e, st =>
    let (ce, nl1) := compE cx st.scopes e .val st.nl
    let nres := match e with
      | .call0 f | .call1 f _ | .call2 f _ _ | .call3 f _ _ _ => (cx.func f).2
      | _ => 0
    (ce ++ dropN nres, { st with nl := nl1 })
  | .discard e, st =>
    -- emitStoreVar with the blank identifier drops the value (codegen.go:370-373)
    let (ce, nl1) := compE cx st.scopes e .val st.nl
    (ce ++ [.ins .drop], { st with nl := nl1 })
  | .panicS e, st =>
    -- builtin panic: the argument, then THROW (codegen.go convertBuiltin "panic"); nothing is dropped
    let (ce, nl1) := compE cx st.scopes e .val st.nl
    (ce ++ [.ins .throw], { st with nl := nl1 })
  | .ite c thn k els, st =>
    let lElse := st.nl + 1
    let lElseEnd := st.nl + 2
    let st0 := { st with nl := st.nl + 3 }.push
    let (cc, nl1) := compE cx st0.scopes c (.jump false lElse) st0.nl
    -- the branches are BlockStmts: own scope each
    let (ct, st1') := compS cx lp thn { st0 with nl := nl1 }.push
    let st1 := st1'.pop
    match k with
    | .none => (cc ++ [.lbl st.nl] ++ ct ++ [.lbl lElse, .lbl lElseEnd], st1.pop)
    | .block =>
      let (ce, st2') := compS cx lp els st1.push
      let st2 := st2'.pop
      (cc ++ [.lbl st.nl] ++ ct ++ [.ins (.jmp lElseEnd), .lbl lElse] ++ ce ++ [.lbl lElseEnd], st2.pop)
    | .elif =>
      let (ce, st2) := compS cx lp els st1
      (cc ++ [.lbl st.nl] ++ ct ++ [.ins (.jmp lElseEnd), .lbl lElse] ++ ce ++ [.lbl lElseEnd], st2.pop)
  | .loop init cond post body, st =>
    -- ForStmt (codegen.go:1469-1512): generateLabel consumes nextLabel; the entry is pushed after the init statement
    let fstart := st.nl
    let fend := st.nl + 1
    let fpost := st.nl + 2
    let ent : LEntry := { name := st.nextLabel, isFor := true, endL := fend, postL := fpost, scLen := st.scopes.length + 1 }
    let st0 := { st with nl := st.nl + 3, nextLabel := none }.push
    let (ci, st1) := compS cx lp init st0
    let (cc, nl2) : Code × Nat := match cond with
      | none => ([], st1.nl)
      | some c =>
        let (cc, n) := compE cx st1.scopes c .val st1.nl
        (cc ++ [Item.ins (.jmpIfNot fend)], n)
    let (cb, st3') := compS cx (ent :: lp) body { st1 with nl := nl2 }.push
    let st3 := st3'.pop
    let (cp, st4) := compS cx lp post st3
    (ci ++ [Item.lbl fstart] ++ cc ++ cb ++ [Item.lbl fpost] ++ cp ++ [Item.ins (.jmp fstart), Item.lbl fend], st4.pop)
  | .ret none, st => (dropItems (totalSz lp) ++ [.ins .ret], st)
  | .ret (some e), st =>
    -- ReturnStmt (codegen.go:882-929): the items kept by enclosing statements are dropped first, then the result
    let (ce, nl1) := compE cx st.scopes e .val st.nl
    (dropItems (totalSz lp) ++ ce ++ [.ins .ret], { st with nl := nl1 })
  | .ret2 e1 e2, st =>
    -- `for i := range slices.Backward(n.Results)`: the LAST operand is walked first, so that the first result is on
    -- top of the stack (known finding return-operands-reversed: Go evaluates the operands left to right)
    let (c2, nl1) := compE cx st.scopes e2 .val st.nl
    let (c1, nl2) := compE cx st.scopes e1 .val nl1
    (dropItems (totalSz lp) ++ c2 ++ c1 ++ [.ins .ret], { st with nl := nl2 })
  | .define2 x y e, st =>
    -- AssignStmt with len(Lhs) != len(Rhs) (codegen.go:816-852): the call, PUSH2 REVERSEN, then the left sides are
    -- stored LAST FIRST, each `:=` store allocating its local (y gets the lower slot)
    let (ce, nl1) := compE cx st.scopes e .val st.nl
    let st1 := { st with nl := nl1 }.newLocal y
    let st2 := st1.newLocal x
    (ce ++ [.ins (.pushInt 2), .ins .reverseN] ++ storeVar cx st1.scopes y ++ storeVar cx st2.scopes x, st2)
  | .brk, st => (match findBrk none lp 0 with | some (d, e) => dropItems d ++ [.ins (.jmp e.endL)] | none => [], st)
  | .cont, st => (match findCont none lp 0 with | some (d, e) => dropItems d ++ [.ins (.jmp e.postL)] | none => [], st)
  | .brkL l, st =>
    ((match findBrk (some l) lp 0 with | some (d, e) => dropItems d ++ [.ins (.jmp e.endL)] | none => []) ++
      loadVar cx (st.phantom cx l).scopes l, st.phantom cx l)
  | .contL l, st =>
    ((match findCont (some l) lp 0 with | some (d, e) => dropItems d ++ [.ins (.jmp e.postL)] | none => []) ++
      loadVar cx (st.phantom cx l).scopes l, st.phantom cx l)
  | .block body, st =>
    let (c, st1) := compS cx lp body st.push
    (c, st1.pop)
  | .labeled l s, st =>
    -- LabeledStmt (codegen.go:1452-1457): the name waits in nextLabel for the next generateLabel
    compS cx lp s { st with nextLabel := some l }
  | .switchS tag tagInt cl, st =>
    -- SwitchStmt (codegen.go:959-1032): own scope; the tag (or `true`) stays on the stack until the end mark;
    -- generateLabel (consuming nextLabel) comes after the tag; one start label per clause is reserved up front
    let st0 := st.push
    let (ct, nl1) : Code × Nat := match tag with
      | some e => compE cx st0.scopes e .val st0.nl
      | none => ([.ins .pushT], st0.nl)
    let endL := nl1
    let ent : LEntry := { name := st.nextLabel, isFor := false, endL := endL, postL := 0, scLen := st0.scopes.length, eqNum := tagInt }
    let st1 := { st0 with nl := nl1 + 1 + clauseCount cl, nextLabel := none, sb := nl1 + 1 }
    let (cc, st2) := compS cx (ent :: lp) cl st1
    (ct ++ cc ++ [.lbl endL, .ins .drop], { st2.pop with sb := st.sb })
  | .caseS e1 e2 body ft rest, st =>
    -- one CaseClause of the innermost switch (the head of `lp`); its start label is `st.sb`
    let endL := match lp with | e :: _ => e.endL | [] => 0
    let eq : Op Nat := match lp with | e :: _ => (if e.eqNum then .numEq else .equal) | [] => .equal
    let sb := st.sb
    let lEnd := st.nl
    let (c1, nl1) := compE cx st.scopes e1 .val (st.nl + 1)
    let (tests, nl2) : Code × Nat := match e2 with
      | none => ([Item.ins .dup] ++ c1 ++ [.ins eq, .ins (.jmpIfNot lEnd)], nl1)
      | some e2 =>
        let (c2, n2) := compE cx st.scopes e2 .val nl1
        ([Item.ins .dup] ++ c1 ++ [.ins eq, .ins (.jmpIf sb)] ++ [Item.ins .dup] ++ c2 ++ [.ins eq, .ins (.jmpIfNot lEnd)], n2)
    let (cb, st1) := compS cx lp body { st with nl := nl2 }.push
    let fall : Code := if ft then [.ins (.jmp (sb + 1))] else []
    let (cr, st2) := compS cx lp rest { st1.pop with sb := sb + 1 }
    (tests ++ [.lbl sb] ++ cb ++ fall ++ [.ins (.jmp endL), .lbl lEnd] ++ cr, st2)
  | .defaultS body, st =>
    let endL := match lp with | e :: _ => e.endL | [] => 0
    let lEnd := st.nl
    let (cb, st1) := compS cx lp body { st with nl := st.nl + 1 }.push
    ([.lbl st.sb] ++ cb ++ [.ins (.jmp endL), .lbl lEnd], st1.pop)

/-- lastStmtIsReturn (analysis.go:253-266) on a right-nested statement list. -/
def lastIsRet : Stmt → Bool
  | .seq a .skip => match a with
    | .block b => lastIsRet b
    | .ret _ => true
    | .ret2 _ _ => true
    | _ => false
  | .seq _ b => lastIsRet b
  | _ => false

/-- INITSLOT; `INITSLOT 0,0` is emitted by convertFuncDecl and removed by writeJumps (codegen.go:2916-2923): it is
    represented by a NOP item that occupies 3 bytes in the long layout and none in the final one. -/
def initSlotItem (locals args : Nat) : Item :=
  if locals == 0 && args == 0 then .ins .nop else .ins (.initSlot locals args)

/-- convertFuncDecl (codegen.go:554-680). -/
def compFunc (cx0 : List (String × Nat × Nat)) (d : FuncDecl) (label nl : Nat) : Code × Nat :=
  let cx : Ctx := { funcs := cx0, args := d.params }
  let (body, st) := compS cx [] (.block d.body) { nl := nl, cnt := 0, scopes := [[]] }
  -- (the function-level scope [[]] holds named results only; decl.Body is a BlockStmt)
  let tail : Code := if lastIsRet d.body then [] else [.ins .ret]
  ([.lbl label, initSlotItem st.cnt d.params.length] ++ body ++ tail, st.nl)

def tableFrom : List FuncDecl → Nat → List (String × Nat × Nat)
  | [], _ => []
  | d :: r, i => (d.name, i, d.nres) :: tableFrom r (i + 1)

/-- resolveFuncDecls: every function gets its label (its index in source order) before any code is emitted. -/
def funcTable (p : Prog) : List (String × Nat × Nat) := tableFrom p 0

def compFuncs (tbl : List (String × Nat × Nat)) : List FuncDecl → Nat → Nat → Code
  | [], _, _ => []
  | d :: r, i, nl =>
    let (c, nl1) := compFunc tbl d i nl
    c ++ compFuncs tbl r (i + 1) nl1

/-- the whole program: functions in source order, function `i` has label `i`. -/
def compProg (p : Prog) : Code := compFuncs (funcTable p) p 0 p.length

/-! ## Assembler: writeJumps + removeNOPs -/

def Op.target? {τ : Type} : Op τ → Option τ
  | .jmp t | .jmpIf t | .jmpIfNot t | .jmpCmp _ t | .call t => some t
  | _ => none

def Op.retarget {τ σ : Type} (t : σ) : Op τ → Op σ
  | .jmp _ => .jmp t | .jmpIf _ => .jmpIf t | .jmpIfNot _ => .jmpIfNot t | .jmpCmp c _ => .jmpCmp c t | .call _ => .call t
  | .pushInt n => .pushInt n | .pushT => .pushT | .pushF => .pushF | .pushNull => .pushNull | .nop => .nop
  | .ret => .ret | .drop => .drop | .dup => .dup | .swap => .swap | .reverse3 => .reverse3 | .reverse4 => .reverse4
  | .reverseN => .reverseN | .initSlot l a => .initSlot l a
  | .ldloc i => .ldloc i | .stloc i => .stloc i | .ldarg i => .ldarg i | .starg i => .starg i
  | .add => .add | .sub => .sub | .mul => .mul | .div => .div | .mod => .mod | .negate => .negate | .inc => .inc | .dec => .dec
  | .not => .not | .boolAnd => .boolAnd | .boolOr => .boolOr
  | .numEq => .numEq | .numNe => .numNe | .equal => .equal | .notEqual => .notEqual
  | .lt => .lt | .le => .le | .gt => .gt | .ge => .ge
  | .throw => .throw | .pack => .pack

/-- size of an item in the long layout (every jump has a 4-byte operand; a removed INITSLOT still has 3 bytes). -/
def longSize : Item → Nat
  | .lbl _ => 0
  | .ins .nop => 3
  | .ins op => (Byte.encode true (Op.retarget (0 : Int) op)).length

/-- byte offset of every item in the long layout. -/
def longPositions : Code → Nat → List Nat
  | [], _ => []
  | it :: r, pos => pos :: longPositions r (pos + longSize it)

def labelPos (c : Code) (pos : List Nat) (l : Nat) : Option Nat :=
  match c, pos with
  | .lbl k :: r, p :: ps => if k == l then some p else labelPos r ps l
  | _ :: r, _ :: ps => labelPos r ps l
  | _, _ => none

inductive Form | long | short | removed
  deriving DecidableEq, Repr

/-- writeJumps' decision for one item (codegen.go:2899-2923). -/
def formOf (c : Code) (pos : List Nat) (it : Item) (ip : Nat) : Form :=
  match it with
  | .lbl _ => .removed
  | .ins .nop => .removed
  | .ins op => match Op.target? op with
    | none => .long
    | some l => match labelPos c pos l with
      | none => .long
      | some t =>
        let off : Int := (t : Int) - ip
        if -128 ≤ off ∧ off ≤ 127 then
          match op with
          | .jmp _ => if off == 5 then .removed else .short
          | _ => .short
        else .long

def finalSize (it : Item) (f : Form) : Nat :=
  match f with
  | .removed => 0
  | .short => 2
  | .long => longSize it

def finalPositions : List (Item × Form) → Nat → List Nat
  | [], _ => []
  | (it, f) :: r, pos => pos :: finalPositions r (pos + finalSize it f)

def emitItems (c : Code) (fpos : List Nat) : List (Item × Form × Nat) → Bytes
  | [] => []
  | (it, f, ip) :: r =>
    (match it, f with
     | .ins op, .long => match Op.target? op with
       | some l => match labelPos c fpos l with
         | some t => Byte.encode true (Op.retarget ((t : Int) - ip) op)
         | none => Byte.encode true (Op.retarget (0 : Int) op)
       | none => Byte.encode true (Op.retarget (0 : Int) op)
     | .ins op, .short => match Op.target? op with
       | some l => match labelPos c fpos l with
         | some t => Byte.encode false (Op.retarget ((t : Int) - ip) op)
         | none => []
       | none => []
     | _, _ => []) ++ emitItems c fpos r

/-- assemble = writeJumps ; removeNOPs. -/
def assemble (c : Code) : Bytes :=
  let lpos := longPositions c 0
  let forms := (c.zip lpos).map (fun (it, ip) => formOf c lpos it ip)
  let fpos := finalPositions (c.zip forms) 0
  emitItems c fpos (c.zip (forms.zip fpos))

/-- final byte offset of label `l` (method offsets of the debug info / manifest). -/
def labelOffset (c : Code) (l : Nat) : Option Nat :=
  let lpos := longPositions c 0
  let forms := (c.zip lpos).map (fun (it, ip) => formOf c lpos it ip)
  let fpos := finalPositions (c.zip forms) 0
  labelPos c fpos l

/-- the offset under which the debug info lists method `i` of `n`: every function that was compiled is listed
    (addMethodsToDebugInfo, debug.go:236-243, skips exactly the scopes that were never converted) with the final
    offset of its first instruction. -/
def debugOffset (c : Code) (_n i : Nat) : Option Nat := labelOffset c i

/-- final byte offset of item `i` of `c` (the script length for an index past the end). -/
def fposAt (c : Code) (i : Nat) : Nat :=
  let lpos := longPositions c 0
  let forms := (c.zip lpos).map (fun (it, ip) => formOf c lpos it ip)
  let fpos := finalPositions (c.zip forms) 0
  match fpos[i]? with
  | some p => p
  | none => (assemble c).length

/-- item `i` of `c` is where and what the byte machine will see: an item without bytes (mark, removed INITSLOT,
    removed `JMPL +5`) does not move the offset (and the removed jump's target has the same offset); any other
    decodes at its offset to the same instruction with the relative offset of its target. -/
def itemOK (c : Code) (i : Nat) : Bool :=
  let p := fposAt c i
  let q := fposAt c (i + 1)
  match c[i]? with
  | none => true
  | some (.lbl _) => q == p
  | some (.ins op) =>
    if q == p then
      match op with
      | .nop => true
      | .jmp l => match Asm.findLabel c l with
        | some j => fposAt c j == p
        | none => false
      | _ => false
    else
      p < q && q ≤ (assemble c).length &&
      match Op.target? op with
      | none => Byte.decode ((assemble c).drop p) == some (Op.retarget (0 : Int) op, q - p)
      | some l => match Asm.findLabel c l with
        | some j => Byte.decode ((assemble c).drop p) == some (Op.retarget ((fposAt c j : Int) - (p : Int)) op, q - p)
                    && fposAt c j ≤ (assemble c).length
        | none => false

/-- the decidable layout condition under which the byte machine simulates the assembly machine
    (Proofs/CompileAsm.lean); the driver evaluates it for every program it compiles. -/
def layoutOK (c : Code) : Bool := (List.range c.length).all (itemOK c)

/-- compile : Prog → Script. -/
def compile (p : Prog) : Bytes := assemble (compProg p)

/-- DebugInfo of the model compiler: (method, offset, parameter count) for every function. -/
def debugInfo (p : Prog) : List (String × Option Nat × Nat) :=
  let c := compProg p
  (List.range p.length).zip p |>.map (fun (i, d) => (d.name, labelOffset c i, d.params.length))

/-- the compiler's own size rejections, function by function (same traversal as `compFuncs`): more than 255
    arguments (convertFuncDecl, codegen.go:595 "maximum of 255 local variables is allowed"), more than 255 local slots
    (writeJumps, codegen.go:2926 "func … has %d local variables (maximum is 255)"). -/
def acceptedFuncs (tbl : List (String × Nat × Nat)) : List FuncDecl → Nat → Nat → Bool
  | [], _, _ => true
  | d :: r, i, nl =>
    decide (d.params.length ≤ 255) &&
    decide ((compS { funcs := tbl, args := d.params } [] (.block d.body) { nl := nl, cnt := 0, scopes := [[]] }).2.cnt ≤ 255) &&
    acceptedFuncs tbl r (i + 1) (compFunc tbl d i nl).2

/-- `Compile` does not return an error: the per-function limits, and every jump offset fits int32
    (replaceLabelWithOffset, codegen.go:2979) — guaranteed when the long layout is shorter than 2^31 bytes. -/
def accepted (p : Prog) : Bool :=
  acceptedFuncs (funcTable p) p 0 p.length && decide (((compProg p).map longSize).sum < 2 ^ 31)
end NeoModel.Compile
