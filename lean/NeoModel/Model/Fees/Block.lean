/-
C07 — block packing, the wire form of the packed block and the checks a backup / the ledger run on it,
as written now.

  pkg/core/blockchain.go:2905-2939   ApplyPolicyToTxSet (uint32 / int64 arithmetic, default block witness)
  pkg/core/block/block.go:24-28,211-229   expectedHeaderSizeWithEmptyWitness, GetExpectedBlockSize(WithoutTransactions)
  pkg/core/block/header.go:116-151   Header.EncodeBinary / encodeHashableFields
  pkg/core/block/block.go:149-155    Block.EncodeBinary
  pkg/smartcontract/contract.go:57-59 GetDefaultHonestNodeCount
  pkg/consensus/consensus.go:546-604 verifyBlock (backup side: size, every transaction into a scratch pool, system fee)
  pkg/core/blockchain.go:1885-1934   AddBlock: the transaction loop with its scratch pool and the count check
  pkg/core/mempool/mem_pool.go:175-262,586-654   getPayer, Add / checkTxConflicts / checkBalance on a pool that is below capacity
  pkg/core/blockchain.go:3193-3241   IsTxStillRelevant

Transactions are `Admission.Tx` (predicate vector); what `mempool.Add` reads beyond that (Conflicts hashes, the
oracle request id, the payer) is computed from its attributes and signers. Core Lean only.
-/
import NeoModel.Model.Admission
namespace NeoModel.Pack
open NeoModel NeoModel.Fees NeoModel.Admission
open NeoModel.Generated.FeeConsts
open NeoModel.Wire (leBytes putVarUint varUintSize)

/-! ### the wire form of a block -/

/-- `block.Header` (header.go:25-66); hashes are byte strings of their fixed width. -/
structure Header where
  version : Nat
  prevHash : Bytes          -- 32
  merkleRoot : Bytes        -- 32
  timestamp : Nat
  nonce : Nat
  index : Nat
  primary : Nat
  nextConsensus : Bytes     -- 20
  stateRootEnabled : Bool
  prevStateRoot : Bytes     -- 32
  inv : Bytes               -- Script.InvocationScript
  ver : Bytes               -- Script.VerificationScript
deriving Repr, DecidableEq, Inhabited

/-- the field widths Go's array types guarantee. -/
def Header.WF (h : Header) : Prop :=
  h.prevHash.length = uint256Size ∧ h.merkleRoot.length = uint256Size ∧ h.nextConsensus.length = uint160Size
    ∧ h.prevStateRoot.length = uint256Size ∧ h.inv.length ≤ 0xFFFFFFFF ∧ h.ver.length ≤ 0xFFFFFFFF

/-- `encodeHashableFields` (header.go:139-151). -/
def Header.hashable (h : Header) : Bytes :=
  leBytes 4 h.version ++ (h.prevHash ++ (h.merkleRoot ++ (leBytes 8 h.timestamp ++ (leBytes 8 h.nonce ++
    (leBytes 4 h.index ++ (UInt8.ofNat h.primary :: (h.nextConsensus ++
      (if h.stateRootEnabled then h.prevStateRoot else []))))))))

/-- `Header.EncodeBinary` (header.go:116-120): hashable fields, witness count 1, the witness. -/
def Header.encode (h : Header) : Bytes := h.hashable ++ (putVarUint 1 ++ encodeWitness h.inv h.ver)

/-- `Block.EncodeBinary` (block.go:149-155); a transaction is its encoding. -/
def encodeBlock (h : Header) (txs : List Bytes) : Bytes := h.encode ++ (putVarUint txs.length ++ txs.flatten)

/-- `new(Header)`: every field zero, no state root, empty witness. -/
def zeroHeader : Header :=
  { version := 0, prevHash := List.replicate 32 0, merkleRoot := List.replicate 32 0, timestamp := 0, nonce := 0, index := 0,
    primary := 0, nextConsensus := List.replicate 20 0, stateRootEnabled := false, prevStateRoot := List.replicate 32 0,
    inv := [], ver := [] }

/-- the part of `GetExpectedBlockSizeWithoutTransactions` that does not depend on the transaction count:
`expectedHeaderSizeWithEmptyWitness - 1 - 1 + io.GetVarSize(&b.Script)` (+ 32 with the state root);
`io.GetVarSize` of a Serializable is the length of its encoding (io/size.go). -/
def overheadOf (sre : Bool) (inv ver : Bytes) : Nat :=
  expectedHeaderSizeWithEmptyWitness - 1 - 1 + (encodeWitness inv ver).length + (if sre then uint256Size else 0)

/-- `Block.GetExpectedBlockSizeWithoutTransactions(txCount)` (block.go:221-229). -/
def expectedSizeWithoutTx (sre : Bool) (inv ver : Bytes) (txCount : Nat) : Nat :=
  overheadOf sre inv ver + varUintSize txCount

/-- `Block.GetExpectedBlockSize` (block.go:212-218) for transactions of the given sizes. -/
def expectedBlockSize (sre : Bool) (inv ver : Bytes) (sizes : List Nat) : Nat :=
  expectedSizeWithoutTx sre inv ver sizes.length + sizes.sum

/-! ### ApplyPolicyToTxSet -/

/-- `smartcontract.GetDefaultHonestNodeCount` (contract.go:57-59). -/
def honestCount (n : Nat) : Nat := n - (n - 1) / 3

/-- the default block witness (blockchain.go:2916-2921): `66·m` zero bytes and the default multisig script of the
next block validators (`keys` in the builder's order); the builder's error is dropped (nil script). -/
def defaultWitness (keys : List Bytes) : Bytes × Bytes :=
  (List.replicate (66 * honestCount keys.length) 0, (multisigScript (honestCount keys.length) keys).getD [])

/-- Go `uint32(x)`. -/
def u32 (x : Nat) : Nat := x % 2 ^ 32

/-- int64 addition result brought back into range (two's complement wrap-around). -/
def wrap64 (x : Int) : Int := (x + 2 ^ 63) % 2 ^ 64 - 2 ^ 63

/-- what `ApplyPolicyToTxSet` reads of the configuration and of the chain. -/
structure Cfg where
  maxTx : Nat               -- MaxTransactionsPerBlock (uint16), 0 = unlimited
  maxBlockSize : Nat        -- MaxBlockSize (uint32)
  maxBlockSysFee : Int      -- MaxBlockSystemFee (int64)
  stateRoot : Bool          -- StateRootInHeader
  inv : Bytes               -- defaultBlockWitness
  ver : Bytes

/-- the loop (blockchain.go:2930-2937) over (tx.Size(), tx.SystemFee) pairs with the code's arithmetic:
`blockSize` is a uint32, `blockSysFee` an int64; stop before the first transaction that breaks a limit. -/
def packLoopM (cfg : Cfg) : Nat → Int → List (Nat × Int) → List (Nat × Int)
  | _, _, [] => []
  | size, fee, t :: ts =>
    let size' := u32 (size + u32 t.1)
    let fee' := wrap64 (fee + t.2)
    if size' > cfg.maxBlockSize ∨ fee' > cfg.maxBlockSysFee then [] else t :: packLoopM cfg size' fee' ts

/-- the transactions the loop looks at (blockchain.go:2906-2909). -/
def capped (maxTx : Nat) (txs : List α) : List α :=
  if maxTx ≠ 0 ∧ txs.length > maxTx then txs.take maxTx else txs

/-- `ApplyPolicyToTxSet` on the pool's transactions in pool order. The block size starts at
`uint32(GetExpectedBlockSizeWithoutTransactions(len(txes)))` — the count prefix is sized for the capped
list, not for what is finally taken. -/
def applyPolicyM (cfg : Cfg) (txs : List (Nat × Int)) : List (Nat × Int) :=
  let txs := capped cfg.maxTx txs
  packLoopM cfg (u32 (expectedSizeWithoutTx cfg.stateRoot cfg.inv cfg.ver txs.length)) 0 txs

/-! ### what `mempool.Add` reads of a transaction -/

/-- the hashes named by Conflicts attributes, in attribute order. -/
def conflictHashes (t : Tx) : List Nat :=
  t.attrs.filterMap fun a => match a with | .conflicts h => some h | _ => none

/-- the request id of the OracleResponse attribute (at most one per transaction). -/
def oracleId (t : Tx) : Option Nat :=
  t.attrs.findSome? fun a => match a with | .oracleResponse f => some f.id | _ => none

def accounts (t : Tx) : List Nat := t.signers.map (·.account)

/-- `Sender()` = `Signers[0].Account` (transaction.go:352); the zero account is 0. -/
def sender (t : Tx) : Nat := (accounts t).headD 0

/-- `getPayer` (mem_pool.go:175-183): a Notary-sponsored transaction is paid from the deposit of the second signer. -/
def payer (notary : Nat) (t : Tx) : Nat × Nat :=
  if sender t = notary then (sender t, (accounts t).getD 1 0) else (sender t, 0)

/-- the signer whose transactions count in step 1 of `checkTxConflicts` (mem_pool.go:594-599). -/
def author (notary : Nat) (t : Tx) : Nat :=
  if sender t = notary then (payer notary t).2 else (payer notary t).1

/-- `uint64(tx.SystemFee + tx.NetworkFee)`. -/
def fee (t : Tx) : Nat := t.sysFee + t.netFee

/-- fees of the pooled transactions of a payer. -/
def sumFees (notary : Nat) (q : Nat × Nat) (sp : List Tx) : Nat :=
  ((sp.filter fun e => payer notary e == q).map fee).sum

/-! ### a scratch pool below its capacity -/

/-- step 1 of `checkTxConflicts` (mem_pool.go:601-609): pooled transactions naming `t` in a Conflicts attribute. -/
def namedBy (sp : List Tx) (t : Tx) : List Tx := sp.filter fun e => (conflictHashes e).contains t.hash

/-- step 2 (mem_pool.go:617-635): pooled transactions `t` names, one entry per attribute; `none` = a named
pooled transaction shares no signer with `t` (ErrConflictsAttribute). -/
def namedOf (sp : List Tx) (t : Tx) : List Nat → Option (List Tx)
  | [] => some []
  | h :: hs =>
    match sp.find? (·.hash == h) with
    | none => namedOf sp t hs
    | some e =>
      if (accounts e).any (fun a => (accounts t).contains a) then (namedOf sp t hs).map (e :: ·) else none

/-- the view `mempool.Add` takes its decisions on, for a pool holding `sp` (insertion order) that is below its
capacity (so that the capacity branch, mem_pool.go:311, is not taken); `bal` = `Feer.GetUtilityTokenBalance`. -/
def scratchView (notary : Nat) (bal : Nat × Nat → Nat) (sp : List Tx) (t : Tx) : Pool :=
  let q := payer notary t
  let s1 := namedBy sp t
  let fee1 := ((s1.filter fun e => (accounts e).contains (author notary t)).map (·.netFee)).sum
  match namedOf sp t (conflictHashes t) with
  | none => { has := fun h => sp.any (·.hash == h), conflictsAttrErr := true, balance := bal q, feeSum := 0, oracleErr := false, full := false }
  | some s2 =>
    let cfee := fee1 + (s2.map (·.netFee)).sum
    let rm := s1 ++ s2
    { has := fun h => sp.any (·.hash == h)
      conflictsAttrErr := cfee != 0 && decide (t.netFee ≤ cfee)
      balance := bal q
      -- step 3 (mem_pool.go:643-648): the fees of the payer's transactions that will be removed are not counted
      feeSum := sumFees notary q sp - ((rm.filter fun e => payer notary e == q).map fee).sum
      oracleErr := match oracleId t with
        | none => false
        | some id => sp.any fun e => oracleId e == some id && decide (e.netFee ≥ t.netFee)
      full := false }

/-- what `Add` removes on success: the conflicting transactions and a cheaper response to the same request. -/
def removedBy (sp : List Tx) (t : Tx) : List Nat :=
  ((namedBy sp t) ++ ((namedOf sp t (conflictHashes t)).getD [])).map (·.hash)
    ++ (match oracleId t with
        | none => []
        | some id => (sp.filter fun e => oracleId e == some id).map (·.hash))

/-- `Add` on such a pool: the verdict and the pool afterwards. -/
def scratchAdd (notary : Nat) (bal : Nat × Nat → Nat) (sp : List Tx) (t : Tx) : Option Err × List Tx :=
  match poolAdd (scratchView notary bal sp t) t with
  | some e => (some e, sp)
  | none => (none, (sp.filter fun e => !(removedBy sp t).contains e.hash) ++ [t])

/-! ### the backup's and the ledger's transaction loops -/

/-- `verifyAndPoolTx` (blockchain.go:2996-3066) = `admit` without the MaxBlockSystemFee test of
`verifyAndPoolOffChainTx`. -/
def admitInBlock (c : Chain) (p : Pool) (t : Tx) : Option Err :=
  if !t.scriptOk then some .invalidScript
  else if t.validUntil ≤ c.height then some .expired
  else if t.validUntil > c.height + c.maxVUBInc then some .notYetValid
  else if t.signers.any (fun s => c.blocked s.account) then some .policyBlocked
  else if t.size > maxTransactionSize then some .tooBig
  else
    let need := t.size * c.feePerByte + attrsFee c t.signers.length t.attrs
    if t.netFee < need then some .smallNetFee
    else match hasTransaction (c.lookup t.hash) (t.signers.map (·.account)) c.height c.mtb with
      | some e => some e
      | none =>
        match verifyWitnesses c (t.netFee - need) (t.signers.map (·.wit)) with
        | none => some .witness
        | some _ =>
          if !verifyAttrs c t then some .invalidAttr
          else poolAdd p t

/-- the loop of `consensus.verifyBlock` (consensus.go:571-593): a transaction the node holds in its own pool
(`inMain`) is only added to the scratch pool, any other goes through `PoolTx`. Returns the index and the error
of the first failing transaction. -/
def backupLoop (c : Chain) (bal : Nat × Nat → Nat) (inMain : Nat → Bool) : Nat → List Tx → List Tx → Option (Nat × Err)
  | _, _, [] => none
  | i, sp, t :: ts =>
    let v := scratchView c.notary bal sp t
    match (if inMain t.hash then poolAdd v t else admit c v t) with
    | some e => some (i, e)
    | none => backupLoop c bal inMain (i + 1) (scratchAdd c.notary bal sp t).2 ts

inductive BlockErr where
  | size | tx (i : Nat) (e : Err) | sysFee | conflictInBlock (i : Nat)
deriving Repr, DecidableEq

/-- `consensus.verifyBlock` after the timestamp test (consensus.go:560-603): expected block size of the proposal,
every transaction, the system fee total. -/
def verifyBlock (c : Chain) (bal : Nat × Nat → Nat) (inMain : Nat → Bool) (maxBlockSize : Nat)
    (sre : Bool) (inv ver : Bytes) (txs : List Tx) : Option BlockErr :=
  if expectedBlockSize sre inv ver (txs.map (·.size)) > maxBlockSize then some .size
  else match backupLoop c bal inMain 0 [] txs with
    | some (i, e) => some (.tx i e)
    | none => if (txs.map (·.sysFee)).sum > c.maxBlockSysFee then some .sysFee else none

/-- the transaction loop of `AddBlock` (blockchain.go:1899-1927, VerifyTransactions on): a transaction pooled
with the same witnesses is only added to the scratch pool, any other is verified in full; afterwards the scratch
pool must hold one transaction more than before (it replaces conflicting ones like the regular pool does). -/
def ledgerLoop (c : Chain) (bal : Nat × Nat → Nat) (inMain : Nat → Bool) : Nat → List Tx → List Tx → Option BlockErr
  | _, _, [] => none
  | i, sp, t :: ts =>
    let v := scratchView c.notary bal sp t
    match (if inMain t.hash then poolAdd v t else admitInBlock c v t) with
    | some e => some (.tx i e)
    | none =>
      let sp' := (scratchAdd c.notary bal sp t).2
      if sp'.length ≠ sp.length + 1 then some (.conflictInBlock i)
      else ledgerLoop c bal inMain (i + 1) sp' ts

/-! ### IsTxStillRelevant -/

/-- is the verification script one of the two standard contracts (`scparser.IsStandardContract`)? -/
def Wit.isStandard : Wit → Bool
  | .std _ _ ver => isSignatureContract ver || (parseMultiSig ver).isSome
  | .missing => false     -- empty verification script
  | .contract _ => false

/-- the price of a standard witness as `IsTxStillRelevant` takes it (blockchain.go:3228-3235): `fee.Calculate` with
the current base fee; `none` = not a standard contract. -/
def Wit.stdCost (c : Chain) (w : Wit) : Option Nat :=
  match w with
  | .std _ _ ver => if Wit.isStandard w then some (calculate c.base ver).1 else none
  | _ => none

/-- the loop at blockchain.go:3227-3236: the prices of the witnesses, `none` as soon as one is not standard
(`recheckWitness`). -/
def standardCost (c : Chain) : List Wit → Option Nat
  | [] => some 0
  | w :: ws =>
    match Wit.stdCost c w with
    | none => none
    | some k => (standardCost c ws).map (k + ·)

/-- `IsTxStillRelevant(t, nil, false)` (blockchain.go:3193-3241, after fixes 0375dbe and 4f45775): the filter the
pool applies to its content after every block. What size and attribute fees leave of the network fee must pay
the witnesses: standard ones are priced with `fee.Calculate`, and as soon as one is not standard all of them are
run again (`verifyTxWitnesses` without a fee argument, i.e. with that same remainder as gas limit). -/
def stillRelevant (c : Chain) (t : Tx) : Bool :=
  if t.validUntil ≤ c.height then false
  else if t.validUntil > c.height + c.maxVUBInc then false
  else if (hasTransaction (c.lookup t.hash) (t.signers.map (·.account)) c.height c.mtb).isSome then false
  else if t.signers.any (fun s => c.blocked s.account) then false
  else if t.netFee < t.size * c.feePerByte + attrsFee c t.signers.length t.attrs then false
  else if !verifyAttrs c t then false
  else
    let left := t.netFee - (t.size * c.feePerByte + attrsFee c t.signers.length t.attrs)
    match standardCost c (t.signers.map (·.wit)) with
    | none => (verifyWitnesses c left (t.signers.map (·.wit))).isSome
    | some total => decide (total ≤ left)

/-- `mempool.Pool.HasConflicts(t)` (mem_pool.go:150-169) on the scratch pool holding the transactions `blk` of a block:
`t` is in it, or one of them names `t` in a Conflicts attribute (whoever signed it: "do not check sender's signature
and fee"), or `t` names one of them. -/
def blockHasConflicts (blk : List Tx) (t : Tx) : Bool :=
  blk.any (·.hash == t.hash) || blk.any (fun y => (conflictHashes y).contains t.hash)
    || (conflictHashes t).any (fun h => blk.any (·.hash == h))

/-- `IsTxStillRelevant(t, txpool, false)` with the scratch pool of the block just accepted (blockchain.go:2220, the
way `RemoveStale` is driven after every block): the on-chain lookup is replaced by `txpool.HasConflicts`. -/
def stillRelevantAfter (c : Chain) (blk : List Tx) (t : Tx) : Bool :=
  if t.validUntil ≤ c.height then false
  else if t.validUntil > c.height + c.maxVUBInc then false
  else if blockHasConflicts blk t then false
  else if t.signers.any (fun s => c.blocked s.account) then false
  else if t.netFee < t.size * c.feePerByte + attrsFee c t.signers.length t.attrs then false
  else if !verifyAttrs c t then false
  else
    let left := t.netFee - (t.size * c.feePerByte + attrsFee c t.signers.length t.attrs)
    match standardCost c (t.signers.map (·.wit)) with
    | none => (verifyWitnesses c left (t.signers.map (·.wit))).isSome
    | some total => decide (total ≤ left)

/-- what `dao.StoreAsTransaction(y, index)` (dao.go:948-992) does to the records `HasTransaction` reads: `y` itself
becomes a transaction; under every hash `y` names (unless a block is stored there — a transaction stored there IS
overwritten) the stub gets the new index and every signer of `y` a per-signer record with it (older per-signer records
of other accounts stay). Not modelled: per-signer records left behind under a hash that later becomes a transaction
(a transaction whose hash was named before; it cannot be named again while it is on chain). -/
def storeTx (lookup : Nat → Rec) (y : Tx) (index : Nat) : Nat → Rec := fun h =>
  if h = y.hash then .tx
  else if (conflictHashes y).contains h then
    match lookup h with
    | .block => .block
    | .stub _ recs => .stub index ((accounts y).map (·, index) ++ recs.filter fun q => !(accounts y).contains q.1)
    | _ => .stub index ((accounts y).map (·, index))
  else lookup h

/-- the transactions of a block, in block order. -/
def storeBlock (lookup : Nat → Rec) (index : Nat) : List Tx → Nat → Rec
  | [] => lookup
  | y :: ys => storeBlock (storeTx lookup y index) index ys

/-- the same function before the two fixes (kept for the regression examples of Props/C07). -/
def stillRelevantOld (c : Chain) (t : Tx) : Bool :=
  if t.validUntil ≤ c.height then false
  else if (hasTransaction (c.lookup t.hash) (t.signers.map (·.account)) c.height c.mtb).isSome then false
  else if t.signers.any (fun s => c.blocked s.account) then false
  else if t.netFee < t.size * c.feePerByte + attrsFee c t.signers.length t.attrs then false
  else if !verifyAttrs c t then false
  else if t.signers.any (fun s => !Wit.isStandard s.wit) then
    (verifyWitnesses c (t.netFee - (t.size * c.feePerByte + attrsFee c t.signers.length t.attrs)) (t.signers.map (·.wit))).isSome
  else true

end NeoModel.Pack
