/-
C07 — the `verify` methods of the native Notary and Oracle contracts as witnesses of a transaction, as written now.

  pkg/core/native/notary.go:382-422   Notary.verify
  pkg/core/native/oracle.go:505-507   Oracle.verify
  pkg/core/blockchain.go:3395-3460    InitVerificationContext: an empty verification script runs the `verify`
                                      method of the contract deployed under the signer's account
  pkg/core/blockchain.go:2505-2517    GetUtilityTokenBalance: a Notary-sponsored payer is charged from its deposit

The price of the call (contract call overhead + the method's fixed price) is observed on the real VM and given to the
model; the Boolean the method returns is modelled. Core Lean only.
-/
import NeoModel.Model.Fees.Block
import NeoModel.Generated.NativeMethods
namespace NeoModel.Native
open NeoModel NeoModel.Fees NeoModel.Admission NeoModel.Pack

def isNotaryAssisted : Attr → Bool
  | .notaryAssisted _ => true
  | _ => false

def isOracleResponse : Attr → Bool
  | .oracleResponse _ => true
  | _ => false

/-- `Notary.verify(sig)` (notary.go:382-422). `deposit` = `GetDepositFor(Signers[1])` (read only when Notary is the
sender), `sigOk` = the signature verifies against one of the designated P2PNotary nodes. -/
def notaryVerify (c : Chain) (t : Tx) (deposit : Option Nat) (sigOk : Bool) : Bool :=
  if !t.attrs.any isNotaryAssisted then false
  else if (match t.signers.find? (·.account == c.notary) with
           | some s => !s.scopeNone
           | none => false) then false
  else if sender t == c.notary &&
      (t.signers.length != 2 ||
        (match deposit with
         | none => true
         | some d => decide (d < t.netFee + t.sysFee))) then false
  else sigOk

/-- `Oracle.verify()` (oracle.go:505-507). -/
def oracleVerify (t : Tx) : Bool := t.attrs.any isOracleResponse

/-- a native `verify` as a witness: it consumes `cost` datoshi and the run FAULTs when given less
(`verifyHashAgainstScript`: a `false` result is ErrInvalidSignature with the gas consumed). -/
def nativeWit (cost : Nat) (res : Bool) : Wit :=
  .contract fun lim => if cost ≤ lim then (if res then .ok cost else .invalidSig cost) else .fail


/-- the fixed price (`CPUFee`) of a native contract's `verify` method in the regenerated native method table. -/
def verifyCpuFee (contract : String) : Nat :=
  ((NeoModel.Generated.NativeMethods.table.find? fun e => e.contract == contract && e.name == "verify").map (·.cpuFee)).getD 0

/-- what a witness with an empty verification script costs when the signer is a native contract: the contract's
script for the method is `PUSH0 (version); SYSCALL System.Contract.CallNative; RET` (interop/context.go:357-365), the
method's `CPUFee · BaseExecFee` is charged by the call (native/interop.go), and Notary's invocation script pushes the
signature with one PUSHDATA1. In datoshi, rounded up like every `GasConsumed`. -/
def nativeVerifyPrice (base : Nat) (contract : String) (pushesSig : Bool) : Nat :=
  picoToDatoshi (base * (NeoModel.Fees.coeff NeoModel.Generated.FeeConsts.opPUSH0 + NeoModel.Fees.coeff NeoModel.Generated.FeeConsts.opSYSCALL
    + NeoModel.Fees.coeff NeoModel.Generated.FeeConsts.opRET + verifyCpuFee contract
    + (if pushesSig then NeoModel.Fees.coeff NeoModel.Generated.FeeConsts.opPUSHDATA1 else 0)))

end NeoModel.Native
