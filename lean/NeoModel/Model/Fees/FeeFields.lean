/-
C07 — sign and overflow checks of the two fee fields, as written now.

  pkg/core/transaction/transaction.go:165-166   decodeHashableFields: `int64(br.ReadU64LE())` for SystemFee, NetworkFee
  pkg/core/transaction/transaction.go:458-470   isValid: negative system fee, negative network fee, int64 overflow of the sum
  pkg/core/transaction/transaction_json.go      fees are decimal strings parsed as int64, then the same isValid
  pkg/core/blockchain.go:3024-3028              needNetworkFee := int64(size)*FeePerByte + attribute fees; netFee := NetworkFee - need; netFee < 0
  pkg/core/blockchain.go:3070-3087              CalculateAttributesFee (int64 sums and products)
  pkg/core/blockchain.go:3126                   uint64(tx.NetworkFee+tx.SystemFee) < req.GasForResponse
  pkg/core/mempool/mem_pool.go:219              uint64(tx.SystemFee + tx.NetworkFee)

Machine integers are modelled by their mathematical value plus an explicit wrap. Core Lean only.
-/
import NeoModel.Model.Fees.Block
namespace NeoModel.FeeFields
open NeoModel NeoModel.Admission NeoModel.Pack
open NeoModel.Generated.FeeConsts

/-- Go `int64(u)` for a uint64 `u`. -/
def toInt64 (u : Nat) : Int := if u < 2 ^ 63 then (u : Int) else (u : Int) - 2 ^ 64

inductive FeeErr where
  | negSys      -- ErrNegativeSystemFee
  | negNet      -- ErrNegativeNetworkFee
  | tooBig      -- ErrTooBigFees
deriving Repr, DecidableEq

/-- the fee tests of `isValid` (transaction.go:462-470) on the two words read from the wire. -/
def feesValid (sysU netU : Nat) : Option FeeErr :=
  let s := toInt64 sysU
  let n := toInt64 netU
  if s < 0 then some .negSys
  else if n < 0 then some .negNet
  else if wrap64 (n + s) < s then some .tooBig
  else none

/-- an attribute as `CalculateAttributesFee` sees it: base fee from Policy (int64), kind. -/
inductive AttrKind where
  | conflicts | notaryAssisted (nkeys : Nat) | other
deriving Repr, DecidableEq

/-- `CalculateAttributesFee` (blockchain.go:3070-3087) with int64 arithmetic. -/
def attrsFeeM (p2p : Bool) (nsigners : Nat) : List (Int × AttrKind) → Int → Int
  | [], acc => acc
  | (b, k) :: rest, acc =>
    let acc' := match k with
      | .conflicts => wrap64 (acc + wrap64 (b * nsigners))
      | .notaryAssisted nk => if p2p then wrap64 (acc + wrap64 (b * wrap64 ((nk : Int) + 1))) else acc
      | .other => wrap64 (acc + b)
    attrsFeeM p2p nsigners rest acc'

/-- `needNetworkFee` and the test `NetworkFee - need < 0` (blockchain.go:3024-3028) with int64 arithmetic. -/
def needM (size : Nat) (fpb : Int) (af : Int) : Int := wrap64 (wrap64 ((size : Int) * fpb) + af)
def smallNetFeeM (netFee : Int) (need : Int) : Bool := decide (wrap64 (netFee - need) < 0)

end NeoModel.FeeFields
