/-
Model of dBFT 2.0 as run by neo-go's consensus service (pkg/consensus over github.com/nspcc-dev/dbft
v0.4.0: dbft.go, check.go, send.go, context.go), for property C19. Core Lean only.

Shape. `n` validators numbered `0 … n-1`, `f = (n-1)/3`, `M = n-f` (context.go:110-116). Every
validator has its own ledger (`chain`), works on block `height = chain.length+1` in some `view`, and
remembers every consensus payload it has ever received or sent (`known`). The network is a multiset of
in-flight (destination, payload) pairs. A step is one `Action`: `deliver | drop | dup | timeout i`, in
any order, plus the sends and local transitions of a validator, each with the guard dBFT puts on it.
Faults are silence and lateness only (no step is forced, every message may be dropped or delayed for
ever), there is no Byzantine validator: every payload in flight was built by its sender's own send step.

What is abstracted. A block is identified by `(height, view, proposal)`: the header a validator builds
from a PrepareRequest (consensus.go:776-817) is a function of the request and of the view's primary, and
all validators at the same height share the previous block (that is the agreement theorem). A commit
signature over a header is modelled by the block it signs; "the signature verifies against my header"
(dbft.go:455-466, 630-642) becomes equality of blocks. neo-go's callbacks are abstract predicates of the
configuration: `propose i b` (the primary's proposal comes from `getVerifiedTx`, consensus.go:707-737)
and `verify i b` (`verifyRequest` ∧ `verifyBlock`, consensus.go:546-636).

Receiving is recording: `known` only grows, and the guards of the sends are monotone in `known`, so a
validator that ignores a payload (dbft.go has many such branches: wrong view, view changing, duplicates,
cache evictions) is a validator that simply does not take a step the model allows. The real service's
behaviour is therefore a subset of the model's; the trace check (Driver/Dbft.lean) verifies, on every
run of the real services, that each payload a node emits and each local transition it makes is enabled
in the model state reached by the preceding trace.
-/
namespace NeoModel.Dbft

/-- A block, identified by what its header is a function of. -/
structure Block where
  h : Nat   -- index
  v : Nat   -- view in which it was proposed (fixes the primary index in the header)
  p : Nat   -- the proposal: timestamp, nonce, transaction hashes of the PrepareRequest
deriving DecidableEq, Repr, Inhabited

/-- The payloads that carry protocol information (payload.go message types 0x20, 0x21, 0x30, 0x00). -/
inductive Item where
  | prepReq (frm : Nat) (b : Block)             -- PrepareRequest of the primary of (b.h, b.v)
  | prepResp (frm : Nat) (b : Block)            -- PrepareResponse carrying the request's hash
  | commit (frm : Nat) (b : Block)              -- Commit: signature of `frm` over the header of `b`
  | changeView (frm h v nv : Nat)               -- ChangeView sent in view v asking for nv = v+1
deriving DecidableEq, Repr, Inhabited

/-- Wire payloads: an item, a RecoveryRequest (0x40) or a RecoveryMessage (0x41) bundling items. -/
inductive Msg where
  | item (it : Item)
  | recReq (frm h v : Nat)
  | recMsg (frm h v : Nat) (items : List Item)
deriving DecidableEq, Repr, Inhabited

def Msg.items : Msg → List Item
  | .item it => [it]
  | .recReq .. => []
  | .recMsg _ _ _ its => its

structure Cfg where
  n : Nat
  /-- `getVerifiedTx`/`newBlockFromContext`: validator `i`, being primary, may propose block `b`. -/
  propose : Nat → Block → Bool := fun _ _ => true
  /-- `verifyRequest` and `verifyBlock` of validator `i` accept block `b`. -/
  verify : Nat → Block → Bool := fun _ _ => true

/-- context.go:113 -/
def Cfg.f (c : Cfg) : Nat := (c.n - 1) / 3
/-- context.go:116 -/
def Cfg.m (c : Cfg) : Nat := c.n - c.f
/-- context.go:119-126 `GetPrimaryIndex`: (height - view) mod n, non-negative. -/
def Cfg.primary (c : Cfg) (h v : Nat) : Nat := (h + (c.n - 1) * v) % c.n

structure Node where
  height : Nat := 1                -- dbft.Context.BlockIndex
  view : Nat := 0                  -- dbft.Context.ViewNumber
  chain : List Block := []         -- the validator's ledger, newest first
  known : List Item := []          -- every payload received or sent (never shrinks)
  myPreps : List Block := []       -- blocks this validator sent a PrepareRequest/Response for
  myCommits : List Block := []     -- blocks this validator signed (sent a Commit for)
deriving Inhabited

structure State where
  nodes : Nat → Node
  net : List (Nat × Msg)           -- in flight: (destination, payload)

def init : State := { nodes := fun _ => {}, net := [] }

def upd (f : Nat → Node) (i : Nat) (x : Node) : Nat → Node := fun j => if j = i then x else f j

/-- number of validators `j < n` with `P j` -/
def countP (n : Nat) (P : Nat → Bool) : Nat := ((List.range n).filter P).length

def addKnown (l : List Item) (it : Item) : List Item := if it ∈ l then l else it :: l

def addAll (l : List Item) (its : List Item) : List Item := its.foldl addKnown l

/-- a copy for everybody but the sender (Config.Broadcast) -/
def bcast (c : Cfg) (i : Nat) (m : Msg) : List (Nat × Msg) :=
  ((List.range c.n).filter (fun j => j != i)).map (fun j => (j, m))

/-- `j` is known (to the owner of `known`) to have prepared `b` (PreparationPayloads[j] for b) -/
def prepared (known : List Item) (b : Block) (j : Nat) : Bool :=
  decide (Item.prepReq j b ∈ known) || decide (Item.prepResp j b ∈ known)

def committed (known : List Item) (b : Block) (j : Nat) : Bool :=
  decide (Item.commit j b ∈ known)

/-- `j` is known to have asked, at height `h`, for a view `≥ nv` (check.go:160-166) -/
def askedView (known : List Item) (h nv : Nat) (j : Nat) : Bool :=
  known.any fun it => match it with
    | .changeView j' h' _ nv' => j' == j && h' == h && decide (nv ≤ nv')
    | _ => false

def noPrepAt (nd : Node) : Prop := ∀ b ∈ nd.myPreps, ¬(b.h = nd.height ∧ b.v = nd.view)
def noCommitAt (nd : Node) : Prop := ∀ b ∈ nd.myCommits, b.h ≠ nd.height

instance (nd : Node) : Decidable (noPrepAt nd) := by dsimp only [noPrepAt]; infer_instance
instance (nd : Node) : Decidable (noCommitAt nd) := by dsimp only [noCommitAt]; infer_instance

def blockAt (nd : Node) (h : Nat) : Option Block := nd.chain.find? (fun b => b.h == h)

inductive Action where
  /-- the network hands an in-flight payload to its destination (and forgets that copy) -/
  | deliver (to : Nat) (m : Msg)
  | drop (to : Nat) (m : Msg)
  | dup (to : Nat) (m : Msg)
  /-- validator i's timer fires: by itself this changes nothing, what the validator then sends
      (PrepareRequest, ChangeView, RecoveryRequest, RecoveryMessage) are the send steps below -/
  | timeout (i : Nat)
  /-- send.go:30-62 `sendPrepareRequest` -/
  | sendPrepReq (i : Nat) (p : Nat)
  /-- dbft.go:319-365 `onPrepareRequest` → send.go:120-125 `sendPrepareResponse` -/
  | sendPrepResp (i : Nat) (b : Block)
  /-- check.go:7-49 `checkPrepare` → send.go:188-197 `sendCommit` -/
  | sendCommit (i : Nat) (b : Block)
  /-- send.go:73-110 `sendChangeView` (and the CVChangeAgreement re-broadcast of check.go:172-177) -/
  | sendChangeView (i : Nat)
  /-- send.go:199-207 -/
  | sendRecReq (i : Nat)
  /-- send.go:209-249: the bundle only contains payloads the sender holds -/
  | sendRecMsg (i : Nat) (items : List Item)
  /-- check.go:153-180 `checkChangeView` → `initializeConsensus(view)` -/
  | changeView (i : Nat) (nv : Nat)
  /-- check.go:107-151 `checkCommit` → `processBlock` → ledger, then `Reset` at the next height -/
  | accept (i : Nat) (b : Block)
  /-- the block of the current height arrives from validator j's ledger (block relay / sync;
      consensus.go:437-446 `handleChainBlock`) -/
  | syncBlock (i j : Nat)

/-- The guard of each step. -/
def Enabled (c : Cfg) (s : State) : Action → Prop
  | .deliver to m => (to, m) ∈ s.net
  | .drop to m => (to, m) ∈ s.net
  | .dup to m => (to, m) ∈ s.net
  | .timeout i => i < c.n
  | .sendPrepReq i p =>
      let nd := s.nodes i
      i < c.n ∧ i = c.primary nd.height nd.view ∧ noPrepAt nd ∧ c.propose i ⟨nd.height, nd.view, p⟩ = true
  | .sendPrepResp i b =>
      let nd := s.nodes i
      i < c.n ∧ b.h = nd.height ∧ b.v = nd.view ∧ i ≠ c.primary b.h b.v ∧
      Item.prepReq (c.primary b.h b.v) b ∈ nd.known ∧ noPrepAt nd ∧ c.verify i b = true
  | .sendCommit i b =>
      let nd := s.nodes i
      i < c.n ∧ b.h = nd.height ∧ b.v = nd.view ∧
      Item.prepReq (c.primary b.h b.v) b ∈ nd.known ∧
      c.m ≤ countP c.n (prepared nd.known b) ∧ noCommitAt nd
  | .sendChangeView i => i < c.n ∧ noCommitAt (s.nodes i)
  | .sendRecReq i => i < c.n
  | .sendRecMsg i items => i < c.n ∧ ∀ it ∈ items, it ∈ (s.nodes i).known
  | .changeView i nv =>
      let nd := s.nodes i
      i < c.n ∧ nd.view < nv ∧ noCommitAt nd ∧ c.m ≤ countP c.n (askedView nd.known nd.height nv)
  | .accept i b =>
      let nd := s.nodes i
      i < c.n ∧ b.h = nd.height ∧ b.v = nd.view ∧
      Item.prepReq (c.primary b.h b.v) b ∈ nd.known ∧
      c.m ≤ countP c.n (committed nd.known b)
  | .syncBlock i j => i < c.n ∧ j < c.n ∧ (blockAt (s.nodes j) (s.nodes i).height).isSome

instance (c : Cfg) (s : State) (a : Action) : Decidable (Enabled c s a) := by
  cases a <;> dsimp only [Enabled] <;> infer_instance

def nextHeight (nd : Node) (b : Block) : Node :=
  { nd with chain := b :: nd.chain, height := nd.height + 1, view := 0 }

/-- The effect of each step. -/
def apply (c : Cfg) (s : State) : Action → State
  | .deliver to m =>
      let nd := s.nodes to
      { nodes := upd s.nodes to { nd with known := addAll nd.known m.items },
        net := s.net.erase (to, m) }
  | .drop to m => { s with net := s.net.erase (to, m) }
  | .dup to m => { s with net := (to, m) :: s.net }
  | .timeout _ => s
  | .sendPrepReq i p =>
      let nd := s.nodes i
      let b : Block := ⟨nd.height, nd.view, p⟩
      { nodes := upd s.nodes i { nd with known := addKnown nd.known (.prepReq i b), myPreps := b :: nd.myPreps },
        net := bcast c i (.item (.prepReq i b)) ++ s.net }
  | .sendPrepResp i b =>
      let nd := s.nodes i
      { nodes := upd s.nodes i { nd with known := addKnown nd.known (.prepResp i b), myPreps := b :: nd.myPreps },
        net := bcast c i (.item (.prepResp i b)) ++ s.net }
  | .sendCommit i b =>
      let nd := s.nodes i
      { nodes := upd s.nodes i { nd with known := addKnown nd.known (.commit i b), myCommits := b :: nd.myCommits },
        net := bcast c i (.item (.commit i b)) ++ s.net }
  | .sendChangeView i =>
      let nd := s.nodes i
      let it := Item.changeView i nd.height nd.view (nd.view + 1)
      { nodes := upd s.nodes i { nd with known := addKnown nd.known it },
        net := bcast c i (.item it) ++ s.net }
  | .sendRecReq i =>
      let nd := s.nodes i
      { s with net := bcast c i (.recReq i nd.height nd.view) ++ s.net }
  | .sendRecMsg i items =>
      let nd := s.nodes i
      { s with net := bcast c i (.recMsg i nd.height nd.view items) ++ s.net }
  | .changeView i nv =>
      let nd := s.nodes i
      { s with nodes := upd s.nodes i { nd with view := nv } }
  | .accept i b => { s with nodes := upd s.nodes i (nextHeight (s.nodes i) b) }
  | .syncBlock i j =>
      match blockAt (s.nodes j) (s.nodes i).height with
      | some b => { s with nodes := upd s.nodes i (nextHeight (s.nodes i) b) }
      | none => s

/-- States reachable from the initial one by enabled steps, in any order. -/
inductive Reachable (c : Cfg) : State → Prop where
  | init : Reachable c init
  | step {s : State} (a : Action) : Reachable c s → Enabled c s a → Reachable c (apply c s a)

/-- Run a schedule, stopping at the first step that is not enabled. -/
def run (c : Cfg) (s : State) : List Action → Option State
  | [] => some s
  | a :: as => if Enabled c s a then run c (apply c s a) as else none

/-- everybody but `i` -/
def others (c : Cfg) (i : Nat) : List Nat := (List.range c.n).filter (fun j => j != i)

/-- a payload broadcast by `i` reaches everybody else -/
def deliverAll (c : Cfg) (i : Nat) (m : Msg) : List Action := (others c i).map (fun k => .deliver k m)

/-- The synchronous ("fair") schedule of one height `h` in view 0 with proposal `p`: the primary's timer
fires and it proposes; every payload is delivered to everybody right after it is sent, before any other
timer fires; every validator responds, commits and accepts as soon as its guard holds. -/
def fairRound (c : Cfg) (h p : Nat) : List Action :=
  let pr := c.primary h 0
  let b : Block := ⟨h, 0, p⟩
  [.timeout pr, .sendPrepReq pr p] ++ deliverAll c pr (.item (.prepReq pr b))
  ++ (others c pr).flatMap (fun j => .sendPrepResp j b :: deliverAll c j (.item (.prepResp j b)))
  ++ (List.range c.n).flatMap (fun i => .sendCommit i b :: deliverAll c i (.item (.commit i b)))
  ++ (List.range c.n).map (fun i => .accept i b)

/-- `k` synchronous rounds starting at height `h`, round `r` carrying proposal `props r` -/
def fairRounds (c : Cfg) (h : Nat) (props : Nat → Nat) : Nat → List Action
  | 0 => []
  | k + 1 => fairRound c h (props 0) ++ fairRounds c (h + 1) (fun r => props (r + 1)) k

end NeoModel.Dbft
