/-
C20 (b) — model of `mpt.Billet` (/repo/pkg/core/mpt/billet.go): the partially restored in-memory trie of the
MPT-based state synchronisation, with hash validation and collapse of completely restored subtrees, and of
the part of statesync.Module that drives it (module.go:684-715, 337-354).

Representation. A billet node is
  * `hash h collapsed` — a HashNode (billet.go: `Collapsed` marks a subtree that was restored completely),
  * `node h kind kids` — a restored BranchNode / ExtensionNode with hash `h`; `kids` are the non-empty
    children in traversal order with their relative paths (`[]` for the branch's value child, `[i]` for
    child `i`, the key for an extension). A child that is absent from the list is an EmptyNode.
A LeafNode never stays in a billet (it is collapsed at once: billet.go:186-188, 255-256), so there is no
constructor for it and `putIntoLeaf` (billet.go:110-120) is unreachable. The hash of a node does not change
when a child is replaced by a node with the same hash (children are serialised by hash), so `h` is kept as
a label. A decoded node received from a peer / read from the store is the `SNode` of Model/StateSync.lean
(leaf value, hash children with relative paths); its kind is `kindOf` (an extension is the node with exactly
one child under a non-empty key; no trie contains a branch with a single child).
The store is the reference-counter map of the RC mode (`mode.RC()`: ModeLatest is always on for a syncing
node, module.go:326-328); the content of a stored node is determined by its hash (`db`).
Core Lean only.
-/
import NeoModel.Model.StateSync
namespace NeoModel.StateSync

inductive BKind | branch | ext
deriving DecidableEq, Repr

inductive BN
  | hash (h : Hash) (collapsed : Bool)
  | node (h : Hash) (kind : BKind) (kids : List (Path × BN))
deriving Repr

/-- error classes of billet.go (`ErrRestoreFailed` with the different messages) -/
inductive BErr
  | intoHashNode      -- billet.go:68-70  "unable to restore node into HashNode"
  | intoEmptyNode     -- billet.go:71-73  "unable to restore node into EmptyNode"
  | modifyEmpty       -- billet.go:103-104 "can't modify EmptyNode during restore"
  | badHash           -- billet.go:139-141, 171-173 hash mismatch
  | modifyExt         -- billet.go:146-148 "can't modify ExtensionNode during restore"
  | collapsed         -- billet.go:161-163 "node has already been collapsed"
  | notFound          -- storage.ErrKeyNotFound out of GetFromStore (Traverse with ignoreStorageErr=false)
deriving DecidableEq, Repr

inductive BRes (α : Type)
  | ok (a : α)
  | err (e : BErr)
  | panic            -- "bug: can't perform restoring of … twice" / "… of collapsed node"
deriving Repr

def BRes.map {α β : Type} (f : α → β) : BRes α → BRes β
  | .ok a => .ok (f a)
  | .err e => .err e
  | .panic => .panic

def kindOf (n : SNode) : BKind :=
  match n.kids with
  | [(k, _)] => if k.isEmpty then .branch else .ext
  | _ => .branch

def BN.isCollapsed : BN → Bool
  | .hash _ c => c
  | .node _ _ _ => false

/-- tryCollapseBranch / tryCollapseExtension (billet.go:351-384): every non-empty child is a collapsed
HashNode. (For a leaf see `putIntoNode`, `traverseB`.) -/
def tryCollapse (h : Hash) (kind : BKind) (kids : List (Path × BN)) : BN :=
  if kids.all (fun k => k.2.isCollapsed) then .hash h true else .node h kind kids

/-- incrementRefAndStore (billet.go:192-214), RC mode. -/
def bump (refs : Hash → Nat) (h : Hash) : Hash → Nat := fun x => if x = h then refs h + 1 else refs x

/-- The decoded node as it enters the billet: all children are (not collapsed) HashNodes. -/
def expand (h : Hash) (n : SNode) : BN :=
  .node h (kindOf n) (n.kids.map (fun k => (k.1, BN.hash k.2 false)))

/-- splitPath (trie.go): the child index as a relative path (`[]` = lastChild) and the rest. -/
def splitPath : Path → Path × Path
  | [] => ([], [])
  | i :: r => ([i], r)

mutual
/-- putIntoNode (billet.go:93-108) with putIntoBranch, putIntoExtension, putIntoHash. -/
def putIntoNode (refs : Hash → Nat) : BN → Path → Hash → SNode → BRes (BN × (Hash → Nat))
  | .hash h c, path, hv, n =>                                   -- putIntoHash, billet.go:158-190
    if path ≠ [] then .err .collapsed
    else if hv ≠ h then .err .badHash
    else if c then .panic
    else if n.val.isSome then .ok (.hash hv true, bump refs hv)  -- tryCollapseLeaf
    else .ok (expand hv n, bump refs hv)
  | .node h .branch kids, path, hv, n =>                        -- putIntoBranch, billet.go:122-135
    if path = [] ∧ h = hv then .panic
    else
      match putIntoKids refs kids (splitPath path).1 (splitPath path).2 hv n with
      | .ok (kids', refs') => .ok (tryCollapse h .branch kids', refs')
      | .err e => .err e
      | .panic => .panic
  | .node h .ext kids, path, hv, n =>                           -- putIntoExtension, billet.go:137-156
    if path = [] then (if h ≠ hv then .err .badHash else .panic)
    else
      match kids with
      | [(key, _)] =>
        if key.isPrefixOf path then
          match putIntoKids refs kids key (path.drop key.length) hv n with
          | .ok (kids', refs') => .ok (tryCollapse h .ext kids', refs')
          | .err e => .err e
          | .panic => .panic
        else .err .modifyExt
      | _ => .panic                                             -- not an extension: never built
/-- `curr.Children[i]` / `curr.next`: the child under the relative path `sel`; absent = EmptyNode. -/
def putIntoKids (refs : Hash → Nat) : List (Path × BN) → Path → Path → Hash → SNode →
    BRes (List (Path × BN) × (Hash → Nat))
  | [], _, _, _, _ => .err .modifyEmpty
  | (r, c) :: more, sel, rest, hv, n =>
    if r = sel then
      match putIntoNode refs c rest hv n with
      | .ok (c', refs') => .ok ((r, c') :: more, refs')
      | .err e => .err e
      | .panic => .panic
    else
      match putIntoKids refs more sel rest hv n with
      | .ok (more', refs') => .ok ((r, c) :: more', refs')
      | .err e => .err e
      | .panic => .panic
end

/-- What a peer's bytes decode to (mpt.NodeObject.DecodeBinary accepts all five node types, and children
serialised in place). -/
inductive BItem
  | node (h : Hash) (n : SNode)   -- a Leaf/Branch/Extension node in its canonical form (children by hash) and its hash
  | hashNode (h : Hash)           -- a serialised HashNode: `Hash()` is the hash it carries
  | empty                         -- a serialised EmptyNode (the single byte 04): `Hash()` would panic (empty.go:44-46)
  | nonCanonical                  -- a Branch/Extension node with a child serialised in place: it has the hash of the
                                  -- canonical node, but `n.Node.Bytes()` differs from the received bytes
  | garbage                       -- undecodable bytes

structure BS where
  ms : MS
  billet : BN

def BS.init (root : Hash) : BS := { ms := MS.init root, billet := .hash root false }

/-- Billet.RestoreHashNode (billet.go:67-89) for a Leaf/Branch/Extension node. On an error or a panic the
billet and the store are as before (the walk assigns only on its way back, billet.go:129-134, 150-155). -/
def restoreHashNode (s : BS) (path : Path) (hv : Hash) (n : SNode) : BRes BS :=
  match putIntoNode s.ms.refs s.billet path hv n with
  | .ok (r, refs') =>
    .ok { billet := r,
          ms := { s.ms with refs := refs',
                            temp := match n.val with
                                    | some v => s.ms.temp ++ [(path, v)]
                                    | none => s.ms.temp,
                            done := s.ms.done ++ [(hv, path)] } }
  | .err e => .err e
  | .panic => .panic

/-- The same for whatever the bytes decoded to (billet.go:68-73 refuse Hash and Empty nodes first). -/
def restoreHashNodeItem (s : BS) (path : Path) : BItem → BRes BS
  | .node hv n => restoreHashNode s path hv n
  | .hashNode _ => .err .intoHashNode
  | .empty => .err .intoEmptyNode
  | .nonCanonical => .err .notFound     -- not offered to a billet directly (the module refuses it before)
  | .garbage => .err .notFound

/-- The loop over the paths of the pool (module.go:691-701); the state in the result is the one the module
is left with (earlier paths stay restored when a later one fails). -/
def restorePaths (s : BS) (hv : Hash) (n : SNode) : List Path → BS × BRes Unit
  | [] => (s, .ok ())
  | p :: r =>
    match restoreHashNode s p hv n with
    | .ok s' => restorePaths s' hv n r
    | .err e => (s, .err e)
    | .panic => (s, .panic)

/-- module.go:705-713: children that are already in the store are restored at once from there. -/
def restoreKidsB (db : Hash → Option SNode) (rec : BS → Hash → SNode → BS × BRes Unit) :
    BS → List (Hash × Path) → BS × BRes Unit
  | s, [] => (s, .ok ())
  | s, k :: r =>
    if s.ms.refs k.1 > 0 then
      match db k.1 with
      | some cn =>
        match rec s k.1 cn with
        | (s', .ok ()) => restoreKidsB db rec s' r
        | other => other
      | none => restoreKidsB db rec s r
    else restoreKidsB db rec s r

/-- (*Module).restoreNode (module.go:684-715) over the real billet. -/
def restoreNodeB (db : Hash → Option SNode) : Nat → BS → Hash → SNode → BS × BRes Unit
  | 0, s, _, _ => (s, .ok ())
  | fuel + 1, s, h, n =>
    let paths := pathsOf s.ms.pool h
    if paths.isEmpty then (s, .ok ())
    else
      match restorePaths s h n paths with
      | (s1, .ok ()) =>
        let kids := paths.flatMap (fun p => childrenPaths p n)
        let s2 : BS := { s1 with ms := { s1.ms with pool := addAll (removeHash s1.ms.pool h) kids } }
        restoreKidsB db (restoreNodeB db fuel) s2 kids
      | other => other

/-- The loop of AddMPTNodes (module.go:591-617) over what the bytes decode to: it ends at the first item that
is undecodable, a Hash/Empty node (5972fdd: refused before `restoreNode`, no `Hash()` of an EmptyNode), not in
canonical form (09bd334) or fails to restore. The state in the result is what the module is left with (an
error keeps what the earlier items did). -/
def deliverB (db : Hash → Option SNode) (fuel : Nat) : BS → List BItem → BS × BRes Unit
  | s, [] => (s, .ok ())
  | s, .garbage :: _ => (s, .err .notFound)         -- "failed to decode MPT node"
  | s, .empty :: _ => (s, .err .intoEmptyNode)      -- "unexpected MPT node of type 4"
  | s, .hashNode _ :: _ => (s, .err .intoHashNode)  -- "unexpected MPT node of type 3", requested hash or not
  | s, .nonCanonical :: _ => (s, .err .notFound)    -- "MPT node is not in its canonical form"
  | s, .node h n :: r =>
    match restoreNodeB db fuel s h n with
    | (s', .ok ()) => deliverB db fuel s' r
    | other => other

/-- The part of a billet node the callbacks look at: `GetChildrenPaths` counts HashNode children only. -/
def hashKids : List (Path × BN) → List (Path × Hash)
  | [] => []
  | (r, .hash h _) :: more => (r, h) :: hashKids more
  | (_, .node _ _ _) :: more => hashKids more

/-- The loop over the children of a branch / the `next` of an extension inside Billet.traverse. The list in
the result is what the node's children are afterwards, also when the loop ends with an error (the children
before the failing one were assigned, billet.go:273, 287; an in-memory child is mutated in place). -/
def traverseKids {σ : Type} (rec : σ → BN → Path → Option (σ × BN × BRes Unit)) :
    σ → List (Path × BN) → Path → Option (σ × List (Path × BN) × BRes Unit)
  | st, [], _ => some (st, [], .ok ())
  | st, (r, c) :: more, path =>
    match rec st c (path ++ r) with
    | some (st1, c', .ok ()) =>
      match traverseKids rec st1 more path with
      | some (st2, more', res) => some (st2, (r, c') :: more', res)
      | none => none
    | some (st1, c', res) => some (st1, (r, c') :: more, res)
    | none => none

/-- Billet.traverse (billet.go:229-339) for `from = []`, forwards, with a callback that never stops (the two
uses in statesync: defineSyncStage with ignoreStorageErr, Module.Traverse without). Pre-order; the branch's
value child first (it is first in `kids`). `none` = out of fuel. The node in the result is what stands at
this place of the billet afterwards: on an error a HashNode stays what it was (the node loaded from the
store is dropped), an in-memory node keeps the children assigned so far and is not collapsed. -/
def traverseB {σ : Type} (db : Hash → Option SNode) (refs : Hash → Nat) (ignore : Bool)
    (proc : σ → Path → Hash → SNode → σ) : Nat → σ → BN → Path → Option (σ × BN × BRes Unit)
  | 0, _, _, _ => none
  | fuel + 1, st, .hash h c, path =>
    if refs h = 0 then (if ignore then some (st, .hash h c, .ok ()) else some (st, .hash h c, .err .notFound))
    else
      match db h with                                            -- GetFromStore
      | none => some (st, .hash h c, .err .notFound)
      | some n =>
        if n.val.isSome then some (proc st path h n, .hash h true, .ok ())   -- LeafNode: process, collapse
        else
          match traverseKids (traverseB db refs ignore proc fuel) (proc st path h n)
              (n.kids.map (fun k => (k.1, BN.hash k.2 false))) path with
          | some (st2, kids', .ok ()) => some (st2, tryCollapse h (kindOf n) kids', .ok ())
          | some (st2, _, res) => some (st2, .hash h c, res)
          | none => none
  | fuel + 1, st, .node h kind kids, path =>
    match traverseKids (traverseB db refs ignore proc fuel) (proc st path h { val := none, kids := hashKids kids })
        kids path with
    | some (st2, kids', .ok ()) => some (st2, tryCollapse h kind kids', .ok ())
    | some (st2, kids', res) => some (st2, .node h kind kids', res)
    | none => none

/-- The callback of defineSyncStage (module.go:337-354) on the temporary pool. -/
def poolProc (p : Pool) (_ : Path) (h : Hash) (n : SNode) : Pool :=
  let paths := pathsOf p h
  if paths.isEmpty then p
  else addAll (removeHash p h) (paths.flatMap (fun q => childrenPaths q n))

/-- defineSyncStage for the MPT stage (module.go:330-363): a fresh billet, the traversal of what is in the
store, the pool it leaves. -/
def rebuildB (db : Hash → Option SNode) (fuel : Nat) (root : Hash) (s : BS) : Option (BS × BRes Unit) :=
  match traverseB db s.ms.refs true poolProc fuel [(root, [])] (.hash root false) [] with
  | some (pool, b, .ok ()) => some ({ ms := { s.ms with pool := pool }, billet := b }, .ok ())
  | some (_, _, res) => some (s, res)
  | none => none

/-- What happens to the module over its lifetime: `AddMPTNodes` calls and restarts (module re-created from
the DB: a fresh billet, the pool from the traversal). -/
inductive BEv
  | batch (items : List BItem)
  | restart

def runEvB (db : Hash → Option SNode) (fuel : Nat) (root : Hash) (s : BS) : BEv → BS
  | .batch items => (deliverB db fuel s items).1
  | .restart =>
    match rebuildB db fuel root s with
    | some (s', .ok ()) => s'
    | _ => s                      -- Init fails: the node does not start (never the case, Proofs/BilletRebuild)

def runEvsB (db : Hash → Option SNode) (fuel : Nat) (root : Hash) (s : BS) (evs : List BEv) : BS :=
  evs.foldl (runEvB db fuel root) s

end NeoModel.StateSync
