/-
Model of pkg/core/mpt (the state trie) as it is written, over *fully expanded* tries
(no HashNode: lazy loading / Flush / Collapse are refinement steps that do not change the
expanded trie; they are tied by the correspondence stream, see Props/C10.lean).

  Node                      node.go / leaf.go / extension.go / branch.go (children 0..15 as a
                            function, the 17th child — the branch's own value — is `Option Val`
                            because the code only ever stores a LeafNode or EmptyNode there)
  lookup                    trie.go:96-143   getWithPath (strict)
  put                       trie.go:145-280  putIntoNode / putIntoLeaf / putIntoBranch / putIntoExtension / newSubTrie
  delete                    trie.go:282-396  deleteFromNode / deleteFromBranch / deleteFromExtension
  putBatch                  batch.go:34-288  putBatchInto*, newSubTrieMany, addToBranch, stripBranch, mergeExtension
  enc / hash / rootHash     base.go:66-92, branch.go:58-62, extension.go:70-73, leaf.go:55-57, trie.go:399-404
  getProof                  proof.go:14-62

Core Lean only. Paths are lists of nibbles (`Fin 16`); keys are turned into nibbles by `toNibbles`.
-/
import NeoModel.Base.Hex
import NeoModel.Model.Wire.VarUint
namespace NeoModel.Mpt

abbrev Nib := Fin 16
abbrev Path := List Nib
abbrev Val := Bytes

/-- A fully expanded MPT node. -/
inductive Node where
  | empty
  | leaf (v : Val)
  | ext (k : Path) (next : Node)
  | branch (cs : Nib → Node) (v : Option Val)

namespace Node
def isEmpty : Node → Bool
  | .empty => true
  | _ => false
end Node

instance : Inhabited Node := ⟨.empty⟩

/-- children update (own definition: core only). -/
def upd (cs : Nib → Node) (i : Nib) (n : Node) : Nib → Node := fun j => if j = i then n else cs j

def noKids : Nib → Node := fun _ => .empty

/-- `stripPre k p = some r` iff `p = k ++ r` (bytes.HasPrefix + slicing). -/
def stripPre : Path → Path → Option Path
  | [], p => some p
  | _ :: _, [] => none
  | a :: k, b :: p => if a = b then stripPre k p else none

/-- longest common prefix and the two remainders (helpers.go:9-23 `lcp`, used with slicing). -/
def lcpSplit : Path → Path → Path × Path × Path
  | a :: k, b :: p =>
    if a = b then
      let r := lcpSplit k p
      (a :: r.1, r.2.1, r.2.2)
    else ([], a :: k, b :: p)
  | k, p => ([], k, p)

def lcp (a b : Path) : Path := (lcpSplit a b).1

/-- trie.go:96-143 `getWithPath` with `strict = true` (= `Trie.Get`, trie.go:77-88). -/
def lookup : Node → Path → Option Val
  | .empty, _ => none
  | .leaf v, [] => some v
  | .leaf _, _ :: _ => none
  | .ext k n, p =>
    match stripPre k p with
    | some r => lookup n r
    | none => none
  | .branch _ v, [] => v
  | .branch cs _, i :: p => lookup (cs i) p

/-- trie.go:251-261 `newSubTrie`. -/
def newSub : Path → Node → Node
  | [], n => n
  | p, n => .ext p n

/-- `NewExtensionNode(pref, b)` iff `lp > 0` (trie.go:228-233). -/
def mkExt : Path → Node → Node
  | [], n => n
  | p, n => .ext p n

/-- trie.go:265-280 `putIntoNode` with `val = NewLeafNode(v)`. -/
def put : Node → Path → Val → Node
  | .empty, p, v => newSub p (.leaf v)                                   -- putIntoEmpty
  | .leaf _, [], v => .leaf v                                            -- putIntoLeaf, len(path)==0
  | .leaf w, i :: p, v => .branch (upd noKids i (newSub p (.leaf v))) (some w)
  | .branch cs _, [], v => .branch cs (some v)                           -- putIntoBranch, i = lastChild
  | .branch cs w, i :: p, v => .branch (upd cs i (put (cs i) p v)) w
  | .ext k n, p, v =>                                                    -- putIntoExtension
    match lcpSplit k p with
    | (_, [], rp) => .ext k (put n rp v)                                 -- bytes.HasPrefix(path, curr.key)
    | (c, kh :: kt, []) => mkExt c (.branch (upd noKids kh (newSub kt n)) (some v))
    | (c, kh :: kt, ph :: pt) =>
      mkExt c (.branch (upd (upd noKids kh (newSub kt n)) ph (newSub pt (.leaf v))) none)

/-- indices 0..15 of the non-empty children, ascending. -/
def kids (cs : Nib → Node) : List Nib := (List.finRange 16).filter fun i => !(cs i).isEmpty

/-- trie.go:308-340: what `deleteFromBranch` returns once the child is replaced.
`count` ranges over the 17 children; with `count ≤ 1`, `index` is the last non-empty index
(0 if there is none, in which case the code builds `Extension([0], Empty)`). -/
def collapseBranch (cs : Nib → Node) (v : Option Val) : Node :=
  match kids cs, v with
  | [], some w => .leaf w
  | [i], none =>
    match cs i with
    | .ext k n => .ext (i :: k) n
    | c => .ext [i] c
  | [], none => .ext [0] .empty
  | _, _ => .branch cs v

/-- trie.go:373-396 `deleteFromNode`. -/
def delete : Node → Path → Node
  | .empty, _ => .empty
  | .leaf _, [] => .empty
  | .leaf v, _ :: _ => .leaf v
  | .branch cs _, [] => collapseBranch cs none
  | .branch cs v, i :: p => collapseBranch (upd cs i (delete (cs i) p)) v
  | .ext k n, p =>
    match stripPre k p with
    | none => .ext k n
    | some r =>
      match delete n r with
      | .ext k2 n2 => .ext (k ++ k2) n2
      | .empty => .empty
      | m => .ext k m

/-! ### Well-formedness: the invariants of doc.go:31-37 -/

namespace Node
def isExt : Node → Bool
  | .ext _ _ => true
  | _ => false
end Node

/-- number of non-empty children among the 17 (value slot included). -/
def count (cs : Nib → Node) (v : Option Val) : Nat := (kids cs).length + (if v.isSome then 1 else 0)

/-- doc.go:31-37: a branch has at least 2 children; an extension has a non-empty key and its next
node is neither another extension nor empty (extension.go:80: "e.next is never empty"). The value
slot of a branch holds a leaf or nothing by the shape of `Node`. -/
def WF : Node → Prop
  | .empty => True
  | .leaf _ => True
  | .ext k n => k ≠ [] ∧ n.isEmpty = false ∧ n.isExt = false ∧ WF n
  | .branch cs v => (∀ i, WF (cs i)) ∧ 2 ≤ count cs v

/-! ### Batches (batch.go) -/

/-- one change: `none` = deletion (`value == nil`). -/
abbrev KV := Path × Option Val
abbrev Batch := List KV

/-- batch.go:271-275 `stripPrefix`. -/
def stripN (n : Nat) (kv : Batch) : Batch := kv.map fun e => (e.1.drop n, e.2)

/-- helpers.go:25-37 `lcpMany` (the early exit on an empty prefix does not change the value). -/
def lcpMany : Batch → Path
  | [] => []
  | x :: rest => rest.foldl (fun p z => lcp p z.1) x.1

/-- the part of the batch that goes to child `c`, first nibble stripped
(batch.go:204-219 `iterateBatch` + `getLastIndex`: on a sorted batch the runs of equal first
nibble are exactly these groups). -/
def sub (c : Nib) (kv : Batch) : Batch :=
  kv.filterMap fun e =>
    match e.1 with
    | c' :: t => if c' = c then some (t, e.2) else none
    | [] => none

/-- new content of the branch's own value slot: the entry with the empty key, if any, decides
(`putBatchIntoNode(Children[lastChild], kv[:1])` yields `Leaf(value)` / `Empty`). -/
def slot (kv : Batch) (v : Option Val) : Option Val :=
  match kv.lookup [] with
  | some ov => ov
  | none => v

/-- batch.go:80-104 `mergeExtension`. -/
def mergeExt (pre : Path) : Node → Node
  | .ext k n => .ext (pre ++ k) n
  | .empty => .empty
  | n => newSub pre n

/-- batch.go:181-202 `stripBranch`. -/
def stripBranch (cs : Nib → Node) (v : Option Val) : Node :=
  match kids cs, v with
  | [], none => .empty
  | [], some w => .leaf w
  | [i], none => mergeExt [i] (cs i)
  | _, _ => .branch cs v

/-! Executable form of `stripBranch`: the children function is tabulated first, so that a child
computed by the batch code (a closure `fun c => … putBatchNode (cs c) …`) is computed once instead of
on every access. Used by compiled code only (`csimp`); the theorems are about `stripBranch`. -/

/-- children read from a table. -/
def tabOf (a : Array Node) : Nib → Node := fun i => a.getD i.val .empty

theorem tabOf_ofFn (f : Nib → Node) : tabOf (Array.ofFn f) = f := by
  funext i; simp [tabOf]

def stripBranchImpl (cs : Nib → Node) (v : Option Val) : Node :=
  let t := tabOf (Array.ofFn cs)
  match kids t, v with
  | [], none => .empty
  | [], some w => .leaf w
  | [i], none => mergeExt [i] (t i)
  | _, _ => .branch t v

@[csimp] theorem stripBranch_eq_impl : @stripBranch = @stripBranchImpl := by
  funext cs v
  unfold stripBranchImpl
  rw [tabOf_ofFn]
  rfl

/-- weight of a batch: decreases along the recursion of `many`. -/
def wt (kv : Batch) : Nat := (kv.map fun e => e.1.length + 1).sum

theorem wt_stripN_le (n : Nat) (kv : Batch) : wt (stripN n kv) ≤ wt kv := by
  induction kv with
  | nil => simp [wt, stripN]
  | cons e kv ih =>
    simp only [wt, stripN, List.map_cons, List.sum_cons, List.length_drop] at ih ⊢
    omega

theorem wt_sub_lt (c : Nib) (kv : Batch) (h : sub c kv ≠ []) : wt (sub c kv) < wt kv := by
  induction kv with
  | nil => simp [sub] at h
  | cons e kv ih =>
    obtain ⟨k, v⟩ := e
    have hle : wt (sub c kv) ≤ wt kv := by
      by_cases h' : sub c kv = []
      · rw [h']; simp [wt]
      · exact Nat.le_of_lt (ih h')
    cases k with
    | nil =>
      have : sub c (([], v) :: kv) = sub c kv := by simp [sub]
      rw [this] at h ⊢
      have := ih h
      simp only [wt, List.map_cons, List.sum_cons] at this ⊢
      omega
    | cons c' t =>
      by_cases hc : c' = c
      · have : sub c ((c' :: t, v) :: kv) = (t, v) :: sub c kv := by simp [sub, hc]
        rw [this]
        simp only [wt, List.map_cons, List.sum_cons, List.length_cons] at hle ⊢
        omega
      · have : sub c ((c' :: t, v) :: kv) = sub c kv := by simp [sub, hc]
        rw [this] at h ⊢
        have := ih h
        simp only [wt, List.map_cons, List.sum_cons] at this ⊢
        omega

set_option linter.unusedVariables false in
/-- batch.go:241-269 `newSubTrieMany(prefix, kv, value)` together with the `addToBranch` of the
fresh branch it builds (batch.go:148-177; children of a fresh branch are Empty, so every group
goes through `putBatchIntoEmpty`, batch.go:221-225, i.e. `many (lcpMany g) (strip g) nil`). -/
def many (pre : Path) (kv : Batch) (value : Option Val) : Node :=
  match kv with
  | [] => .empty                                   -- not reachable (the code indexes kv[0])
  | [([], none)] => .empty
  | ([], none) :: e :: rest => many pre (e :: rest) none
  | [([], some w)] => newSub pre (.leaf w)
  | e :: rest =>
    let kv := e :: rest
    let value' : Option Val := match e with
      | ([], some w) => some w
      | _ => value
    mergeExt pre (stripBranch
      (fun c =>
        if h : sub c kv = [] then .empty
        else
          many (lcpMany (sub c kv)) (stripN (lcpMany (sub c kv)).length (sub c kv)) none)
      (slot kv value'))
termination_by wt kv
decreasing_by
  · simp [wt]
  · exact Nat.lt_of_le_of_lt (wt_stripN_le _ _) (wt_sub_lt c _ h)

/-- batch.go:221-225 `putBatchIntoEmpty`. -/
def intoEmpty (kv : Batch) : Node :=
  many (lcpMany kv) (stripN (lcpMany kv).length kv) none

set_option linter.unusedVariables false in
/-- `putBatchIntoNode(newSubTrie(k, next), kv)` given `rnext = putBatchIntoNode(next, ·)`:
batch.go:106-140 `putBatchIntoExtension` / `putBatchIntoExtensionNoPrefix` (+ `addToBranch` of the
fresh branch). -/
def extBatch (next : Node) (rnext : Batch → Node) (k : Path) (kv : Batch) : Node :=
  match k with
  | [] => rnext kv
  | kh :: kt =>
    let pref := lcp (lcpMany kv) (kh :: kt)
    if pref.length = (kh :: kt).length then
      mergeExt pref (rnext (stripN (kh :: kt).length kv))
    else
      let kv' := stripN pref.length kv
      match hk : (kh :: kt).drop pref.length with
      | [] => .empty                               -- not reachable: pref is shorter than the key
      | c0 :: rest =>
        mergeExt pref (stripBranch
          (fun c =>
            if c = c0 then
              (if sub c kv' = [] then newSub rest next else extBatch next rnext rest (sub c kv'))
            else
              (if sub c kv' = [] then .empty else intoEmpty (sub c kv')))
          (slot kv' none))
termination_by k.length
decreasing_by
  have := congrArg List.length hk
  simp only [List.length_drop, List.length_cons] at this ⊢
  omega

/-- batch.go:54-69 `putBatchIntoNode` for a non-empty batch. -/
def putBatchNode : Node → Batch → Node
  | .empty, kv => intoEmpty kv                                           -- putBatchIntoEmpty
  | .leaf w, kv => many [] kv (some w)                                   -- putBatchIntoLeaf
  | .branch cs v, kv =>                                                  -- addToBranch(curr, kv, true)
    stripBranch (fun c => if sub c kv = [] then cs c else putBatchNode (cs c) (sub c kv)) (slot kv v)
  | .ext k n, kv => extBatch n (fun kv' => putBatchNode n kv') k kv       -- putBatchIntoExtension

/-- batch.go:41-48 `PutBatch`. -/
def putBatch (t : Node) (kv : Batch) : Node :=
  match kv with
  | [] => t
  | _ => putBatchNode t kv

/-! ### Specification of a batch: the first entry for a key decides -/

/-- contents after a batch: `some v` = put, `none` = delete. -/
def applyBatch (f : Path → Option Val) (kv : Batch) (p : Path) : Option Val :=
  match kv.lookup p with
  | some ov => ov
  | none => f p

/-- the keys of a batch are pairwise different (a batch comes from a Go map). -/
def DistinctKeys (kv : Batch) : Prop := (kv.map (·.1)).Nodup

/-! ### MapToMPTBatch: sort the changes by key -/

/-- bytes.Compare on nibble strings: `a < b`. -/
def pathLt : Path → Path → Bool
  | [], [] => false
  | [], _ :: _ => true
  | _ :: _, [] => false
  | a :: as, b :: bs => if a < b then true else if b < a then false else pathLt as bs

def insertKV (e : KV) : Batch → Batch
  | [] => [e]
  | x :: xs => if pathLt x.1 e.1 then x :: insertKV e xs else e :: x :: xs

/-- batch.go:19-32 `MapToMPTBatch` on an association list with distinct keys. -/
def mapToBatch (m : List KV) : Batch := m.foldr insertKV []

/-! ### Encoding and hashing (base.go, node.go) -/

def nibByte (n : Nib) : UInt8 := UInt8.ofNat n.val

/-- io `WriteVarBytes`. -/
def varBytes (b : Bytes) : Bytes := Wire.putVarUint b.length ++ b

/-- base.go:66-73 `encodeBinaryAsChild`, given the child's own encoding. -/
def childRef (H : Bytes → Bytes) (n : Node) (e : Bytes) : Bytes :=
  if n.isEmpty then [4] else 3 :: H e

def encLeaf (v : Val) : Bytes := 2 :: varBytes v

/-- the 17th child of a branch (a LeafNode or EmptyNode) as referenced in the branch's encoding. -/
def slotRef (H : Bytes → Bytes) : Option Val → Bytes
  | none => [4]
  | some w => 3 :: H (encLeaf w)

/-- base.go:75-79 `encodeNodeWithType` (`Bytes()` of a node). -/
def enc (H : Bytes → Bytes) : Node → Bytes
  | .empty => [4]
  | .leaf v => encLeaf v
  | .ext k n => 1 :: (varBytes (k.map nibByte) ++ childRef H n (enc H n))
  | .branch cs v =>
    0 :: ((List.finRange 16).flatMap (fun i => childRef H (cs i) (enc H (cs i))) ++ slotRef H v)

/-- `Node.Hash()`: `H` stands for `hash.DoubleSha256`. -/
def hash (H : Bytes → Bytes) (n : Node) : Bytes := H (enc H n)

def zero32 : Bytes := List.replicate 32 0

/-- trie.go:399-404 `StateRoot`. -/
def rootHash (H : Bytes → Bytes) (n : Node) : Bytes :=
  if n.isEmpty then zero32 else hash H n

/-- proof.go:28-62 `getProof` (`none` = ErrNotFound). -/
def getProof (H : Bytes → Bytes) : Node → Path → Option (List Bytes)
  | .empty, _ => none
  | .leaf v, [] => some [encLeaf v]
  | .leaf _, _ :: _ => none
  | .ext k n, p =>
    match stripPre k p with
    | some r => (getProof H n r).map (enc H (.ext k n) :: ·)
    | none => none
  | .branch cs v, [] =>
    match v with
    | some w => some [enc H (.branch cs v), encLeaf w]
    | none => none
  | .branch cs v, i :: p => (getProof H (cs i) p).map (enc H (.branch cs v) :: ·)

/-! ### Keys -/

/-- helpers.go:40-47 `toNibbles`. -/
def toNibbles : Bytes → Path
  | [] => []
  | b :: bs => ⟨b.toNat / 16, by have := b.toNat_lt; omega⟩ :: ⟨b.toNat % 16, by omega⟩ :: toNibbles bs

/-- helpers.go:61-67 `fromNibbles` (an odd trailing nibble is dropped). -/
def fromNibbles : Path → Bytes
  | a :: b :: rest => UInt8.ofNat (a.val * 16 + b.val) :: fromNibbles rest
  | _ => []

end NeoModel.Mpt
