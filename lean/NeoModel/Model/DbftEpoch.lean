/-
C19, validator epochs.  Which keys sign block h+1 is a function of the ledger after block h: the NEO
contract keeps two cached lists (pkg/core/native/native_neo.go),

  nextValidators          read by GetNextBlockValidatorsInternal  (Blockchain.GetNextBlockValidators:
                          what `service.getValidators()` hands to dBFT for the block being agreed on,
                          and what `verifyHeader` checks the witness against through the previous
                          header's NextConsensus),
  newEpochNextValidators  read by ComputeNextBlockValidators      (what `newBlockFromContext` puts
                          into the header's NextConsensus field).

OnPersist of block h:   if ShouldUpdateCommitteeAt(h)   then nextValidators := newEpochNextValidators
PostPersist of block h: if ShouldUpdateCommitteeAt(h+1) then newEpochNextValidators := the set elected
                        on the ledger as it stands with block h (votes, GetNumOfCNs(h+1)).

`σ` is the type of validator sets (sorted key lists); a set and its multi-signature address are
identified (script hashes are collision-free: assumption of the property).
-/
namespace NeoModel.Dbft.Epoch

structure VS (σ : Type) where
  next : σ
  newEpoch : σ
deriving DecidableEq, Repr

/-- `config.ShouldUpdateCommitteeAt`: `height % committeeSize == 0`. -/
def shouldUpdate (committee h : Nat) : Bool := h % committee == 0

/-- What persisting block `h` does to the two cached lists; `elected` is the set
`computeCommitteeMembers`/`GetNumOfCNs(h+1)` give on the ledger with block `h`. -/
def persist {σ : Type} (committee : Nat) (elected : σ) (h : Nat) (vs : VS σ) : VS σ :=
  let vs₁ : VS σ := if shouldUpdate committee h then { vs with next := vs.newEpoch } else vs
  if shouldUpdate committee (h + 1) then { vs₁ with newEpoch := elected } else vs₁

/-- The cache after block `h` of a history whose elections are `elect` (`elect k` is consulted only
when `k` is the first height of an epoch); `g` are the standby validators. -/
def vsAt {σ : Type} (committee : Nat) (g : σ) (elect : Nat → σ) : Nat → VS σ
  | 0 => persist committee (elect 1) 0 ⟨g, g⟩
  | h + 1 => persist committee (elect (h + 2)) (h + 1) (vsAt committee g elect h)

/-- `GetNextBlockValidators` on the ledger of height `h`: the signers of block `h+1`. -/
def signers {σ : Type} (committee : Nat) (g : σ) (elect : Nat → σ) (h : Nat) : σ :=
  (vsAt committee g elect h).next

/-- The rule of `service.newBlockFromContext` (and of `verifyAndPoolTx`-free block making in
general): NextConsensus of block `h+1`, built on the ledger of height `h`. -/
def nextConsensus {σ : Type} (committee : Nat) (g : σ) (elect : Nat → σ) (h : Nat) : σ :=
  (vsAt committee g elect h).newEpoch

/-- The rule of seeded change C19-m6: the new-epoch list only when the block *after* the one being
built starts an epoch. -/
def nextConsensusM6 {σ : Type} (committee : Nat) (g : σ) (elect : Nat → σ) (h : Nat) : σ :=
  if shouldUpdate committee (h + 2) then (vsAt committee g elect h).newEpoch
  else (vsAt committee g elect h).next

end NeoModel.Dbft.Epoch
