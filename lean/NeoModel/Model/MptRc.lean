/-
Model of the STORE side of pkg/core/mpt (reference counting) and of the per-block flow of
pkg/core/stateroot.Module, on top of the C10 trie model (Model/Mpt.lean: fully expanded tries).

  Ev, putEv, deleteEv, putBatchEv   the addRef/removeRef calls of trie.go:168-396 and batch.go, in
                                    program order, at exactly the sites of the code; the node an
                                    event refers to is given by the C10 functions (put, delete, many, …)
  occ                               spec: number of positions of a trie whose sub-trie satisfies P
  RcMap, bump, applyEvs             trie.go:36-44,488-516  refcount map, addRef / removeRef
  Store, Cell                       DataMPT records: bytes ‖ active ‖ count-or-height (trie.go:422-486)
  updateRefCount, flush             trie.go:414-486
  gc                                stateroot/module.go:301-333
  St, compute, commit, dropBlock    stateroot/module.go:336-373 AddMPTBatch / DropMPTBatch / UpdateCurrentLocal
  Act, loadNode, applyActs, interleave, computeL, commitL
                                    trie.go:518-545 lazy loading: getFromStore refreshes the cached
                                    stored count of an existing refcount-map entry; a block = its events
                                    interleaved with loads
Continued in Model/MptRc/GcIndex.lean (tryRunGC) and Model/MptRc/Layered.lean (MemCachedStore layers,
the node's persist / collect loop). Core Lean only.
-/
import NeoModel.Model.Mpt
import NeoModel.Model.Mpt.Proof
namespace NeoModel.MptRc
open NeoModel.Mpt

/-! ### reference-count events -/

/-- `(true, n)` = `t.addRef(n.Hash(), n.Bytes())`, `(false, n)` = `t.removeRef(n.Hash(), n.Bytes())`. -/
abbrev Ev := Bool × Node
abbrev Evs := List Ev

def addL (v : Val) : Evs := [(true, .leaf v)]
def rmL (v : Val) : Evs := [(false, .leaf v)]

/-- trie.go:251-261 `newSubTrie(path, val, newVal)`. -/
def newSubEv (p : Path) (n : Node) (newVal : Bool) : Evs :=
  (if newVal then [(true, n)] else []) ++
  (match p with
   | [] => []
   | _ :: _ => [(true, .ext p n)])

/-- trie.go:228-232: `if lp > 0 { e := NewExtensionNode(pref, b); t.addRef(e) }`. -/
def mkExtEv (c : Path) (b : Node) : Evs :=
  match c with
  | [] => []
  | _ :: _ => [(true, .ext c b)]

/-- the 17th child on `Put` with an exhausted path: putIntoLeaf (trie.go:171-175) / putIntoEmpty. -/
def slotPutEv (w : Option Val) (v : Val) : Evs :=
  match w with
  | some x => rmL x ++ addL v
  | none => addL v

/-- trie.go:169-280 `putIntoNode`: the addRef/removeRef calls in program order. -/
def putEv : Node → Path → Val → Evs
  | .empty, p, v => newSubEv p (.leaf v) true
  | .leaf w, [], v => rmL w ++ addL v
  | .leaf w, i :: p, v => newSubEv p (.leaf v) true ++ [(true, put (.leaf w) (i :: p) v)]
  | .branch cs w, [], v => (false, .branch cs w) :: (slotPutEv w v ++ [(true, .branch cs (some v))])
  | .branch cs w, i :: p, v =>
    (false, .branch cs w) :: (putEv (cs i) p v ++ [(true, .branch (upd cs i (put (cs i) p v)) w)])
  | .ext k n, p, v =>
    (false, .ext k n) ::
    (match lcpSplit k p with
     | (_, [], rp) => putEv n rp v ++ [(true, .ext k (put n rp v))]
     | (c, kh :: kt, []) =>
       let b := Node.branch (upd noKids kh (newSub kt n)) (some v)
       newSubEv kt n false ++ addL v ++ [(true, b)] ++ mkExtEv c b
     | (c, kh :: kt, ph :: pt) =>
       let b := Node.branch (upd (upd noKids kh (newSub kt n)) ph (newSub pt (.leaf v))) none
       newSubEv kt n false ++ newSubEv pt (.leaf v) true ++ [(true, b)] ++ mkExtEv c b)

/-- trie.go:308-340: the tail of `deleteFromBranch` once the child is replaced. -/
def collapseEv (cs : Nib → Node) (v : Option Val) : Evs :=
  match kids cs, v with
  | [], some _ => []
  | [i], none =>
    match cs i with
    | .ext k n => [(false, .ext k n), (true, .ext (i :: k) n)]
    | c => [(true, .ext [i] c)]
  | [], none => [(true, .ext [0] .empty)]
  | _, _ => [(true, .branch cs v)]

/-- trie.go:297-396 `deleteFromNode`. -/
def deleteEv : Node → Path → Evs
  | .empty, _ => []
  | .leaf w, [] => rmL w
  | .leaf _, _ :: _ => []
  | .branch cs v, [] =>
    (match v with
     | some w => rmL w
     | none => []) ++ (false, .branch cs v) :: collapseEv cs none
  | .branch cs v, i :: p =>
    deleteEv (cs i) p ++ (false, .branch cs v) :: collapseEv (upd cs i (delete (cs i) p)) v
  | .ext k n, p =>
    match stripPre k p with
    | none => []
    | some r =>
      deleteEv n r ++ (false, .ext k n) ::
        (match delete n r with
         | .ext k2 n2 => [(false, .ext k2 n2), (true, .ext (k ++ k2) n2)]
         | .empty => []
         | m => [(true, .ext k m)])

/-! #### batches (batch.go) -/

/-- batch.go:80-104 `mergeExtension`. -/
def mergeExtEv (pre : Path) : Node → Evs
  | .ext k n => [(false, .ext k n), (true, .ext (pre ++ k) n)]
  | .empty => []
  | n =>
    match pre with
    | [] => []
    | _ :: _ => [(true, .ext pre n)]

/-- batch.go:121-129: `mergeExtension(pref, sub)` is only called `if len(pref) != 0`. -/
def mergeExtEvNE (pre : Path) (n : Node) : Evs :=
  match pre with
  | [] => []
  | _ :: _ => mergeExtEv pre n

/-- batch.go:181-202 `stripBranch`. -/
def stripBranchEv (cs : Nib → Node) (v : Option Val) : Evs :=
  match kids cs, v with
  | [], none => []
  | [], some _ => []
  | [i], none => mergeExtEv [i] (cs i)
  | _, _ => [(true, .branch cs v)]

/-- the 17th child in `addToBranch`: `putBatchIntoNode(b.Children[lastChild], kv[:1])` for the entry
with the empty key — putBatchIntoLeaf (removeRef, then newSubTrieMany → newSubTrie(nil, leaf, true))
or putBatchIntoEmpty. -/
def slotEv (old : Option Val) (kv : Batch) : Evs :=
  match kv.lookup [] with
  | none => []
  | some ov =>
    (match old with
     | some x => rmL x
     | none => []) ++
    (match ov with
     | some w => addL w
     | none => [])

def optAddL : Option Val → Evs
  | some w => addL w
  | none => []

set_option linter.unusedVariables false in
/-- batch.go:241-269 `newSubTrieMany` with the `addToBranch` of its fresh branch (same recursion as
`Mpt.many`). -/
def manyEv (pre : Path) (kv : Batch) (value : Option Val) : Evs :=
  match kv with
  | [] => []
  | [([], none)] => []
  | ([], none) :: e :: rest => manyEv pre (e :: rest) none
  | [([], some w)] => newSubEv pre (.leaf w) true
  | e :: rest =>
    let kv := e :: rest
    let value' : Option Val := match e with
      | ([], some w) => some w
      | _ => value
    let cs' : Nib → Node := fun c =>
      if h : sub c kv = [] then .empty
      else many (lcpMany (sub c kv)) (stripN (lcpMany (sub c kv)).length (sub c kv)) none
    optAddL value' ++ slotEv value' kv ++
      (List.finRange 16).flatMap (fun c =>
        if h : sub c kv = [] then []
        else manyEv (lcpMany (sub c kv)) (stripN (lcpMany (sub c kv)).length (sub c kv)) none) ++
      stripBranchEv cs' (slot kv value') ++ mergeExtEv pre (stripBranch cs' (slot kv value'))
termination_by wt kv
decreasing_by
  · simp [wt]
  · exact Nat.lt_of_le_of_lt (wt_stripN_le _ _) (wt_sub_lt c _ h)

/-- batch.go:221-225 `putBatchIntoEmpty`. -/
def intoEmptyEv (kv : Batch) : Evs :=
  manyEv (lcpMany kv) (stripN (lcpMany kv).length kv) none

set_option linter.unusedVariables false in
/-- batch.go:106-140 `putBatchIntoExtension` / `putBatchIntoExtensionNoPrefix` applied to
`newSubTrie(k, next)` (same recursion as `Mpt.extBatch`): `removeRef(curr)` first; the extension
created by `newSubTrie(key[1:], next, false)` is added and, when the batch reaches it, removed again
by the recursive call. -/
def extBatchEv (next : Node) (rnextEv : Batch → Evs) (rnext : Batch → Node) (k : Path) (kv : Batch) : Evs :=
  match k with
  | [] => rnextEv kv
  | kh :: kt =>
    let pref := lcp (lcpMany kv) (kh :: kt)
    (false, .ext (kh :: kt) next) ::
    (if pref.length = (kh :: kt).length then
      rnextEv (stripN (kh :: kt).length kv) ++ mergeExtEv pref (rnext (stripN (kh :: kt).length kv))
    else
      let kv' := stripN pref.length kv
      match hk : (kh :: kt).drop pref.length with
      | [] => []
      | c0 :: rest =>
        let cs' : Nib → Node := fun c =>
          if c = c0 then
            (if sub c kv' = [] then newSub rest next else extBatch next rnext rest (sub c kv'))
          else
            (if sub c kv' = [] then .empty else intoEmpty (sub c kv'))
        newSubEv rest next false ++ slotEv none kv' ++
          (List.finRange 16).flatMap (fun c =>
            if sub c kv' = [] then []
            else if c = c0 then extBatchEv next rnextEv rnext rest (sub c kv')
            else intoEmptyEv (sub c kv')) ++
          stripBranchEv cs' (slot kv' none) ++
          mergeExtEvNE pref (stripBranch cs' (slot kv' none)))
termination_by k.length
decreasing_by
  have := congrArg List.length hk
  simp only [List.length_drop, List.length_cons] at this ⊢
  omega

/-- batch.go:54-69 `putBatchIntoNode` for a non-empty batch. -/
def putBatchEv : Node → Batch → Evs
  | .empty, kv => intoEmptyEv kv
  | .leaf w, kv => rmL w ++ manyEv [] kv (some w)
  | .branch cs v, kv =>
    let cs' : Nib → Node := fun c => if sub c kv = [] then cs c else putBatchNode (cs c) (sub c kv)
    (false, .branch cs v) :: (slotEv v kv ++
      (List.finRange 16).flatMap (fun c => if sub c kv = [] then [] else putBatchEv (cs c) (sub c kv)) ++
      stripBranchEv cs' (slot kv v))
  | .ext k n, kv =>
    match k with
    | [] =>      -- not well-formed; the code still does removeRef(curr) … mergeExtension(nil, sub)
      (false, .ext [] n) :: (putBatchEv n kv ++ mergeExtEv [] (putBatchNode n kv))
    | kh :: kt => extBatchEv n (fun kv' => putBatchEv n kv') (fun kv' => putBatchNode n kv') (kh :: kt) kv

/-- batch.go:41-48 `PutBatch`. -/
def putBatchTopEv (t : Node) (kv : Batch) : Evs :=
  match kv with
  | [] => []
  | _ => putBatchEv t kv

/-! ### the specification: occurrences -/

def b2n (b : Bool) : Nat := if b then 1 else 0

def occSlot (P : Node → Bool) : Option Val → Nat
  | none => 0
  | some w => b2n (P (.leaf w))

/-- number of positions of `t` (the root, children of branches incl. the value slot, next of
extensions) whose sub-trie satisfies `P`; empty positions do not count. With
`P n = (hash H n == h)` this is the number of times the node with hash `h` occurs in the trie. -/
def occ (P : Node → Bool) : Node → Nat
  | .empty => 0
  | .leaf v => b2n (P (.leaf v))
  | .ext k n => b2n (P (.ext k n)) + occ P n
  | .branch cs v =>
    b2n (P (.branch cs v)) + ((List.finRange 16).map fun i => occ P (cs i)).sum + occSlot P v

/-- net effect of a list of events on the nodes satisfying `P`. -/
def net (P : Node → Bool) : Evs → Int
  | [] => 0
  | (true, n) :: r => (if P n then 1 else 0) + net P r
  | (false, n) :: r => (if P n then -1 else 0) + net P r

/-! ### the refcount map (trie.go:36-44, 488-516) -/

/-- `cachedNode`: `bytes`, `initial` (the stored count as last seen / written), `refcount` (the delta
accumulated since the last flush). -/
structure RcEntry where
  bytes : Bytes
  initial : Nat
  delta : Int
  deriving Repr

/-- `map[util.Uint256]*cachedNode`, as an association list (no duplicate keys: `bump` keeps that). -/
abbrev RcMap := List (Bytes × RcEntry)

/-- `addRef` (d = 1) / `removeRef` (d = -1) for hash `h` and node bytes `bs`. -/
def bumpH (h : Bytes) (bs : Bytes) (d : Int) : RcMap → RcMap
  | [] => [(h, { bytes := bs, initial := 0, delta := d })]
  | (k, e) :: r =>
    if k = h then (k, { e with delta := e.delta + d }) :: r
    else (k, e) :: bumpH h bs d r

def bump (H : Bytes → Bytes) (m : RcMap) (ev : Ev) : RcMap :=
  let bs := enc H ev.2           -- `n.Bytes()`; `n.Hash()` is the hash of these bytes
  bumpH (H bs) bs (if ev.1 then 1 else -1) m

def applyEvs (H : Bytes → Bytes) (m : RcMap) (evs : Evs) : RcMap := evs.foldl (bump H) m

/-! ### the node store (DataMPT records) -/

inductive Mode where
  | all | latest | gc
  deriving DecidableEq, Repr

/-- `TrieMode.RC()` -/
def Mode.rc : Mode → Bool
  | .all => false
  | _ => true

/-- `TrieMode.GC()` -/
def Mode.gcF : Mode → Bool
  | .gc => true
  | _ => false

/-- a stored value: the node bytes alone (ModeAll) or `bytes ‖ active ‖ num` where `num` is the
reference count of an active node / the height at which an inactive node was deactivated. -/
inductive Cell where
  | plain (b : Bytes)
  | rc (b : Bytes) (active : Bool) (num : Nat)
  deriving Repr, DecidableEq

def Cell.bytes : Cell → Bytes
  | .plain b => b
  | .rc b _ _ => b

/-- bytes.Compare(a, b) < 0 -/
def bytesLt : Bytes → Bytes → Bool
  | [], [] => false
  | [], _ :: _ => true
  | _ :: _, [] => false
  | a :: as, b :: bs => if a < b then true else if b < a then false else bytesLt as bs

/-- the DataMPT part of the store: hash ↦ cell, kept sorted by key (only the driver's digest
depends on the order). -/
abbrev Store := List (Bytes × Cell)

def sget (s : Store) (k : Bytes) : Option Cell :=
  match s with
  | [] => none
  | (k', c) :: r => if k' = k then some c else sget r k

def sdel (s : Store) (k : Bytes) : Store := s.filter fun e => e.1 ≠ k

def sins (k : Bytes) (c : Cell) : Store → Store
  | [] => [(k, c)]
  | (k', c') :: r => if bytesLt k' k then (k', c') :: sins k c r else (k, c) :: (k', c') :: r

def sput (s : Store) (k : Bytes) (c : Cell) : Store := sins k c (sdel s k)

/-- trie.go:441-447 `getFromStore` as used by `updateRefCount`: the stored bytes and count; an
inactive record is invisible when the GC flag is set. -/
def readCnt (mode : Mode) : Option Cell → Option (Bytes × Nat)
  | some (.rc b true n) => some (b, n)
  | some (.rc b false n) => if mode.gcF then none else some (b, n)
  | _ => none

/-- trie.go:456-464: `cnt := node.initial; if cnt == 0 { data, err = getFromStore(…) … }`. -/
def storedOf (mode : Mode) (c : Option Cell) (e : RcEntry) : Option (Bytes × Nat) :=
  if e.initial = 0 then readCnt mode c else none

/-- the count `updateRefCount` starts from: the cached one, or the stored one for a fresh entry. -/
def cnt0Of (mode : Mode) (c : Option Cell) (e : RcEntry) : Nat :=
  match storedOf mode c e with
  | some (_, n) => n
  | none => e.initial

/-- the bytes `updateRefCount` writes: the stored ones if it read them, else `append(node.bytes, …)`. -/
def dataOf (mode : Mode) (c : Option Cell) (e : RcEntry) : Bytes :=
  match storedOf mode c e with
  | some (b, _) => b
  | none => e.bytes

/-- trie.go:450-486 `updateRefCount` as a function of the record currently stored under the hash:
the new count and the new record (`none` = `Store.Delete`); outer `none` = panic "negative
reference count". -/
def urc (mode : Mode) (idx : Nat) (c : Option Cell) (e : RcEntry) : Option (Nat × Option Cell) :=
  let cnt : Int := (cnt0Of mode c e : Int) + e.delta
  if cnt < 0 then none
  else if cnt = 0 then
    (if mode.gcF then some (0, some (.rc (dataOf mode c e) false idx)) else some (0, none))
  else some (cnt.toNat, some (.rc (dataOf mode c e) true cnt.toNat))

/-- `Store.Put` / `Store.Delete` of one record. -/
def setCell (s : Store) (h : Bytes) : Option Cell → Store
  | some c => sput s h c
  | none => sdel s h

/-- one iteration of the loop of `Flush` (trie.go:416-434) as a function of the stored record: the
new record and what remains of the map entry. -/
def estep (mode : Mode) (idx : Nat) (c : Option Cell) (e : RcEntry) : Option (Option Cell × Option RcEntry) :=
  if e.delta = 0 then some (c, none)
  else if mode.rc then
    match urc mode idx c e with
    | none => none
    | some (n, oc) => some (oc, if n = 0 then none else some { e with initial := n, delta := 0 })
  else some (if e.delta > 0 then some (.plain e.bytes) else c, some { e with delta := 0 })

/-- trie.go:414-435 `Flush(index)`: fold the deltas into the store; entries with a zero delta or a
zero resulting count leave the map. The Go map is iterated in random order; different entries
touch different keys, so the order does not matter. `none` = panic. -/
def flush (mode : Mode) (idx : Nat) : RcMap → Store → Option (RcMap × Store)
  | [], s => some ([], s)
  | (h, e) :: rest, s =>
    match estep mode idx (sget s h) e with
    | none => none
    | some (oc, oe) =>
      match flush mode idx rest (setCell s h oc) with
      | none => none
      | some (m', s') =>
        some ((match oe with
               | some e' => [(h, e')]
               | none => []) ++ m', s')

/-- stateroot/module.go:301-333 `GC(index, store)`: drop the inactive records not newer than `index`. -/
def gc (g : Nat) (s : Store) : Store :=
  s.filter fun e =>
    match e.2 with
    | .rc _ false n => decide (g < n)
    | _ => true

/-! ### one block (stateroot/module.go:336-360, blockchain.go:2141-2193) -/

inductive SubOp where
  | put (k : Path) (v : Val)
  | del (k : Path)
  | batch (m : List KV)          -- the change set as a map; `MapToMPTBatch` sorts it

structure St where
  mode : Mode := .all
  root : Node := .empty          -- `s.mpt.root`, fully expanded
  rc : RcMap := []               -- `s.mpt.refcount` (shared with every shallow copy)
  store : Store := []
  roots : List (Nat × Bytes) := []   -- DataMPTAux: height ↦ state root
  hist : List (Nat × Node) := []     -- ghost: the trie of every committed height (for the theorems)
  gcAt : Nat := 0                    -- ghost: the largest index `GC` was run with

def applySub (H : Bytes → Bytes) (tm : Node × RcMap) : SubOp → Node × RcMap
  | .put k v => (put tm.1 k v, applyEvs H tm.2 (putEv tm.1 k v))
  | .del k => (delete tm.1 k, applyEvs H tm.2 (deleteEv tm.1 k))
  | .batch m => (putBatch tm.1 (mapToBatch m), applyEvs H tm.2 (putBatchTopEv tm.1 (mapToBatch m)))

/-- the trie after the block's changes (no store involved). -/
def trieAfter (t : Node) (ops : List SubOp) : Node :=
  ops.foldl (fun t o => match o with
    | .put k v => put t k v
    | .del k => delete t k
    | .batch m => putBatch t (mapToBatch m)) t

/-- the events of one sub-operation / the trie after it. -/
def subEvs (t : Node) : SubOp → Evs
  | .put k v => putEv t k v
  | .del k => deleteEv t k
  | .batch m => putBatchTopEv t (mapToBatch m)

def subTrie (t : Node) : SubOp → Node
  | .put k v => put t k v
  | .del k => delete t k
  | .batch m => putBatch t (mapToBatch m)

/-- all events of a block, in program order. -/
def blockEvs : Node → List SubOp → Evs
  | _, [] => []
  | t, o :: r => subEvs t o ++ blockEvs (subTrie t o) r

/-- `AddMPTBatch`: the changes applied to (a shallow copy of) the trie, then `Flush(index)` into the
block's cache. `none` = panic in Flush. -/
def compute (H : Bytes → Bytes) (s : St) (idx : Nat) (ops : List SubOp) : Option (Node × RcMap × Store) :=
  let tm := ops.foldl (applySub H) (s.root, s.rc)
  match flush s.mode idx tm.2 s.store with
  | none => none
  | some (m', st') => some (tm.1, m', st')

/-- a block that is computed and committed (`UpdateCurrentLocal` + the cache persisted). -/
def commit (H : Bytes → Bytes) (s : St) (idx : Nat) (ops : List SubOp) : Option St :=
  match compute H s idx ops with
  | none => none
  | some (t', m', st') =>
    some { s with root := t', rc := m', store := st', roots := (idx, rootHash H t') :: s.roots,
                  hist := (idx, t') :: s.hist }

/-! ### lazy loading (trie.go:518-545)

The live trie of the code is only partly in memory: a position may hold a `HashNode`, which
`getFromStore` resolves when an operation reaches it. Resolution does not change which
addRef/removeRef calls are made (they are made on resolved nodes), but it touches the refcount
map: if the map already has an entry for the hash, the entry's `bytes` and cached stored count
`initial` are overwritten with what the store holds now (trie.go:534-542). A block is therefore its
events interleaved with loads; during a block the store is not written (`Flush` comes last). -/

inductive Act where
  | ev (e : Ev)           -- addRef / removeRef
  | load (h : Bytes)      -- `t.getFromStore(h)`

/-- trie.go:536-541 `node := t.refcount[h]; if node != nil { node.bytes = data; node.initial = … }`. -/
def refreshH (h : Bytes) (b : Bytes) (n : Nat) : RcMap → RcMap
  | [] => []
  | (k, e) :: r => if k = h then (k, { e with bytes := b, initial := n }) :: r else (k, e) :: refreshH h b n r

/-- trie.go:518-545 `(*Trie).getFromStore(h)` as far as the refcount map is concerned, given the
record `c` the store returns for `h`: nothing happens if the record is missing, invisible (inactive
under the GC flag), does not decode, or decodes to a hash / empty node; otherwise, in a counting
mode, an existing map entry is refreshed from the record (the 4 bytes after the flag are read as the
count whatever the flag says). -/
def loadNode (mode : Mode) (c : Option Cell) (m : RcMap) (h : Bytes) : RcMap :=
  match readCnt mode c with
  | none => m
  | some (b, n) =>
    match decodeTop b with
    | none => m
    | some .empty => m
    | some (.hash _) => m
    | some _ => if mode.rc then refreshH h b n m else m

def applyAct (H : Bytes → Bytes) (mode : Mode) (get : Bytes → Option Cell) (m : RcMap) : Act → RcMap
  | .ev e => bump H m e
  | .load h => loadNode mode (get h) m h

def applyActs (H : Bytes → Bytes) (mode : Mode) (get : Bytes → Option Cell) (m : RcMap) (acts : List Act) : RcMap :=
  acts.foldl (applyAct H mode get) m

/-- the events `evs` with the loads `ld[i]` inserted before the `i`-th event (and `ld[n]` after the
last one): every interleaving of a block's events with loads has this form. -/
def interleave : Evs → List (List Bytes) → List Act
  | [], ld => (ld.headD []).map .load
  | e :: r, ld => (ld.headD []).map .load ++ .ev e :: interleave r ld.tail

/-- `AddMPTBatch` on a partly loaded trie: the block's events interleaved with the loads `ld`, read
from the store as it is before the block's `Flush`. -/
def computeL (H : Bytes → Bytes) (s : St) (idx : Nat) (ops : List SubOp) (ld : List (List Bytes)) :
    Option (Node × RcMap × Store) :=
  let m1 := applyActs H s.mode (sget s.store) s.rc (interleave (blockEvs s.root ops) ld)
  match flush s.mode idx m1 s.store with
  | none => none
  | some (m', st') => some (trieAfter s.root ops, m', st')

def commitL (H : Bytes → Bytes) (s : St) (idx : Nat) (ops : List SubOp) (ld : List (List Bytes)) : Option St :=
  match computeL H s idx ops ld with
  | none => none
  | some (t', m', st') =>
    some { s with root := t', rc := m', store := st', roots := (idx, rootHash H t') :: s.roots,
                  hist := (idx, t') :: s.hist }

/-- THE OLD RULE (before /repo c513b1a; kept for the regression theorems of Props/C11 §5 and as the
prediction of the harness's self-test mode that omits `DropMPTBatch`): a block that is computed and
then simply not committed. The cache is discarded and `UpdateCurrentLocal` is not called, but
`mpt := *s.mpt` is a shallow copy — the refcount map is shared and the nodes are updated in place.
With the live trie in memory and a root that is a branch before and after, `s.mpt.root` IS the new
root object, so the module's trie becomes the dropped block's trie; the store keeps the old records. -/
def dropBlockNoReload (H : Bytes → Bytes) (s : St) (idx : Nat) (ops : List SubOp) : Option St :=
  match compute H s idx ops with
  | none => none
  | some (t', m', _) => some { s with root := t', rc := m' }

/-- what `AddMPTBatch` would be without sharing (deep copy): a dropped block changes nothing. -/
def dropBlockSpec (s : St) : St := s

/-- restart / `Collapse`: the refcount map is rebuilt empty (trie.go:62-74, 550-556). -/
def reset (s : St) : St := { s with rc := [] }

/-- a block that is computed and then dropped, as the node does it now (blockchain.go storeBlock:
every error path after `AddMPTBatch` calls `stateRoot.DropMPTBatch()`, module.go:351-362): the
block's cache is discarded and the module's trie is re-opened from the current local root —
`mpt.NewTrie(NewHashNode(currentLocal), mode, Store)`, or an empty trie before the first root — with
a fresh refcount map. In the expanded model: the committed trie stays the live trie, the map is
emptied, nothing else changes. `none` = `Flush` of the dropped block panicked. -/
def dropBlock (H : Bytes → Bytes) (s : St) (idx : Nat) (ops : List SubOp) : Option St :=
  match compute H s idx ops with
  | none => none
  | some _ => some (reset s)


def gcSt (s : St) (g : Nat) : St := { s with store := gc g s.store, gcAt := max s.gcAt g }

/-! ### state-sync restore (billet.go) -/

/-- all positions of the unfolded trie, parents first: the (node, path) pairs the MPT pool hands to
`Billet.RestoreHashNode`, each exactly once (billet.go:30-36). -/
def positions : Node → List Node
  | .empty => []
  | .leaf v => [.leaf v]
  | .ext k n => .ext k n :: positions n
  | .branch cs v =>
    .branch cs v :: ((List.finRange 16).flatMap (fun i => positions (cs i)) ++
      (match v with
       | some w => [.leaf w]
       | none => []))

/-- billet.go:189-210 `incrementRefAndStore` (the active flag of an existing record is not consulted). -/
def incrRef (H : Bytes → Bytes) (mode : Mode) (s : Store) (n : Node) : Store :=
  if mode.rc then
    match sget s (hash H n) with
    | some (.rc b a c) => sput s (hash H n) (.rc b a (c + 1))
    | _ => sput s (hash H n) (.rc (enc H n) true 1)
  else sput s (hash H n) (.plain (enc H n))

/-- restoring a whole trie into the store. -/
def restoreAll (H : Bytes → Bytes) (mode : Mode) (s : Store) (t : Node) : Store :=
  (positions t).foldl (incrRef H mode) s

/-- stateroot/module.go:225-237 `JumpToState` after a state sync (statesync module: `CleanStorage`
at genesis, every node of the sync point's trie handed to `Billet.RestoreHashNode`): the node store
holds exactly the restored trie, the live trie is `NewTrie(NewHashNode(sr.Root), s.mode, s.Store)` —
the restored trie, in the module's OWN mode, with a fresh (empty) refcount map —, the local root
record is the sync point's. The states of earlier heights are gone with the storage. -/
def jumpSt (H : Bytes → Bytes) (s : St) (idx : Nat) (t : Node) : St :=
  { s with root := t, rc := [], store := restoreAll H s.mode [] t,
           roots := [(idx, rootHash H t)], hist := [(idx, t)] }

/-! ### histories -/

inductive Op where
  | block (idx : Nat) (ops : List SubOp)   -- a committed block
  | blockL (idx : Nat) (ops : List SubOp) (ld : List (List Bytes))
                                           -- a committed block on a partly loaded trie: `ld[i]` = the
                                           -- hashes resolved from the store before the block's i-th event
  | gc (g : Nat)                           -- `Module.GC(g, store)`
  | reset                                  -- restart / Collapse
  | jump (idx : Nat) (t : Node)            -- state sync to the trie `t` of height `idx` + `JumpToState`

def stepOp (H : Bytes → Bytes) (s : St) : Op → Option St
  | .block idx ops => commit H s idx ops
  | .blockL idx ops ld => commitL H s idx ops ld
  | .gc g => some (gcSt s g)
  | .reset => some (reset s)
  | .jump idx t => some (jumpSt H s idx t)

def runOps (H : Bytes → Bytes) : St → List Op → Option St
  | s, [] => some s
  | s, o :: r =>
    match stepOp H s o with
    | none => none
    | some s' => runOps H s' r

/-- block heights strictly increase (`top` = the last committed height, if any). -/
def Heights : Option Nat → List Op → Prop
  | _, [] => True
  | top, .block idx _ :: r => (∀ h, top = some h → h < idx) ∧ Heights (some idx) r
  | top, .blockL idx _ _ :: r => (∀ h, top = some h → h < idx) ∧ Heights (some idx) r
  | _, .jump idx _ :: r => Heights (some idx) r
  | top, _ :: r => Heights top r

/-! ### reading a root through the store (module.go:76-81 GetState: mode without the GC flag) -/

/-- trie.go:96-143 over records fetched by key (trie.go:518-545 `getFromStore`). -/
def swalk (s : Store) : Nat → Bytes → Path → VR
  | 0, _, _ => .loop
  | f + 1, h, p =>
    match sget s h with
    | none => .notFound
    | some c =>
      match decodeTop c.bytes with
      | none => .notFound
      | some .empty => .notFound
      | some (.hash _) => .notFound
      | some n => walkNode (swalk s f) n p

def zeroRoot (r : Bytes) : Bool := r.all (· == 0)

/-- `GetState(root, key)`. -/
def readAt (s : Store) (root : Bytes) (key : Bytes) : VR :=
  swalk s (s.length + 1) root (toNibbles key)

end NeoModel.MptRc
