/-
C12 accounting model, part 2: the machine.

The state is the *shape* of a NeoVM state (which entries are primitives, which are references to
which compound; evaluation stacks, slots, invocation frames) together with the implementation's
counter (`Ctr`: `VM.refs` and the per-compound counts). Every instruction is written the way
pkg/vm/vm.go, stack.go, slot.go update the counter — including the hand-adjusted sites
(`pushItemCounted`, `popNoRef`, `initFromStack`, NEWARRAY*, PACK*, UNPACK, KEYS, VALUES, SETITEM,
APPEND, REMOVE, CLEARITEMS, POPITEM, RET value moving, context unloading and exception
unwinding). What the model cannot see (values of primitives, types of primitives, gas) is
resolved by the harness and passed as an argument of the instruction (an index, a count, which
key of a map is hit) or as the `fault` flag.

An evaluation stack is a list, top first. A frame either owns an evaluation stack (`own = some`,
created by `subStack` in loadScriptWithCallingHash, vm.go:490) or shares the one of the frame
below (`CALL*`, or a script loaded with rvcount = -1 on an empty stack).
Core Lean only.
-/
import NeoModel.Model.VmAcct.Heap
namespace NeoModel.VmAcct

inductive Kind where | arr | str | map
deriving DecidableEq, Repr, Inhabited

def Kind.mk : Kind → Nat → Item
  | .arr, i => .arr i | .str, i => .str i | .map, i => .map i

inductive SlotKind where | loc | arg | sfld
deriving DecidableEq, Repr, Inhabited

structure Frame where
  own : Option (List Item) := none      -- its own evaluation stack, if it has one
  isScript : Bool := false              -- created by loading a script (owns the static slot)
  static : Option (List Item) := none
  locals : Option (List Item) := none
  args : Option (List Item) := none
  retCount : Int := -1
  dynamic : Bool := false               -- loaded with LoadDynamicScript (DynamicOnUnload)
deriving Repr, Inhabited

structure St where
  c : Ctr := { heap := [], refs := 0 }
  base : List Item := []                -- the VM's own stack object (`vm.estack` of a fresh VM)
  frames : List Frame := []             -- invocation stack, current context first
  uncaught : Option Item := none        -- `VM.uncaughtException`
  halted : Bool := false
deriving Repr, Inhabited

/-! ### the current evaluation stack (`v.estack`) -/

def curOf : List Frame → List Item → List Item
  | [], base => base
  | f :: fs, base => match f.own with
    | some st => st
    | none => curOf fs base

def setCurOf : List Frame → List Item → List Item → List Frame × List Item
  | [], _, st => ([], st)
  | f :: fs, base, st => match f.own with
    | some _ => ({ f with own := some st } :: fs, base)
    | none => let r := setCurOf fs base st; (f :: r.1, r.2)

def St.cur (s : St) : List Item := curOf s.frames s.base
def St.setCur (s : St) (st : List Item) : St :=
  let r := setCurOf s.frames s.base st
  { s with frames := r.1, base := r.2 }

/-- the working pair of an instruction that only touches the counter and the current stack -/
structure W where
  c : Ctr
  st : List Item
deriving Repr, Inhabited

def W.push (w : W) (x : Item) : W := { c := w.c.add x, st := x :: w.st }           -- Stack.Push
def W.pushNoRef (w : W) (x : Item) : W := { w with st := x :: w.st }
def W.pop (w : W) : Option (Item × W) :=                                            -- Stack.Pop
  match w.st with
  | [] => none
  | x :: r => some (x, { c := w.c.rem x, st := r })
def W.popNoRef (w : W) : Option (Item × W) :=
  match w.st with
  | [] => none
  | x :: r => some (x, { w with st := r })
def W.addRefs (w : W) (d : Int) : W := { w with c := { w.c with refs := w.c.refs + d } }
def W.heap (w : W) : Heap := w.c.heap
def W.setHeap (w : W) (h : Heap) : W := { w with c := { w.c with heap := h } }
def W.alloc (w : W) (cell : Cell) : Nat × W := (w.c.heap.length, w.setHeap (w.c.heap ++ [cell]))

def W.popN : Nat → W → Option W
  | 0, w => some w
  | n + 1, w => match w.pop with
    | none => none
    | some (_, w') => W.popN n w'

def W.pushPrims : Nat → W → W
  | 0, w => w
  | n + 1, w => W.pushPrims n (w.push .prim)

/-! ### Struct.Clone (item.go:352-377): nested structs are copied, everything else is shared -/

mutual
def cloneStruct : Nat → Heap → Nat → Option (Heap × Nat)
  | 0, _, _ => none
  | f + 1, h, id =>
    match cloneList f h (chOf h id) with
    | none => none
    | some (h', ch') => some (h' ++ [{ rc := 0, ch := ch' }], h'.length)
def cloneList : Nat → Heap → List Item → Option (Heap × List Item)
  | 0, _, _ => none
  | _ + 1, h, [] => some (h, [])
  | f + 1, h, .str d :: xs =>
    match cloneStruct f h d with
    | none => none
    | some (h1, d') =>
      match cloneList f h1 xs with
      | none => none
      | some (h2, xs') => some (h2, .str d' :: xs')
  | f + 1, h, x :: xs =>
    match cloneList f h xs with
    | none => none
    | some (h2, xs') => some (h2, x :: xs')
end

def cloneFuel : Nat := 6000

/-- `cloneIfStruct` (vm.go:2155); `none` = the clone limit was hit (FAULT) -/
def W.cloneIfStruct (w : W) (x : Item) : Option (Item × Bool × W) :=
  match x with
  | .str id =>
    match cloneStruct cloneFuel w.c.heap id with
    | none => none
    | some (h, id') => some (.str id', true, w.setHeap h)
  | _ => some (x, false, w)

inductive Outcome where
  | ok (w : W)
  | throw (w : W)          -- the instruction raised a catchable exception (a fresh ByteString)
deriving Repr, Inhabited

def okW (w : W) : Option Outcome := some (.ok w)

def listSet (xs : List Item) (i : Nat) (x : Item) : List Item := xs.set i x

/-- keys of a flattened map: the elements at even positions -/
def evens : List Item → List Item
  | [] => []
  | [k] => [k]
  | k :: _ :: r => k :: evens r
def odds : List Item → List Item
  | [] => []
  | [_] => []
  | _ :: v :: r => v :: odds r

/-- cpValues (vm.go:2229) -/
def cpValues : List Item → Bool → W → Option (List Item × W)
  | [], _, w => some ([], w)
  | x :: xs, true, w =>
    match w.cloneIfStruct x with
    | none => none
    | some (cl, _, w1) =>
      match cpValues xs true { w1 with c := w1.c.add cl } with
      | none => none
      | some (r, w2) => some (cl :: r, w2)
  | x :: xs, false, w =>
    match w.cloneIfStruct x with
    | none => none
    | some (cl, isS, w1) =>
      let w1' : W := if isS then { w1 with c := (w1.c.rem x).add cl } else w1
      match cpValues xs false w1' with
      | none => none
      | some (r, w2) => some (cl :: r, w2)

/-- PACKMAP loop (vm.go:1327-1334): `dups[i]` = index of the entry the i-th key already has, or -1 -/
def packMapLoop : List Int → List Item → W → Option (List Item × W)
  | [], ents, w => some (ents, w)
  | d :: ds, ents, w =>
    match w.st with
    | key :: val :: r =>
      -- Map.Add → IsValidMapKey (stackitem/item.go:875,913): a compound key is a panic (FAULT)
      if key.cid.isSome then none else
      let w := { w with st := r }
      if d < 0 then packMapLoop ds (ents ++ [key, val]) w
      else
        let i := 2 * d.toNat + 1
        match ents[i]? with
        | none => none
        | some old =>
          let w := { (w.addRefs (-1)) with c := ((w.addRefs (-1)).c.rem old) }
          packMapLoop ds (listSet ents i val) w
    | _ => none

/-- SETITEM after the item was taken (and, if it is a Struct, cloned): key and container are popped,
the old child is discounted, the item stored (vm.go:1453-1511) -/
def setitemTail (i : Int) (cloned : Item) (w : W) : Option Outcome :=
  match w.pop with
  | none => none
  | some (key, w) =>
    -- validateMapKey(key) (vm.go:1454, for every container type): a compound key is a panic (FAULT)
    if key.cid.isSome then none else
    match w.pop with
    | none => none
    | some (obj, w) =>
      match obj with
      | .arr id | .str id =>
        if i < 0 then some (.throw { w with c := w.c.rem cloned })
        else
          let ch := chOf w.c.heap id
          match ch[i.toNat]? with
          | none => none
          | some old =>
            let w : W := if rcOf w.c.heap id ≠ 0 then { w with c := w.c.rem old } else { w with c := w.c.rem cloned }
            okW (w.setHeap (setCh w.c.heap id (listSet ch i.toNat cloned)))
      | .map id =>
        let ch := chOf w.c.heap id
        if i < 0 then
          let w : W := if rcOf w.c.heap id ≠ 0 then { w with c := w.c.add key } else { w with c := w.c.rem cloned }
          okW (w.setHeap (setCh w.c.heap id (ch ++ [key, cloned])))
        else
          match ch[2 * i.toNat + 1]? with
          | none => none
          | some old =>
            let w : W := if rcOf w.c.heap id ≠ 0 then { w with c := w.c.rem old } else { w with c := w.c.rem cloned }
            okW (w.setHeap (setCh w.c.heap id (listSet ch (2 * i.toNat + 1) cloned)))
      | .prim =>                                         -- Buffer
        let w : W := { w with c := w.c.rem cloned }
        if i < 0 then some (.throw w) else okW w

/-- instructions that only touch the counter, the heap and the current stack.
`pops`/`pushes` of the generic form are given by the driver's table. -/
inductive SOp where
  | generic (pops pushes : Nat)
  | dup | over | pick (n : Nat) | tuck | swap | rot | roll (n : Nat)
  | reverse (n : Nat) (popFirst : Bool) | nip | xdrop (n : Nat) | clear
  | newEmpty (k : Kind) | newSized (k : Kind) (n : Nat) | pack (k : Kind) (n : Nat)
  | packmap (n : Nat) (dups : List Int)
  | unpack | append | setitem (i : Int) | remove (i : Int) | clearitems | popitem
  | pickitem (i : Int) | keys | values | convert (t : Nat) | reverseitems
  | mkarray                                   -- harness SYSCALL: PushItem(NewArray([int, null]))
deriving Repr, Inhabited

def execS (op : SOp) (w : W) : Option Outcome :=
  match op with
  | .generic k j => (W.popN k w).map (fun w => .ok (W.pushPrims j w))
  | .dup => match w.st with                                   -- vm.go:970
    | x :: _ => okW (w.push x)
    | _ => none
  | .over => match w.st with                                  -- vm.go:973
    | _ :: x :: _ => okW (w.push x)
    | _ => none
  | .pick n => match w.pop with                               -- vm.go:980
    | none => none
    | some (_, w) => match w.st[n]? with
      | some x => okW (w.push x)
      | none => none
  | .tuck => match w.st with                                  -- vm.go:991, Stack.InsertAt(e, 2)
    | a :: b :: r => okW { c := w.c.add a, st := a :: b :: a :: r }
    | _ => none
  | .swap => match w.st with
    | a :: b :: r => okW { w with st := b :: a :: r }
    | _ => none
  | .rot => match w.st with
    | a :: b :: c :: r => okW { w with st := c :: a :: b :: r }
    | _ => none
  | .roll n => match w.pop with                               -- vm.go:1010
    | none => none
    | some (_, w) => match w.st[n]? with
      | some x => okW { w with st := x :: w.st.eraseIdx n }
      | none => none
  | .reverse n popFirst =>                                    -- vm.go:1017
    let w? := if popFirst then (w.pop).map (·.2) else some w
    match w? with
    | none => none
    | some w => if n ≤ w.st.length then okW { w with st := (w.st.take n).reverse ++ w.st.drop n } else none
  | .nip => match w.st with                                   -- vm.go:951, RemoveAt(1)
    | a :: b :: r => okW { c := w.c.rem b, st := a :: r }
    | _ => none
  | .xdrop n => match w.pop with                              -- vm.go:957
    | none => none
    | some (_, w) => match w.st[n]? with
      | some x => okW { c := w.c.rem x, st := w.st.eraseIdx n }
      | none => none
  | .clear => okW { c := w.c.remAll w.st.reverse, st := [] }  -- Stack.Clear, bottom first
  | .newEmpty k =>                                            -- vm.go:1270/1295/1726: PushItem
    let (id, w) := w.alloc { rc := 0, ch := [] }
    okW (w.push (k.mk id))
  | .newSized k n => match w.pop with                         -- vm.go:1273-1293
    | none => none
    | some (_, w) =>
      if k = .map then none else                              -- only NEWARRAY, NEWARRAY_T, NEWSTRUCT exist
      let (id, w) := w.alloc { rc := 1, ch := List.replicate n .prim }
      okW ((w.pushNoRef (k.mk id)).addRefs (n + 1))           -- pushItemCounted(res, n+1)
  | .pack k n => match w.pop with                             -- vm.go:1338-1359
    | none => none
    | some (_, w) =>
      if k = .map then none else                              -- only PACK, PACKSTRUCT (a Map: PACKMAP)
      if n ≤ w.st.length then
        let items := w.st.take n
        let (id, w) := ({ w with st := w.st.drop n } : W).alloc { rc := 1, ch := items }
        okW ((w.pushNoRef (k.mk id)).addRefs 1)
      else none
  | .packmap n dups => match w.pop with                       -- vm.go:1320-1336
    | none => none
    | some (_, w) =>
      if dups.length ≠ n then none else
      match packMapLoop dups [] w with
      | none => none
      | some (ents, w) =>
        let (id, w) := w.alloc { rc := 1, ch := ents }
        okW ((w.pushNoRef (.map id)).addRefs 1)
  | .unpack => match w.popNoRef with                          -- vm.go:1361-1408
    | none => none
    | some (e, w) =>
      match e.cid with
      | none => none
      | some id =>
        let w := (w.addRefs (-1)).setHeap (decRC w.c.heap id)
        let ch := chOf w.c.heap id
        let w : W := if rcOf w.c.heap id ≠ 0 then { c := w.c.addAll ch.reverse, st := ch ++ w.st }
                     else { w with st := ch ++ w.st }
        okW (w.push .prim)
  | .append => match w.pop with                               -- vm.go:1298-1318
    | none => none
    | some (item, w) => match w.pop with
      | none => none
      | some (arr, w) =>
        match w.cloneIfStruct item with
        | none => none
        | some (val, _, w) =>
          match arr with
          | .arr id | .str id =>
            let isRef := rcOf w.c.heap id ≠ 0
            let w := w.setHeap (setCh w.c.heap id (chOf w.c.heap id ++ [val]))
            okW (if isRef then { w with c := w.c.add val } else w)
          | _ => none
  | .setitem i => match w.popNoRef with                       -- vm.go:1446-1511
    | none => none
    | some (item, w) =>
      match w.cloneIfStruct item with
      | none => none
      | some (cloned, isS, w) =>
        let w : W := if isS then { w with c := (w.c.rem item).add cloned } else w
        setitemTail i cloned w
  | .remove i => match w.pop with                             -- vm.go:1527-1570
    | none => none
    | some (_, w) => match w.pop with
      | none => none
      | some (elem, w) =>
        match elem with
        | .arr id | .str id =>
          let ch := chOf w.c.heap id
          if i < 0 then none else
          match ch[i.toNat]? with
          | none => none
          | some x =>
            let w : W := if rcOf w.c.heap id ≠ 0 then { w with c := w.c.rem x } else w
            okW (w.setHeap (setCh w.c.heap id (ch.eraseIdx i.toNat)))
        | .map id =>
          if i < 0 then okW w else
          let ch := chOf w.c.heap id
          match ch[2 * i.toNat]?, ch[2 * i.toNat + 1]? with
          | some k, some v =>
            -- the element is detached first (t.Drop), then discounted if the map was referenced
            let isRef : Bool := rcOf w.c.heap id ≠ 0
            let w := w.setHeap (setCh w.c.heap id ((ch.eraseIdx (2 * i.toNat + 1)).eraseIdx (2 * i.toNat)))
            okW (if isRef then { w with c := (w.c.rem k).rem v } else w)
          | _, _ => none
        | .prim => none
  | .clearitems => match w.pop with                           -- vm.go:1568-1607
    | none => none
    | some (elem, w) =>
      match elem.cid with
      | none => none
      | some id =>
        let ch := chOf w.c.heap id
        let w := w.setHeap (setCh w.c.heap id [])
        okW (if rcOf w.c.heap id ≠ 0 then { w with c := w.c.remAll ch } else w)
  | .popitem => match w.pop with                              -- vm.go:1609-1626
    | none => none
    | some (arr, w) =>
      match arr with
      | .arr id | .str id =>
        let ch := chOf w.c.heap id
        match ch.getLast? with
        | none => none
        | some elem =>
          let w := w.push elem
          let w := w.setHeap (setCh w.c.heap id ch.dropLast)
          okW (if rcOf w.c.heap id ≠ 0 then { w with c := w.c.rem elem } else w)
      | _ => none
  | .pickitem i => match w.pop with                           -- vm.go:1410-1444
    | none => none
    | some (_, w) => match w.pop with
      | none => none
      | some (obj, w) =>
        if i < 0 then some (.throw w) else
        match obj with
        | .arr id | .str id => match (chOf w.c.heap id)[i.toNat]? with
          | some x => okW (w.push x)
          | none => none
        | .map id => match (chOf w.c.heap id)[2 * i.toNat + 1]? with
          | some x => okW (w.push x)
          | none => none
        | .prim => okW (w.push .prim)
  | .keys => match w.pop with                                 -- vm.go:1729-1746
    | none => none
    | some (.map id, w) =>
      let ks := evens (chOf w.c.heap id)
      let (aid, w) := w.alloc { rc := 1, ch := ks }
      okW ((w.pushNoRef (.arr aid)).addRefs (ks.length + 1))
    | some _ => none
  | .values => match w.popNoRef with                          -- vm.go:1748-1782
    | none => none
    | some (item, w) =>
      match item with
      | .prim => none
      | .arr id | .str id =>
        let w := w.setHeap (decRC w.c.heap id)
        match cpValues (chOf w.c.heap id) (rcOf w.c.heap id ≠ 0) w with
        | none => none
        | some (arr, w) =>
          let (aid, w) := w.alloc { rc := 1, ch := arr }
          okW (w.pushNoRef (.arr aid))
      | .map id =>
        let w := w.setHeap (decRC w.c.heap id)
        let isRef : Bool := rcOf w.c.heap id ≠ 0
        let ch := chOf w.c.heap id
        let w := if isRef then w else w.addRefs (-(Int.ofNat (ch.length / 2)))
        match cpValues (odds ch) isRef w with
        | none => none
        | some (arr, w) =>
          let (aid, w) := w.alloc { rc := 1, ch := arr }
          okW (w.pushNoRef (.arr aid))
  | .convert t => match w.pop with                            -- vm.go:788-795, item.go Convert
    | none => none
    | some (item, w) =>
      match item with
      | .prim => okW (w.push .prim)
      | .arr id =>
        if t = 0x40 then okW (w.push item)
        else if t = 0x41 then
          let (nid, w) := w.alloc { rc := 0, ch := chOf w.c.heap id }
          okW (w.push (.str nid))
        else if t = 0x20 then okW (w.push .prim) else none
      | .str id =>
        if t = 0x41 then okW (w.push item)
        else if t = 0x40 then
          let (nid, w) := w.alloc { rc := 0, ch := chOf w.c.heap id }
          okW (w.push (.arr nid))
        else if t = 0x20 then okW (w.push .prim) else none
      | .map _ =>
        if t = 0x48 then okW (w.push item)
        else if t = 0x20 then okW (w.push .prim) else none
  | .reverseitems => match w.pop with                         -- vm.go:1513-1526
    | none => none
    | some (item, w) =>
      match item with
      | .arr id | .str id => okW (w.setHeap (setCh w.c.heap id (chOf w.c.heap id).reverse))
      | .prim => okW w
      | .map _ => none
  | .mkarray =>
    let (id, w) := w.alloc { rc := 0, ch := [.prim, .prim] }
    okW (w.push (.arr id))

/-! ### frames, slots, calls, returns, exceptions -/

inductive Op where
  | s (op : SOp)
  | nop
  | initsslot (n : Nat) | initslot (l a : Nat)
  | ld (k : SlotKind) (i : Nat) | st (k : SlotKind) (i : Nat)
  | call (pops : Nat)
  | ret
  | load (mode nargs : Nat)
  | throw_
  | endfinally
deriving Repr, Inhabited

def St.w (s : St) : W := { c := s.c, st := s.cur }
def St.setW (s : St) (w : W) : St := ({ s with c := w.c } : St).setCur w.st

/-- the static slot lives in the nearest frame (from the top) that was created by loading a script -/
def getStatic : List Frame → Option (List Item)
  | [] => none
  | f :: fs => if f.isScript then f.static else getStatic fs
def setStatic : List Frame → List Item → List Frame
  | [], _ => []
  | f :: fs, v => if f.isScript then { f with static := some v } :: fs else f :: setStatic fs v

def slotGet (s : St) : SlotKind → Option (List Item)
  | .loc => match s.frames with | f :: _ => f.locals | [] => none
  | .arg => match s.frames with | f :: _ => f.args | [] => none
  | .sfld => getStatic s.frames
def slotSet (s : St) (k : SlotKind) (v : List Item) : St :=
  match k, s.frames with
  | .loc, f :: fs => { s with frames := { f with locals := some v } :: fs }
  | .arg, f :: fs => { s with frames := { f with args := some v } :: fs }
  | .sfld, fs => { s with frames := setStatic fs v }
  | _, [] => s

def slotItems : Option (List Item) → List Item
  | some xs => xs
  | none => []

/-- unloadContext (vm.go:1883-1912), slot part: `clearRefs` of locals, arguments and — if the next
context belongs to another script — statics. -/
def unloadSlots (f : Frame) (c : Ctr) : Ctr :=
  let c := c.remAll (slotItems f.locals)
  let c := c.remAll (slotItems f.args)
  if f.isScript then c.remAll (slotItems f.static) else c

/-- handleException (vm.go:1978-2013) once the handler is known: `k` contexts are unloaded; a dropped
context that OWNS its evaluation stack has it cleared (`ctx.sc.estack.Clear()`, every element removed
from the counter, bottom first — the repair 65b0965 of the former finding unwind-across-estack; contexts
sharing a stack own none), the VM's stack becomes the handler context's stack, a CATCH gets the
exception pushed. -/
def unwindFrames : Nat → List Frame → Ctr → Option (List Frame × Ctr)
  | 0, fs, c => some (fs, c)
  | _ + 1, [], _ => none
  | k + 1, f :: fs, c => unwindFrames k fs ((unloadSlots f c).remAll (slotItems f.own).reverse)

def unwind (s : St) (exc : Item) (k : Nat) (catch_ : Bool) : Option St :=
  match unwindFrames k s.frames s.c with
  | none => none
  | some (fs, c) =>
    if fs.isEmpty then none else
    let s : St := { s with frames := fs, c := c }
    if catch_ then some { (s.setW (s.w.push exc)) with uncaught := none }
    else some { s with uncaught := some exc }

def maxStackSize : Nat := 2048
def maxInvocationStackSize : Nat := 1024

/-- result of one instruction: the new state and, if the instruction raised, the exception -/
structure Res where
  s : St
  raised : Option Item := none

def ok (s : St) : Option Res := some { s := s }

def exec (op : Op) (s : St) : Option Res :=
  match op with
  | .nop => ok s
  | .s sop => match execS sop s.w with
    | none => none
    | some (.ok w) => ok (s.setW w)
    | some (.throw w) => some { s := s.setW w, raised := some .prim }
  | .initsslot n =>                                           -- vm.go:797, Slot.init
    if n = 0 then none else
    match getStatic s.frames with
    | some _ => none
    | none =>
      if s.frames.any (·.isScript) then
        ok { (slotSet s .sfld (List.replicate n .prim)) with c := { s.c with refs := s.c.refs + n } }
      else none
  | .initslot l a => match s.frames with                      -- vm.go:803, init / initFromStack
    | [] => none
    | f :: _ =>
      if f.locals.isSome || f.args.isSome || (l = 0 && a = 0) then none else
      let s := if l > 0 then
          { (slotSet s .loc (List.replicate l .prim)) with c := { s.c with refs := s.c.refs + l } } else s
      if a = 0 then ok s else
      let st := s.cur
      if a ≤ st.length then ok ((slotSet s .arg (st.take a)).setCur (st.drop a)) else none
  | .ld k i => match slotGet s k with                         -- Slot.Get + PushItem
    | none => none
    | some xs => match xs[i]? with
      | none => none
      | some x => ok (s.setW (s.w.push x))
  | .st k i => match slotGet s k with                         -- Slot.store
    | none => none
    | some xs => match xs[i]?, s.w.popNoRef with
      | some old, some (item, w) =>
        let s := s.setW { w with c := w.c.rem old }
        ok (slotSet s k (xs.set i item))
      | _, _ => none
  | .call pops => match W.popN pops s.w with                  -- vm.go:1663-1674, VM.call
    | none => none
    | some w =>
      let s := s.setW w
      if s.frames.isEmpty || s.frames.length ≥ maxInvocationStackSize then none else   -- vm.go:2198
      ok { s with frames := { own := none, isScript := false } :: s.frames }
  | .load mode nargs =>                                       -- harness SYSCALL, loadScriptWithCallingHash
    if nargs > s.cur.length then none else
    let args := s.cur.take nargs                              -- popped one by one, top first
    match W.popN nargs s.w with
    | none => none
    | some w =>
      let s := s.setW w
      if s.frames.length ≥ maxInvocationStackSize then none else                        -- vm.go:2198
      let rv : Int := if mode = 0 then 1 else -1
      let own : Option (List Item) := if rv ≠ -1 || s.cur.length ≠ 0 then some [] else none
      let s : St := { s with frames := { own := own, isScript := true, retCount := rv, dynamic := mode = 2 } :: s.frames }
      -- pushed back in reverse order of popping
      ok (s.setW { c := s.c.addAll args.reverse, st := args ++ s.cur })
  | .ret => match s.frames with                               -- vm.go:1696-1724
    | [] => none
    | f :: rest =>
      let oldSt := curOf (f :: rest) s.base
      if rest.isEmpty then
        -- the VM's stack stays the unloaded context's stack (the result stack)
        let c := unloadSlots f s.c
        ok { s with frames := [], base := oldSt, c := c, halted := true }
      else
        match f.own with
        | some st =>
          if f.retCount ≥ 0 ∧ st.length ≠ f.retCount.toNat then none else
          -- pushNoRef of every element onto the new current stack
          let s1 : St := ({ s with frames := rest } : St)
          let s1 := s1.setCur (st ++ s1.cur)
          let s1 := { s1 with c := unloadSlots f s1.c }
          if f.dynamic && s.uncaught.isNone then              -- DynamicOnUnload (context.go:205)
            if st.length = 0 then ok (s1.setW (s1.w.push .prim))
            else if st.length > 1 then none else ok s1
          else ok s1
        | none =>
          let s1 : St := { s with frames := rest, c := unloadSlots f s.c }
          if f.dynamic && s.uncaught.isNone then
            let n := s1.cur.length
            if n = 0 then ok (s1.setW (s1.w.push .prim))
            else if n > 1 then none else ok s1
          else ok s1
  | .throw_ => match s.w.pop with                             -- vm.go:1816
    | none => none
    | some (x, w) => some { s := s.setW w, raised := some x }
  | .endfinally => match s.uncaught with                      -- vm.go:1869
    | some x => some { s := s, raised := some x }
    | none => ok s


/-- one instruction as the harness reports it: the op, the unwinding outcome (if the instruction
raised and a handler was found), and whether the real VM faulted for a reason invisible here. -/
def step (s : St) (op : Op) (unw : Option (Nat × Bool)) (extFault : Bool) : Option St :=
  if extFault || s.halted then none else
  match exec op s with
  | none => none
  | some r =>
    let s'? := match r.raised, unw with
      | some x, some (k, c) => unwind r.s x k c
      | some _, none => none                                  -- unhandled exception
      | none, _ => some r.s
    match s'? with
    | none => none
    | some s' => if s'.c.refs > maxStackSize then none else some s'   -- vm.go:734

/-! ### observations -/

def Frame.roots (f : Frame) : List Item :=
  slotItems f.own ++ slotItems f.locals ++ slotItems f.args ++ (if f.isScript then slotItems f.static else [])

def St.roots (s : St) : List Item := s.base ++ s.frames.flatMap Frame.roots

def St.reach (s : St) : Nat := reachFrom s.c.heap s.roots

def St.depth (s : St) : Nat := s.frames.length

/-- the entry script: LoadScriptWithHash on a fresh VM (rvcount = 1 ⇒ own stack) -/
def St.init : St := { frames := [{ own := some [], isScript := true, retCount := 1 }] }

end NeoModel.VmAcct
