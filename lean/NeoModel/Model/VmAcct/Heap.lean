/-
C12 accounting model, part 1: items, the heap of compound items and the VM's reference counter.

Mirrors pkg/vm/ref_counter.go and pkg/vm/stackitem/reference.go as they are written:

* an item is a primitive (everything the counter treats as a leaf: Integer, Boolean, ByteString,
  Buffer, Pointer, Interop, Null, an empty slot entry) or a reference to a compound
  (Array / Struct / Map) identified by its heap index (pointer identity in Go);
* a heap cell holds the compound's own count `rc` (stackitem `rc.count`) and its children
  (a map's children are key, value, key, value … in insertion order);
* `refs` is the VM's counter (`VM.refs`);
* `addW` / `remW` are `refCounter.Add` / `refCounter.Remove` (ref_counter.go:16-84) written as
  work-list functions in the order the Go recursion visits items: a compound's children are
  visited only when its own count goes 0→1 (Add) / 1→0 (Remove); `Remove` of a compound whose
  count is already 0 does nothing at all (the `IsReferenced` guard, ref_counter.go:55/64/73).

`reach` is the specification side: what is really reachable, found by walking.
Core Lean only.
-/
namespace NeoModel.VmAcct

inductive Item where
  | prim
  | arr (id : Nat)
  | str (id : Nat)
  | map (id : Nat)
deriving DecidableEq, Repr, Inhabited

/-- the heap cell an item refers to, if it is a compound -/
def Item.cid : Item → Option Nat
  | .prim => none
  | .arr i => some i
  | .str i => some i
  | .map i => some i

structure Cell where
  rc : Nat            -- stackitem rc.count
  ch : List Item      -- children (map: k₀ v₀ k₁ v₁ …)
deriving Repr, Inhabited

abbrev Heap := List Cell

def rcOf (h : Heap) (id : Nat) : Nat := match h[id]? with | some c => c.rc | none => 0
def chOf (h : Heap) (id : Nat) : List Item := match h[id]? with | some c => c.ch | none => []

/-- `IncRC` -/
def incRC (h : Heap) (id : Nat) : Heap := h.modify id (fun c => { c with rc := c.rc + 1 })
/-- `DecRC` (the model keeps counts in `Nat`; Go only decrements a non-zero count) -/
def decRC (h : Heap) (id : Nat) : Heap := h.modify id (fun c => { c with rc := c.rc - 1 })
def setCh (h : Heap) (id : Nat) (xs : List Item) : Heap := h.modify id (fun c => { c with ch := xs })

/-- the counter part of the VM state: the heap (with the per-compound counts) and `VM.refs` -/
structure Ctr where
  heap : Heap
  refs : Int
deriving Repr, Inhabited

/-- number of compounds whose own count is 0 (termination measure of `addW`) -/
def zeros (h : Heap) : Nat := h.countP (fun c => c.rc == 0)
/-- sum of all own counts (termination measure of `remW`) -/
def rcSum (h : Heap) : Nat := (h.map (·.rc)).sum

theorem zeros_incRC_lt (h : Heap) (id : Nat) (hz : rcOf h id = 0) (hlt : id < h.length) :
    zeros (incRC h id) < zeros h := by
  induction h generalizing id with
  | nil => simp at hlt
  | cons c t ih =>
    cases id with
    | zero =>
      simp only [rcOf, List.getElem?_cons_zero] at hz
      simp [zeros, incRC, hz]
    | succ i =>
      have hz' : rcOf t i = 0 := by simpa [rcOf] using hz
      have := ih i hz' (by simpa using hlt)
      simp only [zeros, incRC, List.modify_succ_cons, List.countP_cons] at this ⊢
      omega

theorem incRC_of_ge (h : Heap) (id : Nat) (hge : h.length ≤ id) : incRC h id = h := by
  induction h generalizing id with
  | nil => simp [incRC]
  | cons c t ih =>
    cases id with
    | zero => simp at hge
    | succ i =>
      have := ih i (by simpa using hge)
      simp only [incRC, List.modify_succ_cons] at this ⊢
      rw [this]

theorem rcOf_eq_zero_of_ge (h : Heap) (id : Nat) (hge : h.length ≤ id) : rcOf h id = 0 := by
  simp [rcOf, List.getElem?_eq_none hge]

theorem chOf_eq_nil_of_ge (h : Heap) (id : Nat) (hge : h.length ≤ id) : chOf h id = [] := by
  simp [chOf, List.getElem?_eq_none hge]

theorem rcSum_decRC_lt (h : Heap) (id : Nat) (hpos : rcOf h id ≠ 0) : rcSum (decRC h id) < rcSum h := by
  induction h generalizing id with
  | nil => simp [rcOf] at hpos
  | cons c t ih =>
    cases id with
    | zero =>
      simp only [rcOf, List.getElem?_cons_zero] at hpos
      simp only [rcSum, decRC, List.modify_zero_cons, List.map_cons, List.sum_cons]
      omega
    | succ i =>
      have hp : rcOf t i ≠ 0 := by simpa [rcOf] using hpos
      have := ih i hp
      simp only [rcSum, decRC, List.modify_succ_cons, List.map_cons, List.sum_cons] at this ⊢
      omega

theorem zeros_incRC_of_pos (h : Heap) (id : Nat) (hpos : rcOf h id ≠ 0) : zeros (incRC h id) = zeros h := by
  induction h generalizing id with
  | nil => simp [incRC]
  | cons c t ih =>
    cases id with
    | zero =>
      simp only [rcOf, List.getElem?_cons_zero] at hpos
      simp [zeros, incRC, hpos]
    | succ i =>
      have hp : rcOf t i ≠ 0 := by simpa [rcOf] using hpos
      have := ih i hp
      simp only [zeros, incRC, List.modify_succ_cons, List.countP_cons] at this ⊢
      omega

/-- `refCounter.Add` (ref_counter.go:16-45) over a work list. -/
def addW : List Item → Ctr → Ctr
  | [], c => c
  | x :: w, c =>
    match x.cid with
    | none => addW w { c with refs := c.refs + 1 }
    | some id =>
      if rcOf c.heap id = 0 then
        if id < c.heap.length then
          addW (chOf c.heap id ++ w) { heap := incRC c.heap id, refs := c.refs + 1 }
        else
          addW w { heap := incRC c.heap id, refs := c.refs + 1 }
      else
        addW w { heap := incRC c.heap id, refs := c.refs + 1 }
termination_by w c => (zeros c.heap, w.length)
decreasing_by
  · exact Prod.Lex.right _ (by simp)
  · rename_i hz hlt
    exact Prod.Lex.left _ _ (zeros_incRC_lt _ _ hz hlt)
  · rename_i hz hge
    simp only [incRC_of_ge _ _ (Nat.le_of_not_lt hge)]
    exact Prod.Lex.right _ (by simp)
  · rename_i hnz
    simp only [zeros_incRC_of_pos _ _ hnz]
    exact Prod.Lex.right _ (by simp)

/-- `refCounter.Remove` (ref_counter.go:48-84) over a work list. -/
def remW : List Item → Ctr → Ctr
  | [], c => c
  | x :: w, c =>
    match x.cid with
    | none => remW w { c with refs := c.refs - 1 }
    | some id =>
      if rcOf c.heap id = 0 then
        remW w c                       -- not referenced: nothing happens, not even `refs--`
      else if rcOf c.heap id = 1 then
        remW (chOf c.heap id ++ w) { heap := decRC c.heap id, refs := c.refs - 1 }
      else
        remW w { heap := decRC c.heap id, refs := c.refs - 1 }
termination_by w c => (rcSum c.heap, w.length)
decreasing_by
  · exact Prod.Lex.right _ (by simp)
  · exact Prod.Lex.right _ (by simp)
  · rename_i hnz _
    exact Prod.Lex.left _ _ (rcSum_decRC_lt _ _ hnz)
  · rename_i hnz _
    exact Prod.Lex.left _ _ (rcSum_decRC_lt _ _ hnz)

def Ctr.add (c : Ctr) (x : Item) : Ctr := addW [x] c
def Ctr.rem (c : Ctr) (x : Item) : Ctr := remW [x] c
def Ctr.remAll (c : Ctr) (xs : List Item) : Ctr := remW xs c
def Ctr.addAll (c : Ctr) (xs : List Item) : Ctr := addW xs c

/-! ### the specification side: what is reachable, by walking -/

/-- number of heap ids not yet visited (termination measure of `walk`) -/
def unvisited (n : Nat) (vis : List Nat) : Nat := (List.range n).countP (fun i => !vis.contains i)

theorem countP_le_of_imp {α} (p q : α → Bool) (l : List α) (h : ∀ x ∈ l, p x = true → q x = true) :
    l.countP p ≤ l.countP q := by
  induction l with
  | nil => simp
  | cons a t ih =>
    have := ih (fun x hx => h x (List.mem_cons_of_mem _ hx))
    have ha := h a (List.mem_cons_self ..)
    simp only [List.countP_cons]
    cases hp : p a <;> cases hq : q a <;> simp_all <;> omega

theorem countP_lt_of_imp {α} (p q : α → Bool) (l : List α) (h : ∀ x ∈ l, p x = true → q x = true)
    (a : α) (ha : a ∈ l) (hpa : p a = false) (hqa : q a = true) : l.countP p < l.countP q := by
  induction l with
  | nil => simp at ha
  | cons b t ih =>
    simp only [List.countP_cons]
    have hle := countP_le_of_imp p q t (fun x hx => h x (List.mem_cons_of_mem _ hx))
    have hb := h b (List.mem_cons_self ..)
    rcases List.mem_cons.1 ha with rfl | hat
    · simp [hpa, hqa]; omega
    · have := ih (fun x hx => h x (List.mem_cons_of_mem _ hx)) hat
      cases hp : p b <;> cases hq : q b <;> simp_all <;> omega

theorem unvisited_cons_le (n : Nat) (vis : List Nat) (id : Nat) : unvisited n (id :: vis) ≤ unvisited n vis := by
  apply countP_le_of_imp
  intro x _ hx
  simp only [List.contains_cons, Bool.not_or, Bool.and_eq_true] at hx
  simpa using hx.2

theorem unvisited_cons_lt (n : Nat) (vis : List Nat) (id : Nat) (hlt : id < n) (hnv : vis.contains id = false) :
    unvisited n (id :: vis) < unvisited n vis := by
  apply countP_lt_of_imp _ _ _ _ id (List.mem_range.2 hlt)
  · simp
  · have : ¬ id ∈ vis := by simpa using hnv
    simp [this]
  · intro x _ hx
    simp only [List.contains_cons, Bool.not_or, Bool.and_eq_true] at hx
    simpa using hx.2

/-- depth-first walk from a work list of items; returns the distinct compounds visited -/
def walk (h : Heap) : List Item → List Nat → List Nat
  | [], vis => vis
  | x :: w, vis =>
    match x.cid with
    | none => walk h w vis
    | some id =>
      if vis.contains id then walk h w vis
      else if id < h.length then walk h (chOf h id ++ w) (id :: vis)
      else walk h w (id :: vis)
termination_by w vis => (unvisited h.length vis, w.length)
decreasing_by
  · exact Prod.Lex.right _ (by simp)
  · exact Prod.Lex.right _ (by simp)
  · rename_i hnv hlt
    exact Prod.Lex.left _ _ (unvisited_cons_lt _ _ _ hlt (by simpa using hnv))
  · rcases Nat.lt_or_eq_of_le (unvisited_cons_le h.length vis id) with hl | he
    · exact Prod.Lex.left _ _ hl
    · rw [he]; exact Prod.Lex.right _ (by simp)

/-- Σ over the visited compounds of their number of children -/
def childSum (h : Heap) (ids : List Nat) : Nat := (ids.map (fun i => (chOf h i).length)).sum

/-- what is reachable from the root references `roots`: the roots themselves plus the children of
every distinct compound reachable from them -/
def reachFrom (h : Heap) (roots : List Item) : Nat := roots.length + childSum h (walk h roots [])

/-- no compound contains itself, directly or through other compounds: some rank strictly decreases
along "is a child of" (garbage included: a cycle that was ever built stays in the heap) -/
def Acyclic (h : Heap) : Prop :=
  ∃ rank : Nat → Nat, ∀ j, ∀ x ∈ chOf h j, ∀ d, x.cid = some d → rank d < rank j

end NeoModel.VmAcct
