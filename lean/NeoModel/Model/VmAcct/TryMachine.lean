/-
C12 accounting model, part 4: try stacks and the search for the exception handler.

Every context (frame) of the real VM has a stack of exception-handling contexts (vm.go TRY / ENDTRY /
ENDFINALLY, `handleException` vm.go:1978-2007). With them in the model, the outcome of exception
unwinding — how many contexts are unloaded and whether the handler is a CATCH — is COMPUTED by the
model (`findHandler`) instead of being read off the real VM, and the FAULT "maximum TRY depth exceeded"
is predicted. `tstep` = bookkeeping of the try stacks + `gasStep` with the computed unwinding outcome.
Core Lean only.
-/
import NeoModel.Model.VmAcct.GasMachine
namespace NeoModel.VmAcct

inductive TState where | try_ | catch_ | finally_
deriving DecidableEq, Repr, Inhabited

/-- `exceptionHandlingContext`: has a catch / finally block, state -/
structure TryE where
  hasCatch : Bool
  hasFinally : Bool
  state : TState := .try_
deriving Repr, Inhabited

def maxTryNestingDepth : Nat := 16

/-- vm.go:1983 `ectx.State == eFinally || (ectx.State == eCatch && !ectx.HasFinally())` -/
def TryE.finished (e : TryE) : Bool := e.state == .finally_ || (e.state == .catch_ && !e.hasFinally)

/-- the finished entries on top of a try stack are popped while the handler is searched -/
def dropFin : List TryE → List TryE
  | [] => []
  | e :: es => if e.finished then dropFin es else e :: es

/-- `handleException`: try stacks of the contexts, current first; `k` contexts examined so far have no
handler. Result: number of contexts to unload, CATCH (exception pushed) or FINALLY, the try stacks of
the remaining contexts with the handler's state updated. -/
def findHandler : List (List TryE) → Nat → Option (Nat × Bool × List (List TryE))
  | [], _ => none
  | t :: ts, k =>
    match dropFin t with
    | [] => findHandler ts (k + 1)
    | e :: es =>
      if e.state == .try_ && e.hasCatch then some (k, true, ({ e with state := .catch_ } :: es) :: ts)
      else some (k, false, ({ e with state := .finally_ } :: es) :: ts)

/-- the try-related kind of an instruction (the accounting `Op` has no operand for them) -/
inductive TOp where
  | other
  | try_ (hasCatch hasFinally : Bool)      -- TRY / TRY_L: which of the two offsets are present
  | endtry
deriving Repr, Inhabited

structure TSt where
  g : GSt := {}
  tries : List (List TryE) := [[]]        -- one try stack per frame, current first
deriving Inhabited

def Op.mayRaise : Op → Bool
  | .throw_ | .endfinally => true
  | .s (.setitem _) | .s (.pickitem _) => true
  | _ => false

/-- does the instruction raise a catchable exception in this state? -/
def raises (s : St) (op : Op) : Bool :=
  op.mayRaise && (match exec op s with | some r => r.raised.isSome | none => false)

def modifyHead (f : List TryE → List TryE) : List (List TryE) → List (List TryE)
  | [] => []
  | t :: ts => f t :: ts

def Op.isNop : Op → Bool
  | .nop => true
  | _ => false

/-- TRY / ENDTRY are plain instructions for the accounting machine (`.nop`); any other pairing of the
try-kind with an instruction does not correspond to an opcode and is a FAULT of the model -/
def topBad (op : Op) (top : TOp) : Bool :=
  match top with
  | .other => false
  | _ => !op.isNop

/-- FAULTs of TRY / ENDTRY / ENDFINALLY themselves -/
def tryBad (t : TSt) (op : Op) (top : TOp) : Bool :=
  let cur := t.tries.headD []
  match top, op with
  | .try_ _ _, _ => decide (cur.length ≥ maxTryNestingDepth)                       -- vm.go:1843
  | .endtry, _ => (match cur with | [] => true | e :: _ => e.state == .finally_)   -- vm.go:1859-1862
  | .other, .endfinally => t.g.s.uncaught.isNone && cur.isEmpty                     -- Pop of an empty stack
  | _, _ => false

/-- the try stacks after an instruction that did not raise -/
def triesAfter (tr : List (List TryE)) (op : Op) (top : TOp) : List (List TryE) :=
  match top, op with
  | .try_ c f, _ => modifyHead (fun st => { hasCatch := c, hasFinally := f } :: st) tr
  | .endtry, _ => modifyHead (fun st => match st with
      | e :: es => if e.hasFinally then { e with state := .finally_ } :: es else es
      | [] => []) tr
  | .other, .endfinally => modifyHead (fun st => st.drop 1) tr
  | .other, .call _ => [] :: tr
  | .other, .load _ _ => [] :: tr
  | .other, .ret => tr.drop 1
  | _, _ => tr

/-- one instruction: FAULTs of the try machinery, the handler search if the instruction raises, the
instruction itself with gas (`gasStep`), the update of the try stacks -/
def tstep (t : TSt) (b : Nat) (op : Op) (top : TOp) (burn : Nat) (ext : Bool) : Option (TSt × Option (Nat × Bool)) :=
  if topBad op top || tryBad t op top then none else
  if raises t.g.s op then
    match findHandler t.tries 0 with
    | none => none                                                                    -- unhandled exception
    | some (k, c, tr') =>
      match gasStep t.g b op burn (some (k, c)) ext with
      | none => none
      | some g' => some ({ g := g', tries := tr' }, some (k, c))
  else
    match gasStep t.g b op burn none ext with
    | none => none
    | some g' => some ({ g := g', tries := triesAfter t.tries op top }, none)

end NeoModel.VmAcct
