/-
C12 accounting model, part 3: gas.

The accounting machine (`Machine.lean`) together with the gas counter of the real VM, so that the
FAULT "gas limit exceeded" is PREDICTED by the model instead of being told by the harness:
vm.go:740-746 (`execute`: the price of the opcode is added, then compared, before the instruction
runs) and vm.go:262-270 (`addPicoGasInternal`, through which a SYSCALL handler charges: add, then
compare). Units: picoGAS; the observable `GasConsumed()` is ⌈picoGAS / 10000⌉ datoshi (vm.go:214).
The opcode byte comes with every instruction (the harness prints the mnemonic, the driver looks the
byte up in the regenerated table), `burn` is what the SYSCALL handler of the harness charges.
Core Lean only.
-/
import NeoModel.Model.VmAcct.Machine
import NeoModel.Model.VmAcct.Gas
namespace NeoModel.VmAcct
open NeoModel.VmGas

structure GSt where
  s : St := St.init
  gas : Nat := 0               -- picoGAS consumed (`v.gasConsumed`)
  limit : Option Nat := none   -- `v.gasLimit` in picoGAS; `none` = unlimited (a negative limit)
  base : Nat := 0              -- price of one coefficient unit, picoGAS
deriving Inhabited

/-- `v.gasLimit >= 0 && v.gasConsumed > v.gasLimit` -/
def overLimit (limit : Option Nat) (gas : Nat) : Bool :=
  match limit with
  | some l => decide (gas > l)
  | none => false

def isAbortOp (b : Nat) : Bool := b == opABORT || b == opABORTMSG

/-- one instruction with gas: charge the opcode price and compare (FAULT) BEFORE the instruction,
run it (`step`), then the handler's own charge with its own comparison. ABORT / ABORTMSG always
fault. -/
def gasStep (g : GSt) (b : Nat) (op : Op) (burn : Nat) (unw : Option (Nat × Bool)) (ext : Bool) : Option GSt :=
  let gas1 := g.gas + g.base * coeff b                       -- vm.go:741-742
  if overLimit g.limit gas1 then none else                   -- vm.go:743
  if isAbortOp b then none else
  match step g.s op unw ext with
  | none => none
  | some s' =>
    let gas2 := gas1 + burn                                  -- addPicoGasInternal: add …
    if overLimit g.limit gas2 then none else                 -- … then compare
    some { g with s := s', gas := gas2 }

/-- `GasConsumed()`: datoshi, rounded up (vm.go:214, PicoGasToDatoshi) -/
def GSt.datoshi (g : GSt) : Nat := (g.gas + Generated.Opcodes.execFeeFactorMultiplier - 1) / Generated.Opcodes.execFeeFactorMultiplier

/-- opcode byte of a mnemonic (regenerated table); 256 (price 0) for anything unknown -/
def byteOfName (name : String) : Nat :=
  match Generated.Opcodes.table.find? (fun e => e.2.1 == name) with
  | some e => e.1
  | none => 256

end NeoModel.VmAcct
