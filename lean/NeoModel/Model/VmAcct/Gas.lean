/-
C12, termination and gas: an abstract priced machine.

Only what decides termination is kept: the gas consumed so far, the invocation depth, the status.
One step is vm.go:727-747 (`execute`): the price of the opcode is ADDED FIRST and compared with the
limit (`gasConsumed > gasLimit` ⇒ panic ⇒ FAULT), then the instruction runs; what it does to the
data is unknown here and given from outside as an `Eff`ect, constrained by `Eff.okFor`:
  * only RET (explicit, or implicit at the end of the script, where no price is charged) can lower
    the depth without paying; at depth 1 it halts the VM;
  * SYSCALL has opcode price 0, its handler charges `c` (pkg/core/interop: every interop has a
    price; assumption `1 ≤ c`) through AddGas, which compares with the limit again;
  * ABORT / ABORTMSG (price 0) always fault; any instruction may fault;
  * everything else has price ≥ 1 (`price_pos`, decided over the regenerated table) and may change
    the depth arbitrarily within 1 … MaxInvocationStackSize (CALL*, exception unwinding).
Core Lean only.
-/
import NeoModel.Generated.Opcodes
namespace NeoModel.VmGas

inductive Status where | running | halt | fault
deriving DecidableEq, Repr, Inhabited

structure G where
  gas : Nat := 0
  depth : Nat := 1
  status : Status := .running
deriving Repr, Inhabited

structure Cfg where
  limit : Nat          -- gas limit, picoGAS (SetGasLimit ≥ 0)
  base : Nat           -- price of one coefficient unit, picoGAS (getPrice = fee.Opcode(base, op))
deriving Repr

def maxDepth : Nat := Generated.Opcodes.maxInvocationStackSize

def coeff (op : Nat) : Nat := Generated.Opcodes.prices.getD op 0
def isValidOp (op : Nat) : Bool := Generated.Opcodes.table.any (fun e => e.1 == op)

def opRET : Nat := 0x40
def opSYSCALL : Nat := 0x41
def opABORT : Nat := 0x38
def opABORTMSG : Nat := 0xe0

inductive Eff where
  | cont (depth : Nat)            -- the instruction completed, new invocation depth
  | ret                           -- RET
  | sys (charge : Nat) (depth : Nat)
  | fault
deriving Repr, Inhabited

/-- which effects an opcode can have -/
def Eff.okFor (op : Nat) : Eff → Prop
  | .fault => True
  | .ret => op = opRET
  | .sys c d => op = opSYSCALL ∧ 1 ≤ c ∧ 1 ≤ d ∧ d ≤ maxDepth
  | .cont d => isValidOp op = true ∧ op ≠ opRET ∧ op ≠ opSYSCALL ∧ op ≠ opABORT ∧ op ≠ opABORTMSG ∧ 1 ≤ d ∧ d ≤ maxDepth

def fault (g : G) (gas : Nat) : G := { g with gas := gas, status := .fault }

def gstep (cfg : Cfg) (g : G) (op : Nat) (e : Eff) : G :=
  match g.status with
  | .halt | .fault => g
  | .running =>
    let gas := g.gas + cfg.base * coeff op             -- vm.go:742
    if gas > cfg.limit then fault g gas else            -- vm.go:743
    match e with
    | .fault => fault g gas
    | .cont d => { g with gas := gas, depth := d }
    | .ret => if g.depth ≤ 1 then { gas := gas, depth := 0, status := .halt } else { g with gas := gas, depth := g.depth - 1 }
    | .sys c d => if gas + c > cfg.limit then fault g (gas + c) else { g with gas := gas + c, depth := d }

/-- a schedule: the opcode executed at step `n` and what it does -/
abbrev Sched := Nat → Nat × Eff

def run (cfg : Cfg) (sch : Sched) : Nat → G → G
  | 0, g => g
  | n + 1, g => run cfg (fun k => sch (k + 1)) n (gstep cfg g (sch 0).1 (sch 0).2)

end NeoModel.VmGas

/-! ### the instruction cycle as an ordered list of phases

`gstep` above is vm.go's `execute` written as one expression. The same function, written as the
interpretation of an ORDERED list of phases, so that the order itself is a value that can be compared
with the order regenerated from the source (Generated/VmOrder.lean `executeSeq`,
Proofs/VmAcctOrder.lean `order_eq_table`, `gstep_eq_order`). -/
namespace NeoModel.VmGas

inductive Phase where
  | price        -- p := v.getPrice(op, parameter)                    vm.go:741
  | add          -- v.gasConsumed += p                                vm.go:742
  | compare      -- if gasLimit >= 0 && gasConsumed > gasLimit: panic vm.go:743
  | pushint      -- `if op <= PUSHINT256 { push; return }`            vm.go:748
  | dispatch     -- `switch op { … }`                                 vm.go:753
  | recover      -- deferred: a panic becomes FAULT                   vm.go:730
  | sizeCheck    -- deferred, only without a panic: refs > MaxStackSize ⇒ FAULT  vm.go:733
deriving DecidableEq, Repr

def Phase.name : Phase → String
  | .price => "gas-price" | .add => "gas-add" | .compare => "gas-compare"
  | .pushint => "dispatch-pushint" | .dispatch => "dispatch"
  | .recover => "deferred:recover" | .sizeCheck => "deferred:size-check"

/-- the order in which `execute` goes through the phases -/
def order : List Phase := [.price, .add, .compare, .pushint, .dispatch, .recover, .sizeCheck]

/-- what the body of the instruction does to (gas, depth, status); a SYSCALL handler's own charge goes
through AddGas (`addPicoGasInternal`: add, then compare) -/
def applyEff (cfg : Cfg) (g : G) : Eff → G
  | .fault => { g with status := .fault }
  | .cont d => { g with depth := d }
  | .ret => if g.depth ≤ 1 then { g with depth := 0, status := .halt } else { g with depth := g.depth - 1 }
  | .sys c d => if g.gas + c > cfg.limit then { g with gas := g.gas + c, status := .fault } else { g with gas := g.gas + c, depth := d }

structure PS where
  g : G
  price : Nat := 0

def opPUSHINT256 : Nat := 0x05

def runPhase (cfg : Cfg) (op : Nat) (e : Eff) : Phase → PS → PS
  | .price, s => { s with price := cfg.base * coeff op }
  | .add, s => { s with g := { s.g with gas := s.g.gas + s.price } }
  | .compare, s => if s.g.gas > cfg.limit then { s with g := { s.g with status := .fault } } else s
  | .pushint, s => if op ≤ opPUSHINT256 then { s with g := applyEff cfg s.g e } else s
  | .dispatch, s => if op ≤ opPUSHINT256 then s else { s with g := applyEff cfg s.g e }
  | .recover, s => s       -- the panic of an instruction is already the status FAULT of `applyEff`
  | .sizeCheck, s => s     -- the item counter is not part of this machine (VmAcct.step has it, last)

/-- one instruction cycle for an arbitrary order of the phases; a phase runs only while the machine
is still running (a panic skips the rest of the body; the deferred phases change nothing here) -/
def gstepWith (ord : List Phase) (cfg : Cfg) (g : G) (op : Nat) (e : Eff) : G :=
  match g.status with
  | .halt | .fault => g
  | .running => (ord.foldl (fun s ph => if s.g.status = .running then runPhase cfg op e ph s else s) ({ g := g } : PS)).g

end NeoModel.VmGas
