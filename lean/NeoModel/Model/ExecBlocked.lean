/-
C04 (finding blocked-list-stale-index, fixed in /repo by cf4871f): the cache side of Policy.blockAccount as coded.

policy.go keeps the blocked accounts twice: as storage items (one per account; the Exec model's `blockTab`)
and as a SORTED slice in the Policy cache, searched with slices.BinarySearchFunc (isBlockedInternal).
BlockAccountInternalDeferrable (policy.go): NEO.RevokeVotesDeferrable pays the account's pending GAS reward with
an onNEP17Payment callback, i.e. runs contract code when the account is a contract, before the continuation
inserts the account. `cb` below is what that callback does to the list. Before cf4871f the insertion position
was computed before the callback (`blockStale`); now it is computed in the continuation (`blockCoded`).
Core Lean only.
-/
namespace NeoModel.Exec.Blocked

/-- slices.BinarySearchFunc(l, x, compare): the loop of the Go standard library, with fuel. -/
def bsLoop (l : List Nat) (x : Nat) : Nat → Nat → Nat → Nat
  | 0, i, _ => i
  | fuel + 1, i, j =>
    if i < j then
      let h := (i + j) / 2
      if l.getD h 0 < x then bsLoop l x fuel (h + 1) j else bsLoop l x fuel i h
    else i

def bsearch (l : List Nat) (x : Nat) : Nat × Bool :=
  let i := bsLoop l x (l.length + 1) 0 l.length
  (i, decide (i < l.length) && l.getD i 0 == x)

/-- Policy.isBlocked as the node answers it (from the cache). -/
def isBlocked (l : List Nat) (x : Nat) : Bool := (bsearch l x).2

/-- the cache update of the continuation (policy.go):
    `if len(l) == i { l = append(l, x) } else { l = append(l[:i+1], l[i:]...); l[i] = x }`. -/
def insertAt (l : List Nat) (i x : Nat) : List Nat :=
  if l.length = i then l ++ [x] else (l.take (i + 1) ++ l.drop i).set i x

/-- BlockAccountInternalDeferrable on the cache, as coded since cf4871f: the account is looked up first (blocked
    already => `false`); votes are revoked (the callback `cb` may change the list); the CONTINUATION takes the
    RW cache, looks the account up again (blocked meanwhile => `false`) and inserts it at that fresh position. -/
def blockCoded (cb : List Nat → List Nat) (l : List Nat) (x : Nat) : List Nat :=
  if (bsearch l x).2 then l else
  let l' := cb l
  let (i, found) := bsearch l' x
  if found then l' else insertAt l' i x

/-- the rule BEFORE cf4871f (kept as a regression example, known finding blocked-list-stale-index): the position
    computed before the callback was used after it. -/
def blockStale (cb : List Nat → List Nat) (l : List Nat) (x : Nat) : List Nat :=
  let (i, found) := bsearch l x
  if found then l else insertAt (cb l) i x

/-- Policy.unblockAccount on the cache: `if !found { return false }; l = append(l[:i], l[i+1:]...)`. -/
def unblockCoded (l : List Nat) (x : Nat) : List Nat :=
  let (i, found) := bsearch l x
  if found then l.take i ++ l.drop (i + 1) else l

/-- storage: one item per blocked account. -/
def blockStore (cb : List Nat → List Nat) (s : List Nat) (x : Nat) : List Nat :=
  if x ∈ s then s else x :: cb s

def Sorted (l : List Nat) : Prop := l.Pairwise (· < ·)

end NeoModel.Exec.Blocked
