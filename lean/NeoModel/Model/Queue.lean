/-
C20 (a) — model of `/repo/pkg/network/bqueue/queue.go` as written.

`Queue[Q]` is a ring of `cacheSize` slots indexed by `index % cacheSize` (queue.go:62-64), a hint
`lastQ`, a counter `len`, a one-slot signal channel `checkBlocks`, and one consumer goroutine `Run`.
Every step below is one critical section of the Go code (a `queueLock` section, one call of the
chain's `Height()` / `AddItem()`, or one channel operation); theorems quantify over arbitrary
interleavings of these steps.

  Put (queue.go:151-204)   h := chain.Height()  — outside the lock, so the value used inside the lock
                            may be stale: modelled by the parameter `hr ≤ height` of `put`.
                            Blocking mode (queue.go:167-181) only re-reads `h` until the element is
                            inside the window and then runs the same section: it is `put e hr'` for
                            another stale `hr'`, hence covered.
  Run (queue.go:92-148)     pc `init` → lastHeight := Height()           (l.93)
                            pc `wait` → `<-checkBlocks`                   (l.95-98)
                            pc `top`  → h := Height()                     (l.100)
                            pc `haveH h` → lock; b := queue[pos(h+1)]; clean-up loop; unlock (l.101-113)
                            pc `holding b pos` → chain.AddItem(b)          (l.119)
                            pc `added b pos`   → lock; if slot still b: clear it, len--; unlock (l.130-136)
  chain                     a height; `AddItem b` succeeds iff `b.ok ∧ b.idx = height+1`
                            (Blockchain.AddBlock, blockchain.go:1830-1836); `adv` = a block added by
                            another writer of the same chain (another queue, RPC submitblock, …).
  Discard (queue.go:215-226)

Indices are `Nat` (the code uses uint32; overflow of `h+1`, `h+cacheSize` is outside the model).
Core Lean only.
-/
namespace NeoModel.Queue

/-- A queued element: its index, an identity tag (Go compares elements with `==`, i.e. pointer
identity for `*block.Block`), and whether the chain would accept it at its turn. -/
structure Elem where
  idx : Nat
  tag : Nat
  ok  : Bool
deriving DecidableEq, Repr

inductive Pc
  | init
  | wait
  | top
  | haveH (h : Nat)
  | holding (b : Elem) (pos : Nat)
  | added (b : Elem) (pos : Nat)
  | done
deriving DecidableEq, Repr

/-- Chain events, oldest first: an `AddItem` call of `Run` with its outcome, or a block added by
another writer. -/
inductive Ev
  | add (b : Elem) (ok : Bool)
  | ext (idx : Nat)
deriving DecidableEq, Repr

structure State where
  cap : Nat
  ring : Nat → Option Elem
  lastQ : Nat
  len : Int
  height : Nat
  lastHeight : Nat
  pc : Pc
  signal : Bool
  discarded : Bool
  log : List Ev

def init (cap h0 : Nat) : State :=
  { cap := cap, ring := fun _ => none, lastQ := 0, len := 0, height := h0, lastHeight := 0,
    pc := .init, signal := false, discarded := false, log := [] }

/-- queue.go:62-64 -/
def posOf (cap i : Nat) : Nat := i % cap

def setSlot (ring : Nat → Option Elem) (p : Nat) (v : Option Elem) : Nat → Option Elem :=
  fun q => if q = p then v else ring q

/-- queue.go:187-190: `for pos < cacheSize && queue[pos] != nil && lastQ+1 == queue[pos].GetIndex()`
(no wrap-around of `pos`). `fuel` = cacheSize. -/
def advLastQ (cap : Nat) (ring : Nat → Option Elem) : Nat → Nat → Nat → Nat
  | 0, _, lq => lq
  | fuel + 1, pos, lq =>
    if pos < cap then
      match ring pos with
      | some x => if lq + 1 = x.idx then advLastQ cap ring fuel (pos + 1) x.idx else lq
      | none => lq
    else lq

/-- queue.go:184: "If we already have it, keep the old element, throw away the new one":
the slot is written iff it is empty or holds an element with a smaller index. -/
def keepsOld (slot : Option Elem) (e : Elem) : Bool :=
  match slot with
  | none => false
  | some old => !decide (old.idx < e.idx)

/-- The slot write of `Put` (queue.go:184-193): `len` counts the element only if the slot was empty (3d50aab:
the replacement of a stale element is not counted again). -/
def insert (s : State) (e : Elem) : State :=
  let pos := posOf s.cap e.idx
  let ring' := setSlot s.ring pos (some e)
  { s with ring := ring', len := if (s.ring pos).isSome then s.len else s.len + 1,
           lastQ := advLastQ s.cap ring' s.cap pos s.lastQ, signal := true }

/-- The critical section of `Put` (queue.go:153-204) with the height `hr` read before the lock. -/
def put (s : State) (e : Elem) (hr : Nat) : State :=
  if s.discarded then s                       -- l.155
  else if e.idx ≤ hr then s                   -- l.160
  else if hr + s.cap < e.idx then s           -- l.163 (NonBlocking: drop)
  else if keepsOld (s.ring (posOf s.cap e.idx)) e then
    { s with signal := true }                 -- l.196-201 signal even if the element was dropped
  else insert s e

/-- queue.go:103-109: `for i := lastHeight; i < h; i++ { old := pos(i+1); if queue[old] != nil &&
queue[old].GetIndex() == i+1 { len--; queue[old] = nil } }` (3d50aab: `i+1`, the index that lives in that
slot); `n` = remaining iterations. -/
def cleanup (cap : Nat) : Nat → Nat → (Nat → Option Elem) → Int → (Nat → Option Elem) × Int
  | 0, _, ring, len => (ring, len)
  | n + 1, i, ring, len =>
    let old := posOf cap (i + 1)
    match ring old with
    | some x => if x.idx = i + 1 then cleanup cap n (i + 1) (setSlot ring old none) (len - 1)
                else cleanup cap n (i + 1) ring len
    | none => cleanup cap n (i + 1) ring len

/-- The chain's `AddItem` (Blockchain.AddBlock: index must be height+1, block must verify). -/
def accepts (height : Nat) (b : Elem) : Bool := b.ok && b.idx == height + 1

/-- queue.go:93 `var lastHeight = bq.chain.Height()` -/
def start (s : State) : State := { s with lastHeight := s.height, pc := .wait }

/-- queue.go:95-98 `_, ok := <-bq.checkBlocks` (a buffered signal is received before the close is seen). -/
def wake (s : State) : State :=
  if s.signal then { s with signal := false, pc := .top }
  else if s.discarded then { s with pc := .done }
  else s

/-- queue.go:100 `h := bq.chain.Height()` (outside the lock). -/
def readH (s : State) : State := { s with pc := .haveH s.height }

/-- queue.go:99-120: `pos := pos(h+1)`; lock; `b := queue[pos]`; clean-up loop; unlock; `lastHeight = h`;
`if b == nil break`; `if b.GetIndex() > h+1 continue` (the chain moved on since `h` was read and the slot holds
an element of the new window: it is not offered, the height is read again). -/
def lockSection (s : State) (h : Nat) : State :=
  let pos := posOf s.cap (h + 1)
  let r := cleanup s.cap (h - s.lastHeight) s.lastHeight s.ring s.len
  { s with ring := r.1, len := r.2, lastHeight := h,
           pc := match s.ring pos with
                 | none => .wait
                 | some b => if b.idx > h + 1 then .top else .holding b pos }

/-- queue.go:119 `err := bq.chain.AddItem(b)` (the error is only logged). -/
def addItem (s : State) (b : Elem) (pos : Nat) : State :=
  { s with height := if accepts s.height b then s.height + 1 else s.height,
           log := s.log ++ [.add b (accepts s.height b)],
           pc := .added b pos }

/-- queue.go:130-136: lock; `if queue[pos] == b { queue[pos] = nil; len-- }`; unlock (6d1ab5f: `len` is counted
down only when the slot still holds the applied element; a replacement took over its count). -/
def finish (s : State) (b : Elem) (pos : Nat) : State :=
  { s with len := if s.ring pos = some b then s.len - 1 else s.len,
           ring := if s.ring pos = some b then setSlot s.ring pos none else s.ring,
           pc := .top }

/-- One step of the `Run` goroutine. -/
def runStep (s : State) : State :=
  match s.pc with
  | .init => start s
  | .wait => wake s
  | .top => readH s
  | .haveH h => lockSection s h
  | .holding b pos => addItem s b pos
  | .added b pos => finish s b pos
  | .done => s

/-- A block added to the chain by another writer. -/
def chainAdvance (s : State) : State :=
  { s with height := s.height + 1, log := s.log ++ [.ext (s.height + 1)] }

/-- queue.go:215-226 -/
def discard (s : State) : State :=
  if s.discarded then s
  else { s with discarded := true, ring := fun _ => none, len := 0 }

/-- queue.go:208-212 -/
def lastQueued (s : State) : Nat × Int := (s.lastQ, (s.cap : Int) - s.len)

/-- queue.go `Notify` (aea938c): a non-blocking signal on `checkBlocks` unless the queue is discarded. It is
called by Server.relayBlocksLoop for every block the ledger reports (server.go:1832), i.e. some time after every
addition to the chain, whoever made it: a separate step that may come arbitrarily late. -/
def notify (s : State) : State := if s.discarded then s else { s with signal := true }

inductive Act
  | put (e : Elem) (hr : Nat)   -- `hr` is clipped to the current height (a read of a monotone counter)
  | run
  | adv
  | disc
  | notify                      -- Queue.Notify: the server heard of a block added to the ledger (aea938c)
deriving DecidableEq, Repr

def apply (s : State) : Act → State
  | .put e hr => put s e (min hr s.height)
  | .run => runStep s
  | .adv => chainAdvance s
  | .disc => discard s
  | .notify => notify s

def exec (s : State) : List Act → State
  | [] => s
  | a :: as => exec (apply s a) as

/-- Indices applied to the chain, oldest first (successful `AddItem`s and external additions). -/
def applied : List Ev → List Nat
  | [] => []
  | .add b true :: r => b.idx :: applied r
  | .add _ false :: r => applied r
  | .ext i :: r => i :: applied r

/-- `Run` executed alone for `n` steps. -/
def runN : Nat → State → State
  | 0, s => s
  | n + 1, s => runN n (runStep s)

/-- Let `Run` go on until it blocks on the channel (or exits); `fuel` bounds the steps. -/
def quiesce : Nat → State → State
  | 0, s => s
  | n + 1, s =>
    match s.pc with
    | .wait => if s.signal then quiesce n (runStep s) else if s.discarded then runStep s else s
    | .done => s
    | _ => quiesce n (runStep s)

def occupied (s : State) : Nat :=
  ((List.range s.cap).filter (fun p => (s.ring p).isSome)).length

end NeoModel.Queue
