/-
C03 — System.Storage.Get (point reads), live and historic.

  interop/storage/basic.go  Get: dao.GetStorageItem(ctx.ID, key), nil -> Null
  dao.go:390-397            GetStorageItem: Store.Get(makeStorageItemKey(id, key)), any error -> nil
  memcached_store.go:74-90  MemCachedStore.Get: the own maps first (a nil value = deleted), else ps.Get
  trie_store.go:36-52       TrieStore.Get: STStorage / STTempStorage keys read the trie, anything else is refused
Core Lean only.
-/
import NeoModel.Model.StateCommit.Find
import NeoModel.Model.Mpt.Proof
namespace NeoModel.StateCommit.Find
open NeoModel.Store (Layer layerSays)

/-- `Get` on a stack of MemCachedStores (outermost first) over a backend. -/
def layersGet (base : Bytes → Option Bytes) : List Layer → Bytes → Option Bytes
  | [], k => base k
  | L :: Ls, k =>
    match layerSays L k with
    | some (some v) => some v
    | some none => none
    | none => layersGet base Ls k

/-- mpt.MaxKeyLength (extension.go:20): (limits.MaxStorageKeyLen + 4) bytes = contract id ‖ longest key. -/
def maxKeyLength : Nat := 68

/-- trie_store.go:36-52 `TrieStore.Get` (`none` = ErrKeyNotFound, the unsupported-key error or the
"key too long" error of `Trie.Get`: all make `GetStorageItem` return nil). The length guard is the one of
`Trie.Get` (trie.go:78: `len(key) > MaxKeyLength`), applied to the key WITHOUT the storage prefix byte. -/
def trieStoreGet (t : Mpt.Node) (key : Bytes) : Option Bytes :=
  match key with
  | [] => none
  | b :: k' =>
    if b = 0x70 ∨ b = 0x71 then
      if k'.length > maxKeyLength then none else Mpt.lookup t (Mpt.toNibbles k')
    else none

/-- System.Storage.Get in a historic invocation: `none` = Null on the stack. -/
def getHistoric (t : Mpt.Node) (layers : List Layer) (sp : UInt8) (id : Nat) (key : Bytes) : Option Bytes :=
  layersGet (trieStoreGet t) layers (storageKey sp id key)

/-- … and on the live node. -/
def getLive (s : Store.Store) (sp : UInt8) (id : Nat) (key : Bytes) : Option Bytes :=
  s.get (storageKey sp id key)

/-- System.Storage.Get as the VM sees it: `none` = FAULT (`makeStorageItemKey` overflows the private DAO's
key buffer for a key of more than 64 bytes, dao.go:994-1000), `some none` = Null, `some (some v)` = the value. -/
def getSyscallHistoric (t : Mpt.Node) (layers : List Layer) (sp : UInt8) (id : Nat) (key : Bytes) : Option (Option Bytes) :=
  if keyBufOverflow key then none else some (getHistoric t layers sp id key)

def getSyscallLive (s : Store.Store) (sp : UInt8) (id : Nat) (key : Bytes) : Option (Option Bytes) :=
  if keyBufOverflow key then none else some (getLive s sp id key)

end NeoModel.StateCommit.Find
