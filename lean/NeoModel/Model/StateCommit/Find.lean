/-
C03 — System.Storage.Find: from the syscall's arguments to the sequence of items the iterator yields.

  find.go:93-135       findWithContext: option validity check, dao.SeekAsync, NewIterator
  find.go:49-91        Iterator.Next / Iterator.Value
  dao.go:436-449       SeekAsync, makeStorageItemKey
  memcached_store.go   SeekAsync / performSeek            (model: C09's `performSeek`, imported)
  trie_store.go:69-118 TrieStore.Seek                     (model: C10's `Mpt.seek` on nibble paths, imported)

The store under the DAO is a stack of MemCachedStore layers over a backend; the backend is a parameter
(`base`): the C09 store stack for the live node, `trieStoreSeek t` for a historic invocation against
the trie named by a state root. Core Lean only.
-/
import NeoModel.Model.Store.Spec
import NeoModel.Model.Mpt.Traverse
import NeoModel.Model.Wire.Item
import NeoModel.Generated.FindOpts
namespace NeoModel.StateCommit.Find
open NeoModel.Store (SeekRange KV KVE Layer SpecMap performSeek snapshot lowerRange overlay)
open NeoModel.Wire (Item)
open NeoModel.Generated

/-! ### the option word -/

/-- `big.Int.Int64()` (math/big: the low 64 bits of |x|, negated if x < 0, wrapping) as the unsigned
    64-bit pattern of the resulting int64 (find.go:95 `Pop().BigInt().Int64()`). -/
def int64Bits (x : Int) : Nat :=
  let m := x.natAbs % 2 ^ 64
  if x < 0 then (2 ^ 64 - m) % 2 ^ 64 else m

/-- `opts&f != 0`. -/
def has (u f : Nat) : Bool := (u &&& f) != 0

/-- the option checks of findWithContext (find.go:103-120) in source order: `none` = valid,
    `some i` = the i-th check (1-based) returned its error. -/
def checkOpts (u : Nat) : Option Nat :=
  if (u &&& (2 ^ 64 - 1 - FindOpts.findAll)) != 0 then some 1            -- opts&^FindAll != 0
  else if has u FindOpts.findKeysOnly &&
      has u (FindOpts.findDeserialize ||| FindOpts.findPick0 ||| FindOpts.findPick1) then some 2
  else if has u FindOpts.findValuesOnly &&
      has u (FindOpts.findKeysOnly ||| FindOpts.findRemovePrefix) then some 3
  else if has u FindOpts.findPick0 && has u FindOpts.findPick1 then some 4
  else if !has u FindOpts.findDeserialize && (has u FindOpts.findPick0 || has u FindOpts.findPick1) then some 5
  else none

/-! ### Iterator.Value -/

/-- `value.Value().([]stackitem.Item)[i]` (find.go:79-83): only Array and Struct carry `[]Item`;
    anything else, or a short array, panics. -/
def pick (i : Nat) : Item → Option Item
  | .array l => l[i]?
  | .struct l => l[i]?
  | _ => none

/-- `stackitem.Deserialize` (serialization.go:252-259): one item, trailing bytes ignored. -/
def deserialize (b : Bytes) : Option Item := (Item.decode false b).map (·.1)

/-- find.go:58-91 `Iterator.Value` for the element `(k, v)` the seek channel delivered (the key is
    already cut by `5 + len(prefix)` bytes); `none` = panic (the VM faults). -/
def iterValue (u : Nat) (pfx : Bytes) (k v : Bytes) : Option Item :=
  let key := if has u FindOpts.findRemovePrefix then k else pfx ++ k
  if has u FindOpts.findKeysOnly then some (.byteArray key)
  else
    let value? := if has u FindOpts.findDeserialize then deserialize v else some (.byteArray v)
    match value? with
    | none => none
    | some value =>
      let picked? :=
        if has u FindOpts.findPick0 then pick 0 value
        else if has u FindOpts.findPick1 then pick 1 value
        else some value
      match picked? with
      | none => none
      | some value =>
        if has u FindOpts.findValuesOnly then some value
        else some (.struct [.byteArray key, value])

/-! ### keys and the store stack -/

/-- little-endian uint32. -/
def le32 (n : Nat) : Bytes := Wire.leBytes 4 n

/-- dao.go:442-449 `makeStorageItemKey`: storage prefix, `uint32(id)` little-endian, key. -/
def storageKey (sp : UInt8) (id : Nat) (key : Bytes) : Bytes := sp :: (le32 id ++ key)

/-- `Seek` on a stack of MemCachedStores (outermost first) over a backend, never stopped. -/
def layersSeek (base : SeekRange → List KV) : List Layer → SeekRange → List KV
  | [], rng => base rng
  | L :: Ls, rng => performSeek (layersSeek base Ls (lowerRange rng)) (snapshot L rng) rng false 0

/-- `SeekAsync(ctx, rng, cutPrefix = true)` on the top store, the channel drained to the end
    (dao.Store is always a MemCachedStore: the `[]` case does not occur and cuts nothing). -/
def layersSeekAsync (base : SeekRange → List KV) : List Layer → SeekRange → List KV
  | [], rng => base rng
  | L :: Ls, rng => performSeek (layersSeek base Ls (lowerRange rng)) (snapshot L rng) rng true 0

/-- trie_store.go:69-118 `TrieStore.Seek` on byte keys: the first byte of the prefix must be
    STStorage/STTempStorage (otherwise the Go code panics; no caller does that: model `[]`), the rest
    and `Start` go to nibbles, every result key is `rng.Prefix ++ fromNibbles(path below the prefix)`. -/
def trieStoreSeek (t : Mpt.Node) (rng : SeekRange) : List KV :=
  match rng.pfx with
  | [] => []
  | sp :: p =>
    if sp ≠ 0x70 ∧ sp ≠ 0x71 then []
    else
      (Mpt.seek t (Mpt.toNibbles p) (Mpt.toNibbles rng.start) rng.bw).map
        fun e => (rng.pfx ++ Mpt.fromNibbles e.1, e.2)

/-! ### the syscall -/

inductive Out where
  | invalid (check : Nat)      -- errFindInvalidOptions from the check with this index
  | fault                      -- a panic inside Iterator.Value while draining the iterator
  | ok (items : List Item)
  deriving Inhabited

/-- the items `Iterator.Value` yields for the delivered pairs, in order; a panic faults the VM. -/
def drain (u : Nat) (pfx : Bytes) (kvs : List KV) : Option (List Item) :=
  kvs.mapM fun kv => iterValue u pfx kv.1 kv.2

/-- dao.go:994-1000 `getKeyBuf` in a private DAO (every invocation's DAO is private): the key buffer has
capacity 1 + 4 + limits.MaxStorageKeyLen and `makeStorageItemKey` slices it to `5 + len(key)`: a key or
prefix of more than 64 bytes panics ("slice bounds out of range"), the VM faults. -/
def keyBufOverflow (key : Bytes) : Bool := key.length > 64

/-- find.go:93-135 + draining the iterator with Next/Value to the end. `seekAsync` is the DAO's
    store; `sp` = dao.Version.StoragePrefix; `id` = uint32(contract id). -/
def find (seekAsync : SeekRange → List KV) (sp : UInt8) (id : Nat) (pfx : Bytes) (opts : Int) : Out :=
  let u := int64Bits opts
  match checkOpts u with
  | some i => .invalid i
  | none =>
    if keyBufOverflow pfx then .fault        -- dao.SeekAsync -> makeStorageItemKey (after the option checks)
    else
    let rng : SeekRange :=
      { pfx := storageKey sp id pfx, start := [], bw := has u FindOpts.findBackwards, depth := 0 }
    match drain u pfx (seekAsync rng) with
    | none => .fault
    | some l => .ok l

/-- a historic invocation (blockchain.go:3347-3348 + interop.NewContext): `layers` (at least the
    DAO's own MemCachedStore, plus private layers of the invocation, which hold its own writes)
    over `TrieStore` of the trie named by the state root. -/
def findHistoric (t : Mpt.Node) (layers : List Layer) (sp : UInt8) (id : Nat) (pfx : Bytes) (opts : Int) : Out :=
  find (layersSeekAsync (trieStoreSeek t) layers) sp id pfx opts

/-- the live node: the DAO's store is a C09 store stack. -/
def findLive (s : Store.Store) (sp : UInt8) (id : Nat) (pfx : Bytes) (opts : Int) : Out :=
  find (fun rng => s.seekObs rng true 0) sp id pfx opts

end NeoModel.StateCommit.Find
