/-
C03 — stateroot.Module: the per-height state root records.

  stateroot/store.go:24-57    addLocalStateRoot, putStateRoot, getStateRoot, makeStateRootKey
  stateroot/module.go:129-131 GetStateRoot
  stateroot/module.go:177-202 Init                (restart)
  stateroot/module.go:236-297 ResetState
  stateroot/module.go:336-364 AddMPTBatch, UpdateCurrentLocal
  state/mpt_root.go:25-56     MPTRoot encoding

The DataMPTAux part of the node's store is an association list; the trie implementation is a
parameter (`AuthMap`, as in Model/StateCommit.lean) together with its root hash function; re-opening a
trie from a root hash (`mpt.NewTrie(NewHashNode(root))`) is `reopen`. Core Lean only.
-/
import NeoModel.Model.StateCommit
import NeoModel.Model.Store
import NeoModel.Model.Wire.VarUint
namespace NeoModel.StateCommit.Roots
open NeoModel.Store (lexLt lexLe)

abbrev KVs := List (Bytes × Bytes)

def kvGet (s : KVs) (k : Bytes) : Option Bytes := s.lookup k
def kvDel (s : KVs) (k : Bytes) : KVs := s.filter fun e => e.1 != k
def kvPut (s : KVs) (k v : Bytes) : KVs := (k, v) :: kvDel s k

/-- storage.DataMPTAux. -/
def dataMPTAux : UInt8 := 0x04
/-- store.go:19-22. -/
def prefixLocal : UInt8 := 0x02
def prefixValidated : UInt8 := 0x03

/-- binary.BigEndian.PutUint32. -/
def be32 (n : Nat) : Bytes :=
  [UInt8.ofNat (n / 2 ^ 24 % 256), UInt8.ofNat (n / 2 ^ 16 % 256), UInt8.ofNat (n / 2 ^ 8 % 256), UInt8.ofNat (n % 256)]
def le32 (n : Nat) : Bytes := Wire.leBytes 4 n

/-- store.go:53-58 `makeStateRootKey`. -/
def rootKey (h : Nat) : Bytes := dataMPTAux :: be32 h
def localKey : Bytes := [dataMPTAux, prefixLocal]
def validatedKey : Bytes := [dataMPTAux, prefixValidated]

/-- `state.MPTRoot` (Version is always 0); `wit` is the encoded witness array (`[0]` = none). -/
structure Rec where
  index : Nat
  root : Bytes
  wit : Bytes
  deriving DecidableEq, Repr

/-- mpt_root.go:33-56 `EncodeBinary`. -/
def encRec (r : Rec) : Bytes := 0 :: (le32 r.index ++ (r.root ++ r.wit))

/-- mpt_root.go:25-49 `DecodeBinary` (the witness array is kept encoded). -/
def decRec (b : Bytes) : Option Rec :=
  match b with
  | [] => none
  | _ :: rest =>
    if rest.length < 36 then none
    else some { index := Wire.leVal (rest.take 4), root := (rest.drop 4).take 32, wit := rest.drop 36 }

/-- store.go:24-32 `addLocalStateRoot`. -/
def addLocalStateRoot (s : KVs) (sr : Rec) : KVs :=
  kvPut (kvPut s (rootKey sr.index) (encRec sr)) localKey (le32 sr.index)

/-- the trie side: an `AuthMap` with its root hash and the re-opening of a trie from a root hash. -/
structure TrieOps (T : Type) where
  M : AuthMap T
  rootOf : T → Bytes
  reopen : Bytes → T
  /-- the state root of the empty trie is the zero hash (trie.go StateRoot / `util.Uint256{}`). -/
  rootOf_empty : rootOf M.empty = List.replicate 32 0

structure Module (T : Type) where
  store : KVs
  mpt : T
  currentLocal : Bytes
  localHeight : Nat

/-- store.go:40-51 `getStateRoot`, module.go:129-131. -/
def getStateRoot {T : Type} (m : Module T) (h : Nat) : Option Rec :=
  (kvGet m.store (rootKey h)).bind decRec

/-- module.go:336-350 `AddMPTBatch`: the new trie, its record, and the cache's store. -/
def addMPTBatch {T : Type} (O : TrieOps T) (m : Module T) (index : Nat) (b : List Change) : T × Rec × KVs :=
  let t := O.M.putBatch m.mpt b
  let sr : Rec := { index := index, root := O.rootOf t, wit := [0] }
  (t, sr, addLocalStateRoot m.store sr)

/-- module.go:353-361 `UpdateCurrentLocal` after the block's cache was committed (blockchain.go:2205-2208). -/
def storeBlock {T : Type} (O : TrieOps T) (m : Module T) (index : Nat) (b : List Change) : Module T :=
  let (t, sr, st) := addMPTBatch O m index b
  { store := st, mpt := t, currentLocal := sr.root, localHeight := sr.index }

/-- module.go:177-202 `Init(height)` on a re-opened store (`none` = error). -/
def init {T : Type} (O : TrieOps T) (m : Module T) (height : Nat) : Option (Module T) :=
  match getStateRoot m height with
  | none => if height = 0 then some { m with currentLocal := List.replicate 32 0 } else none
  | some r => some { m with currentLocal := r.root, localHeight := r.index, mpt := O.reopen r.root }

/-- module.go:351-362 `DropMPTBatch` (blockchain.go storeBlock, every failure after AddMPTBatch): the block
AddMPTBatch was invoked for is not stored; the trie it worked on shares its nodes with the current one,
so the current trie is reloaded from the current local root (the empty trie for the zero root). Nothing
of the dropped block was committed to the store. -/
def dropMPTBatch {T : Type} (O : TrieOps T) (m : Module T) : Module T :=
  { m with mpt := if m.currentLocal = List.replicate 32 0 then O.M.empty else O.reopen m.currentLocal }

/-- module.go:266-291: the backward search of ResetState for the most recent state root at or below
`height` that carries a witness (`v[witnessesLenOffset] != 0`: the count byte of the encoded witness array);
the seek visits the 5-byte record keys in descending key order = descending heights (`lexLt_rootKey`). -/
def findValidated (s : KVs) : Nat → Option Nat
  | 0 => if (((kvGet s (rootKey 0)).bind decRec).map fun r => r.wit.headD 0 != 0) = some true then some 0 else none
  | h + 1 =>
    if (((kvGet s (rootKey (h + 1))).bind decRec).map fun r => r.wit.headD 0 != 0) = some true then some (h + 1)
    else findValidated s h

/-! ### ResetState -/

def insertK (e : Bytes × Bytes) : KVs → KVs
  | [] => [e]
  | x :: xs => if lexLt e.1 x.1 then e :: x :: xs else x :: insertK e xs

def sortK (l : KVs) : KVs := l.foldr insertK []

/-- what `Seek({Prefix: p, Start: st})` (forwards) enumerates: the pairs with the prefix at or after
`p ‖ st`, ascending (C09 `seek_spec` for the real store stack). -/
def seekFwd (s : KVs) (p st : Bytes) : KVs :=
  sortK (s.filter fun e => p.isPrefixOf e.1 && lexLe (p ++ st) e.1)

/-- module.go:247-263: the callback of the forward seek (`srSeen`, deletes after the key was seen). -/
def resetStep (srKey : Bytes) (acc : Bool × KVs) (e : Bytes × Bytes) : Bool × KVs :=
  if e.1.length = 5 then
    if acc.1 then (true, kvDel acc.2 e.1)
    else if e.1 = srKey then (true, acc.2)
    else acc
  else acc

/-- module.go:236-297 `ResetState(height, cache)`; the key [DataMPTAux, prefixValidated] gets the result of
the backward search for the latest witnessed root (`findValidated`) or is deleted. -/
def resetState {T : Type} (O : TrieOps T) (m : Module T) (height : Nat) : Option (Module T) :=
  match getStateRoot m height with
  | none => none
  | some sr =>
    let c1 := addLocalStateRoot m.store sr
    let srKey := rootKey height
    let c2 := ((seekFwd c1 [dataMPTAux] (be32 height)).foldl (resetStep srKey) (false, c1)).2
    let c3 := match findValidated c2 height with
      | some v => kvPut c2 validatedKey (le32 v)
      | none => kvDel c2 validatedKey
    some { store := c3, currentLocal := sr.root, localHeight := sr.index, mpt := O.reopen sr.root }

/-- store.go:59-88 `AddStateRoot(sr)`: a state root signed by the state validators arrives from the
network. `verified` = `VerifyStateRoot` succeeded (the previous root is known, exactly one witness, the
witness verifies against the designated validators of that height). The local record must exist and
carry the same root (else ErrStateMismatch); a record that already has a witness is left alone; otherwise
the record is replaced by the signed one and the validated height is stored. The module's trie, current
local root and local height are not touched. -/
def addStateRoot {T : Type} (m : Module T) (sr : Rec) (verified : Bool) : Module T :=
  if !verified then m
  else
    match getStateRoot m sr.index with
    | none => m
    | some loc =>
      if loc.root ≠ sr.root then m
      else if loc.wit ≠ [0] then m                    -- len(local.Witness) != 0
      else { m with store := kvPut (kvPut m.store (rootKey sr.index) (encRec sr)) validatedKey (le32 sr.index) }

/-! ### histories -/

inductive Op where
  | block (b : List Change)                       -- a block stored: AddMPTBatch + commit + UpdateCurrentLocal
  | failed (b : List Change)                      -- AddMPTBatch computed, block rejected later: DropMPTBatch
  | reset (h : Nat)                               -- Blockchain.Reset(h) -> ResetState
  | restart                                       -- process restart: Init(current height)
  | validated (sr : Rec) (verified : Bool)        -- a signed state root from the network: AddStateRoot
  | flush (ok : Bool)                             -- a flush of the write cache to the DB, successful or failed

/-- module state + the surviving chain of change sets (ghost). `none`: block index beyond uint32. -/
structure St (T : Type) where
  m : Module T
  chain : List (List Change)

def step {T : Type} (O : TrieOps T) (s : St T) : Op → Option (St T)
  | .block b =>
    if s.chain.length < 2 ^ 32 then
      some { m := storeBlock O s.m s.chain.length b, chain := s.chain ++ [b] }
    else none
  | .failed _ => some { s with m := dropMPTBatch O s.m }
  | .reset h =>
    if h < s.chain.length then
      match resetState O s.m h with
      | some m' => some { m := m', chain := s.chain.take (h + 1) }
      | none => some s
    else some s                                    -- refused: "can't reset state to height"
  | .restart =>
    match init O s.m (s.chain.length - 1) with
    | some m' => some { s with m := m' }
    | none => some s
  | .flush _ =>
    -- `store` is what the whole store stack stands for (C09 `flatten`); a flush step, the failing one
    -- included, does not change it (C09 `flushStep_flatten`, C03 `flush_keeps_commit`), and it touches
    -- neither the module's trie nor its cached root / height
    some s
  | .validated sr v =>
    if sr.index < 2 ^ 32 then some { s with m := addStateRoot s.m sr v } else none    -- sr.Index is a uint32

def run {T : Type} (O : TrieOps T) (s : St T) : List Op → Option (St T)
  | [] => some s
  | o :: os => (step O s o).bind fun s' => run O s' os

/-- a fresh node: empty store, `Init(0)` done. -/
def genesis {T : Type} (O : TrieOps T) : St T :=
  { m := { store := [], mpt := O.M.empty, currentLocal := List.replicate 32 0, localHeight := 0 }, chain := [] }

end NeoModel.StateCommit.Roots
