/-
C03 — contract-id resolution of the historic RPC methods (server.go:1881-1893
`getHistoricalContractState`): the Management contract's record of the contract hash is read from
the SAME state root, deserialised and converted (state/contract.go:61-97 `FromStackItem`: an array of
5 items whose first is the id, an int32). The further fields (update counter, hash, NEF, manifest) are
decoded by the real code as well and can only add errors on records Management itself never writes;
they are not modelled. Core Lean only.
-/
import NeoModel.Model.StateCommit.Rpc
namespace NeoModel.StateCommit.Rpc
open NeoModel.Mpt (Node toNibbles lookup)
open NeoModel.Wire (Item)

/-- native.PrefixContract (management.go:52). -/
def prefixContract : UInt8 := 8

/-- server.go:1882: `makeStorageKey(ManagementID, MakeContractKey(hash))` (hash big-endian bytes). -/
def contractKey (mgmt : Nat) (hash : Bytes) : Bytes := makeStorageKey mgmt (prefixContract :: hash)

/-- `stackitem.ToInt32` on what Management stores (an Integer item). -/
def toInt32 : Item → Option Int
  | .int c =>
    let v := Item.intFromLE c
    if -(2 ^ 31 : Int) ≤ v ∧ v < 2 ^ 31 then some v else none
  | _ => none

/-- the id of a stored contract record as `uint32(id)` (what `makeStorageKey` writes). -/
def decodeContractId (rec : Bytes) : Option Nat :=
  match Find.deserialize rec with
  | some (.array l) | some (.struct l) =>
    if l.length = 5 then (l[0]?.bind toInt32).map fun v => (v % 2 ^ 32).toNat else none
  | _ => none

/-- `getHistoricalContractState(root, hash).ID`; `none` = ErrUnknownContract / decoding error. -/
def contractId (t : Node) (mgmt : Nat) (hash : Bytes) : Option Nat :=
  (lookup t (toNibbles (contractKey mgmt hash))).bind decodeContractId

/-- getstate / getproof / findstates addressed by contract hash, as the RPC methods are. -/
def getStateByHash (t : Node) (mgmt : Nat) (hash key : Bytes) : Option Bytes :=
  (contractId t mgmt hash).bind fun id => getState t id key

def getProofByHash (H : Bytes → Bytes) (t : Node) (mgmt : Nat) (hash key : Bytes) : Option (Bytes × List Bytes) :=
  (contractId t mgmt hash).bind fun id => getProof H t id key

end NeoModel.StateCommit.Rpc
