/-
C03 — the state-related RPC methods of pkg/services/rpcsrv/server.go over the trie named by a state
root (on nibble paths: the C10 model of Trie.Get / GetProof / VerifyProof / Find):

  server.go:1600-1605  makeStorageKey
  server.go:1608-1640  getproof        (GetStateProof)
  server.go:1642-1665  verifyproof     (mpt.VerifyProof)
  server.go:1667-1693  getstate        (GetState)
  server.go:1695-1778  findstates      (FindStates + truncation + cutting the contract id)

The contract id is the result of `getHistoricalContractState` (a read of the Management contract's
storage at the same root + `state.Contract` decoding), a parameter here. Core Lean only.
-/
import NeoModel.Model.Mpt.Traverse
import NeoModel.Model.Mpt.Proof
import NeoModel.Model.StateCommit.Find
namespace NeoModel.StateCommit.Rpc
open NeoModel.Mpt (Node Path toNibbles fromNibbles lookup)

/-- server.go:1600-1605. -/
def makeStorageKey (id : Nat) (key : Bytes) : Bytes := Find.le32 id ++ key

/-- mpt.MaxKeyLength (extension.go:20). -/
def maxKeyLength : Nat := 68

/-- getstate: `none` = "invalid key: ... not found" or the "key is too big" error of `Trie.Get`
(trie.go:78: `len(key) > MaxKeyLength`, the key being `id ‖ key`). -/
def getState (t : Node) (id : Nat) (key : Bytes) : Option Bytes :=
  if (makeStorageKey id key).length > maxKeyLength then none
  else lookup t (toNibbles (makeStorageKey id key))

/-- getproof: the key with the id and the proof nodes; `none` = ErrUnknownStorageItem. -/
def getProof (H : Bytes → Bytes) (t : Node) (id : Nat) (key : Bytes) : Option (Bytes × List Bytes) :=
  if (makeStorageKey id key).length > maxKeyLength then none          -- proof.go:16
  else (Mpt.getProof H t (toNibbles (makeStorageKey id key))).map fun ps => (makeStorageKey id key, ps)

/-- verifyproof: `none` = ErrInvalidProof. -/
def verifyProof (H : Bytes → Bytes) (root : Bytes) (pk : Bytes × List Bytes) : Option Bytes :=
  match Mpt.verifyProof H root pk.1 pk.2 with
  | .found v => some v
  | _ => none

inductive FindErr where
  | keyPrefix          -- "key doesn't match prefix" (invalid params)
  | tooLong            -- Trie.Find refuses the prefix / start length (trie.go:592-597): internal error
  deriving DecidableEq, Repr

structure FindRes where
  results : List (Bytes × Bytes)     -- keys without the contract id
  truncated : Bool
  first : Option Bytes               -- the key (with id) the first proof is for
  last : Option Bytes
  deriving DecidableEq, Repr

/-- server.go:1714-1727: the optional start key: absent or empty = none; else it must extend the
prefix and is cut by it. -/
def cutStart (pfx : Bytes) (key : Option Bytes) : Except FindErr (Option Bytes) :=
  match key with
  | none => .ok none
  | some k =>
    if k.length > 0 then
      if pfx.isPrefixOf k then .ok (some (k.drop pfx.length)) else .error .keyPrefix
    else .ok none

/-- server.go:1739-1777 for `count ≥ 0` (after `min(count, MaxFindResultItems)`):
`Trie.Find(id‖prefix, from, count+1)`; an error of Find (no such prefix) is an empty answer; one
result more than asked for sets `truncated` and is dropped; the contract id is cut off the keys. -/
def findStatesFrom (t : Node) (id : Nat) (pfx : Bytes) (frm : Option Bytes) (count : Nat) : FindRes :=
  let pKey := makeStorageKey id pfx
  let kvs0 : List (Path × Bytes) :=
    (Mpt.find t (toNibbles pKey) (frm.map toNibbles) (count + 1)).getD []
  let kvs := kvs0.map fun e => (pKey ++ fromNibbles e.1, e.2)
  let truncated := kvs.length == count + 1
  let kvs := if truncated then kvs.dropLast else kvs
  { results := kvs.map fun e => (e.1.drop 4, e.2)
    truncated := truncated
    first := kvs.head?.map (·.1)
    last := if kvs.length > 1 then kvs.getLast?.map (·.1) else none }

/-- findstates (server.go:1695-1778). -/
def findStates (t : Node) (id : Nat) (pfx : Bytes) (key : Option Bytes) (count : Nat) : Except FindErr FindRes :=
  match cutStart pfx key with
  | .error e => .error e
  | .ok frm =>
    -- trie.go:592-597: `len(prefix) > MaxKeyLength`, `len(from) > MaxKeyLength-len(prefix)` (an error
    -- that is not ErrNotFound: internal server error)
    if (makeStorageKey id pfx).length > maxKeyLength ∨
        (frm.getD []).length > maxKeyLength - (makeStorageKey id pfx).length then .error .tooLong
    else .ok (findStatesFrom t id pfx frm count)

end NeoModel.StateCommit.Rpc
