/-
C01 — the abstract node: what a neo-go node holds and the steps that change it.

  db      the backend (BoltDB / LevelDB / MemoryStore) as a finite map
  mem     the write cache `bc.dao` (MemCachedStore over the backend, blockchain.go:164-171):
          the change sets of the blocks not flushed yet, newest first
  cache   the native-contract caches of the tip (dao.go:1040-1137; native/*Cache types)
  height  current block height
  pool    the mempool (node-local junk)
  last    execution results of the tip block

Steps (what happens to a node between two observations):
  addBlock b   storeBlock (blockchain.go:1967-2190): reads go through `read` (top-down through the
               layers, memcached_store.go Get), the block's change set becomes a new layer
               (`PersistPrivate`), the caches are replaced by the ones the block produced
  flush        persist() (blockchain.go:2498) = MemCachedStore.Persist: all layers are written to the
               backend in one batch, the write cache becomes empty
  restart      Close() (= flush) followed by NewBlockchain on the same backend: init() reads the height
               and calls InitializeCache of every native (blockchain.go:1307-1320); the mempool is gone
  gc ks        tryRunGC (blockchain.go:1378): removes auxiliary keys (old blocks, transfer logs, old MPT
               nodes, header hashes) from the backend; never contract storage
  poolTx t     PoolTx: mempool only

The effect of a block is a parameter `Sys.apply` (a function, hence deterministic in what it is given):
it receives the *read function* of the node (never the layer structure), the caches, the height and the
block, and returns the change set, the new caches and the execution results. `Sys.initCache` is
InitializeCache. Everything here is core Lean.
-/
namespace NeoModel.Ledger

/-- a change set: `none` = delete (MemoryStore keeps deletions as nil values). -/
abbrev Changes (K V : Type) := List (K × Option V)

/-- lookup in one change set (first match wins: the list is a map, newest write first). -/
def Changes.find? {K V : Type} [DecidableEq K] : Changes K V → K → Option (Option V)
  | [], _ => none
  | (k', v) :: rest, k => if k' = k then some v else Changes.find? rest k

/-- one layer over a lower read function (MemCachedStore.Get: memory first, then `ps`). -/
def overlay {K V : Type} [DecidableEq K] (cs : Changes K V) (lower : K → Option V) : K → Option V :=
  fun k => match cs.find? k with
    | some v => v
    | none => lower k

/-- a stack of layers, newest first, over the backend. -/
def readLayers {K V : Type} [DecidableEq K] : List (Changes K V) → (K → Option V) → K → Option V
  | [], db => db
  | l :: ls, db => overlay l (readLayers ls db)

/-- the parameters: block execution and cache initialisation of the natives. -/
structure Sys (K V C B R T : Type) where
  /-- storeBlock: view, caches, new height, block ↦ change set, caches, results -/
  apply : (K → Option V) → C → Nat → B → Changes K V × C × R
  /-- InitializeCache of all natives: storage view, height ↦ caches -/
  initCache : (K → Option V) → Nat → C
  /-- contract storage (true) or auxiliary data: blocks, execution logs, transfer logs, MPT nodes (false) -/
  stateKey : K → Bool
  /-- the answers the caches give (committee / validators / policy getters) -/
  getters : C → Nat → T
  noResult : R

structure Node (K V C R TX : Type) where
  db : K → Option V
  mem : List (Changes K V)
  cache : C
  height : Nat
  pool : List TX
  last : R

variable {K V C B R T TX : Type} [DecidableEq K]

/-- what a read of the node returns (DAO get): top-down through the write cache, then the backend. -/
def Node.read (n : Node K V C R TX) : K → Option V := readLayers n.mem n.db

inductive Step (K B TX : Type) where
  | addBlock (b : B)
  | flush
  | restart
  | gc (ks : List K)
  | poolTx (t : TX)

/-- PutChangeSet of all layers, oldest first = the flattened view becomes the backend. -/
def flushNode (n : Node K V C R TX) : Node K V C R TX :=
  { n with db := n.read, mem := [] }

def removeKeys (ks : List K) (f : K → Option V) : K → Option V :=
  fun k => if ks.contains k then none else f k

def step (S : Sys K V C B R T) (n : Node K V C R TX) : Step K B TX → Node K V C R TX
  | .addBlock b =>
    let res := S.apply n.read n.cache (n.height + 1) b
    { n with mem := res.1 :: n.mem, cache := res.2.1, height := n.height + 1, last := res.2.2 }
  | .flush => flushNode n
  | .restart =>
    let m := flushNode n
    { m with cache := S.initCache m.read m.height, pool := [] }
  | .gc ks =>
    -- only flushed auxiliary keys are removed (GC works on the backend, below the write cache)
    { n with db := removeKeys (ks.filter fun k => !S.stateKey k) n.db }
  | .poolTx t => { n with pool := t :: n.pool }

def run (S : Sys K V C B R T) (n : Node K V C R TX) : List (Step K B TX) → Node K V C R TX
  | [] => n
  | s :: ss => run S (step S n s) ss

/-- the blocks of a schedule. -/
def blocksOf : List (Step K B TX) → List B
  | [] => []
  | .addBlock b :: ss => b :: blocksOf ss
  | _ :: ss => blocksOf ss

/-- a fresh node on a backend: caches initialised from storage (after the genesis block this is what
    `Initialize` of the natives leaves, see `Natives.genesis`). -/
def boot (S : Sys K V C B R T) (db : K → Option V) (h : Nat) : Node K V C R TX :=
  { db := db, mem := [], cache := S.initCache db h, height := h, pool := [], last := S.noResult }

/-- What property C01 compares between two nodes at the tip: height, contract storage (hence the state
    root, a function of it), execution results of the tip block, the getters' answers. -/
structure Obs (K V R T : Type) where
  height : Nat
  storage : K → Option V
  results : R
  getters : T

def stateView (S : Sys K V C B R T) (f : K → Option V) : K → Option V :=
  fun k => if S.stateKey k then f k else none

def observe (S : Sys K V C B R T) (n : Node K V C R TX) : Obs K V R T :=
  { height := n.height, storage := stateView S n.read, results := n.last, getters := S.getters n.cache n.height }

end NeoModel.Ledger
