/-
MiniGo — the core of the neo-go compiler dialect that is modelled in Lean (C14).  Core Lean only.

Typed-by-construction AST (ints and bools, locals and arguments, arithmetic / comparison / logic,
assignment forms, if/else-if/else, three-clause and condition-only `for`, labeled break/continue, `switch`, calls
of functions with zero, one or two results, recursion) and a fuel-indexed big-step semantics that is the *Go* semantics of the
program: `int` is 64-bit, and an arithmetic result outside the 64-bit range is reported as `overflow`
(the side condition of property C14), division by zero is `panic`.

The AST is in bijection with the go/ast tree of the printed program (harness/cmd/compiler/core.go prints
it): parentheses are explicit nodes because codegen.go treats `(a < b)` and `a < b` differently in
conditions (emitBoolExpr tests for *ast.BinaryExpr).
-/
import NeoModel.Model.MiniVm
namespace NeoModel.MiniGo
open NeoModel.MiniVm (Val)

inductive BinOp
  | add | sub | mul | div | mod            -- int × int → int
  | lt | le | gt | ge | eq | ne            -- int × int → bool
  | eqb | neb                              -- bool × bool → bool  (printed `==`, `!=`)
  | land | lor                             -- short-circuit
  deriving DecidableEq, Repr

inductive Expr
  | lit (n : Nat)                          -- non-negative literal; `-5` is `neg (lit 5)` as in go/ast
  | tt | ff
  | var (x : String)
  | paren (e : Expr)
  | neg (e : Expr)
  | not (e : Expr)
  | bin (op : BinOp) (a b : Expr)
  | call0 (f : String)
  | call1 (f : String) (a : Expr)
  | call2 (f : String) (a b : Expr)
  | call3 (f : String) (a b c : Expr)
  deriving Repr

inductive ElseKind | none | block | elif
  deriving DecidableEq, Repr

/-- statements; a statement list is a right-nested `seq … skip`. -/
inductive Stmt
  | skip
  | seq (a b : Stmt)
  | define (x : String) (e : Expr)                     -- x := e
  | assign (x : String) (e : Expr)                     -- x = e
  | opAssign (x : String) (op : BinOp) (e : Expr)      -- x op= e   (op ∈ add sub mul div mod)
  | inc (x : String)
  | dec (x : String)
  | varDecl (x : String) (isBool : Bool) (init : Option Expr)   -- var x T [= e]
  | exprStmt (e : Expr)                                -- f(…) as a statement
  | discard (e : Expr)                                 -- _ = e
  | panicS (e : Expr)                                  -- panic(e)
  | ite (c : Expr) (thn : Stmt) (k : ElseKind) (els : Stmt)
  | loop (init : Stmt) (cond : Option Expr) (post : Stmt) (body : Stmt)
  | ret (e : Option Expr)
  | ret2 (e1 e2 : Expr)                                -- return e1, e2
  | define2 (x y : String) (e : Expr)                  -- x, y := f(…)   (e is a call of a two-result function)
  | brk
  | cont
  | block (body : Stmt)
  -- labels: `L: for …` / `L: switch …` (ast.LabeledStmt), `break L`, `continue L`
  | labeled (l : String) (s : Stmt)
  | brkL (l : String)
  | contL (l : String)
  -- switch [tag] { clauses }: `tagInt` = the tag is an int (NUMEQUAL) rather than a bool / absent (EQUAL);
  -- the clause list is a chain `caseS … (caseS … (defaultS … | skip))`; `default` is the last clause (the compiler
  -- moves an early default to the end: known finding switch-early-default); `ft` = the body ends with `fallthrough`
  | switchS (tag : Option Expr) (tagInt : Bool) (clauses : Stmt)
  | caseS (e1 : Expr) (e2 : Option Expr) (body : Stmt) (ft : Bool) (rest : Stmt)
  | defaultS (body : Stmt)
  deriving Repr

structure FuncDecl where
  name : String
  params : List String
  nres : Nat                 -- number of results: 0, 1 or 2
  body : Stmt
  deriving Repr

abbrev Prog := List FuncDecl

def Prog.find (p : Prog) (f : String) : Option FuncDecl := List.find? (fun d => d.name == f) p

/-! ## Semantics -/

inductive Res (α : Type)
  | ok (a : α)
  | panic                 -- Go run-time panic (division by zero)
  | overflow              -- an intermediate result left the 64-bit range
  | stuck                 -- ill-typed / unbound / wrong arity: not a Go program
  | timeout               -- fuel exhausted
  deriving Repr

def Res.bind {α β : Type} (r : Res α) (f : α → Res β) : Res β :=
  match r with
  | .ok a => f a
  | .panic => .panic
  | .overflow => .overflow
  | .stuck => .stuck
  | .timeout => .timeout

instance : Monad Res where
  pure := .ok
  bind := Res.bind

abbrev Frame := List (String × Val)

/-- run-time environment: block frames (innermost first) above the function's arguments. -/
structure Env where
  frames : List Frame
  args : Frame
  deriving Repr

def lookupFrames : List Frame → String → Option Val
  | [], _ => none
  | f :: fs, x => match f.lookup x with
    | some v => some v
    | none => lookupFrames fs x

def Env.get (env : Env) (x : String) : Option Val :=
  match lookupFrames env.frames x with
  | some v => some v
  | none => env.args.lookup x

def setFrame : Frame → String → Val → Option Frame
  | [], _, _ => none
  | (y, w) :: r, x, v => if y == x then some ((y, v) :: r) else (setFrame r x v).map ((y, w) :: ·)

def setFrames : List Frame → String → Val → Option (List Frame)
  | [], _, _ => none
  | f :: fs, x, v => match setFrame f x v with
    | some f' => some (f' :: fs)
    | none => (setFrames fs x v).map (f :: ·)

/-- assignment to the innermost visible `x`. -/
def Env.set (env : Env) (x : String) (v : Val) : Option Env :=
  match setFrames env.frames x v with
  | some fs => some { env with frames := fs }
  | none => (setFrame env.args x v).map (fun a => { env with args := a })

/-- declaration of a new variable in the innermost frame. -/
def Env.declare (env : Env) (x : String) (v : Val) : Env :=
  match env.frames with
  | f :: fs => { env with frames := ((x, v) :: f) :: fs }
  | [] => { env with frames := [[(x, v)]] }

def Env.push (env : Env) : Env := { env with frames := [] :: env.frames }
def Env.pop (env : Env) : Env := { env with frames := env.frames.tail }

def inInt64 (n : Int) : Bool := -(2 ^ 63) ≤ n && n < 2 ^ 63

def chk (n : Int) : Res Val := if inInt64 n then .ok (.int n) else .overflow

/-- strict binary operators on values. -/
def evalBin (op : BinOp) (a b : Val) : Res Val :=
  match op, a, b with
  | .add, .int x, .int y => chk (x + y)
  | .sub, .int x, .int y => chk (x - y)
  | .mul, .int x, .int y => chk (x * y)
  | .div, .int x, .int y => if y == 0 then .panic else chk (Int.tdiv x y)
  | .mod, .int x, .int y => if y == 0 then .panic else chk (Int.tmod x y)
  | .lt, .int x, .int y => .ok (.bool (x < y))
  | .le, .int x, .int y => .ok (.bool (x ≤ y))
  | .gt, .int x, .int y => .ok (.bool (x > y))
  | .ge, .int x, .int y => .ok (.bool (x ≥ y))
  | .eq, .int x, .int y => .ok (.bool (x == y))
  | .ne, .int x, .int y => .ok (.bool (x != y))
  | .eqb, .bool x, .bool y => .ok (.bool (x == y))
  | .neb, .bool x, .bool y => .ok (.bool (x != y))
  | _, _, _ => .stuck

/-- outcome of a statement. -/
inductive SOut
  | norm (env : Env)
  | brk (l : Option String) (env : Env)      -- `break` / `break L` on its way to the statement it leaves
  | cont (l : Option String) (env : Env)
  | ret (vs : List Val)                      -- `return` with the values of its operands, first operand first
  deriving Repr

/-- the comparison a `switch` makes between its tag and a case expression. -/
def eqOp (tagInt : Bool) : BinOp := if tagInt then .eq else .eqb

/-- an unlabeled `break`/`continue`, or one that names this statement. -/
def mine (l lbl : Option String) : Bool := l == none || l == lbl

/-- `x, y := …` after the call has delivered its two values. -/
def declare2 (env : Env) (x y : String) (r : Res (Val × Val)) : Res SOut :=
  match r with
  | .ok (v, w) => .ok (.norm ((env.declare y w).declare x v))   -- x ≠ y in Go; the compiler allocates y's slot first
  | .panic => .panic | .overflow => .overflow | .stuck => .stuck | .timeout => .timeout

mutual

/-- expression evaluation, left to right. -/
def evalE : Nat → Prog → Env → Expr → Res Val
  | 0, _, _, _ => .timeout
  | fuel + 1, p, env, e =>
    match e with
    | .lit n => chk n
    | .tt => .ok (.bool true)
    | .ff => .ok (.bool false)
    | .var x => match env.get x with
      | some v => .ok v
      | none => .stuck
    | .paren e => evalE fuel p env e
    | .neg e => match evalE fuel p env e with
      | .ok (.int x) => chk (-x)
      | .ok _ => .stuck
      | r => r
    | .not e => match evalE fuel p env e with
      | .ok (.bool b) => .ok (.bool (!b))
      | .ok _ => .stuck
      | r => r
    | .bin .land a b => match evalE fuel p env a with
      | .ok (.bool false) => .ok (.bool false)
      | .ok (.bool true) => match evalE fuel p env b with
        | .ok (.bool y) => .ok (.bool y)
        | .ok _ => .stuck
        | r => r
      | .ok _ => .stuck
      | r => r
    | .bin .lor a b => match evalE fuel p env a with
      | .ok (.bool true) => .ok (.bool true)
      | .ok (.bool false) => match evalE fuel p env b with
        | .ok (.bool y) => .ok (.bool y)
        | .ok _ => .stuck
        | r => r
      | .ok _ => .stuck
      | r => r
    | .bin op a b => match evalE fuel p env a with
      | .ok x => match evalE fuel p env b with
        | .ok y => evalBin op x y
        | r => r
      | r => r
    | .call0 f => callF fuel p f []
    | .call1 f a => match evalE fuel p env a with
      | .ok x => callF fuel p f [x]
      | r => r
    | .call2 f a b => match evalE fuel p env a with
      | .ok x => match evalE fuel p env b with
        | .ok y => callF fuel p f [x, y]
        | r => r
      | r => r
    | .call3 f a b c => match evalE fuel p env a with
      | .ok x => match evalE fuel p env b with
        | .ok y => match evalE fuel p env c with
          | .ok z => callF fuel p f [x, y, z]
          | r => r
        | r => r
      | r => r

/-- call of a function that must deliver one value. -/
def callF : Nat → Prog → String → List Val → Res Val
  | 0, _, _, _ => .timeout
  | fuel + 1, p, f, vs =>
    match p.find f with
    | none => .stuck
    | some d =>
      if d.params.length != vs.length then .stuck else
      match exec fuel p { frames := [[]], args := d.params.zip vs } (.block d.body) with
      | .ok (.ret [v]) => if d.nres == 1 then .ok v else .stuck
      | .ok _ => .stuck
      | .panic => .panic
      | .overflow => .overflow
      | .stuck => .stuck
      | .timeout => .timeout

/-- call of a function in statement position: the result (if any) is dropped. -/
def callS : Nat → Prog → String → List Val → Res Unit
  | 0, _, _, _ => .timeout
  | fuel + 1, p, f, vs =>
    match p.find f with
    | none => .stuck
    | some d =>
      if d.params.length != vs.length then .stuck else
      match exec fuel p { frames := [[]], args := d.params.zip vs } (.block d.body) with
      | .ok (.ret vs) => if vs.length == d.nres then .ok () else .stuck
      | .ok (.norm _) => if d.nres == 0 then .ok () else .stuck
      | .ok _ => .stuck
      | .panic => .panic
      | .overflow => .overflow
      | .stuck => .stuck
      | .timeout => .timeout

/-- call of a function that must deliver two values (`x, y := f(…)`). -/
def callF2 : Nat → Prog → String → List Val → Res (Val × Val)
  | 0, _, _, _ => .timeout
  | fuel + 1, p, f, vs =>
    match p.find f with
    | none => .stuck
    | some d =>
      if d.params.length != vs.length then .stuck else
      match exec fuel p { frames := [[]], args := d.params.zip vs } (.block d.body) with
      | .ok (.ret [v, w]) => if d.nres == 2 then .ok (v, w) else .stuck
      | .ok _ => .stuck
      | .panic => .panic
      | .overflow => .overflow
      | .stuck => .stuck
      | .timeout => .timeout

def exec : Nat → Prog → Env → Stmt → Res SOut
  | 0, _, _, _ => .timeout
  | fuel + 1, p, env, s =>
    match s with
    | .skip => .ok (.norm env)
    | .seq a b => match exec fuel p env a with
      | .ok (.norm env') => exec fuel p env' b
      | r => r
    | .define x e => match evalE fuel p env e with
      | .ok v => .ok (.norm (env.declare x v))
      | .panic => .panic | .overflow => .overflow | .stuck => .stuck | .timeout => .timeout
    | .assign x e => match evalE fuel p env e with
      | .ok v => match env.set x v with
        | some env' => .ok (.norm env')
        | none => .stuck
      | .panic => .panic | .overflow => .overflow | .stuck => .stuck | .timeout => .timeout
    | .opAssign x op e => match env.get x with
      | none => .stuck
      | some old => match evalE fuel p env e with
        | .ok v => match evalBin op old v with
          | .ok r => match env.set x r with
            | some env' => .ok (.norm env')
            | none => .stuck
          | .panic => .panic | .overflow => .overflow | .stuck => .stuck | .timeout => .timeout
        | .panic => .panic | .overflow => .overflow | .stuck => .stuck | .timeout => .timeout
    | .inc x => match env.get x with
      | some (.int n) => match chk (n + 1) with
        | .ok r => match env.set x r with
          | some env' => .ok (.norm env')
          | none => .stuck
        | .panic => .panic | .overflow => .overflow | .stuck => .stuck | .timeout => .timeout
      | _ => .stuck
    | .dec x => match env.get x with
      | some (.int n) => match chk (n - 1) with
        | .ok r => match env.set x r with
          | some env' => .ok (.norm env')
          | none => .stuck
        | .panic => .panic | .overflow => .overflow | .stuck => .stuck | .timeout => .timeout
      | _ => .stuck
    | .varDecl x isBool none => .ok (.norm (env.declare x (if isBool then .bool false else .int 0)))
    | .varDecl x _ (some e) =>
      -- Go: the scope of x begins after the ValueSpec, the initialiser sees the outer x
      match evalE fuel p env e with
      | .ok v => .ok (.norm (env.declare x v))
      | .panic => .panic | .overflow => .overflow | .stuck => .stuck | .timeout => .timeout
    | .discard e => match evalE fuel p env e with
      | .ok _ => .ok (.norm env)
      | .panic => .panic | .overflow => .overflow | .stuck => .stuck | .timeout => .timeout
    | .exprStmt e => match e with
      | .call0 f => match callS fuel p f [] with
        | .ok _ => .ok (.norm env)
        | .panic => .panic | .overflow => .overflow | .stuck => .stuck | .timeout => .timeout
      | .call1 f a => match evalE fuel p env a with
        | .ok x => match callS fuel p f [x] with
          | .ok _ => .ok (.norm env)
          | .panic => .panic | .overflow => .overflow | .stuck => .stuck | .timeout => .timeout
        | .panic => .panic | .overflow => .overflow | .stuck => .stuck | .timeout => .timeout
      | .call2 f a b => match evalE fuel p env a with
        | .ok x => match evalE fuel p env b with
          | .ok y => match callS fuel p f [x, y] with
            | .ok _ => .ok (.norm env)
            | .panic => .panic | .overflow => .overflow | .stuck => .stuck | .timeout => .timeout
          | .panic => .panic | .overflow => .overflow | .stuck => .stuck | .timeout => .timeout
        | .panic => .panic | .overflow => .overflow | .stuck => .stuck | .timeout => .timeout
      | .call3 f a b c => match evalE fuel p env a with
        | .ok x => match evalE fuel p env b with
          | .ok y => match evalE fuel p env c with
            | .ok z => match callS fuel p f [x, y, z] with
              | .ok _ => .ok (.norm env)
              | .panic => .panic | .overflow => .overflow | .stuck => .stuck | .timeout => .timeout
            | .panic => .panic | .overflow => .overflow | .stuck => .stuck | .timeout => .timeout
          | .panic => .panic | .overflow => .overflow | .stuck => .stuck | .timeout => .timeout
        | .panic => .panic | .overflow => .overflow | .stuck => .stuck | .timeout => .timeout
      | _ => .stuck
    | .ite c thn k els =>
      -- the if statement opens a scope (for its init statement), each branch is a block
      match evalE fuel p env.push c with
      | .ok (.bool true) => match exec fuel p env.push (.block thn) with
        | .ok (.norm e') => .ok (.norm e'.pop)
        | .ok (.brk l e') => .ok (.brk l e'.pop)
        | .ok (.cont l e') => .ok (.cont l e'.pop)
        | r => r
      | .ok (.bool false) => match k with
        | .none => .ok (.norm env)
        | .block => match exec fuel p env.push (.block els) with
          | .ok (.norm e') => .ok (.norm e'.pop)
          | .ok (.brk l e') => .ok (.brk l e'.pop)
          | .ok (.cont l e') => .ok (.cont l e'.pop)
          | r => r
        | .elif => match exec fuel p env.push els with
          | .ok (.norm e') => .ok (.norm e'.pop)
          | .ok (.brk l e') => .ok (.brk l e'.pop)
          | .ok (.cont l e') => .ok (.cont l e'.pop)
          | r => r
      | .ok _ => .stuck
      | .panic => .panic | .overflow => .overflow | .stuck => .stuck | .timeout => .timeout
    | .loop init cond post body => execLoop fuel p env none init cond post body
    | .panicS e => match evalE fuel p env e with
      | .ok _ => .panic
      | .panic => .panic | .overflow => .overflow | .stuck => .stuck | .timeout => .timeout
    | .ret none => .ok (.ret [])
    | .ret (some e) => match evalE fuel p env e with
      | .ok v => .ok (.ret [v])
      | .panic => .panic | .overflow => .overflow | .stuck => .stuck | .timeout => .timeout
    | .ret2 e1 e2 =>
      -- Go: operands left to right
      match evalE fuel p env e1 with
      | .ok v => match evalE fuel p env e2 with
        | .ok w => .ok (.ret [v, w])
        | .panic => .panic | .overflow => .overflow | .stuck => .stuck | .timeout => .timeout
      | .panic => .panic | .overflow => .overflow | .stuck => .stuck | .timeout => .timeout
    | .define2 x y e =>
      -- arguments left to right, the call, then both variables are declared (x first)
      match e with
      | .call0 f => declare2 env x y (callF2 fuel p f [])
      | .call1 f a => match evalE fuel p env a with
        | .ok va => declare2 env x y (callF2 fuel p f [va])
        | .panic => .panic | .overflow => .overflow | .stuck => .stuck | .timeout => .timeout
      | .call2 f a b => match evalE fuel p env a with
        | .ok va => match evalE fuel p env b with
          | .ok vb => declare2 env x y (callF2 fuel p f [va, vb])
          | .panic => .panic | .overflow => .overflow | .stuck => .stuck | .timeout => .timeout
        | .panic => .panic | .overflow => .overflow | .stuck => .stuck | .timeout => .timeout
      | _ => .stuck
    | .brk => .ok (.brk none env)
    | .cont => .ok (.cont none env)
    | .block body => match exec fuel p env.push body with
      | .ok (.norm e') => .ok (.norm e'.pop)
      | .ok (.brk l e') => .ok (.brk l e'.pop)
      | .ok (.cont l e') => .ok (.cont l e'.pop)
      | r => r
    | .labeled l s => match s with
      | .loop init cond post body => execLoop fuel p env (some l) init cond post body
      | .switchS tag ti cl => execSwitch fuel p env (some l) tag ti cl
      | _ => .stuck
    | .brkL l => .ok (.brk (some l) env)
    | .contL l => .ok (.cont (some l) env)
    | .switchS tag ti cl => execSwitch fuel p env none tag ti cl
    | .caseS _ _ _ _ _ => .stuck
    | .defaultS _ => .stuck

/-- a `for` statement, labeled or not: own scope, init, iterations. -/
def execLoop : Nat → Prog → Env → Option String → Stmt → Option Expr → Stmt → Stmt → Res SOut
  | 0, _, _, _, _, _, _, _ => .timeout
  | fuel + 1, p, env, lbl, init, cond, post, body =>
    match exec fuel p env.push init with
    | .ok (.norm env1) => match iter fuel p env1 lbl cond post body with
      | .ok (.norm e') => .ok (.norm e'.pop)
      | .ok (.brk l e') => .ok (.brk l e'.pop)        -- `break L` / `continue L` for an outer statement
      | .ok (.cont l e') => .ok (.cont l e'.pop)
      | r => r
    | .ok _ => .stuck
    | r => r

/-- a `switch` statement: own scope, the tag is evaluated once, clauses are tried in order. -/
def execSwitch : Nat → Prog → Env → Option String → Option Expr → Bool → Stmt → Res SOut
  | 0, _, _, _, _, _, _ => .timeout
  | fuel + 1, p, env, lbl, tag, ti, cl =>
    let run (tv : Val) : Res SOut :=
      match execCases fuel p env.push tv ti cl with
      | .ok (.norm e') => .ok (.norm e'.pop)
      | .ok (.brk l e') => if mine l lbl then .ok (.norm e'.pop) else .ok (.brk l e'.pop)
      | .ok (.cont l e') => .ok (.cont l e'.pop)
      | r => r
    match tag with
    | none => run (.bool true)
    | some e => match evalE fuel p env.push e with
      | .ok tv => run tv
      | .panic => .panic | .overflow => .overflow | .stuck => .stuck | .timeout => .timeout

/-- the clause chain: case expressions left to right until one equals the tag; `default` (last) otherwise. -/
def execCases : Nat → Prog → Env → Val → Bool → Stmt → Res SOut
  | 0, _, _, _, _, _ => .timeout
  | fuel + 1, p, env, tv, ti, cl =>
    match cl with
    | .skip => .ok (.norm env)
    | .defaultS body => execBody fuel p env body false .skip
    | .caseS e1 e2 body ft rest =>
      match evalE fuel p env e1 with
      | .ok v1 => match evalBin (eqOp ti) tv v1 with
        | .ok (.bool true) => execBody fuel p env body ft rest
        | .ok (.bool false) => match e2 with
          | none => execCases fuel p env tv ti rest
          | some e2 => match evalE fuel p env e2 with
            | .ok v2 => match evalBin (eqOp ti) tv v2 with
              | .ok (.bool true) => execBody fuel p env body ft rest
              | .ok (.bool false) => execCases fuel p env tv ti rest
              | .ok _ => .stuck
              | .panic => .panic | .overflow => .overflow | .stuck => .stuck | .timeout => .timeout
            | .panic => .panic | .overflow => .overflow | .stuck => .stuck | .timeout => .timeout
        | .ok _ => .stuck
        | .panic => .panic | .overflow => .overflow | .stuck => .stuck | .timeout => .timeout
      | .panic => .panic | .overflow => .overflow | .stuck => .stuck | .timeout => .timeout
    | _ => .stuck

/-- the body of a clause (its own scope); `fallthrough` continues with the body of the next clause. -/
def execBody : Nat → Prog → Env → Stmt → Bool → Stmt → Res SOut
  | 0, _, _, _, _, _ => .timeout
  | fuel + 1, p, env, body, ft, rest =>
    match exec fuel p env (.block body) with
    | .ok (.norm e1) =>
      if ft then
        match rest with
        | .caseS _ _ b f r => execBody fuel p e1 b f r
        | .defaultS b => execBody fuel p e1 b false .skip
        | _ => .stuck
      else .ok (.norm e1)
    | r => r

/-- iterations of a `for` loop (the loop's own scope is already pushed); `lbl` is the loop's label, if any. -/
def iter : Nat → Prog → Env → Option String → Option Expr → Stmt → Stmt → Res SOut
  | 0, _, _, _, _, _, _ => .timeout
  | fuel + 1, p, env, lbl, cond, post, body =>
    let next (e1 : Env) : Res SOut :=
      match exec fuel p e1 post with
      | .ok (.norm e2) => iter fuel p e2 lbl cond post body
      | .ok _ => .stuck
      | r => r
    let go (env : Env) : Res SOut :=
      match exec fuel p env (.block body) with
      | .ok (.norm e1) => next e1
      | .ok (.cont l e1) => if mine l lbl then next e1 else .ok (.cont l e1)
      | .ok (.brk l e1) => if mine l lbl then .ok (.norm e1) else .ok (.brk l e1)
      | r => r
    match cond with
    | none => go env
    | some c => match evalE fuel p env c with
      | .ok (.bool true) => go env
      | .ok (.bool false) => .ok (.norm env)
      | .ok _ => .stuck
      | .panic => .panic | .overflow => .overflow | .stuck => .stuck | .timeout => .timeout

end

/-- result of calling function `f` of program `p` on argument values `vs`, as the harness observes it. -/
def runFunc (fuel : Nat) (p : Prog) (f : String) (vs : List Val) : Res (List Val) :=
  match p.find f with
  | none => .stuck
  | some d =>
    if d.nres == 1 then (callF fuel p f vs).bind (fun v => .ok [v])
    else if d.nres == 2 then (callF2 fuel p f vs).bind (fun r => .ok [r.1, r.2])
    else (callS fuel p f vs).bind (fun _ => .ok [])

end NeoModel.MiniGo
