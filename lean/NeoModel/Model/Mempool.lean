/-
Model of pkg/core/mempool/mem_pool.go (as written after the fix commits eb15b2a, 0dab8ad).
Core Lean only. Every definition names the Go lines it mirrors.

Abstractions
* a transaction is a record: `id` stands for `tx.Hash()`, accounts are numbers
  (`zeroAcct` = the zero Uint160, `notaryAcct` = nativehashes.Notary);
* Go maps are total functions into `Option` (the code never ranges over a map);
* uint256 fee arithmetic is `Nat` with explicit wrap-around: `SetFromBig` truncates (`% U256`), the two
  `SubUint64` sites use `subW`, the additions at l.210 and l.225 use `addW`;
* a nil-map-entry dereference / index-out-of-range panic sets `panicked`;
* `item.blockStamp` is kept in the map `stamp` (hash ↦ height at which the item was added; an item is
  identified by its hash, so this is the same information as a field of the list element);
  the calls of the resend callback made by one `RemoveStale` are logged in `resent` (in call order;
  the Go code makes them from a goroutine started at the end of `RemoveStale`);
* `item.data` is kept in the map `data` (hash ↦ the value given to `Add`; `any` is a number here, 0 = nil),
  for the same reason as `stamp`;
* the subscription events the pool sends on `mp.events` are appended to `events` while `subsOn`
  (`subscriptionsOn`) is set (subscriptions.go: RunSubscriptions / StopSubscriptions);
* the mutex (each exported method is one step) and the metrics callback are not modelled.
-/
namespace NeoModel.Mempool

abbrev Acct := Nat
def zeroAcct : Acct := 0
def notaryAcct : Acct := 1
def U256 : Nat := 2 ^ 256

structure Tx where
  id : Nat
  sysFee : Nat
  netFee : Nat
  size : Nat
  signers : List Acct
  high : Bool
  conflicts : List Nat
  oracle : Option Nat
  deriving DecidableEq, Repr, Inhabited

/-- transaction.go:352 `Sender()` = `Signers[0].Account`. -/
def Tx.sender (t : Tx) : Acct := t.signers.headD zeroAcct
/-- `uint64(tx.SystemFee+tx.NetworkFee)` -/
def Tx.fee (t : Tx) : Nat := t.sysFee + t.netFee
/-- transaction.go:335 `FeePerByte()` = `NetworkFee / Size()`. -/
def Tx.feePerByte (t : Tx) : Nat := t.netFee / t.size
/-- transaction.go:504 `HasSigner`. -/
def Tx.hasSigner (t : Tx) (a : Acct) : Bool := decide (a ∈ t.signers)

/-- mem_pool.go:104-119 `item.Compare`. -/
def compare (a b : Tx) : Int :=
  if a.high && !b.high then 1
  else if !a.high && b.high then -1
  else if (a.feePerByte : Int) - (b.feePerByte : Int) ≠ 0 then (a.feePerByte : Int) - (b.feePerByte : Int)
  else (a.netFee : Int) - (b.netFee : Int)

inductive Err | funds | conflict | dup | oom | cattr | oracle
  deriving DecidableEq, Repr

/-- mem_pool.go:91 `payer{primary, secondary}`. -/
abbrev Payer := Acct × Acct

/-- mem_pool.go:53 `utilityBalanceAndFees`. -/
structure Fee where
  balance : Nat
  feeSum : Nat
  deriving DecidableEq, Repr

/-- feer.go: the part of `Feer` the pool reads. -/
structure Feer where
  balance : Acct → Acct → Nat
  feePerByte : Nat
  /-- `BlockHeight()` (uint32) -/
  height : Nat := 0

/-- mempoolevent.Event: `Type` (TransactionAdded / TransactionRemoved), `Tx` (by hash), `Data`. -/
structure Event where
  added : Bool
  id : Nat
  data : Nat
  deriving DecidableEq, Repr

def upd {κ ν : Type} [DecidableEq κ] (m : κ → Option ν) (k : κ) (v : Option ν) : κ → Option ν :=
  fun x => if x = k then v else m x

/-- mem_pool.go:59 `Pool` (the modelled fields). -/
structure Pool where
  txs : List Tx                       -- verifiedTxes, most prioritized first
  vmap : Nat → Option Tx              -- verifiedMap
  fees : Payer → Option Fee           -- fees
  conflicts : Nat → Option (List Nat) -- conflicts
  oracleResp : Nat → Option Nat       -- oracleResp
  capacity : Nat
  feePerByte : Nat
  panicked : Bool
  stamp : Nat → Nat := fun _ => 0     -- item.blockStamp, by transaction hash
  resendThreshold : Nat := 0          -- resendThreshold
  resent : List (Nat × Nat) := []     -- (hash, data) passed to resendFunc by the last RemoveStale
  data : Nat → Nat := fun _ => 0      -- item.data, by transaction hash
  subsOn : Bool := false              -- subscriptionsOn
  events : List Event := []           -- everything sent on mp.events so far

/-- mem_pool.go:501 `New`. -/
def new (capacity : Nat) : Pool :=
  { txs := [], vmap := fun _ => none, fees := fun _ => none, conflicts := fun _ => none,
    oracleResp := fun _ => none, capacity := capacity, feePerByte := 0, panicked := false }

/-- `if mp.subscriptionsOn.Load() { mp.events <- e }` (mem_pool.go:360, 421, 465). -/
def emit (mp : Pool) (e : Event) : List Event := if mp.subsOn then mp.events ++ [e] else mp.events

/-- subscriptions.go:7 `RunSubscriptions` / :17 `StopSubscriptions` (the flag only). -/
def setSubs (mp : Pool) (on : Bool) : Pool := { mp with subsOn := on }

/-- mem_pool.go:175 `getPayer`. -/
def getPayer (t : Tx) : Payer × Bool :=
  if t.sender = notaryAcct then ((t.sender, t.signers.getD 1 zeroAcct), true)
  else ((t.sender, zeroAcct), false)

def payerOf (t : Tx) : Payer := (getPayer t).1

/-- mem_pool.go:185 `getPayerFee`. -/
def getPayerFee (p : Payer) (fees : Payer → Option Fee) (feer : Feer) : Fee × Bool :=
  match fees p with
  | some f => (f, true)
  | none => ({ balance := feer.balance p.1 p.2 % U256, feeSum := 0 }, false)

/-- `uint256.Add` / `AddUint64` -/
def addW (a b : Nat) : Nat := (a + b) % U256

/-- `uint256.SubUint64` -/
def subW (a b : Nat) : Nat := (a + U256 - b % U256) % U256

/-- mem_pool.go:218 `checkBalance`. -/
def checkBalance (t : Tx) (b : Fee) : Nat × Option Err :=
  let txFee := t.fee
  if b.balance < txFee then (txFee, some .funds)
  else
    let txFee := addW txFee b.feeSum
    if b.balance < txFee then (txFee, some .conflict) else (txFee, none)

/-- mem_pool.go:196 `tryAddSendersFee`. -/
def tryAddSendersFee (mp : Pool) (t : Tx) (feer : Feer) (needCheck : Bool) : Pool × Bool :=
  let p := payerOf t
  let payerFee := (getPayerFee p mp.fees feer).1
  let ok := (getPayerFee p mp.fees feer).2
  let mp := if !ok then { mp with fees := upd mp.fees p (some payerFee) } else mp
  if needCheck then
    match checkBalance t payerFee with
    | (_, some _) => (mp, false)
    | (newFeeSum, none) => ({ mp with fees := upd mp.fees p (some { payerFee with feeSum := newFeeSum }) }, true)
  else
    ({ mp with fees := upd mp.fees p (some { payerFee with feeSum := addW payerFee.feeSum t.fee }) }, true)

/-- mem_pool.go:673-683: the new value of `mp.conflicts[conflictsHash]` after the loop body of
`removeConflictsOf` (`none` = the key is deleted / stays absent). -/
def stepEntry (id : Nat) : Option (List Nat) → Option (List Nat)
  | some [_] => none                                  -- len == 1: delete
  | some l => if id ∈ l then some (l.erase id) else some l
  | none => none

/-- mem_pool.go:669 `removeConflictsOf`: loop body for one Conflicts attribute, as a map update.
(Written pointwise — `fun x => …` with a single look-up of `c` — so that the native driver evaluates a
look-up in time linear in the number of updates; a definition that inspects `c h` before returning the
updated function is eta-expanded by the compiler and re-evaluates `c h` on every look-up.) -/
def removeConflictStep (id : Nat) (c : Nat → Option (List Nat)) (h : Nat) : Nat → Option (List Nat) :=
  fun x => if x = h then stepEntry id (c h) else c x

def removeConflictsOf (c : Nat → Option (List Nat)) (t : Tx) : Nat → Option (List Nat) :=
  t.conflicts.foldl (removeConflictStep t.id) c

/-- mem_pool.go:409 `removeFromMapWithFeesAndAttrs`. -/
def removeFromMap (mp : Pool) (itm : Tx) : Pool :=
  let p := payerOf itm
  let payerFee := (mp.fees p).getD { balance := 0, feeSum := 0 }
  let payerFee := { payerFee with feeSum := subW payerFee.feeSum itm.fee }
  { mp with
    vmap := upd mp.vmap itm.id none
    fees := upd mp.fees p (some payerFee)
    conflicts := removeConflictsOf mp.conflicts itm
    oracleResp := match itm.oracle with
      | some id => upd mp.oracleResp id none
      | none => mp.oracleResp
    events := emit mp { added := false, id := itm.id, data := mp.data itm.id } }   -- l.421-427

/-- index of the first element with the given hash, `len-1` if there is none (the Go `for num = range` loop). -/
def findNum (l : List Tx) (h : Nat) : Nat :=
  match l.findIdx? (fun t => t.id == h) with
  | some i => i
  | none => l.length - 1

/-- mem_pool.go:384 `removeInternal`. -/
def removeInternal (mp : Pool) (h : Nat) : Pool :=
  match mp.vmap h with
  | none => mp
  | some _ =>
    let num := findNum mp.txs h
    match mp.txs[num]? with
    | none => { mp with panicked := true }          -- index out of range on an empty slice
    | some itm => removeFromMap { mp with txs := mp.txs.eraseIdx num } itm

/-- mem_pool.go:372 `Remove`. -/
def remove (mp : Pool) (h : Nat) : Pool := removeInternal mp h

/-- result of steps 1 and 2 of `checkTxConflicts`. -/
structure Scan where
  fee : Nat           -- conflictingFee
  rm : List Tx        -- conflictsToBeRemoved
  panicked : Bool

/-- mem_pool.go:601-609 step 1. -/
def scanStep1 (vmap : Nat → Option Tx) (author : Acct) : List Nat → Scan → Scan
  | [], s => s
  | h :: hs, s =>
    match vmap h with
    | none => { s with panicked := true }           -- nil *Transaction dereference
    | some e =>
      scanStep1 vmap author hs
        { s with fee := if e.hasSigner author then s.fee + e.netFee else s.fee, rm := s.rm ++ [e] }

/-- mem_pool.go:617-635 step 2 (`none` = ErrConflictsAttribute: no common signer). -/
def scanStep2 (vmap : Nat → Option Tx) (t : Tx) : List Nat → Scan → Option Scan
  | [], s => some s
  | h :: hs, s =>
    match vmap h with
    | none => scanStep2 vmap t hs s
    | some e =>
      if e.signers.any (fun a => decide (a ∈ t.signers)) then
        scanStep2 vmap t hs { s with fee := s.fee + e.netFee, rm := s.rm ++ [e] }
      else none

/-- mem_pool.go:643-648 step 3. -/
def expectedFeeSum (p : Payer) : List Tx → Nat → Nat
  | [], s => s
  | c :: cs, s => expectedFeeSum p cs (if payerOf c = p then subW s c.fee else s)

/-- mem_pool.go:601 `if conflictingHashes, ok := mp.conflicts[tx.Hash()]; ok { … }`. -/
def scan1 (mp : Pool) (t : Tx) (author : Acct) : Scan :=
  match mp.conflicts t.id with
  | some hs => scanStep1 mp.vmap author hs { fee := 0, rm := [], panicked := false }
  | none => { fee := 0, rm := [], panicked := false }

/-- mem_pool.go:586 `checkTxConflicts`. -/
def checkTxConflicts (mp : Pool) (t : Tx) (feer : Feer) : Pool × Except Err (List Tx) :=
  let p := payerOf t
  let author := if (getPayer t).2 then p.2 else p.1
  let actual := (getPayerFee p mp.fees feer).1
  let ok := (getPayerFee p mp.fees feer).2
  let s1 := scan1 mp t author
  if s1.panicked then ({ mp with panicked := true }, .error .cattr)
  else
  match scanStep2 mp.vmap t t.conflicts s1 with  -- (the `len(conflictsAttrs) != 0` guard only skips an empty loop)
  | none => (mp, .error .cattr)
  | some s =>
    if s.fee ≠ 0 ∧ t.netFee ≤ s.fee then (mp, .error .cattr)
    else
      let expected : Fee := { actual with feeSum := expectedFeeSum p s.rm actual.feeSum }
      match (checkBalance t expected).2 with
      | some e => (mp, .error e)
      | none =>
        ((if !ok then { mp with fees := upd mp.fees p (some actual) } else mp), .ok s.rm)

/-- mem_pool.go:660 `Verify`. -/
def verify (mp : Pool) (t : Tx) (feer : Feer) : Pool × Bool :=
  match checkTxConflicts mp t feer with
  | (mp, .ok _) => (mp, true)
  | (mp, .error _) => (mp, false)

/-- `sort.Search(n, f)`: binary search for the least index in `[lo,hi)` with `f`, by fuel. -/
def searchLoop (f : Nat → Bool) : Nat → Nat → Nat → Nat
  | 0, lo, _ => lo
  | fuel + 1, lo, hi =>
    if lo < hi then
      let mid := (lo + hi) / 2
      if !f mid then searchLoop f fuel (mid + 1) hi else searchLoop f fuel lo mid
    else lo

def sortSearch (n : Nat) (f : Nat → Bool) : Nat := searchLoop f (n + 1) 0 n

/-- mem_pool.go:278-280 the closure given to `sort.Search`: `pItem.Compare(mp.verifiedTxes[n]) > 0`. -/
def above (l : List Tx) (t : Tx) (n : Nat) : Bool :=
  match l[n]? with
  | some e => decide (compare t e > 0)
  | none => false

/-- mem_pool.go:273-282 insertion index. -/
def insertIdx (l : List Tx) (t : Tx) : Nat :=
  match l.getLast? with
  | none => 0
  | some last =>
    if compare t last = 0 then l.length
    else sortSearch l.length (above l t)

/-- mem_pool.go:335-338: `copy(v[n+1:], v[n:]); v[n] = pItem` on a slice whose last element is `pItem`. -/
def shiftInsert (v : List Tx) (n : Nat) (t : Tx) : List Tx :=
  if n ≠ v.length - 1 then v.take n ++ [t] ++ (v.drop n).dropLast else v

def removeAll (mp : Pool) : List Tx → Pool
  | [] => mp
  | c :: cs => removeAll (removeInternal mp c.id) cs

/-- mem_pool.go:344-347 (and 448-451): `mp.conflicts[hash] = append(mp.conflicts[hash], t.Hash())` for every
Conflicts attribute of the inserted transaction, as one pointwise map update (`hs.count x` appends). -/
def addConflictEntries (c : Nat → Option (List Nat)) (id : Nat) (hs : List Nat) : Nat → Option (List Nat) :=
  fun x => if hs.count x = 0 then c x else some ((c x).getD [] ++ List.replicate (hs.count x) id)

/-- mem_pool.go:251-261: an OracleResponse with the id of a pooled one replaces it only with a
higher network fee; the flag is `false` for ErrOracleResponse. -/
def oracleStage (mp : Pool) (t : Tx) : Pool × Bool :=
  match t.oracle with
  | none => (mp, true)
  | some id =>
    match mp.oracleResp id with
    | none => (mp, true)
    | some h =>
      match mp.vmap h with
      | none => ({ mp with panicked := true }, false)   -- nil *Transaction dereference
      | some e => if e.netFee ≥ t.netFee then (mp, false) else (removeInternal mp h, true)

/-- mem_pool.go:311-323: at capacity the last item is overwritten and unregistered, otherwise append. -/
def placeLast (mp : Pool) (t : Tx) : Pool :=
  if mp.txs.length = mp.capacity then
    match mp.txs.getLast? with
    | none => { mp with panicked := true }
    | some unlucky => removeFromMap { mp with txs := mp.txs.dropLast ++ [t] } unlucky
  else { mp with txs := mp.txs ++ [t] }

/-- mem_pool.go:339-347: verifiedMap, oracleResp and conflicts entries of the inserted transaction. -/
def register (mp : Pool) (t : Tx) (height : Nat) (d : Nat) : Pool :=
  { mp with
    stamp := fun x => if x = t.id then height else mp.stamp x    -- l.236 `blockStamp: fee.BlockHeight()`
    data := fun x => if x = t.id then d else mp.data x           -- l.238-240 `pItem.data = data[0]`
    vmap := upd mp.vmap t.id (some t)
    oracleResp := match t.oracle with
      | some id => upd mp.oracleResp id (some t.id)
      | none => mp.oracleResp
    conflicts := addConflictEntries mp.conflicts t.id t.conflicts }

/-- mem_pool.go:273-366: insertion index, capacity check / eviction, shifting, bookkeeping, the
TransactionAdded event (sent after the unlock, l.360-366). -/
def insertStage (mp : Pool) (t : Tx) (feer : Feer) (d : Nat) : Pool × Option Err :=
  let n := insertIdx mp.txs t
  if mp.txs.length = mp.capacity ∧ n = mp.txs.length then (mp, some .oom)
  else
    let mp1 := placeLast mp t
    let mp2 := { mp1 with txs := shiftInsert mp1.txs n t }
    let mp3 := (tryAddSendersFee (register mp2 t feer.height d) t feer false).1
    ({ mp3 with events := emit mp3 { added := true, id := t.id, data := d } }, none)

/-- mem_pool.go:233 `Add`. -/
def add (mp : Pool) (t : Tx) (feer : Feer) (d : Nat) : Pool × Option Err :=
  if (mp.vmap t.id).isSome then (mp, some .dup)
  else
  match checkTxConflicts mp t feer with
  | (mp, .error e) => (mp, some e)
  | (mp, .ok toRemove) =>
    let r := oracleStage mp t
    if r.1.panicked then (r.1, some .oracle)
    else if !r.2 then (r.1, some .oracle)
    else insertStage (removeAll r.1 toRemove) t feer d

/-- mem_pool.go:483 `loadPolicy`. -/
def loadPolicy (mp : Pool) (feer : Feer) : Pool × Bool :=
  if feer.feePerByte > mp.feePerByte then ({ mp with feePerByte := feer.feePerByte }, true) else (mp, false)

/-- mem_pool.go:493 `checkPolicy`. -/
def checkPolicy (mp : Pool) (t : Tx) (policyChanged : Bool) : Bool :=
  !policyChanged || decide (t.feePerByte ≥ mp.feePerByte)

/-- `bits.OnesCount32(n) == 1` -/
def isPow2 (n : Nat) : Bool := n != 0 && (n &&& (n - 1)) == 0

/-- mem_pool.go:452-459: the item is resent when its age (uint32 arithmetic) is `resendThreshold * 2^k`. -/
def dueForResend (threshold height stamp : Nat) : Bool :=
  threshold != 0 &&
    (let diff := (height + 2 ^ 32 - stamp % 2 ^ 32) % 2 ^ 32
     diff % threshold == 0 && isPow2 (diff / threshold))

/-- mem_pool.go:522 `SetResendThreshold`. -/
def setResendThreshold (mp : Pool) (h : Nat) : Pool := { mp with resendThreshold := h }

/-- mem_pool.go:461-471: the index updates and the event of `RemoveStale` for a dropped transaction. -/
def dropEntry (mp : Pool) (itm : Tx) : Pool :=
  { mp with vmap := upd mp.vmap itm.id none
            oracleResp := match itm.oracle with
              | some id => upd mp.oracleResp id none
              | none => mp.oracleResp
            events := emit mp { added := false, id := itm.id, data := mp.data itm.id } }

/-- mem_pool.go:445-473: the loop of `RemoveStale`; `acc` is `newVerifiedTxes`. -/
def staleLoop (isOK : Tx → Bool) (feer : Feer) (policyChanged : Bool) : List Tx → Pool → List Tx → Pool × List Tx
  | [], mp, acc => (mp, acc)
  | itm :: rest, mp, acc =>
    if isOK itm && checkPolicy mp itm policyChanged then
      match tryAddSendersFee mp itm feer true with
      | (mp, true) =>
        staleLoop isOK feer policyChanged rest
          { mp with conflicts := addConflictEntries mp.conflicts itm.id itm.conflicts
                    resent := if dueForResend mp.resendThreshold feer.height (mp.stamp itm.id)
                      then mp.resent ++ [(itm.id, mp.data itm.id)] else mp.resent } (acc ++ [itm])
      | (mp, false) =>
        staleLoop isOK feer policyChanged rest
          (dropEntry mp itm) acc
    else
      staleLoop isOK feer policyChanged rest (dropEntry mp itm) acc

/-- mem_pool.go:433 `RemoveStale`. -/
def removeStale (mp : Pool) (isOK : Tx → Bool) (feer : Feer) : Pool :=
  let lp := loadPolicy mp feer
  let mp0 : Pool := { lp.1 with fees := fun _ => none, conflicts := fun _ => none, resent := [] }
  let r := staleLoop isOK feer lp.2 mp0.txs mp0 []
  { r.1 with txs := r.2 }

/-- mem_pool.go:152 `HasConflicts`. -/
def hasConflicts (mp : Pool) (t : Tx) : Bool :=
  (mp.vmap t.id).isSome || (mp.conflicts t.id).isSome || t.conflicts.any (fun h => (mp.vmap h).isSome)

/-- mem_pool.go:134 `ContainsKey`. -/
def containsKey (mp : Pool) (h : Nat) : Bool := (mp.vmap h).isSome

/-- mem_pool.go:536 `TryGetValue`. -/
def tryGetValue (mp : Pool) (h : Nat) : Option Tx := mp.vmap h

/-- mem_pool.go:552-554 the closure given to `sort.Search`: `itm.Compare(mp.verifiedTxes[n]) >= 0`. -/
def notBelow (l : List Tx) (t : Tx) (n : Nat) : Bool :=
  match l[n]? with
  | some e => decide (compare t e ≥ 0)
  | none => false

/-- mem_pool.go:556-563: the scan from the left bound of the equally prioritized items. -/
def scanData (t : Tx) (h : Nat) (data : Nat → Nat) : List Tx → Option Nat
  | [] => none
  | e :: rest =>
    if e.id = h then some (data e.id)
    else if compare t e ≠ 0 then none
    else scanData t h data rest

/-- mem_pool.go:547 `TryGetData` (`some d` = `(d, true)`, `none` = `(nil, false)`). -/
def tryGetData (mp : Pool) (h : Nat) : Option Nat :=
  match mp.vmap h with
  | none => none
  | some tx =>
    let n := sortSearch mp.txs.length (notBelow mp.txs tx)
    scanData tx h mp.data (mp.txs.drop n)    -- (`if n < len` only skips an empty loop)

/-- mem_pool.go:692 `IterateVerifiedTransactions` with a `cont` that always returns true. -/
def iterate (mp : Pool) : List (Nat × Nat) := mp.txs.map (fun t => (t.id, mp.data t.id))

end NeoModel.Mempool
