/-
C15 — stack-item form of witness conditions and rules, fully: the shape checks of the decoder, not only its
nesting / width limits.

  pkg/core/transaction/witness_condition.go:666-770   condFromStackItem
  pkg/core/transaction/witness_condition.go:860-890   condToStackItem
  pkg/core/transaction/witness_rule.go:88-120         WitnessRule.ToStackItem / FromStackItem
  pkg/vm/stackitem/item.go                            Value / TryBool / TryBytes / TryInteger of every item type
  pkg/vm/stackitem/conversion.go:25-88                ToUint160, ToInt64, ToUint8
  pkg/encoding/bigint/bigint.go:21-155                FromBytes, ToBytes (little-endian two's complement)

Core Lean only. `decKeyB` stands for `keys.NewPublicKeyFromBytes(b, P256)` on the whole byte string (curve
arithmetic is not modelled); a key is the number its 33-byte compressed form denotes, as in Model/Witness.lean.
-/
import NeoModel.Model.Witness
namespace NeoModel.Witness

/-- `stackitem.Item`: the kinds the decoders can tell apart. `other` stands for Interop and Pointer. -/
inductive Item where
  | null
  | bool (b : Bool)
  | int (n : Int)
  | bytes (bs : Bytes)      -- ByteString
  | buffer (bs : Bytes)
  | array (xs : List Item)
  | struct (xs : List Item)
  | map
  | other
deriving Repr, Inhabited

/-- `item.Value().([]stackitem.Item)`: Array and Struct only (a Map's value is a slice of pairs). -/
def Item.elems? : Item → Option (List Item)
  | .array xs => some xs
  | .struct xs => some xs
  | _ => none

/-- number of bytes `bigint.ToBytes` uses for a positive magnitude: `BitLen/8 + 1`. -/
def bigLen (v : Nat) : Nat := (if v = 0 then 0 else Nat.log2 v + 1) / 8 + 1

/-- `bigint.ToBytes` (bigint.go:97-155): little-endian two's complement, zero is the empty string. -/
def intToBytes (n : Int) : Bytes :=
  if n = 0 then []
  else if n > 0 then Wire.leBytes (bigLen n.toNat) n.toNat
  else
    let m := (-n).toNat - 1
    if m = 0 then [0xFF]                                           -- n = -1
    else (Wire.leBytes (bigLen m) m).map fun b => 255 - b

/-- `bigint.FromBytes` (bigint.go:21-71): little-endian two's complement. -/
def bytesToInt (bs : Bytes) : Int :=
  match bs.getLast? with
  | none => 0
  | some top =>
    if top.toNat ≥ 128 then (Wire.leVal bs : Int) - (256 ^ bs.length : Nat) else (Wire.leVal bs : Int)

/-- stackitem.MaxBigIntegerSizeBits / 8. -/
def maxBigIntBytes : Nat := 32

/-- `TryBytes`. -/
def Item.tryBytes : Item → Option Bytes
  | .bool b => some [if b then 1 else 0]
  | .int n => some (intToBytes n)
  | .bytes bs => some bs
  | .buffer bs => some bs
  | _ => none

/-- `TryInteger` (a Buffer does not convert). -/
def Item.tryInteger : Item → Option Int
  | .bool b => some (if b then 1 else 0)
  | .int n => some n
  | .bytes bs => if bs.length > maxBigIntBytes then none else some (bytesToInt bs)
  | _ => none

/-- `TryBool`. -/
def Item.tryBool : Item → Option Bool
  | .null => some false
  | .bool b => some b
  | .int n => some (n != 0)
  | .bytes bs => if bs.length > maxBigIntBytes then none else some (bs.any (· != 0))
  | _ => some true

/-- `stackitem.ToUint8`. -/
def Item.toUint8 (it : Item) : Option Nat :=
  match it.tryInteger with
  | none => none
  | some i => if 0 ≤ i ∧ i ≤ 255 then some i.toNat else none

/-- `stackitem.ToUint160`: exactly 20 bytes, big endian. -/
def Item.toUint160 (it : Item) : Option Hash :=
  match it.tryBytes with
  | none => none
  | some bs => if bs.length = 20 then some (beVal bs) else none

/-- all items decode, in order (the loops of condFromStackItem stop at the first error). -/
def itemsMapM (dec : Item → Option Cond) : List Item → Option (List Cond)
  | [] => some []
  | x :: xs => match dec x with
    | none => none
    | some c => match itemsMapM dec xs with
      | none => none
      | some cs => some (c :: cs)

/-- the operands of And / Or (witness_condition.go:706-726): an Array or Struct of 1..16 conditions. -/
def condList (dec : Item → Option Cond) (a : Item) : Option (List Cond) :=
  match a.elems? with
  | none => none                                         -- "not an array"
  | some items =>
    if items.length = 0 then none                        -- "empty array of conditions"
    else if items.length > maxSubitems then none         -- "too many elements"
    else itemsMapM dec items

/-- the `switch t` of condFromStackItem (:693-769) for the two-element forms; `dec` decodes a nested
condition with `maxDepth-1`. -/
def condPayload (decKeyB : Bytes → Option Key) (dec : Item → Option Cond) (t : Nat) (a : Item) : Option Cond :=
  if t = tBoolean.toNat then a.tryBool.map .boolean
  else if t = tNot.toNat then (dec a).map .not
  else if t = tAnd.toNat then (condList dec a).map .and
  else if t = tOr.toNat then (condList dec a).map .or
  else if t = tScriptHash.toNat then a.toUint160.map .scriptHash
  else if t = tGroup.toNat then (a.tryBytes.bind decKeyB).map .group
  else if t = tCalledByContract.toNat then a.toUint160.map .calledByContract
  else if t = tCalledByGroup.toNat then (a.tryBytes.bind decKeyB).map .calledByGroup
  else none                                              -- "invalid condition type"

/-- condFromStackItem (witness_condition.go:668-770); the first argument is `maxDepth`. The length check
(`wantLen` = 1 for CalledByEntry, 2 otherwise, :685-691) is the case split on the element list. -/
def condFromItem (decKeyB : Bytes → Option Key) : Nat → Item → Option Cond
  | 0, _ => none                                         -- "too many nesting levels"
  | d+1, it =>
    match it.elems? with
    | none => none                                       -- "not an array"
    | some [] => none                                    -- "empty condition"
    | some [t0] =>
      match t0.toUint8 with
      | none => none
      | some t => if t = tCalledByEntry.toNat then some .calledByEntry else none   -- else "wrong number of elements"
    | some [t0, a] =>
      match t0.toUint8 with
      | none => none
      | some t =>
        if t = tCalledByEntry.toNat then none            -- "wrong number of elements"
        else condPayload decKeyB (condFromItem decKeyB d) t a
    | some _ => none                                     -- bad type, or "wrong number of elements"

mutual
/-- condToStackItem (witness_condition.go:860-890): [type as Integer, payload]. `encKeyB` is `PublicKey.Bytes()`. -/
def condToItem (encKeyB : Key → Bytes) : Cond → Item
  | .boolean b => .array [.int tBoolean.toNat, .bool b]
  | .not c => .array [.int tNot.toNat, condToItem encKeyB c]
  | .and cs => .array [.int tAnd.toNat, .array (condsToItems encKeyB cs)]
  | .or cs => .array [.int tOr.toNat, .array (condsToItems encKeyB cs)]
  | .scriptHash h => .array [.int tScriptHash.toNat, .bytes (beBytes 20 h)]
  | .group k => .array [.int tGroup.toNat, .bytes (encKeyB k)]
  | .calledByEntry => .array [.int tCalledByEntry.toNat]
  | .calledByContract h => .array [.int tCalledByContract.toNat, .bytes (beBytes 20 h)]
  | .calledByGroup k => .array [.int tCalledByGroup.toNat, .bytes (encKeyB k)]
def condsToItems (encKeyB : Key → Bytes) : List Cond → List Item
  | [] => []
  | c :: cs => condToItem encKeyB c :: condsToItems encKeyB cs
end

/-- WitnessRule.ToStackItem (witness_rule.go:88-94). -/
def ruleToItem (encKeyB : Key → Bytes) (r : Rule) : Item :=
  .array [.int r.action, condToItem encKeyB r.cond]

/-- WitnessRule.FromStackItem (witness_rule.go:96-120). -/
def ruleFromItem (decKeyB : Bytes → Option Key) (it : Item) : Option Rule :=
  match it.elems? with
  | none => none                                           -- "not an array"
  | some [a, c] =>
    match a.toUint8 with
    | none => none
    | some act =>
      if act ≠ 0 ∧ act ≠ actAllow then none                -- "unknown witness rule action"
      else (condFromItem decKeyB maxConditionNesting c).map fun cond => { action := act, cond := cond }
  | some _ => none                                         -- "wrong number of structure elements"

/-! ### Signer as a stack item (signer.go:78-181) -/

def itemsMapMA {α : Type} (dec : Item → Option α) : List Item → Option (List α)
  | [] => some []
  | x :: xs => match dec x with
    | none => none
    | some c => match itemsMapMA dec xs with
      | none => none
      | some cs => some (c :: cs)

/-- one of the three lists of Signer.FromStackItem: an Array / Struct of at most 16 elements, each decoded. -/
def listOfItems {α : Type} (dec : Item → Option α) (it : Item) : Option (List α) :=
  match it.elems? with
  | none => none                                           -- "not an array"
  | some xs => if xs.length > maxSubitems then none else itemsMapMA dec xs   -- "too many elements"

/-- Signer.FromStackItem (signer.go:113-181). The scope byte is NOT validated here (unlike DecodeBinary). -/
def signerFromItem (decKeyB : Bytes → Option Key) (it : Item) : Option Signer :=
  match it.elems? with
  | some [a, sc, cs, gs, rs] =>
    match a.toUint160, sc.toUint8, listOfItems Item.toUint160 cs,
        listOfItems (fun x => x.tryBytes.bind decKeyB) gs, listOfItems (ruleFromItem decKeyB) rs with
    | some acc, some s, some c, some g, some r =>
      some { account := acc, scopes := s, allowedContracts := c, allowedGroups := g, rules := r }
    | _, _, _, _, _ => none
  | _ => none                                              -- "not an array" / "wrong number of structure elements"

/-- Signer.ToStackItem (signer.go:78-108): all three lists are written whatever the scope byte. -/
def signerToItem (encKeyB : Key → Bytes) (s : Signer) : Item :=
  .array [.bytes (beBytes 20 s.account), .int s.scopes,
    .array (s.allowedContracts.map fun h => .bytes (beBytes 20 h)),
    .array (s.allowedGroups.map fun k => .bytes (encKeyB k)),
    .array (s.rules.map (ruleToItem encKeyB))]

end NeoModel.Witness
