/-
C15 — how the VM and the interop layer BUILD the chain of script contexts that the witness check reads.

  pkg/vm/vm.go:425-433      LoadWithFlags (clears the invocation stack, then LoadScriptWithFlags)
  pkg/vm/vm.go:443-477      LoadScriptWithFlags / LoadDynamicScript / LoadScriptWithHash / LoadNEFMethod
  pkg/vm/vm.go:481-513      loadScriptWithCallingHash (callingContext, scriptHash, callingScriptHash, callFlag)
  pkg/vm/vm.go:1700-1728    RET (pops one context)
  pkg/vm/vm.go:1952-1965    call (CALL / CALL_L / CALLA: a new Context that SHARES the scriptContext)
  pkg/vm/vm.go:2202-2231    checkInvocationStackSize, GetCallingScriptHash, GetEntryScriptHash, GetCurrentScriptHash
  pkg/vm/context.go:136-141 Context.ScriptHash (a zero scriptHash means Hash160 of the program)
  pkg/vm/context.go:169-180 getContextScriptHash, IsCalledByEntry
  pkg/core/interop/contract/call.go:22-51    LoadToken (CALLT)
  pkg/core/interop/contract/call.go:54-112   Call, callInternal  (System.Contract.Call)
  pkg/core/interop/contract/call.go:118-207  callExFromNative, CallFromNative (native -> contract callbacks)
  pkg/core/interop/runtime/engine.go:121-139 LoadScript (System.Runtime.LoadScript)
  pkg/core/interop/context.go:524-538        SyscallHandler (required call flags)
  pkg/core/interop/context.go:147-160        UseSigners, Signers
  pkg/core/blockchain.go:3428-3468           InitVerificationContext

Core Lean only. A `scriptContext` is a value; the `callingContext` pointer chain is the recursive argument of
`SC.child`. One `Context` of the invocation stack is represented by the `scriptContext` it points to (the
other fields of a Context — instruction pointer, slots, try stack — are not read by the witness check), so a
CALL pushes the same `SC` again.
-/
import NeoModel.Model.Witness
namespace NeoModel.Witness

/-- `callflag.CallFlag` as the raw byte (smartcontract/callflag/call_flags.go:14-24). -/
abbrev Flags := Nat
def fReadStates : Flags := 1
def fWriteStates : Flags := 2
def fAllowCall : Flags := 4
def fAllowNotify : Flags := 8
def fStates : Flags := 3
def fReadOnly : Flags := 5
def fAll : Flags := 15
def fNone : Flags := 0

/-- `CallFlag.Has` (call_flags.go: `f&cf == cf`). -/
def Flags.has (f need : Flags) : Bool := f &&& need == need

/-- the fields of a `scriptContext` (vm/context.go:21-63) that loaders write and the witness check reads. -/
structure FrameRec where
  hash : Hash      -- scriptHash, already resolved (context.go:137: zero means Hash160(prog))
  caller : Hash    -- callingScriptHash
  flags : Flags    -- callFlag
deriving Repr, DecidableEq

/-- a `scriptContext` with its `callingContext` pointer (`root`: nil). -/
inductive SC where
  | root (f : FrameRec)
  | child (f : FrameRec) (calling : SC)
deriving Repr, DecidableEq

def SC.frame : SC → FrameRec
  | .root f => f
  | .child f _ => f

/-- `sc.callingContext`. -/
def SC.calling? : SC → Option SC
  | .root _ => none
  | .child _ p => some p

/-- `Context.IsCalledByEntry` (vm/context.go:178-180), on the pointer chain. -/
def SC.isCalledByEntry : SC → Bool
  | .root _ => true
  | .child _ (.root _) => true
  | .child _ (.child _ _) => false

/-- the VM's invocation stack, top (executing context) first. -/
structure VM where
  istack : List SC
deriving Repr

def VM.empty : VM := ⟨[]⟩

/-- vm.go:59. -/
def maxInvocationStackSize : Nat := 1024

/-- `getContextScriptHash(0)` = GetCurrentScriptHash (vm.go:2229, context.go:169): zero without a context. -/
def VM.currentHash (v : VM) : Hash :=
  match v.istack with
  | [] => 0
  | s :: _ => s.frame.hash

/-- GetEntryScriptHash (vm.go:2224): the bottom of the invocation stack. -/
def VM.entryHash (v : VM) : Hash :=
  match v.istack.getLast? with
  | none => 0
  | some s => s.frame.hash

/-- GetCallingScriptHash (vm.go:2219) — `none` stands for the nil dereference without a context. -/
def VM.callingHash (v : VM) : Option Hash := v.istack.head?.map (·.frame.caller)

/-- `v.Context().GetCallFlags()`. -/
def VM.flags (v : VM) : Option Flags := v.istack.head?.map (·.frame.flags)

/-- what can go wrong while a context is being loaded (each is a VM fault). -/
inductive MFault where
  | stackTooBig        -- vm.go:2204 "invocation stack is too big"
  | noContext          -- no executing context
  | missingCallFlags   -- interop/context.go:531
  | flagsOutOfRange    -- call.go:63, engine.go:125 "call flags out of range"
  | invalidCallFlags   -- call.go:25 (CALLT)
deriving Repr, DecidableEq

/-- `Context.ScriptHash` (context.go:136-141): a zero `scriptHash` is replaced by Hash160 of the program. -/
def resolveHash (h160 hash : Hash) : Hash := if hash = 0 then h160 else hash

/-- loadScriptWithCallingHash (vm.go:481-513). `h160` is Hash160 of the program, used when `hash` is zero. -/
def VM.load (v : VM) (h160 caller hash : Hash) (f : Flags) : Except MFault VM :=
  if v.istack.length ≥ maxInvocationStackSize then .error .stackTooBig          -- :483
  else
    let fr : FrameRec := ⟨resolveHash h160 hash, caller, f⟩            -- :495-497, context.go:137
    match v.istack with
    | [] => .ok ⟨[.root fr]⟩                                                     -- :486 parent == nil
    | p :: rest => .ok ⟨.child fr p :: p :: rest⟩                                -- :487

/-- `call` (vm.go:1952-1965): the new Context shares `ctx.sc`. -/
def VM.call (v : VM) : Except MFault VM :=
  match v.istack with
  | [] => .error .noContext
  | s :: rest =>
    if v.istack.length ≥ maxInvocationStackSize then .error .stackTooBig
    else .ok ⟨s :: s :: rest⟩

/-- RET (vm.go:1700-1702) and each context dropped by exception unwinding (handleException). -/
def VM.pop (v : VM) : Except MFault VM :=
  match v.istack with
  | [] => .error .noContext
  | _ :: rest => .ok ⟨rest⟩

/-- LoadNEFMethod (vm.go:467-477): load, then `Call(initOff)` when the contract has `_initialize`. -/
def VM.loadNEF (v : VM) (h160 caller hash : Hash) (f : Flags) (init : Bool) : Except MFault VM :=
  match v.load h160 caller hash f with
  | .error x => .error x
  | .ok v' => if init then v'.call else .ok v'

/-- One step of the frame machine. The first group are the VM's own entry points, the second the interop
layer's ways of loading a script, the third witness verification. -/
inductive Op where
  | loadWithFlags (h160 : Hash) (f : Flags)                       -- vm.go:425 (entry script of an invocation)
  | loadScriptWithFlags (h160 : Hash) (f : Flags)                 -- vm.go:443
  | loadDynamicScript (h160 : Hash) (f : Flags)                   -- vm.go:450
  | loadScriptWithHash (h160 hash : Hash) (f : Flags)             -- vm.go:460
  | loadNEFMethod (h160 caller hash : Hash) (f : Flags) (init : Bool)   -- vm.go:467
  | call                                                          -- CALL / CALL_L / CALLA
  | ret                                                           -- RET
  | unwind (n : Nat)                                              -- an exception caught n contexts below
  | contractCall (target : Hash) (fs : Flags) (safe init : Bool)  -- System.Contract.Call
  | callT (target : Hash) (fs : Flags) (safe init : Bool)         -- CALLT
  | runtimeLoadScript (h160 : Hash) (fs : Flags)                  -- System.Runtime.LoadScript
  | nativeCall (caller target : Hash) (init : Bool)               -- contract.CallFromNative
  | verifyScript (hash : Hash)                                    -- InitVerificationContext, script witness
  | verifyContract (hash : Hash) (init : Bool)                    -- InitVerificationContext, contract witness
  | invocationScript (h160 : Hash)                                -- InitVerificationContext, vm.LoadScript
deriving Repr, DecidableEq

/-- callExFromNative (call.go:158, 191): `f = ic.VM.Context().GetCallFlags() & f`, then LoadNEFMethod. -/
def VM.callEx (v : VM) (caller target : Hash) (f : Flags) (init : Bool) : Except MFault VM :=
  match v.flags with
  | none => .error .noContext
  | some cf => v.loadNEF 0 caller target (cf &&& f) init

/-- `Safe` methods lose WriteStates and AllowNotify (call.go:95-96 `f &^= ...`; a CallFlag is a byte). -/
def safeMask (safe : Bool) (f : Flags) : Flags :=
  if safe then f &&& (255 ^^^ (fWriteStates ||| fAllowNotify)) else f

/-- callInternal (call.go:93-112): a Safe method loses WriteStates and AllowNotify; the caller is the
executing script (`ic.VM.GetCurrentScriptHash()`). The permission check (`CanCall`) and the lookups of the
contract and the method do not touch the context chain and are not modelled. -/
def VM.callInternal (v : VM) (target : Hash) (f : Flags) (safe init : Bool) : Except MFault VM :=
  v.callEx v.currentHash target (safeMask safe f) init

def VM.popN (v : VM) : Nat → Except MFault VM
  | 0 => .ok v
  | n+1 => match v.pop with
    | .error x => .error x
    | .ok v' => v'.popN n

def VM.step (v : VM) : Op → Except MFault VM
  | .loadWithFlags h f => (VM.empty).load h (VM.empty).currentHash 0 f       -- :427 istack[:0], :432
  | .loadScriptWithFlags h f => v.load h v.currentHash 0 f                   -- :444
  | .loadDynamicScript h f => v.load h v.currentHash 0 f                     -- :451
  | .loadScriptWithHash h hash f => v.load h v.currentHash hash f            -- :461
  | .loadNEFMethod h caller hash f init => v.loadNEF h caller hash f init    -- :473-476
  | .call => v.call
  | .ret => v.pop
  | .unwind n => v.popN n
  | .contractCall target fs0 safe init =>
    let fs := fs0 % 256                                                         -- call.go:61 `callflag.CallFlag(int32(...))`: a CallFlag is a byte, the conversion truncates
    match v.flags with
    | none => .error .noContext
    | some cf =>
      if !cf.has (fReadStates ||| fAllowCall) then .error .missingCallFlags   -- interops.go (RequiredFlags), context.go:530
      else if fs &&& fAll != fs then .error .flagsOutOfRange                  -- call.go:62 `fs&^callflag.All != 0`
      else v.callInternal target fs safe init
  | .callT target fs safe init =>
    match v.flags with
    | none => .error .noContext
    | some cf =>
      if !cf.has (fReadStates ||| fAllowCall) then .error .invalidCallFlags   -- call.go:24
      else v.callInternal target fs safe init
  | .runtimeLoadScript h fs0 =>
    let fs := fs0 % 256                                                         -- engine.go:123: the same truncating conversion
    match v.flags with
    | none => .error .noContext
    | some cf =>
      if !cf.has fAllowCall then .error .missingCallFlags                     -- interops.go (RequiredFlags)
      else if fs &&& fAll != fs then .error .flagsOutOfRange                  -- engine.go:124
      else v.load h v.currentHash 0 (cf &&& fReadOnly &&& fs)                 -- engine.go:132-133, vm.go:451
  | .nativeCall caller target init => v.callEx caller target fAll init       -- call.go:205-207
  | .verifyScript hash => v.load 0 v.currentHash hash fReadOnly              -- blockchain.go:3439, vm.go:461
  | .verifyContract hash init => v.loadNEF 0 0 hash fReadOnly init           -- blockchain.go:3456
  | .invocationScript h => v.load h v.currentHash 0 fNone                    -- blockchain.go:3464, vm.go:438-444

/-- run a list of steps; the first fault stops the execution. -/
def VM.run (v : VM) : List Op → Except MFault VM
  | [] => .ok v
  | op :: ops => match v.step op with
    | .error x => .error x
    | .ok v' => v'.run ops

/-! ### What the witness check sees -/

def FrameRec.toFrame (f : FrameRec) : Frame := ⟨f.hash, f.caller, f.flags.has fReadStates⟩

/-- the `callingContext` chain of a script context, nearest first. -/
def SC.parents : SC → List Frame
  | .root _ => []
  | .child _ p => p.frame.toFrame :: p.parents

/-- The environment of `CheckHashedWitness` when the VM is in state `v` (`none`: no executing context). -/
def VM.env (k : Hash → Option (List Key)) (v : VM) : Option Env :=
  match v.istack with
  | [] => none
  | s :: _ => some { cur := s.frame.toFrame, parents := s.parents, contracts := k }

/-! ### The signers of an interop context (interop/context.go:147-160) -/

/-- `useSigners`: what `ic.UseSigners` stored (`none`: nil); `tx`: the signers of `ic.Tx` (`none`: the
container is not a transaction — a block, an extensible payload — or there is no container). -/
structure IC where
  useSigners : Option (List Signer)
  tx : Option (List Signer)

/-- `ic.Signers()`. -/
def IC.signers (ic : IC) : List Signer :=
  match ic.useSigners with
  | some s => s
  | none => match ic.tx with
    | some s => s
    | none => []

/-- `runtime.CheckHashedWitness(ic, h)` with the VM in state `v`. -/
def checkWitnessVM (k : Hash → Option (List Key)) (ic : IC) (v : VM) (h : Hash) : Option Res :=
  (v.env k).map fun e => checkWitness e ic.signers h

end NeoModel.Witness
