/-
C15 — binary encoders of rules and signers (the decoders are in Model/Witness.lean).

  pkg/core/transaction/witness_rule.go:39-43    WitnessRule.EncodeBinary
  pkg/core/transaction/signer.go:35-48          Signer.EncodeBinary
  pkg/io/binaryWriter.go                        WriteArray (var-uint count, then the elements), WriteB, WriteBytes

Core Lean only.
-/
import NeoModel.Model.Witness
namespace NeoModel.Witness

/-- WitnessRule.EncodeBinary. -/
def encodeRule (encKey : Key → Bytes) (r : Rule) : Bytes :=
  UInt8.ofNat r.action :: encodeCond encKey r.cond

/-- `bw.WriteArray`: the count as a var-uint, then the elements. -/
def writeArray {α : Type} (enc : α → Bytes) (xs : List α) : Bytes :=
  Wire.putVarUint xs.length ++ (xs.map enc).flatten

/-- Signer.EncodeBinary: the lists are written only under their scope bit. -/
def encodeSigner (encKey : Key → Bytes) (s : Signer) : Bytes :=
  beBytes 20 s.account ++ [UInt8.ofNat s.scopes] ++
  (if hasScope s.scopes scCustomContracts then writeArray (beBytes 20) s.allowedContracts else []) ++
  (if hasScope s.scopes scCustomGroups then writeArray encKey s.allowedGroups else []) ++
  (if hasScope s.scopes scRules then writeArray (encodeRule encKey) s.rules else [])

end NeoModel.Witness
