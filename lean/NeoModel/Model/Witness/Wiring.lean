/-
C15 — the wiring of the source the frame machine (Model/Witness/Frames.lean) and the witness model
(Model/Witness.lean) were written against: for every loader / interop function, the expressions the code
passes as calling hash, script hash and call flags, and the getters the witness check reads. The check
regenerates the same table from /repo's current source (harness/cmd/extract/witnessframes.go ->
Generated/WitnessFrames.lean) and Props/C15Exec.lean demands that they are equal, so a change of, say, the
frame the calling hash is taken from breaks `lake build`. Where the model mirrors the row:

  vm.Load*.caller / .hash / .flags, vm.loadScriptWithCallingHash.*   VM.load, VM.step (loaders), resolveHash
  vm.LoadNEFMethod.then                                              VM.loadNEF
  vm.LoadWithFlags.*                                                 VM.step .loadWithFlags
  vm.call.*                                                          VM.call
  vm.Get*ScriptHash, vm.getContextScriptHash, vm.Context.ScriptHash  VM.callingHash / entryHash / currentHash
  vm.checkInvocationStackSize.if                                     VM.load / VM.call (maxInvocationStackSize)
  vm.Context.IsCalledByEntry                                         SC.isCalledByEntry, Env.isCalledByEntry
  contract.*                                                         VM.callInternal, VM.callEx, safeMask, VM.step .contractCall/.callT/.nativeCall
  runtime.LoadScript.*                                               VM.step .runtimeLoadScript
  runtime.CheckHashedWitness.*, runtime.scopeContext.*, runtime.checkScope.*, runtime.getContractGroups.if
                                                                     checkWitness, matchC, checkSigner, getContractGroups
  runtime.CheckKeyedWitness                                          checkWitnessArg
  interop.Context.Signers.*                                          IC.signers
  core.InitVerificationContext.*                                     VM.step .verifyScript/.verifyContract/.invocationScript
-/
namespace NeoModel.Witness

def wiringExpected : List (String × String) := [
  ("vm.LoadScriptWithFlags.caller", "v.GetCurrentScriptHash()"),
  ("vm.LoadScriptWithFlags.hash", "util.Uint160{}"),
  ("vm.LoadScriptWithFlags.flags", "f"),
  ("vm.LoadDynamicScript.caller", "v.GetCurrentScriptHash()"),
  ("vm.LoadDynamicScript.hash", "util.Uint160{}"),
  ("vm.LoadDynamicScript.flags", "f"),
  ("vm.LoadScriptWithHash.caller", "v.GetCurrentScriptHash()"),
  ("vm.LoadScriptWithHash.hash", "hash"),
  ("vm.LoadScriptWithHash.flags", "f"),
  ("vm.LoadNEFMethod.caller", "caller"),
  ("vm.LoadNEFMethod.hash", "hash"),
  ("vm.LoadNEFMethod.flags", "f"),
  ("vm.LoadNEFMethod.then", "v.Call(initOff)"),
  ("vm.loadScriptWithCallingHash.parent", ":= v.Context()"),
  ("vm.loadScriptWithCallingHash.ctx.sc.callingContext", "[if parent != nil] = parent.sc"),
  ("vm.loadScriptWithCallingHash.ctx.sc.scriptHash", "= hash"),
  ("vm.loadScriptWithCallingHash.ctx.sc.callingScriptHash", "= caller"),
  ("vm.loadScriptWithCallingHash.ctx.sc.callFlag", "= f"),
  ("vm.loadScriptWithCallingHash.v.istack", "= append(v.istack, ctx)"),
  ("vm.LoadWithFlags.v.istack", "= v.istack[:0]"),
  ("vm.LoadWithFlags.then", "v.LoadScriptWithFlags(prog, f)"),
  ("vm.LoadScript.then", "v.LoadScriptWithFlags(b, callflag.NoneFlag)"),
  ("vm.call.newCtx.sc", "ctx.sc"),
  ("vm.call.v.istack", "= append(v.istack, newCtx)"),
  ("vm.GetCallingScriptHash", "v.Context().sc.callingScriptHash"),
  ("vm.GetEntryScriptHash", "v.getContextScriptHash(len(v.istack) - 1)"),
  ("vm.GetCurrentScriptHash", "v.getContextScriptHash(0)"),
  ("vm.checkInvocationStackSize.if", "len(v.istack) >= MaxInvocationStackSize"),
  ("vm.Context.IsCalledByEntry", "c.sc.callingContext == nil || c.sc.callingContext.callingContext == nil"),
  ("vm.getContextScriptHash", "util.Uint160{} | v.istack[len(v.istack)-1-n].ScriptHash()"),
  ("vm.Context.ScriptHash.if", "c.sc.scriptHash.Equals(util.Uint160{})"),
  ("vm.Context.ScriptHash.c.sc.scriptHash", "[if c.sc.scriptHash.Equals(util.Uint160{})] = hash.Hash160(c.sc.prog)"),
  ("contract.callInternal.caller", "ic.VM.GetCurrentScriptHash()"),
  ("contract.callInternal.flags", "f"),
  ("contract.callInternal.f", "[if md.Safe] &^= (callflag.WriteStates | callflag.AllowNotify)"),
  ("contract.callExFromNative.f", "= ic.VM.Context().GetCallFlags() & f"),
  ("contract.callExFromNative.LoadNEFMethod.caller", "caller"),
  ("contract.callExFromNative.LoadNEFMethod.hash", "cs.Hash"),
  ("contract.callExFromNative.LoadNEFMethod.flags", "f"),
  ("contract.CallFromNative.caller", "caller"),
  ("contract.CallFromNative.flags", "callflag.All"),
  ("contract.LoadToken.if", "!ctx.GetCallFlags().Has(callflag.ReadStates | callflag.AllowCall)"),
  ("contract.LoadToken.callInternal.flags", "tok.CallFlag"),
  ("contract.Call.if", "fs&^callflag.All != 0"),
  ("contract.Call.callInternal.flags", "fs"),
  ("runtime.LoadScript.fs", ":= callflag.CallFlag(int32(ic.VM.Estack().Pop().BigInt().Int64()))"),
  ("runtime.LoadScript.fs", "= ic.VM.Context().GetCallFlags() & callflag.ReadOnly & fs"),
  ("runtime.LoadScript.if", "fs&^callflag.All != 0"),
  ("runtime.LoadScript.then", "ic.VM.LoadDynamicScript(script, fs)"),
  ("runtime.CheckHashedWitness.callingSH", ":= ic.VM.GetCallingScriptHash()"),
  ("runtime.CheckHashedWitness.if", "!callingSH.Equals(util.Uint160{}) && hash.Equals(callingSH)"),
  ("runtime.scopeContext.IsCalledByEntry", "sc.VM.Context().IsCalledByEntry()"),
  ("runtime.scopeContext.CallingScriptHasGroup", "sc.checkScriptGroups(sc.GetCallingScriptHash(), k)"),
  ("runtime.scopeContext.CurrentScriptHasGroup", "sc.checkScriptGroups(sc.GetCurrentScriptHash(), k)"),
  ("runtime.getContractGroups.if", "!v.Context().GetCallFlags().Has(callflag.ReadStates)"),
  ("runtime.checkScope.signers", ":= ic.Signers()"),
  ("runtime.checkScope.currentScriptHash", "[if c.Account == hash] [if c.Scopes&transaction.CustomContracts != 0] := ic.VM.GetCurrentScriptHash()"),
  ("runtime.checkScope.getContractGroups", "getContractGroups(ic.VM, ic, ic.VM.GetCurrentScriptHash())"),
  ("runtime.checkScope.calledByEntry", "ic.VM.Context().IsCalledByEntry()"),
  ("runtime.CheckKeyedWitness", "CheckHashedWitness(ic, key.GetScriptHash())"),
  ("interop.Context.Signers.if", "ic.signers != nil | ic.Tx != nil"),
  ("interop.Context.Signers.return", "ic.signers | ic.Tx.Signers | nil"),
  ("core.InitVerificationContext.LoadScriptWithHash.hash", "hash"),
  ("core.InitVerificationContext.LoadScriptWithHash.flags", "callflag.ReadOnly"),
  ("core.InitVerificationContext.LoadNEFMethod.caller", "util.Uint160{}"),
  ("core.InitVerificationContext.LoadNEFMethod.hash", "hash"),
  ("core.InitVerificationContext.LoadNEFMethod.flags", "callflag.ReadOnly"),
  ("core.InitVerificationContext.LoadNEFMethod.initOff", "initOffset"),
  ("core.InitVerificationContext.LoadScript", "ic.VM.LoadScript(witness.InvocationScript)")
]

/-- the call sites of contract.CallFromNative and the caller hash each passes: every native passes its own
hash (`Op.honest`), except Policy.recoverFund, which calls the token on behalf of the blocked account. -/
def nativeCallSitesExpected : List (String × String × String) := [
  ("management.go", "callDeployDeferrable", "m.Hash"),
  ("native_nep17.go", "postTransfer", "c.Hash"),
  ("notary.go", "withdrawDeferrable", "n.Hash"),
  ("oracle.go", "finishDeferrable", "o.Hash"),
  ("policy.go", "recoverFundDeferrable", "acc"),
  ("policy.go", "recoverFundDeferrable", "acc")
]

end NeoModel.Witness
