/-
C15 — RIPEMD-160 (Dobbertin, Bosselaers, Preneel 1996) over `List UInt8`, executable only, and
`hash.Hash160 = RIPEMD160 ∘ SHA256` (pkg/crypto/hash/hash.go). Used by the witness driver so that the script
hash of a key's signature contract can be compared with the implementation byte for byte. No theorem depends
on its definition: in theorems the hash is a parameter.
-/
import NeoModel.Base.Sha256
namespace NeoModel.Ripemd160

def rL : Array Nat := #[
  0, 1, 2, 3, 4, 5, 6, 7, 8, 9, 10, 11, 12, 13, 14, 15,
  7, 4, 13, 1, 10, 6, 15, 3, 12, 0, 9, 5, 2, 14, 11, 8,
  3, 10, 14, 4, 9, 15, 8, 1, 2, 7, 0, 6, 13, 11, 5, 12,
  1, 9, 11, 10, 0, 8, 12, 4, 13, 3, 7, 15, 14, 5, 6, 2,
  4, 0, 5, 9, 7, 12, 2, 10, 14, 1, 3, 8, 11, 6, 15, 13]

def rR : Array Nat := #[
  5, 14, 7, 0, 9, 2, 11, 4, 13, 6, 15, 8, 1, 10, 3, 12,
  6, 11, 3, 7, 0, 13, 5, 10, 14, 15, 8, 12, 4, 9, 1, 2,
  15, 5, 1, 3, 7, 14, 6, 9, 11, 8, 12, 2, 10, 0, 4, 13,
  8, 6, 4, 1, 3, 11, 15, 0, 5, 12, 2, 13, 9, 7, 10, 14,
  12, 15, 10, 4, 1, 5, 8, 7, 6, 2, 13, 14, 0, 3, 9, 11]

def sL : Array UInt32 := #[
  11, 14, 15, 12, 5, 8, 7, 9, 11, 13, 14, 15, 6, 7, 9, 8,
  7, 6, 8, 13, 11, 9, 7, 15, 7, 12, 15, 9, 11, 7, 13, 12,
  11, 13, 6, 7, 14, 9, 13, 15, 14, 8, 13, 6, 5, 12, 7, 5,
  11, 12, 14, 15, 14, 15, 9, 8, 9, 14, 5, 6, 8, 6, 5, 12,
  9, 15, 5, 11, 6, 8, 13, 12, 5, 12, 13, 14, 11, 8, 5, 6]

def sR : Array UInt32 := #[
  8, 9, 9, 11, 13, 15, 15, 5, 7, 7, 8, 11, 14, 14, 12, 6,
  9, 13, 15, 7, 12, 8, 9, 11, 7, 7, 12, 7, 6, 15, 13, 11,
  9, 7, 15, 11, 8, 6, 6, 14, 12, 13, 5, 14, 13, 13, 7, 5,
  15, 5, 8, 11, 14, 14, 6, 14, 6, 9, 12, 9, 12, 5, 15, 8,
  8, 5, 12, 9, 12, 5, 14, 6, 8, 13, 6, 5, 15, 13, 11, 11]

def kL : Array UInt32 := #[0x00000000, 0x5A827999, 0x6ED9EBA1, 0x8F1BBCDC, 0xA953FD4E]
def kR : Array UInt32 := #[0x50A28BE6, 0x5C4DD124, 0x6D703EF3, 0x7A6D76E9, 0x00000000]

def H0 : Array UInt32 := #[0x67452301, 0xEFCDAB89, 0x98BADCFE, 0x10325476, 0xC3D2E1F0]

@[inline] def rol (x : UInt32) (n : UInt32) : UInt32 := (x <<< n) ||| (x >>> (32 - n))

/-- the round function of group `g` (0..4). -/
def f (g : Nat) (x y z : UInt32) : UInt32 :=
  match g with
  | 0 => x ^^^ y ^^^ z
  | 1 => (x &&& y) ||| ((~~~ x) &&& z)
  | 2 => (x ||| (~~~ y)) ^^^ z
  | 3 => (x &&& z) ||| (y &&& (~~~ z))
  | _ => x ^^^ (y ||| (~~~ z))

def pad (msg : Bytes) : Bytes :=
  let l := msg.length
  let zeros := (55 + 64 - l % 64) % 64
  let bits := l * 8
  let lenBytes : Bytes := (List.range 8).map fun i => UInt8.ofNat ((bits >>> (8 * i)) % 256)   -- little endian
  msg ++ [0x80] ++ List.replicate zeros 0 ++ lenBytes

def le32 (a b c d : UInt8) : UInt32 :=
  a.toUInt32 ||| (b.toUInt32 <<< 8) ||| (c.toUInt32 <<< 16) ||| (d.toUInt32 <<< 24)

def compress (h : Array UInt32) (block : Array UInt8) : Array UInt32 := Id.run do
  let mut x : Array UInt32 := Array.mkEmpty 16
  for i in [0:16] do
    x := x.push (le32 block[4*i]! block[4*i+1]! block[4*i+2]! block[4*i+3]!)
  let mut a := h[0]!; let mut b := h[1]!; let mut c := h[2]!; let mut d := h[3]!; let mut e := h[4]!
  let mut a' := h[0]!; let mut b' := h[1]!; let mut c' := h[2]!; let mut d' := h[3]!; let mut e' := h[4]!
  for j in [0:80] do
    let g := j / 16
    let t := rol (a + f g b c d + x[rL[j]!]! + kL[g]!) sL[j]! + e
    a := e; e := d; d := rol c 10; c := b; b := t
    let t' := rol (a' + f (4 - g) b' c' d' + x[rR[j]!]! + kR[g]!) sR[j]! + e'
    a' := e'; e' := d'; d' := rol c' 10; c' := b'; b' := t'
  let t := h[1]! + c + d'
  return #[t, h[2]! + d + e', h[3]! + e + a', h[4]! + a + b', h[0]! + b + c']

def hash (msg : Bytes) : Bytes := Id.run do
  let p := (pad msg).toArray
  let mut h := H0
  for i in [0:p.size / 64] do
    h := compress h (p.extract (64*i) (64*i + 64))
  let mut out : Array UInt8 := Array.mkEmpty 20
  for x in h do
    out := out.push x.toUInt8
    out := out.push (x >>> 8).toUInt8
    out := out.push (x >>> 16).toUInt8
    out := out.push (x >>> 24).toUInt8
  return out.toList

/-- `hash.Hash160` (pkg/crypto/hash/hash.go): RIPEMD-160 of SHA-256, as the 20 bytes of `util.Uint160`
in big-endian order (`BytesBE`). -/
def hash160 (msg : Bytes) : Bytes := hash (Sha256.hash msg)

end NeoModel.Ripemd160
