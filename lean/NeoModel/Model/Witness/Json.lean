/-
C15 — JSON form of witness conditions and rules, on the level of the JSON value (the text → value parsing of
encoding/json is not modelled; how encoding/json stores a value into `conditionAux` is).

  pkg/core/transaction/witness_condition.go:101-108    conditionAux
  pkg/core/transaction/witness_condition.go:772-858    unmarshalArrayOfConditionJSONs, unmarshalConditionJSON
  pkg/core/transaction/witness_condition.go:133-141..  MarshalJSON of every condition type
  pkg/core/transaction/witness_rule.go:56-86           WitnessRule.MarshalJSON / UnmarshalJSON
  pkg/util/uint160.go:130-138, 36-48                   Uint160.UnmarshalJSON, Uint160DecodeStringLE
  pkg/crypto/keys/publickey.go:426-443                 PublicKey.UnmarshalJSON

encoding/json rules that matter here (decode.go): an object is stored field by field in the order of the
text, a later duplicate overwrites; keys match exactly or case-insensitively; unknown keys are skipped; `null`
leaves a string as it is, makes a pointer and a slice nil, and is kept verbatim by a RawMessage; a value of
the wrong kind for a field is an error; `null` for the whole struct is no error and changes nothing.

Core Lean only. Strings are lists of characters (so that the hex codec can be reasoned about).
-/
import NeoModel.Model.Witness
namespace NeoModel.Witness

/-- a JSON value. -/
inductive J where
  | null
  | bool (b : Bool)
  | num (n : Int)
  | str (s : List Char)
  | arr (xs : List J)
  | obj (fs : List (List Char × J))
deriving Repr, Inhabited

/-- `conditionAux` after `json.Unmarshal` (`none` = nil / absent). -/
structure Aux where
  expression : Option J := none          -- json.RawMessage
  expressions : Option (List J) := none  -- []json.RawMessage
  group : Option Key := none             -- *keys.PublicKey
  hash : Option Hash := none             -- *util.Uint160
  type : List Char := []

-- WitnessConditionType.String() (witness_condition.go:22-40, linecomment) and WitnessAction.String()
def nBoolean : List Char := "Boolean".toList
def nNot : List Char := "Not".toList
def nAnd : List Char := "And".toList
def nOr : List Char := "Or".toList
def nScriptHash : List Char := "ScriptHash".toList
def nGroup : List Char := "Group".toList
def nCalledByEntry : List Char := "CalledByEntry".toList
def nCalledByContract : List Char := "CalledByContract".toList
def nCalledByGroup : List Char := "CalledByGroup".toList
def nDeny : List Char := "Deny".toList
def nAllow : List Char := "Allow".toList
/-- the names in the order of the constructors of `Cond`. -/
def condTypeNames : List (List Char) :=
  [nBoolean, nNot, nAnd, nOr, nScriptHash, nGroup, nCalledByEntry, nCalledByContract, nCalledByGroup]

/-- lower-case hex of a byte string, as characters. -/
def hexChars : Bytes → List Char
  | [] => []
  | b :: bs => Hex.digit (b.toNat / 16) :: Hex.digit (b.toNat % 16) :: hexChars bs

/-- `strings.TrimPrefix(js, "0x")`. -/
def trim0x : List Char → List Char
  | '0' :: 'x' :: rest => rest
  | s => s

/-- `Uint160.UnmarshalJSON` on the content of a JSON string: optional "0x", exactly 40 hex digits, little endian. -/
def parseHashLE (s : List Char) : Option Hash :=
  let t := trim0x s
  if t.length ≠ 40 then none
  else (Hex.decodeChars t).map fun bs => beVal bs.reverse

/-- `Uint160.MarshalJSON`: "0x" and the little-endian hex. -/
def showHashLE (h : Hash) : List Char := '0' :: 'x' :: hexChars (beBytes 20 h).reverse

/-- `PublicKey.UnmarshalJSON` on the content of a JSON string: hex, then `DecodeBytes` (`decKeyB`). -/
def parseKey (decKeyB : Bytes → Option Key) (s : List Char) : Option Key :=
  (Hex.decodeChars s).bind decKeyB

/-- ASCII lower case (key matching of encoding/json is case-insensitive). -/
def lowerChars (s : List Char) : List Char := s.map Char.toLower

def setExpressions (a : Aux) : J → Option Aux
  | .arr xs => some { a with expressions := some xs }
  | .null => some { a with expressions := none }
  | _ => none

def setGroup (decKeyB : Bytes → Option Key) (a : Aux) : J → Option Aux
  | .null => some { a with group := none }
  | .str s => (parseKey decKeyB s).map fun k => { a with group := some k }
  | _ => none                                            -- "wrong format"

def setHash (a : Aux) : J → Option Aux
  | .null => some { a with hash := none }
  | .str s => (parseHashLE s).map fun h => { a with hash := some h }
  | _ => none

def setType (a : Aux) : J → Option Aux
  | .str s => some { a with type := s }
  | .null => some a
  | _ => none

/-- store one object member into the struct; `none` is an error of json.Unmarshal. -/
def auxField (decKeyB : Bytes → Option Key) (a : Aux) (k : List Char) (v : J) : Option Aux :=
  if lowerChars k = "expression".toList then some { a with expression := some v }
  else if lowerChars k = "expressions".toList then setExpressions a v
  else if lowerChars k = "group".toList then setGroup decKeyB a v
  else if lowerChars k = "hash".toList then setHash a v
  else if lowerChars k = "type".toList then setType a v
  else some a                                            -- unknown key

def auxFields (decKeyB : Bytes → Option Key) : Aux → List (List Char × J) → Option Aux
  | a, [] => some a
  | a, (k, v) :: rest => match auxField decKeyB a k v with
    | none => none
    | some a' => auxFields decKeyB a' rest

/-- `json.Unmarshal(data, aux)` for a `conditionAux`. -/
def unmarshalAux (decKeyB : Bytes → Option Key) : J → Option Aux
  | .null => some {}
  | .obj fs => auxFields decKeyB {} fs
  | _ => none

/-- all values decode, in order. -/
def jsMapM (dec : J → Option Cond) : List J → Option (List Cond)
  | [] => some []
  | x :: xs => match dec x with
    | none => none
    | some c => match jsMapM dec xs with
      | none => none
      | some cs => some (c :: cs)

/-- unmarshalArrayOfConditionJSONs (witness_condition.go:772-790). -/
def condListJ (dec : J → Option Cond) (xs : Option (List J)) : Option (List Cond) :=
  let l := xs.getD []
  if l.length = 0 then none                              -- "empty array of conditions"
  else if l.length > maxSubitems then none               -- "too many elements"
  else jsMapM dec l

/-- the `switch aux.Type` of unmarshalConditionJSON (:805-856); `dec` decodes with `maxDepth-1`. -/
def condOfAux (dec : J → Option Cond) (a : Aux) : Option Cond :=
  if a.type = nBoolean then
    match a.expression with
    | some (.bool b) => some (.boolean b)
    | some .null => some (.boolean false)                -- json.Unmarshal("null", &v) leaves v = false
    | _ => none
  else if a.type = nNot then
    match a.expression with
    | none => none                                       -- json.Unmarshal of no data fails
    | some e => (dec e).map .not
  else if a.type = nAnd then (condListJ dec a.expressions).map .and
  else if a.type = nOr then (condListJ dec a.expressions).map .or
  else if a.type = nScriptHash then a.hash.map .scriptHash            -- "no hash specified"
  else if a.type = nGroup then a.group.map .group                      -- "no group specified"
  else if a.type = nCalledByEntry then some .calledByEntry
  else if a.type = nCalledByContract then a.hash.map .calledByContract
  else if a.type = nCalledByGroup then a.group.map .calledByGroup
  else none                                              -- "invalid condition type"

/-- unmarshalConditionJSON (witness_condition.go:797-858); the first argument is `maxDepth`. -/
def condFromJ (decKeyB : Bytes → Option Key) : Nat → J → Option Cond
  | 0, _ => none                                         -- "too many nesting levels"
  | d+1, v =>
    match unmarshalAux decKeyB v with
    | none => none
    | some a => condOfAux (condFromJ decKeyB d) a

mutual
/-- MarshalJSON of a condition, as a JSON value. `encKeyB` is `PublicKey.Bytes()`. -/
def condToJ (encKeyB : Key → Bytes) : Cond → J
  | .boolean b => .obj [("expression".toList, .bool b), ("type".toList, .str nBoolean)]
  | .not c => .obj [("expression".toList, condToJ encKeyB c), ("type".toList, .str nNot)]
  | .and cs => .obj [("expressions".toList, .arr (condsToJ encKeyB cs)), ("type".toList, .str nAnd)]
  | .or cs => .obj [("expressions".toList, .arr (condsToJ encKeyB cs)), ("type".toList, .str nOr)]
  | .scriptHash h => .obj [("hash".toList, .str (showHashLE h)), ("type".toList, .str nScriptHash)]
  | .group k => .obj [("group".toList, .str (hexChars (encKeyB k))), ("type".toList, .str nGroup)]
  | .calledByEntry => .obj [("type".toList, .str nCalledByEntry)]
  | .calledByContract h => .obj [("hash".toList, .str (showHashLE h)), ("type".toList, .str nCalledByContract)]
  | .calledByGroup k => .obj [("group".toList, .str (hexChars (encKeyB k))), ("type".toList, .str nCalledByGroup)]
def condsToJ (encKeyB : Key → Bytes) : List Cond → List J
  | [] => []
  | c :: cs => condToJ encKeyB c :: condsToJ encKeyB cs
end

/-- `witnessRuleAux` after json.Unmarshal: (action, condition). -/
def ruleAuxFields : (Option (List Char) × Option J) → List (List Char × J) → Option (Option (List Char) × Option J)
  | a, [] => some a
  | a, (k, v) :: rest =>
    let lk := lowerChars k
    if lk = "action".toList then
      match v with
      | .str s => ruleAuxFields (some s, a.2) rest
      | .null => ruleAuxFields a rest
      | _ => none
    else if lk = "condition".toList then ruleAuxFields (a.1, some v) rest
    else ruleAuxFields a rest

/-- WitnessRule.UnmarshalJSON (witness_rule.go:58-86). -/
def ruleFromJ (decKeyB : Bytes → Option Key) (v : J) : Option Rule :=
  let aux : Option (Option (List Char) × Option J) :=
    match v with
    | .null => some (none, none)
    | .obj fs => ruleAuxFields (none, none) fs
    | _ => none
  match aux with
  | none => none
  | some (act, cond) =>
    let a := act.getD []
    if a ≠ nDeny ∧ a ≠ nAllow then none                  -- "unknown witness rule action"
    else match cond with
      | none => none                                     -- UnmarshalConditionJSON of no data fails
      | some c => (condFromJ decKeyB maxConditionNesting c).map fun cc =>
          { action := if a = nAllow then actAllow else 0, cond := cc }

/-- WitnessRule.MarshalJSON. -/
def ruleToJ (encKeyB : Key → Bytes) (r : Rule) : J :=
  .obj [("action".toList, .str (if r.action = actAllow then nAllow else nDeny)),
        ("condition".toList, condToJ encKeyB r.cond)]

end NeoModel.Witness
