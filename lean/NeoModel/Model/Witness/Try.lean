/-
C15 — exceptions as part of the frame machine: which TRY handler takes a THROW and how many contexts the
unwinding pops (the try stacks of the contexts), so that the number of popped contexts is no longer an input.

  pkg/vm/vm.go:1820-1821   THROW -> v.throw
  pkg/vm/vm.go:1841-1856   TRY / TRY_L (MaxTryNestingDepth, at least one of catch / finally)
  pkg/vm/vm.go:1858-1871   ENDTRY / ENDTRY_L
  pkg/vm/vm.go:1873-1879   ENDFINALLY (re-throws a pending exception)
  pkg/vm/vm.go:1942-1945   throw: uncaughtException = item; handleException
  pkg/vm/vm.go:1952-1965   call: the new context starts with an EMPTY try stack
  pkg/vm/vm.go:1978-2008   handleException
  pkg/vm/exception.go      exceptionHandlingContext, states eTry / eCatch / eFinally

Core Lean only. A context is its script context (Frames.lean) plus its try stack (top first).
-/
import NeoModel.Model.Witness.Frames
namespace NeoModel.Witness

inductive HState where
  | eTry | eCatch | eFinally
deriving Repr, DecidableEq

/-- `exceptionHandlingContext`: the state and whether there is a catch / a finally block. -/
structure Handler where
  state : HState
  hasCatch : Bool
  hasFinally : Bool
deriving Repr, DecidableEq

/-- the VM with try stacks; `pending` = `v.uncaughtException != nil`. -/
structure VMT where
  ctxs : List (SC × List Handler)
  pending : Bool
deriving Repr, DecidableEq

def VMT.empty : VMT := ⟨[], false⟩

/-- forget the try stacks. -/
def VMT.base (t : VMT) : VM := ⟨t.ctxs.map (·.1)⟩

/-- vm.go:63. -/
def maxTryNestingDepth : Nat := 16

/-- the inner loop of handleException (:1981-1988) for one context: handlers already in their finally block,
or in their catch block without a finally, cannot take the exception and are popped. -/
def usable : List Handler → List Handler
  | [] => []
  | h :: hs =>
    if h.state = .eFinally ∨ (h.state = .eCatch ∧ h.hasFinally = false) then usable hs else h :: hs

/-- handleException (:1978-2008): the first context from the top with a usable handler takes the exception;
the contexts above it are popped; `none` is the unhandled exception (the VM faults). Result: the remaining
contexts and whether the exception is still pending (it is while a finally block runs). -/
def handle : List (SC × List Handler) → Option (List (SC × List Handler) × Bool)
  | [] => none
  | (s, ts) :: rest =>
    match usable ts with
    | [] => handle rest
    | h :: hs =>
      if h.state = .eTry ∧ h.hasCatch = true then
        some ((s, { h with state := .eCatch } :: hs) :: rest, false)       -- :1995-1999
      else
        some ((s, { h with state := .eFinally } :: hs) :: rest, true)      -- :2001-2002

/-- the steps of the machine with exceptions: a step of the frame machine, or one of the four exception
instructions. -/
inductive TOp where
  | base (op : Op)
  | try_ (hasCatch hasFinally : Bool)     -- TRY / TRY_L
  | endTry                                -- ENDTRY / ENDTRY_L
  | endFinally                            -- ENDFINALLY
  | throw                                 -- THROW
deriving Repr, DecidableEq

inductive TFault where
  | machine (f : MFault)
  | tryDepth          -- "maximum TRY depth exceeded"
  | badTry            -- "invalid offset for TRY*" (neither catch nor finally) / no handler for ENDTRY, ENDFINALLY
  | badState          -- "invalid exception handling state during ENDTRY*"
  | unhandled         -- throwUnhandledException
deriving Repr, DecidableEq

/-- give the contexts of the frame machine's new stack their try stacks: what is pushed starts empty, what
stays keeps its own (LoadWithFlags starts from nothing). -/
def retag (reset : Bool) (old : List (SC × List Handler)) (new : List SC) : List (SC × List Handler) :=
  if reset then new.map (·, [])
  else if new.length ≥ old.length then (new.take (new.length - old.length)).map (·, []) ++ old
  else old.drop (old.length - new.length)

def Op.resets : Op → Bool
  | .loadWithFlags _ _ => true
  | _ => false

def VMT.step (t : VMT) : TOp → Except TFault VMT
  | .base op =>
    match t.base.step op with
    | .error f => .error (.machine f)
    | .ok v' => .ok { t with ctxs := retag op.resets t.ctxs v'.istack }
  | .try_ c f =>
    match t.ctxs with
    | [] => .error (.machine .noContext)
    | (s, ts) :: rest =>
      if ts.length ≥ maxTryNestingDepth then .error .tryDepth                   -- :1843
      else if !c && !f then .error .badTry                                       -- :1848
      else .ok { t with ctxs := (s, ⟨.eTry, c, f⟩ :: ts) :: rest }
  | .endTry =>
    match t.ctxs with
    | [] => .error (.machine .noContext)
    | (_, []) :: _ => .error .badTry
    | (s, h :: hs) :: rest =>
      if h.state = .eFinally then .error .badState                               -- :1860
      else if h.hasFinally then .ok { t with ctxs := (s, { h with state := .eFinally } :: hs) :: rest }   -- :1864-1867
      else .ok { t with ctxs := (s, hs) :: rest }                                -- :1869
  | .endFinally =>
    if t.pending then                                                            -- :1874
      match handle t.ctxs with
      | none => .error .unhandled
      | some (cs, p) => .ok ⟨cs, p⟩
    else match t.ctxs with
      | [] => .error (.machine .noContext)
      | (_, []) :: _ => .error .badTry
      | (s, _ :: hs) :: rest => .ok { t with ctxs := (s, hs) :: rest }           -- :1878
  | .throw =>
    match handle t.ctxs with                                                     -- :1943-1944
    | none => .error .unhandled
    | some (cs, p) => .ok ⟨cs, p⟩

def VMT.run (t : VMT) : List TOp → Except TFault VMT
  | [] => .ok t
  | op :: ops => match t.step op with
    | .error x => .error x
    | .ok t' => t'.run ops

end NeoModel.Witness
