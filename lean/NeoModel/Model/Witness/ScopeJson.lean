/-
C15 — the scope of a signer in JSON: a comma-separated list of names.

  pkg/core/transaction/witness_scope.go:50-74    ScopesFromString
  pkg/core/transaction/witness_scope.go:76-98    appendScopeString, scopesToString
  pkg/core/transaction/witness_scope.go:101-117  WitnessScope.MarshalJSON / UnmarshalJSON

Core Lean only; strings are lists of characters.
-/
import NeoModel.Model.Witness.Json
namespace NeoModel.Witness

-- WitnessScope.String() (witness_scope.go:14-31, stringer -linecomment)
def snNone : List Char := "None".toList
def snCalledByEntry : List Char := "CalledByEntry".toList
def snCustomContracts : List Char := "CustomContracts".toList
def snCustomGroups : List Char := "CustomGroups".toList
def snRules : List Char := "WitnessRules".toList
def snGlobal : List Char := "Global".toList

/-- the `dict` of ScopesFromString (witness_scope.go:52-59). -/
def scopeOfName (n : List Char) : Option Nat :=
  if n = snGlobal then some scGlobal
  else if n = snCalledByEntry then some scCalledByEntry
  else if n = snCustomContracts then some scCustomContracts
  else if n = snCustomGroups then some scCustomGroups
  else if n = snRules then some scRules
  else if n = snNone then some 0
  else none

/-- `strings.SplitSeq(s, ",")`: at least one piece. -/
def splitComma : List Char → List (List Char)
  | [] => [[]]
  | c :: cs =>
    match splitComma cs with
    | [] => [[c]]            -- unreachable
    | p :: ps => if c = ',' then [] :: p :: ps else (c :: p) :: ps

/-- `strings.TrimSpace` for the ASCII blank (the harness generates no other white space). -/
def trimBlanks (s : List Char) : List Char :=
  ((s.dropWhile (· = ' ')).reverse.dropWhile (· = ' ')).reverse

/-- the loop of ScopesFromString (:60-68): OR of the named bits, the first unknown name is an error. -/
def orNames : Nat → List (List Char) → Option Nat
  | acc, [] => some acc
  | acc, n :: ns => match scopeOfName (trimBlanks n) with
    | none => none
    | some b => orNames (acc ||| b) ns

/-- ScopesFromString (witness_scope.go:50-74): what `"scopes"` of a signer in JSON is decoded with. -/
def scopesFromString (s : List Char) : Option Nat :=
  match orNames 0 (splitComma s) with
  | none => none
  | some r => if hasScope r scGlobal && r != scGlobal then none else some r     -- :70

/-- scopesToString (witness_scope.go:88-98), for a byte the wire format admits. -/
def scopesToString (s : Nat) : List Char :=
  if hasScope s scGlobal then snGlobal
  else if s = 0 then snNone
  else
    let add (str : List Char) (bit : Nat) (name : List Char) : List Char :=
      if hasScope s bit then (if str.length != 0 then str ++ ", ".toList else str) ++ name else str
    add (add (add (add [] scCalledByEntry snCalledByEntry) scCustomContracts snCustomContracts) scCustomGroups snCustomGroups)
      scRules snRules


end NeoModel.Witness
