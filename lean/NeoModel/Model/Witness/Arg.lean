/-
C15 — the argument of System.Runtime.CheckWitness: a 20-byte script hash, or a public key whose account is
the Hash160 of its signature-check contract.

  pkg/core/interop/runtime/witness.go:115-143   CheckKeyedWitness, CheckWitness
  pkg/crypto/keys/publickey.go:345-380          GetVerificationScript / writeVerificationScript, GetScriptHash
  pkg/crypto/keys/publickey.go:145-157, 264-336 NewPublicKeyFromBytes, DecodeBytes, DecodeBinary

Core Lean only. `H` is `hash.Hash160` read as a number; `decKey` is `keys.NewPublicKeyFromBytes(b, P256)`
followed by `Bytes()` (the 33-byte compressed form of the decoded point) — curve arithmetic is not modelled.
-/
import NeoModel.Model.Witness.Frames
namespace NeoModel.Witness

/-- opcode.PUSHDATA1, opcode.SYSCALL (compared with the regenerated opcode table in Props/C15Exec.lean). -/
def opPUSHDATA1 : UInt8 := 0x0C
def opSYSCALL : UInt8 := 0x41
/-- `interopnames.ToID("System.Crypto.CheckSig")`, little endian (publickey.go:365-369). -/
def checkSigId : Bytes := [0x56, 0xe7, 0xb3, 0x27]

/-- `PublicKey.GetVerificationScript` for a key that is not the point at infinity (publickey.go:351-372):
PUSHDATA1 33 key SYSCALL System.Crypto.CheckSig. -/
def sigContract (key33 : Bytes) : Bytes := [opPUSHDATA1, 0x21] ++ key33 ++ [opSYSCALL] ++ checkSigId

/-- `runtime.CheckWitness` (witness.go:122-143) on the bytes popped from the stack: `none` is the fault
"parameter given is neither a key nor a hash". -/
def checkWitnessArg (H : Bytes → Hash) (decKey : Bytes → Option Bytes) (e : Env) (signers : List Signer)
    (arg : Bytes) : Option Res :=
  if arg.length = 20 then some (checkWitness e signers (beVal arg))              -- :127 Uint160DecodeBytesBE, :136
  else match decKey arg with                                                     -- :130
    | none => none                                                               -- :132
    | some key33 => some (checkWitness e signers (H (sigContract key33)))        -- :134, :117-119

/-- the syscall in machine state `v`. -/
def checkWitnessArgVM (H : Bytes → Hash) (decKey : Bytes → Option Bytes) (k : Hash → Option (List Key))
    (ic : IC) (v : VM) (arg : Bytes) : Option (Option Res) :=
  (v.env k).map fun e => checkWitnessArg H decKey e ic.signers arg

end NeoModel.Witness
