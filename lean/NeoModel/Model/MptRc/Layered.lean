/-
Model of the layering under the node store and of the node's persist / collect loop, on top of
Model/MptRc.lean (single merged store) and Model/MptRc/GcIndex.lean (tryRunGC). Core Lean only.

  Upper, Lay      storage.MemCachedStore over a persistent store: the `mem` map of pending puts and
                  deletions (memcached_store.go) over the records of the lower store
  Lay.get/set     MemCachedStore.Get / Put / Delete
  Lay.persist     MemCachedStore.Persist: the change set is applied to the lower store, `mem` emptied
  Lay.gcLow       stateroot.Module.GC(index, bc.store): the collection works on the PERSISTENT store
  Lay.view        what a Seek over the MemCachedStore shows (the merged records)
  flushL          Trie.Flush(index) through a Lay (reads merged, writes into the upper layer, and
                  writes only where the code does: trie.go:417-433)
  computeLay      stateroot.Module.AddMPTBatch + commit on a Lay, partly loaded trie
  cleanL, jumpLay  Module.CleanStorage; a state jump (clean + restore) through the layers
  incrRefL, restoreL   Billet.incrementRefAndStore / a whole state-sync restore on a Lay, with
                  persists between restorations
  Chain, ChainEv, stepChain, runChain   the node: blocks (storeBlock), the persist timer of
                  `Blockchain.Run` (blockchain.go:1369-1390: oldPersisted; persist(); tryRunGC(oldPersisted))
                  as two events so that blocks may arrive in between, restarts
-/
import NeoModel.Model.MptRc
import NeoModel.Model.MptRc.GcIndex
namespace NeoModel.MptRc
open NeoModel.Mpt

/-- `MemCachedStore.mem` restricted to DataMPT: `some c` = a pending put, `none` = a pending deletion. -/
abbrev Upper := List (Bytes × Option Cell)

def uget : Upper → Bytes → Option (Option Cell)
  | [], _ => none
  | (k', oc) :: r, k => if k' = k then some oc else uget r k

structure Lay where
  up : Upper := []
  low : Store := []

/-- memcached_store.go `Get`: the upper layer first (a pending deletion = not found), else the lower store. -/
def Lay.get (l : Lay) (k : Bytes) : Option Cell :=
  match uget l.up k with
  | some oc => oc
  | none => sget l.low k

/-- `Put` (`some`) / `Delete` (`none`): into the upper layer only. -/
def Lay.set (l : Lay) (k : Bytes) (oc : Option Cell) : Lay :=
  { l with up := (k, oc) :: l.up.filter (fun e => e.1 ≠ k) }

/-- the merged records. -/
def Lay.view (l : Lay) : Store := l.up.foldr (fun e s => setCell s e.1 e.2) l.low

/-- `Persist`: the pending changes go down, the upper layer is emptied. -/
def Lay.persist (l : Lay) : Lay := { up := [], low := l.view }

/-- `Module.GC(index, bc.store)` (module.go:301-333 with blockchain.go:1422): on the lower store. -/
def Lay.gcLow (g : Nat) (l : Lay) : Lay := { l with low := gc g l.low }

/-- trie.go:414-435 `Flush(index)` through a layered store. The store is touched only
`if node.refcount != 0`, and without reference counting only `if node.refcount > 0`. -/
def flushL (mode : Mode) (idx : Nat) : RcMap → Lay → Option (RcMap × Lay)
  | [], l => some ([], l)
  | (h, e) :: rest, l =>
    match estep mode idx (l.get h) e with
    | none => none
    | some (oc, oe) =>
      let l' := if e.delta = 0 ∨ (mode.rc = false ∧ e.delta < 0) then l else l.set h oc
      match flushL mode idx rest l' with
      | none => none
      | some (m', l'') =>
        some ((match oe with
               | some e' => [(h, e')]
               | none => []) ++ m', l'')

/-- `AddMPTBatch(idx, …)` + commit on a layered store, the trie partly loaded (loads `ld` read
through the layers). `none` = panic in Flush. -/
def computeLay (H : Bytes → Bytes) (mode : Mode) (idx : Nat) (root : Node) (rc : RcMap) (l : Lay)
    (ops : List SubOp) (ld : List (List Bytes)) : Option (Node × RcMap × Lay) :=
  let m1 := applyActs H mode l.get rc (interleave (blockEvs root ops) ld)
  match flushL mode idx m1 l with
  | none => none
  | some (m', l') => some (trieAfter root ops, m', l')

/-- billet.go:189-210 `incrementRefAndStore` through a layered store. -/
def incrRefL (H : Bytes → Bytes) (mode : Mode) (l : Lay) (n : Node) : Lay :=
  if mode.rc then
    match l.get (hash H n) with
    | some (.rc b a c) => l.set (hash H n) (some (.rc b a (c + 1)))
    | _ => l.set (hash H n) (some (.rc (enc H n) true 1))
  else l.set (hash H n) (some (.plain (enc H n)))

/-- a state-sync restore with the store persisted before the `i`-th restoration when `sched[i]`. -/
def restoreL (H : Bytes → Bytes) (mode : Mode) : Lay → List Node → List Bool → Lay
  | l, [], _ => l
  | l, n :: r, sched =>
    let l1 := if sched.headD false then l.persist else l
    restoreL H mode (incrRefL H mode l1 n) r sched.tail

/-- stateroot/module.go:207-223 `CleanStorage`: every DataMPT record visible through the layers gets
a pending deletion. -/
def cleanL (l : Lay) : Lay := l.view.foldl (fun a e => a.set e.1 none) l

/-- a state jump through the layers: `CleanStorage`, then the sync point's trie restored position
by position (persists in between as `sched` says); `Module.JumpToState` then installs it as the
live trie (Model/MptRc.lean `jumpSt`). -/
def jumpLay (H : Bytes → Bytes) (mode : Mode) (l : Lay) (t : Node) (sched : List Bool) : Lay :=
  restoreL H mode (cleanL l) (positions t) sched

/-- reading a root through the layers (module.go:76-81 over `s.Store`). -/
def lwalk (l : Lay) : Nat → Bytes → Path → VR
  | 0, _, _ => .loop
  | f + 1, h, p =>
    match l.get h with
    | none => .notFound
    | some c =>
      match decodeTop c.bytes with
      | none => .notFound
      | some .empty => .notFound
      | some (.hash _) => .notFound
      | some n => walkNode (lwalk l f) n p

/-! ### the node -/

structure Chain where
  cfg : GcCfg
  mtb : Nat                          -- `bc.GetMaxTraceableBlocks()` at the current height
  mode : Mode := .gc                 -- RemoveUntraceableBlocks
  root : Node := .empty
  rc : RcMap := []
  lay : Lay := {}                    -- bc.dao.Store over bc.store
  next : Nat := 0                    -- index of the next block (current height + 1; 0 = no block yet)
  persisted : Nat := 0               -- `bc.persistedHeight`
  pendOld : Option Nat := none       -- `oldPersisted` of `Run`, between `persist()` and `tryRunGC`
  roots : List (Nat × Bytes) := []   -- DataMPTAux
  hist : List (Nat × Node) := []     -- ghost: the trie of every height
  gcs : List Nat := []               -- ghost: the indices the node collected with

inductive ChainEv where
  /-- storeBlock: the block's changes (trie partly loaded), and the MaxTraceableBlocks value a
  committee transaction of the block asks for, if any (native/policy.go:816-837). -/
  | addBlock (ops : List SubOp) (ld : List (List Bytes)) (newMtb : Option Nat)
  /-- `bc.persist()`; `fromRun`: called by the timer of `Run`, which remembers the old persisted height. -/
  | persist (fromRun : Bool)
  /-- `Run`: `tryRunGC(oldPersisted)`. -/
  | runGC
  /-- the state module re-initialised from the root hash (restart). -/
  | restart

/-- policy.go:817-824: the new value must be positive and not above the old one, else the
transaction faults and nothing changes. -/
def newMtbOf (old : Nat) : Option Nat → Nat
  | some v => if 0 < v ∧ v ≤ old then v else old
  | none => old

/-- blockchain.go:2185-2186 `persistedHeight == block.Index-1` for the block about to be stored. -/
def collapseAfter (c : Chain) : Bool := decide (c.next ≠ 0) && decide (c.persisted = c.next - 1)

def stepChain (H : Bytes → Bytes) (c : Chain) : ChainEv → Option Chain
  | .addBlock ops ld nm =>
    match computeLay H c.mode c.next c.root c.rc c.lay ops ld with
    | none => none
    | some (t', m', l') =>
      -- blockchain.go:2185-2189: `if persistedHeight == block.Index-1 { mpt.Collapse(10) }` — the
      -- trie of a block that directly follows the persisted height is collapsed, which clears the
      -- (shared) refcount map (trie.go:550-556); uint32 `0 - 1` is not a persisted height
      some { c with root := t', rc := (if collapseAfter c then [] else m'), lay := l', next := c.next + 1,
                    mtb := newMtbOf c.mtb nm,
                    roots := (c.next, rootHash H t') :: c.roots, hist := (c.next, t') :: c.hist }
  | .persist fromRun =>
    -- blockchain.go:2571-2580: persistedHeight := the height now stored (nothing to do before genesis)
    some { c with lay := c.lay.persist, persisted := c.next - 1,
                  pendOld := if fromRun then some c.persisted else c.pendOld }
  | .runGC =>
    match c.pendOld with
    | none => some c
    | some old =>
      match tryRunGC c.cfg c.mtb old c.persisted with
      | none => some { c with pendOld := none }
      | some g => some { c with pendOld := none, lay := c.lay.gcLow g, gcs := g :: c.gcs }
  | .restart => some { c with rc := [] }

def runChain (H : Bytes → Bytes) : Chain → List ChainEv → Option Chain
  | c, [] => some c
  | c, e :: r =>
    match stepChain H c e with
    | none => none
    | some c' => runChain H c' r

end NeoModel.MptRc
