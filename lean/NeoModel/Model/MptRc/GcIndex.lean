/-
Model of the node's choice of the garbage-collection index: pkg/core/blockchain.go `tryRunGC`
(1393-1427), called from the persist timer of `Run` (1369-1390) right after `persist()`.
Core Lean only.

  GcCfg       the configuration fields read (GarbageCollectionPeriod, P2PStateExchangeExtensions,
              StateSyncInterval)
  u32         conversion to uint32 (wrap-around)
  gcTarget    lines 1402-1413: persisted height − MaxTraceableBlocks, lowered to the state-sync
              point with the P2P extensions (uint32 arithmetic as written, including the wrap of
              `syncP--` at 0)
  roundGcp    lines 1415-1416: Go's `/` on int64 truncates toward zero
  tryRunGCSpec  lines 1418-1425, hand-written reading: `some g` = `stateRoot.GC(g, bc.store)` is invoked
  tryRunGC    THE FUNCTION THE MODEL RUNS: Generated.GoFuncs.tryRunGC, the Go→Lean translation of
              blockchain.go tryRunGC regenerated from /repo on every check (harness/cmd/extract/gofuncs.go);
              Proofs/MptRcGoTie.lean proves it equal to tryRunGCSpec for all arguments
  traceable   dao.go:829-832 / native/ledger.go:196-203
-/
import NeoModel.Generated.GoFuncs
namespace NeoModel.MptRc
open NeoModel.Generated

structure GcCfg where
  gcp : Nat                 -- GarbageCollectionPeriod (blockchain.go:396-399: never 0 with RemoveUntraceableBlocks)
  p2p : Bool := false       -- P2PStateExchangeExtensions
  ssi : Nat := 0            -- StateSyncInterval (blockchain.go:357-361: positive with the P2P extensions)
  deriving Repr

/-- `uint32(x)`. -/
def u32 (x : Int) : Nat := (x % 4294967296).toNat

/-- blockchain.go:1402-1413. `newH` = `bc.persistedHeight`, `mtb` = `bc.GetMaxTraceableBlocks()`.
```
var tgtBlock = int64(newHeight)
tgtBlock -= int64(mtb)
if bc.config.P2PStateExchangeExtensions {
    syncP := newHeight / uint32(bc.config.StateSyncInterval)
    syncP--
    syncP *= uint32(bc.config.StateSyncInterval)
    tgtBlock = min(tgtBlock, int64(syncP-mtb))
}
``` -/
def gcTarget (c : GcCfg) (mtb newH : Nat) : Int :=
  let tgt0 : Int := (newH : Int) - (mtb : Int)
  if c.p2p then
    let ssi32 : Nat := c.ssi % 4294967296             -- `uint32(bc.config.StateSyncInterval)`
    let syncP : Nat := u32 ((newH / ssi32 : Nat) - 1)
    let syncP : Nat := u32 ((syncP : Int) * (ssi32 : Int))
    min tgt0 (u32 ((syncP : Int) - (mtb : Int)) : Int)
  else tgt0

/-- blockchain.go:1415-1416 `tgtBlock /= int64(GCP); tgtBlock *= int64(GCP)` (truncating division). -/
def roundGcp (c : GcCfg) (t : Int) : Int := Int.tdiv t (c.gcp : Int) * (c.gcp : Int)

/-- blockchain.go:1418-1425: the periods of the old and the new persisted height are compared and the
collection runs `if tgtBlock > int64(GCP) && newHeight != oldHeight`; the index handed to
`stateRoot.GC` is `uint32(tgtBlock)`. `none` = no collection on this tick. -/
def tryRunGCSpec (c : GcCfg) (mtb oldH newH : Nat) : Option Nat :=
  let tgt := roundGcp c (gcTarget c mtb newH)
  if (c.gcp : Int) < tgt ∧ newH / c.gcp ≠ oldH / c.gcp then some (u32 tgt) else none

/-- what the node model runs on a tick: the translated `tryRunGC` (its last parameter is the
duration returned by `removeOldTransfers`, irrelevant for the decision); `some g` = the first call of
`bc.stateRoot.GC(uint32(tgtBlock), bc.store)` reached, with its index. -/
def tryRunGC (c : GcCfg) (mtb oldH newH : Nat) : Option Nat :=
  match GoFuncs.tryRunGC (oldH : Int) (newH : Int) (mtb : Int) c.p2p (c.ssi : Int) (c.gcp : Int) 0 with
  | some (t :: _) => some t.toNat
  | _ => none

/-- dao.go:829-832 `index <= height && index+maxTraceableBlocks > height`. -/
def traceable (index height mtb : Nat) : Bool := decide (index ≤ height) && decide (height < index + mtb)

end NeoModel.MptRc
