/-
A network of the deterministic validator machines of Model/DbftMach.lean: `n` machines and a multiset of
in-flight payloads. The network delivers, drops and duplicates payloads in any order, fires timers, hands
over requested transactions, relays decided blocks and changes mempools; every payload in flight was
broadcast by a machine (no Byzantine validator). Proofs/DbftSim*.lean prove that every run of this network
is simulated by a run of the guarded-command model `NeoModel.Dbft` (Model/Dbft.lean), which carries the
safety theorems over to networks of machines — including everything a RecoveryMessage makes a machine do.
Core Lean only.
-/
import NeoModel.Model.DbftMach
namespace NeoModel.Dbft.Mach
open NeoModel.Dbft

structure MNet where
  nodes : Nat → Node
  net : List (Nat × Pl) := []        -- in flight: (destination, payload)

/-- the inputs of one event that are not protocol state (`W` of DbftMach.lean) -/
structure Inp where
  now : Nat := 0
  fresh : Nat := 0
  hints : List Nat := []
  gts : Nat := 0

def minit (e : Env) : MNet := { nodes := fun i => initNode e i }

inductive NEv where
  | start (i : Nat)
  | deliver (to : Nat) (m : Pl)
  | drop (to : Nat) (m : Pl)
  | dup (to : Nat) (m : Pl)
  | tick (i : Nat)
  | tx (i t : Nat)
  /-- block relay / sync: validator i's ledger takes its next block from validator j's ledger -/
  | relay (i j : Nat)
  /-- the mempool of validator i changes (transactions arrive, are evicted, expire) -/
  | pool (i : Nat) (l : List Nat)

def everybodyBut (e : Env) (i : Nat) : List Nat := (List.range e.n).filter (fun j => j != i)

/-- Config.Broadcast: a copy for everybody else -/
def sends (e : Env) (i : Nat) (outs : List Out) : List (Nat × Pl) :=
  outs.flatMap fun o => match o with
    | .bcast p => (everybodyBut e i).map fun j => (j, p)
    | _ => []

def reaction (e : Env) (s : MNet) (i : Nat) (ev : Event) (inp : Inp) : Node × List Out × Bool :=
  step e (s.nodes i) ev inp.now inp.fresh inp.hints inp.gts

def react (e : Env) (s : MNet) (i : Nat) (ev : Event) (inp : Inp) : MNet :=
  let r := reaction e s i ev inp
  { nodes := fun j => if j = i then r.1 else s.nodes j, net := sends e i r.2.1 ++ s.net }

def started (nd : Node) : Bool := nd.bi != 0

def blockAtH (nd : Node) (h : Nat) : Option Block := nd.chain.find? (fun b => b.h == h)

/-- The name under which a PrepareRequest built in this event goes is recorded in the run's table with the
height, view and sender the request is built for (the driver checks, on every trace, that the table entry is
the whole content of the request). A request is built by the primary on a timer tick while it holds no
request (dbft.go:221-222) and by the primary of the first view when the service starts (dbft.go:78-80). -/
def freshOK (e : Env) (s : MNet) (i : Nat) (ev : Event) (inp : Inp) : Prop :=
  let nd := s.nodes i
  match ev with
  | .tick => nd.isPrimary = true → nd.requestSOR = false →
      (e.prop inp.fresh).h = nd.bi ∧ (e.prop inp.fresh).v = nd.view ∧ (e.prop inp.fresh).frm = nd.my
  | .start => e.primary (nd.height + 1) 0 = nd.my →
      (e.prop inp.fresh).h = nd.height + 1 ∧ (e.prop inp.fresh).v = 0 ∧ (e.prop inp.fresh).frm = nd.my
  | _ => True

def NEnabled (e : Env) (s : MNet) (inp : Inp) : NEv → Prop
  | .start i => i < e.n ∧ started (s.nodes i) = false ∧ freshOK e s i .start inp
  | .deliver to m => (to, m) ∈ s.net ∧ to < e.n ∧ started (s.nodes to) = true ∧ freshOK e s to (.recv m) inp
  | .drop to m => (to, m) ∈ s.net
  | .dup to m => (to, m) ∈ s.net
  | .tick i => i < e.n ∧ started (s.nodes i) = true ∧ freshOK e s i .tick inp
  | .tx i _ => i < e.n ∧ started (s.nodes i) = true
  | .relay i j => i < e.n ∧ j < e.n ∧ started (s.nodes i) = true ∧
      (blockAtH (s.nodes j) ((s.nodes i).height + 1)).isSome
  | .pool i _ => i < e.n

def napply (e : Env) (s : MNet) (inp : Inp) : NEv → MNet
  | .start i => react e s i .start inp
  | .deliver to m => react e { s with net := s.net.erase (to, m) } to (.recv m) inp
  | .drop to m => { s with net := s.net.erase (to, m) }
  | .dup to m => { s with net := (to, m) :: s.net }
  | .tick i => react e s i .tick inp
  | .tx i t => react e s i (.tx t) inp
  | .relay i j =>
    match blockAtH (s.nodes j) ((s.nodes i).height + 1) with
    | some b => react e s i (.block b) inp
    | none => s
  | .pool i l => { s with nodes := fun k => if k = i then { s.nodes i with pool := l } else s.nodes k }

/-- networks reachable from the unstarted one by enabled events, in any order, with any inputs -/
inductive MReachable (e : Env) : MNet → Prop where
  | init : MReachable e (minit e)
  | step {s : MNet} (ev : NEv) (inp : Inp) : MReachable e s → NEnabled e s inp ev → MReachable e (napply e s inp ev)

/-- the guarded-command configuration the machines are compared with -/
def cfgOf (e : Env) : Cfg := { n := e.n }

end NeoModel.Dbft.Mach
