/-
Model of `pow10` of pkg/encoding/fixedn/decimal.go (l.10-33) as written: a package-level table of the
first `maxAllowedPrecision + 1` = 17 powers filled by `init`, returned directly for `n <= 16`; above
that a FRESH product starting from `table[16] * table[1]`, multiplied by `table[1]` once per further step
(the table itself is never written after `init`). Core Lean only.
-/
import NeoModel.Base.Hex
namespace NeoModel.Codec

def maxAllowedPrecision : Nat := 16

/-- `_pow10` after `init()`: p = 1; append p; p *= 10, seventeen times. -/
def pow10Table : List Int := (List.range (maxAllowedPrecision + 1)).map fun k => (10 : Int) ^ k

/-- `pow10(n)`. -/
def pow10M (n : Nat) : Int :=
  let last := pow10Table.length - 1
  if n ≤ last then pow10Table.getD n 0
  else (List.range (n - (last + 1))).foldl (fun p _ => p * pow10Table.getD 1 0) (pow10Table.getD last 0 * pow10Table.getD 1 0)

end NeoModel.Codec
