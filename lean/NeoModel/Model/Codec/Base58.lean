/-
Model of pkg/encoding/base58/base58.go (`CheckEncode`/`CheckDecode`), of the positional conversion of
github.com/mr-tron/base58 v1.2.0 (`Encode`/`Decode`, third-party: modelled, not verified — what it
computes, not its 32-bit limb loop), of pkg/encoding/address/address.go (after the fix
"address: reject Base58Check payloads that are not 21 bytes long") and of
pkg/crypto/keys/wif.go (`WIFEncode`/`WIFDecode` up to the private-key bytes).
Strings are byte lists (Go strings; a byte > 127 is never a digit: `r > 127` / RuneError).
`H` is `hash.DoubleSha256` (a parameter; `Sha256.hash2` in the driver).
Core Lean only.
-/
import NeoModel.Base.Hex
namespace NeoModel.Codec

/-- little-endian digits of `n` in base `b`, none for 0. -/
def digitsLE (b n : Nat) : List Nat :=
  if _h : 2 ≤ b ∧ 0 < n then (n % b) :: digitsLE b (n / b) else []
termination_by n
decreasing_by exact Nat.div_lt_self (by omega) (by omega)

/-- big-endian digits without leading zero. -/
def toDigitsBE (b n : Nat) : List Nat := (digitsLE b n).reverse

/-- value of big-endian digits. -/
def ofDigitsBE (b : Nat) (ds : List Nat) : Nat := ds.foldl (fun acc d => acc * b + d) 0

/-- the Bitcoin alphabet (base58.BTCAlphabet). -/
def b58Alphabet : Bytes :=
  [49, 50, 51, 52, 53, 54, 55, 56, 57, 65, 66, 67, 68, 69, 70, 71, 72, 74, 75, 76, 77, 78, 80, 81, 82,
   83, 84, 85, 86, 87, 88, 89, 90, 97, 98, 99, 100, 101, 102, 103, 104, 105, 106, 107, 109, 110, 111,
   112, 113, 114, 115, 116, 117, 118, 119, 120, 121, 122]

def b58Char (d : Nat) : UInt8 := b58Alphabet.getD d 0

def b58Digit (c : UInt8) : Option Nat :=
  let i := b58Alphabet.idxOf c
  if i < 58 then some i else none

def leadCount (x : UInt8) (l : Bytes) : Nat := (l.takeWhile (· == x)).length

/-- `base58.Encode`: leading zero bytes become leading '1's, the rest is converted positionally. -/
def b58Encode (bin : Bytes) : Bytes :=
  let z := leadCount 0 bin
  let v := ofDigitsBE 256 (bin.map (·.toNat))
  List.replicate z 0x31 ++ (toDigitsBE 58 v).map b58Char

/-- `base58.Decode`: leading '1's become zero bytes, the rest is converted positionally.
`none` = error (empty string, byte > 127, byte outside the alphabet). -/
def b58Decode (s : Bytes) : Option Bytes :=
  if s.isEmpty then none
  else match s.mapM b58Digit with
  | none => none
  | some ds =>
    let z := leadCount 0x31 s
    let v := ofDigitsBE 58 ds
    some (List.replicate z 0 ++ (toDigitsBE 256 v).map UInt8.ofNat)

/-- `hash.Checksum`: first 4 bytes of the double SHA-256. -/
def checksum (H : Bytes → Bytes) (b : Bytes) : Bytes := (H b).take 4

/-- `base58.CheckEncode` (base58.go:37-41). -/
def checkEncode (H : Bytes → Bytes) (b : Bytes) : Bytes := b58Encode (b ++ checksum H b)

/-- `base58.CheckDecode` (base58.go:13-33). -/
def checkDecode (H : Bytes → Bytes) (s : Bytes) : Option Bytes :=
  match b58Decode s with
  | none => none
  | some raw =>
    if raw.length < 5 then none
    else
      let p := raw.take (raw.length - 4)
      let c := raw.drop (raw.length - 4)
      if checksum H p == c then some p else none

/-! ### addresses (address.go) -/

def addrPrefix : UInt8 := 0x35

/-- `Uint160ToString` (address.go:24-28). -/
def uint160ToString (H : Bytes → Bytes) (u : Bytes) : Bytes := checkEncode H (addrPrefix :: u)

/-- `StringToUint160` (address.go:32-44): checksum, length 21, prefix, then the 20 bytes. -/
def stringToUint160 (H : Bytes → Bytes) (s : Bytes) : Option Bytes :=
  match checkDecode H s with
  | none => none
  | some b =>
    if b.length != 21 then none
    else if b.head? != some addrPrefix then none
    else some (b.drop 1)

/-! ### WIF (wif.go) -/

/-- `WIFEncode` (wif.go:30-48); `none` = error. -/
def wifEncode (H : Bytes → Bytes) (key : Bytes) (version : UInt8) (compressed : Bool) : Option Bytes :=
  let version := if version == 0 then 0x80 else version
  if key.length != 32 then none
  else some (checkEncode H (version :: key ++ (if compressed then [0x01] else [])))

/-- `WIFDecode` (wif.go:51-91) up to the private-key bytes `b[1:33]`: (key bytes, compressed). -/
def wifDecode (H : Bytes → Bytes) (s : Bytes) (version : UInt8) : Option (Bytes × Bool) :=
  match checkDecode H s with
  | none => none
  | some b =>
    let version := if version == 0 then 0x80 else version
    if b.length == 33 then
      if b.head? != some version then none else some ((b.drop 1).take 32, false)
    else if b.length == 34 then
      if b.getD 33 0 != 0x01 then none
      else if b.head? != some version then none else some ((b.drop 1).take 32, true)
    else none

end NeoModel.Codec

