/-
Model of the NEP-2 byte layout, pkg/crypto/keys/nep2.go (`NEP2Encrypt` l.43-76, `NEP2Decrypt`
l.80-123, `validateNEP2Format` l.131-145, `xor` l.147-156):
  Base58Check( 0x01 0x42 | 0xe0 | addresshash (4) | encrypted (32) ),   39 bytes before the checksum.
The cryptographic primitives are parameters (`Nep2Prims`): scrypt over the NFC-normalised passphrase,
AES-256-ECB, and "address of a 32-byte private key" (P-256 scalar multiplication, script hash,
Base58Check). `H` is `hash.DoubleSha256` as in Base58.lean. Core Lean only.
-/
import NeoModel.Model.Codec.Base58
namespace NeoModel.Codec

structure Nep2Prims where
  kdf : Bytes → Bytes → Bytes        -- scrypt.Key(norm.NFC(passphrase), salt, N, R, P, 64)
  enc : Bytes → Bytes → Bytes        -- aesEncrypt(src, key)
  dec : Bytes → Bytes → Bytes        -- aesDecrypt(crypted, key)
  addrOf : Bytes → Bytes             -- NewPrivateKeyFromBytes(b).Address()

/-- `xor` (nep2.go:147-156); the callers pass two 32-byte slices. -/
def xorB (a b : Bytes) : Bytes := List.zipWith (· ^^^ ·) a b

def nep2Header : Bytes := [0x01, 0x42, 0xe0]       -- nepHeader ++ nepFlag

/-- `NEP2Encrypt` for the 32 private-key bytes `priv`. -/
def nep2Encrypt (Q : Nep2Prims) (H : Bytes → Bytes) (priv pass : Bytes) : Bytes :=
  let addrHash := checksum H (Q.addrOf priv)          -- hash.Checksum([]byte(address))
  let dk := Q.kdf pass addrHash
  let xr := xorB priv (dk.take 32)                     -- xor(privBytes, derivedKey1)
  let encrypted := Q.enc xr (dk.drop 32)               -- aesEncrypt(xr, derivedKey2)
  checkEncode H (nep2Header ++ addrHash ++ encrypted)

/-- `NEP2Decrypt`; `none` = error. Returns the private-key bytes. -/
def nep2Decrypt (Q : Nep2Prims) (H : Bytes → Bytes) (s pass : Bytes) : Option Bytes :=
  match checkDecode H s with
  | none => none
  | some b =>
    if b.length != 39 then none                        -- validateNEP2Format
    else if b.getD 0 0 != 0x01 then none
    else if b.getD 1 0 != 0x42 then none
    else if b.getD 2 0 != 0xe0 then none
    else
      let addrHash := (b.drop 3).take 4                -- b[3:7]
      let dk := Q.kdf pass addrHash
      let decrypted := Q.dec (b.drop 7) (dk.drop 32)   -- aesDecrypt(b[7:], derivedKey2)
      let priv := xorB decrypted (dk.take 32)
      if priv.length != 32 then none                   -- NewPrivateKeyFromBytes
      else if checksum H (Q.addrOf priv) == addrHash then some priv   -- compareAddressHash
      else none

end NeoModel.Codec
