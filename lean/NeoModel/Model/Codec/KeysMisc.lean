/-
Further pieces of pkg/smartcontract/contract.go and pkg/crypto/keys as written:
 * `GetDefaultHonestNodeCount` / `GetMajorityHonestNodeCount` (contract.go:58-66) and the two builders
   that use them (`CreateDefaultMultiSigRedeemScript`, `CreateMajorityMultiSigRedeemScript`, l.43-55);
 * `(*PublicKey).Verify` (publickey.go:389-398) with `ecdsa.Verify` as a parameter: the nil / length
   guard, then the r|s split;
 * `NewPrivateKeyFromBytes` up to the scalar and `(*PrivateKey).Bytes()` (private_key.go:57-80, 181-186).
Core Lean only.
-/
import NeoModel.Model.Codec.MsSort
import NeoModel.Model.Codec.PubKey
namespace NeoModel.Codec

/-- `GetDefaultHonestNodeCount` (contract.go:58-60): `n - (n-1)/3` (Go integer division). -/
def defaultHonest (n : Nat) : Int := (n : Int) - ((n : Int) - 1).tdiv 3
/-- `GetMajorityHonestNodeCount` (contract.go:64-66): `n - (n-1)/2`. -/
def majorityHonest (n : Nat) : Int := (n : Int) - ((n : Int) - 1).tdiv 2

/-- `CreateDefaultMultiSigRedeemScript` (contract.go:43-47). -/
def createDefaultMultiSigK (keys : List PubKey) : Option Bytes := createMultiSigK (defaultHonest keys.length) keys
/-- `CreateMajorityMultiSigRedeemScript` (contract.go:51-55). -/
def createMajorityMultiSigK (keys : List PubKey) : Option Bytes := createMultiSigK (majorityHonest keys.length) keys

/-- `(*PublicKey).Verify` with `ecdsa.Verify` as a parameter: the length guard, then the r|s split. -/
def verifyLayout (k : PubKey) (sig : Bytes) (ecdsa : Nat → Nat → Bool) : Bool :=
  match k with
  | none => false
  | some _ =>
    match sigSplit sig with
    | none => false
    | some (r, s) => ecdsa r s

/-- `NewPrivateKeyFromBytes` up to the scalar `D` (private_key.go:57-80); `none` = wrong length. -/
def privFromBytes (b : Bytes) : Option Nat := if b.length != 32 then none else some (leVal b.reverse)
/-- `(*PrivateKey).Bytes()` (private_key.go:181-186): `D.FillBytes(make([]byte, 32))`. -/
def privBytes (d : Nat) : Bytes := (leBytes 32 d).reverse

end NeoModel.Codec
