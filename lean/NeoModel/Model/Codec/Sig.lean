/-
Abstract ECDSA (the algebra behind pkg/crypto/keys `Sign`/`Verify`): scalars `F` (integers modulo
the group order) act on points `G`. The laws are hypotheses carried by a structure; nothing is
axiomatised. This is NOT tied to the real code (crypto/ecdsa and rfc6979 are third-party and only
sampled by the harness on real keys); it records why sign-then-verify succeeds algebraically.
Core Lean only.
-/
namespace NeoModel.Codec

structure EcdsaAlg (F G : Type) where
  add : F → F → F
  mul : F → F → F
  inv : F → F
  one : F
  gadd : G → G → G
  smul : F → G → G
  base : G
  xco : G → F                                       -- x coordinate reduced modulo the order
  mul_assoc : ∀ a b c, mul (mul a b) c = mul a (mul b c)
  mul_comm : ∀ a b, mul a b = mul b a
  mul_one : ∀ a, mul a one = a
  add_mul : ∀ a b c, mul (add a b) c = add (mul a c) (mul b c)
  smul_add : ∀ a b P, smul (add a b) P = gadd (smul a P) (smul b P)
  smul_smul : ∀ a b P, smul a (smul b P) = smul (mul a b) P

variable {F G : Type} [DecidableEq F]

/-- signature of digest `z` under private scalar `d` with nonce `k`. -/
def EcdsaAlg.sign (E : EcdsaAlg F G) (d k z : F) : F × F :=
  let r := E.xco (E.smul k E.base)
  (r, E.mul (E.inv k) (E.add z (E.mul r d)))

/-- verification against the public point `Q`. -/
def EcdsaAlg.verify (E : EcdsaAlg F G) (Q : G) (z : F) (sig : F × F) : Bool :=
  let w := E.inv sig.2
  decide (E.xco (E.gadd (E.smul (E.mul z w) E.base) (E.smul (E.mul sig.1 w) Q)) = sig.1)

end NeoModel.Codec
