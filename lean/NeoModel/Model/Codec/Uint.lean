/-
Model of pkg/util/uint160.go and uint256.go: the value is the array in memory order (= `BytesBE`).
`Uint{160,256}DecodeBytesBE/LE`, `BytesBE/LE`, `StringBE/LE`, `Uint…DecodeStringBE/LE`, `Reverse`;
`encoding/hex` modelled by its definition (lower-case output, either case accepted).
`size` = 20 or 32. Core Lean only.
-/
import NeoModel.Base.Hex
namespace NeoModel.Codec

def hexDigitB (n : Nat) : UInt8 := if n < 10 then UInt8.ofNat (48 + n) else UInt8.ofNat (87 + n)

/-- `hex.EncodeToString`. -/
def hexEncB : Bytes → Bytes
  | [] => []
  | b :: r => hexDigitB (b.toNat / 16) :: hexDigitB (b.toNat % 16) :: hexEncB r

def hexValB (c : UInt8) : Option Nat :=
  let n := c.toNat
  if 48 ≤ n ∧ n ≤ 57 then some (n - 48)
  else if 97 ≤ n ∧ n ≤ 102 then some (n - 87)
  else if 65 ≤ n ∧ n ≤ 70 then some (n - 55)
  else none

/-- `hex.DecodeString`; `none` = error (odd length or a non-hex byte). -/
def hexDecB : Bytes → Option Bytes
  | [] => some []
  | [_] => none
  | a :: b :: r =>
    match hexValB a, hexValB b, hexDecB r with
    | some x, some y, some t => some (UInt8.ofNat (x * 16 + y) :: t)
    | _, _, _ => none

/-- `UintNDecodeBytesBE` (uint160.go:53-58). -/
def uDecodeBytesBE (size : Nat) (b : Bytes) : Option Bytes := if b.length != size then none else some b

/-- `UintNDecodeBytesLE` (uint160.go:61-71). -/
def uDecodeBytesLE (size : Nat) (b : Bytes) : Option Bytes := if b.length != size then none else some b.reverse

def uBytesBE (u : Bytes) : Bytes := u
def uBytesLE (u : Bytes) : Bytes := u.reverse
def uReverse (u : Bytes) : Bytes := u.reverse
def uStringBE (u : Bytes) : Bytes := hexEncB (uBytesBE u)
def uStringLE (u : Bytes) : Bytes := hexEncB (uBytesLE u)

/-- `UintNDecodeStringBE` (uint160.go:25-35). -/
def uDecodeStringBE (size : Nat) (s : Bytes) : Option Bytes :=
  if s.length != size * 2 then none
  else match hexDecB s with
  | none => none
  | some b => uDecodeBytesBE size b

/-- `UintNDecodeStringLE` (uint160.go:38-50). -/
def uDecodeStringLE (size : Nat) (s : Bytes) : Option Bytes :=
  if s.length != size * 2 then none
  else match hexDecB s with
  | none => none
  | some b => uDecodeBytesLE size b

end NeoModel.Codec
