/-
Model of the key ordering used by `smartcontract.CreateMultiSigRedeemScript` (contract.go:16-39):
 * pkg/crypto/keys/publickey.go `(*PublicKey).Cmp` (l.106-121): infinity first, then X, then Y as
   big integers; `Bytes()`/`getBytes(true)`/`writeBytes` (l.159-204): compressed form
   `02|03 ++ X (32 bytes big-endian)`, the single byte `00` for infinity;
 * `slices.SortFunc(publicKeys, (*keys.PublicKey).Cmp)` by what it computes: the sorted arrangement
   (insertion sort here; the standard library's pdqsort is not stable, but two keys that compare equal
   ARE equal (`pkLe_antisymm`), so the sorted list of values is unique — `sorted_perm_eq`);
 * the builder itself with the sort in place: `createMultiSigK`.
Core Lean only.
-/
import NeoModel.Model.Codec.Script
namespace NeoModel.Codec

/-- `keys.PublicKey`: `none` = the point at infinity (`X == nil && Y == nil`), `some (x, y)` otherwise. -/
abbrev PubKey := Option (Nat × Nat)

/-- `(*PublicKey).Cmp` (publickey.go:106-121): infinity first, then X, then Y as big integers. -/
def pkCmp : PubKey → PubKey → Ordering
  | none, none => .eq
  | none, some _ => .lt
  | some _, none => .gt
  | some (x1, y1), some (x2, y2) =>
    if x1 < x2 then .lt else if x2 < x1 then .gt           -- xCmp := p.X.Cmp(key.X); if xCmp != 0
    else if y1 < y2 then .lt else if y2 < y1 then .gt else .eq   -- return p.Y.Cmp(key.Y)

def pkLe (a b : PubKey) : Bool := pkCmp a b != .gt

/-- big-endian bytes of `v`, exactly `n` of them (`big.Int.FillBytes`). -/
def beBytes (n v : Nat) : Bytes := (leBytes n v).reverse

/-- `(*PublicKey).Bytes()` = `getBytes(true)` (publickey.go:159-204): compressed form. -/
def pkBytes : PubKey → Bytes
  | none => [0]
  | some (x, y) => UInt8.ofNat (2 + y % 2) :: beBytes 32 x

def insertKey (k : PubKey) : List PubKey → List PubKey
  | [] => [k]
  | h :: t => if pkLe k h then k :: h :: t else h :: insertKey k t

/-- `slices.SortFunc(publicKeys, (*keys.PublicKey).Cmp)` by what it computes: the sorted arrangement. -/
def sortKeys : List PubKey → List PubKey
  | [] => []
  | k :: ks => insertKey k (sortKeys ks)

def createMultiSigK (m : Int) (keys : List PubKey) : Option Bytes :=
  if m < 1 then none
  else if (keys.length : Int) < m then none
  else if 1024 < m then none
  else createMultiSig m ((sortKeys keys).map pkBytes)


end NeoModel.Codec
