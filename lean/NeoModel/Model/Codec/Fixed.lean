/-
Model of pkg/encoding/fixedn: `Fixed8.String` (fixed8.go:21-41, after the fix "print
Fixed8(math.MinInt64) correctly"), `Fixed8FromString` (l.71-77), `ToString`/`FromString`
(decimal.go:38-83, after the fixes "keep the sign of decimals between -1 and 0" and "format decimal
fractions that do not fit uint64").
Strings are ASCII byte lists. `big.Int.SetString(s, 10)` is modelled by its grammar
(`[+-]?[0-9]+`, whole string), `big.Int.String()` / `strconv.FormatUint` by decimal digits.
Core Lean only.
-/
import NeoModel.Model.Codec.Base58
namespace NeoModel.Codec

def chMinus : UInt8 := 45
def chPlus : UInt8 := 43
def chDot : UInt8 := 46
def chZero : UInt8 := 48

/-- `strconv.FormatUint(n, 10)`. -/
def natDec (n : Nat) : Bytes :=
  if n = 0 then [chZero] else (toDigitsBE 10 n).map fun d => UInt8.ofNat (48 + d)

/-- `big.Int.String()`. -/
def intDec (n : Int) : Bytes :=
  if n < 0 then chMinus :: natDec n.natAbs else natDec n.natAbs

/-- `strings.TrimRight(s, "0")`. -/
def trimRight0 (s : Bytes) : Bytes := (s.reverse.dropWhile (· == chZero)).reverse

/-- `Fixed8.String` (fixed8.go:21-41); `v` is the int64 value. -/
def fixed8String (v : Int) : Bytes :=
  let a := v.natAbs                                   -- uint64(f), negated if f < 0
  let sign : Bytes := if v < 0 then [chMinus] else []
  let ip := natDec (a / 100000000)
  let fr := a % 100000000
  if 0 < fr then
    let str := natDec fr
    sign ++ ip ++ [chDot] ++ List.replicate (8 - str.length) chZero ++ trimRight0 str
  else sign ++ ip

def isDigit (c : UInt8) : Bool := 48 ≤ c.toNat && c.toNat ≤ 57

/-- value of a non-empty all-digit string. -/
def parseNat10 (s : Bytes) : Option Nat :=
  if s.isEmpty || !s.all isDigit then none
  else some (ofDigitsBE 10 (s.map fun c => c.toNat - 48))

/-- `new(big.Int).SetString(s, 10)`. -/
def parseInt10 (s : Bytes) : Option Int :=
  match s with
  | c :: r =>
    if c == chMinus then (parseNat10 r).map fun n => - (Int.ofNat n)
    else if c == chPlus then (parseNat10 r).map Int.ofNat
    else (parseNat10 s).map Int.ofNat
  | [] => none

/-- `strings.SplitN(s, ".", 2)`: the part before the first '.', and the rest if there is a '.'. -/
def splitDot : Bytes → Bytes × Option Bytes
  | [] => ([], none)
  | c :: r =>
    if c == chDot then ([], some r)
    else let (a, b) := splitDot r; (c :: a, b)

/-- `FromString` (decimal.go:59-83); `none` = ErrInvalidFormat. -/
def decFromString (s : Bytes) (precision : Nat) : Option Int :=
  let (p0, p1?) := splitDot s
  match parseInt10 p0 with
  | none => none
  | some bi0 =>
    let bi := bi0 * (10 : Int) ^ precision
    match p1? with
    | none => some bi
    | some p1 =>
      if precision < p1.length then none
      else match parseInt10 p1 with
      | none => none
      | some fp0 =>
        let fp := fp0 * (10 : Int) ^ (precision - p1.length)
        if p0.head? == some chMinus then some (bi - fp) else some (bi + fp)

/-- `big.Int.Int64()`: the low 64 bits of the magnitude reinterpreted, negated (wrapping) if negative. -/
def wrapInt64 (x : Int) : Int :=
  let a := x.natAbs % 2 ^ 64
  let v : Int := if a < 2 ^ 63 then Int.ofNat a else Int.ofNat a - 2 ^ 64
  if x < 0 then (if v = -(2 : Int) ^ 63 then v else -v) else v

/-- `Fixed8FromString` (fixed8.go:71-77). -/
def fixed8FromString (s : Bytes) : Option Int := (decFromString s 8).map wrapInt64

/-- `ToString` (decimal.go:38-53, after the fix "format decimal fractions that do not fit uint64"):
the fraction is the decimal text of `|fp|`, left-padded with zeros to `precision`, right-trimmed. -/
def decToString (bi : Int) (precision : Nat) : Bytes :=
  let m : Int := (10 : Int) ^ precision
  let dp := bi.tdiv m
  let fp := bi.tmod m
  let s := intDec dp
  if fp = 0 then s
  else
    let s := if fp < 0 ∧ dp = 0 then chMinus :: s else s
    let frac := natDec fp.natAbs
    s ++ [chDot] ++ trimRight0 (List.replicate (precision - frac.length) chZero ++ frac)

end NeoModel.Codec

