/-
Model of the script builders and their parsers:
 * pkg/vm/emit/emit.go: `Int`, `BigInt` (`smallInt`, `bigInt`, `padRight`, l.55-118), `Bytes` (l.266-282),
   `Syscall` (l.286-296);
 * pkg/vm/stackitem `CheckIntegerSize` (item.go:434-451);
 * pkg/smartcontract/contract.go `CreateMultiSigRedeemScript` (l.16-39) on the emitted key order
   (`createMultiSig`); the in-place sort by `PublicKey.Cmp` is in MsSort.lean (`createMultiSigK`);
 * pkg/crypto/keys/publickey.go `GetVerificationScript` (l.345-373, NEO3 prefix);
 * pkg/smartcontract/scparser: `Context.Next` (context.go:49-124) restricted to the opcodes the
   standard-contract parsers can accept (every other opcode makes them return false whether or not
   `Next` fails on it), `GetInt64FromInstr`/`GetBigIntFromInstr` (conversion.go:95-139),
   `ParseMultiSigContract`, `ParseSignatureContract` (contract_checks.go:41-135).
Core Lean only.
-/
import NeoModel.Model.Codec.BigInt
namespace NeoModel.Codec

def opPUSHINT8 : UInt8 := 0x00
def opPUSHINT256 : UInt8 := 0x05
def opPUSHDATA1 : UInt8 := 0x0C
def opPUSHDATA2 : UInt8 := 0x0D
def opPUSHDATA4 : UInt8 := 0x0E
def opPUSHM1 : UInt8 := 0x0F
def opPUSH0 : UInt8 := 0x10
def opPUSH16 : UInt8 := 0x20
def opRET : UInt8 := 0x40
def opSYSCALL : UInt8 := 0x41

/-- interopnames.ToID("System.Crypto.CheckMultisig"), little-endian bytes as emitted. -/
def multisigID : Bytes := [0x9e, 0xd0, 0xdc, 0x3a]
/-- interopnames.ToID("System.Crypto.CheckSig"). -/
def checksigID : Bytes := [0x56, 0xe7, 0xb3, 0x27]

/-! ### emit -/

/-- `smallInt` (emit.go:77-88). -/
def smallInt (i : Int) : Option Bytes :=
  if i = -1 then some [opPUSHM1]
  else if 0 ≤ i ∧ i < 16 then some [UInt8.ofNat (16 + i.toNat)]
  else none

def isInt64 (n : Int) : Bool := decide (-(2:Int)^63 ≤ n ∧ n < (2:Int)^63)

/-- `stackitem.CheckIntegerSize` (item.go:434-451) as written. -/
def checkIntegerSize (v : Int) : Bool :=
  let sz := bitLen v.natAbs
  if sz < 256 then true
  else if 256 < sz then false
  else if 0 < v || v.natAbs % 2 ^ 255 != 0 then false     -- Sign()==1 || TrailingZeroBits() != 255
  else true

/-- `padRight` (emit.go:55-64): sign-extend to `s` bytes. -/
def padRight (s : Nat) (buf : Bytes) : Bytes :=
  buf ++ List.replicate (s - buf.length) (if isNegB buf then 0xFF else 0x00)

/-- `bigInt` (emit.go:90-112); `none` = `w.Err` set. -/
def emitBigIntAux (n : Int) (trySmall : Bool) : Option Bytes :=
  if trySmall && isInt64 n && (smallInt n).isSome then smallInt n
  else if !checkIntegerSize n then none
  else
    let buf := toBytes n
    if buf.isEmpty then some [opPUSH0]
    else
      let padSize := bitLen (buf.length - 1)           -- 8 - bits.LeadingZeros8(byte(len(buf)-1))
      some (UInt8.ofNat padSize :: padRight (2 ^ padSize) buf)

/-- `emit.BigInt`. -/
def emitBigInt (n : Int) : Option Bytes := emitBigIntAux n true

/-- `emit.Int` (for an int64 `i`). -/
def emitInt (i : Int) : Option Bytes :=
  match smallInt i with
  | some b => some b
  | none => emitBigIntAux i false

/-- `emit.Bytes` (emit.go:266-282). -/
def emitBytes (b : Bytes) : Bytes :=
  let n := b.length
  if n < 0x100 then opPUSHDATA1 :: UInt8.ofNat n :: b
  else if n < 0x10000 then opPUSHDATA2 :: (leBytes 2 n ++ b)
  else opPUSHDATA4 :: (leBytes 4 n ++ b)

/-- `CreateMultiSigRedeemScript` (contract.go:16-39) on the emitted key order; `none` = error. -/
def createMultiSig (m : Int) (keys : List Bytes) : Option Bytes :=
  if m < 1 then none
  else if (keys.length : Int) < m then none
  else if 1024 < m then none
  else match emitInt m, emitInt keys.length with
  | some a, some c => some (a ++ (keys.map emitBytes).flatten ++ c ++ opSYSCALL :: multisigID)
  | _, _ => none

/-- `GetVerificationScript` (publickey.go:345-373). -/
def sigScript (key : Bytes) : Bytes :=
  opPUSHDATA1 :: UInt8.ofNat key.length :: key ++ opSYSCALL :: checksigID

/-! ### scparser -/

inductive NextRes where
  | err                                               -- `Next` returned an error
  | other                                             -- an opcode none of the parsers below accepts
  | ins (op : UInt8) (param : Bytes) (ip next : Nat)

/-- `Context.Next` (context.go:49-124). -/
def nextInstr (prog : Bytes) (ip : Nat) : NextRes :=
  if prog.length ≤ ip then .ins opRET [] ip ip
  else
    let op := prog.getD ip 0
    let nip := ip + 1
    if op.toNat ≤ opPUSHINT256.toNat then
      let n := 2 ^ op.toNat
      if prog.length < nip + n then .err else .ins op ((prog.drop nip).take n) ip (nip + n)
    else if op == opPUSHDATA1 then
      if prog.length ≤ nip then .err
      else
        let n := (prog.getD nip 0).toNat
        if prog.length < nip + 1 + n then .err else .ins op ((prog.drop (nip + 1)).take n) ip (nip + 1 + n)
    else if op == opSYSCALL then
      if prog.length < nip + 4 then .err else .ins op ((prog.drop nip).take 4) ip (nip + 4)
    else if opPUSHM1.toNat ≤ op.toNat ∧ op.toNat ≤ opPUSH16.toNat then .ins op [] ip nip
    else if op == opRET then .ins op [] ip nip
    else .other

/-- `GetInt64FromInstr` (conversion.go:95-121). -/
def getInt64FromInstr (op : UInt8) (param : Bytes) : Option Int :=
  if opPUSHM1.toNat ≤ op.toNat ∧ op.toNat ≤ opPUSH16.toNat then some ((op.toNat : Int) - 16)
  else if op.toNat ≤ 3 then some (fromBytesFixed param)
  else if op.toNat ≤ 5 then
    if (param.drop 8).any (· != 0) then none
    else if 128 ≤ (param.getD 7 0).toNat then none
    else some (Int.ofNat (leVal (param.take 8)))
  else none
where
  /-- `int64(intN(binary.LittleEndian.UintN(param)))`: two's complement of the whole parameter. -/
  fromBytesFixed (p : Bytes) : Int :=
    let v := leVal p
    if isNegB p then Int.ofNat v - 2 ^ (8 * p.length) else Int.ofNat v

/-- `GetBigIntFromInstr` (conversion.go:128-139). -/
def getBigIntFromInstr (op : UInt8) (param : Bytes) : Option Int :=
  if opPUSHM1.toNat ≤ op.toNat ∧ op.toNat ≤ opPUSH16.toNat then some ((op.toNat : Int) - 16)
  else if op.toNat ≤ opPUSHINT256.toNat then some (fromBytes param)
  else none

/-- what a script consisting of exactly one integer push pushes (via `Next` + `GetBigIntFromInstr`). -/
def pushedInt (script : Bytes) : Option Int :=
  match nextInstr script 0 with
  | .ins op param _ next => if next == script.length && 0 < script.length then getBigIntFromInstr op param else none
  | _ => none

/-- `getNumOfThingsFromInstr` (contract_checks.go:28-37). -/
def getNumOfThings (op : UInt8) (param : Bytes) : Option Nat :=
  match getInt64FromInstr op param with
  | none => none
  | some n => if n < 1 ∨ 1024 < n then none else some n.toNat

/-- the key loop of `ParseMultiSigContract` (l.61-78): returns the keys, the first non-PUSHDATA1
instruction and the position after it. Fuel = script length. -/
def keyLoop (prog : Bytes) : Nat → Nat → List Bytes → Option (List Bytes × UInt8 × Bytes × Nat)
  | 0, _, _ => none
  | fuel + 1, ip, pubs =>
    match nextInstr prog ip with
    | .ins op param _ next =>
      if op != opPUSHDATA1 then some (pubs, op, param, next)
      else if param.length < 33 then none
      else if 1024 < pubs.length + 1 then none
      else keyLoop prog fuel next (pubs ++ [param])
    | _ => none

/-- `ParseMultiSigContract` (contract_checks.go:41-101); `none` = `ok == false`. -/
def parseMultiSig (script : Bytes) : Option (Nat × List Bytes) :=
  if script.length < 42 then none
  else match nextInstr script 0 with
  | .ins op param _ next =>
    match getNumOfThings op param with
    | none => none
    | some nsigs =>
      match keyLoop script (script.length + 1) next [] with
      | none => none
      | some (pubs, op2, param2, next2) =>
        if pubs.length < nsigs then none
        else match getNumOfThings op2 param2 with
        | none => none
        | some nkeys2 =>
          if nkeys2 != pubs.length then none
          else match nextInstr script next2 with
          | .ins op3 param3 _ next3 =>
            if op3 != opSYSCALL || param3 != multisigID then none
            else match nextInstr script next3 with
            | .ins op4 _ ip4 _ => if op4 != opRET || ip4 != script.length then none else some (nsigs, pubs)
            | _ => none
          | _ => none
  | _ => none

/-- `ParseSignatureContract` (contract_checks.go:111-127). -/
def parseSigContract (script : Bytes) : Option Bytes :=
  if script.length != 40 then none
  else if script.getD 0 0 == opPUSHDATA1 && script.getD 1 0 == 33 && script.getD 35 0 == opSYSCALL
      && script.drop 36 == checksigID then some ((script.drop 2).take 33)
  else none

end NeoModel.Codec

