/-
Model of the public-key and signature byte layouts of pkg/crypto/keys (publickey.go, private_key.go):
`DecodeBytes`/`DecodeBinary` (02/03 compressed, 04 uncompressed, 00 = infinity rejected), `Bytes()` /
`UncompressedBytes()`, `decodeCompressedY`, the 64-byte r|s signature (`getSignatureSlice`, the split in
`Verify`). The curve (field prime, coefficients) and `big.Int.ModSqrt` are parameters (`CurveP`); the
driver instantiates them with secp256r1 / secp256k1 and the (P+1)/4 exponentiation. The key cache of
`NewPublicKeyFromBytes` is not modelled (it must be transparent; the harness decodes the same bytes on
both curves in both orders). Core Lean only.
-/
import NeoModel.Model.Codec.MsSort
namespace NeoModel.Codec

/-- the parameters of a short Weierstrass curve `y² = x³ − A·x + B` over the prime field `P`
(`A` = 3 for secp256r1, 0 for secp256k1: `decodeCompressedY`, publickey.go:236-244) and
`big.Int.ModSqrt(·, P)` (`none` = not a square). -/
structure CurveP where
  P : Nat
  A : Nat
  B : Nat
  sqrt : Nat → Option Nat

/-- `new(big.Int).SetBytes(b)`: big-endian value. -/
def beVal (b : Bytes) : Nat := leVal b.reverse

/-- `x³ + ax + b mod p` as `decodeCompressedY` computes it (l.246-251): Exp mod P, Mul/Mod,
Sub (may go negative), Add, Mod (Euclidean). -/
def ySquared (C : CurveP) (x : Nat) : Nat :=
  let xCubed := x ^ 3 % C.P
  let aX := (x * C.A) % C.P
  (((xCubed : Int) - (aX : Int) + (C.B : Int)) % (C.P : Int)).toNat

/-- `decodeCompressedY` (publickey.go:236-263). -/
def decodeCompressedY (C : CurveP) (x ylsb : Nat) : Option Nat :=
  match C.sqrt (ySquared C x) with
  | none => none
  | some y => if y % 2 != ylsb then some ((C.P - y) % C.P) else some y   -- y.Neg(y); y.Mod(y, cp.P)

/-- `curve.IsOnCurve(x, y)` for the two supported curves (the range part is repeated by the caller). -/
def onCurve (C : CurveP) (x y : Nat) : Bool := (y * y) % C.P == ySquared C x

/-- `(*PublicKey).DecodeBytes` / `DecodeBinary` (publickey.go:266-333); `none` = error. -/
def decodePub (C : CurveP) (data : Bytes) : Option (Nat × Nat) :=
  match data with
  | [] => none                                                    -- ReadB: EOF
  | pfx :: rest =>
    if pfx == 0x00 then none                                      -- point at infinity is not a valid key
    else if pfx == 0x02 || pfx == 0x03 then
      if rest.length < 32 then none                               -- ReadBytes: EOF
      else
        let x := beVal (rest.take 32)
        match decodeCompressedY C x (pfx.toNat % 2) with
        | none => none
        | some y =>
          if C.P ≤ x ∨ C.P ≤ y then none
          else if rest.length != 32 then none                     -- DecodeBytes: "extra data"
          else some (x, y)
    else if pfx == 0x04 then
      if rest.length < 64 then none
      else
        let x := beVal (rest.take 32)
        let y := beVal ((rest.drop 32).take 32)
        if !onCurve C x y then none
        else if C.P ≤ x ∨ C.P ≤ y then none
        else if rest.length != 64 then none
        else some (x, y)
    else none                                                      -- invalid prefix

/-- `UncompressedBytes()` = `getBytes(false)` (publickey.go:159-211). -/
def pkBytesU : PubKey → Bytes
  | none => [0]
  | some (x, y) => 0x04 :: (beBytes 32 x ++ beBytes 32 y)

/-! ### the instantiation used by the driver -/

def powModAux (m : Nat) : Nat → Nat → Nat → Nat → Nat
  | 0, _, _, acc => acc
  | fuel + 1, b, e, acc =>
    if e = 0 then acc else powModAux m fuel (b * b % m) (e / 2) (if e % 2 = 1 then acc * b % m else acc)

/-- `b^e mod m` by square-and-multiply. -/
def powMod (b e m : Nat) : Nat := powModAux m (e.log2 + 1) (b % m) e (1 % m)

/-- `big.Int.ModSqrt(v, P)` for a prime `P ≡ 3 (mod 4)` (math/big `modSqrt3Mod4Prime`: the candidate
`v^((P+1)/4)`), with the Jacobi-symbol pre-test replaced by squaring the candidate. -/
def sqrt3mod4 (P v : Nat) : Option Nat :=
  let z := powMod v ((P + 1) / 4) P
  if z * z % P == v % P then some z else none

def mkCurve (P A B : Nat) : CurveP := ⟨P, A, B, sqrt3mod4 P⟩

/-! ### signatures: the 64-byte r|s layout -/

/-- `getSignatureSlice` (private_key.go:166-174) for a 256-bit curve. -/
def sigJoin (r s : Nat) : Bytes := beBytes 32 r ++ beBytes 32 s

/-- the split `Verify` does before calling `ecdsa.Verify` (publickey.go:391-398); `none` = the
length check fails (Verify returns false). -/
def sigSplit (sig : Bytes) : Option (Nat × Nat) :=
  if sig.length != 64 then none else some (beVal (sig.take 32), beVal (sig.drop 32))

end NeoModel.Codec
