/-
Model of the multi-signature check of pkg/vm/vm.go `CheckMultisigPar` (l.2048-2140).
`ok : Sig → Key → Bool` is the (deterministic) result of `pkey.Verify(sig, h)`;
`bad : Key → Bool` tells that `bytesToPublicKey` panics on the key bytes. After the fix
"vm: make CheckMultisigPar independent of result arrival order for malformed keys" all keys are parsed
before the workers start (any malformed key => panic); the one-signature path still parses lazily.
 * `seqMatch`  — the sequential greedy matcher (the reference: C# `CheckMultisig`, and what the
                 property calls "can be matched to keys in order");
 * `single`    — the `len(sigs) == 1` path (l.2050-2055, `slices.ContainsFunc`);
 * `parLoop`   — the result loop (l.2098-2136) as a nondeterministic machine: the state is
                 `k1 k2 s1 s2 sigok` plus the multiset of outstanding tasks; one step = one verification
                 result arrives; which one is decided by the schedule `σ` (a stream of choices).
Indices are `Nat`; `k2-1`, `s2-1` are only executed with `k1 < k2`, `s1 < s2` (part of the invariant
proved in Proofs/CodecMultisig).  Outside the caller's contract `1 ≤ len(sigs) ≤ len(pkeys)`
(ecdsa.go:21-33, `PopSigElements`) the Go code indexes out of range inside worker goroutines; that is
not modelled (`MRes.undef`).
Core Lean only.
-/
namespace NeoModel.Codec

inductive MRes where
  | accept | reject | panic | undef
  deriving DecidableEq, Repr, Inhabited

def MRes.ofBool : Bool → MRes
  | true => .accept
  | false => .reject

structure PState where
  k1 : Nat
  k2 : Nat
  s1 : Nat
  s2 : Nat
  sigok : Bool
  out : List (Nat × Nat)     -- outstanding tasks: (key index, signum)
  deriving Repr

section
variable {Sig Key : Type} (ok : Sig → Key → Bool) (bad : Key → Bool)

/-- sequential greedy matching: each signature takes the first later key that verifies it. -/
def seqMatch : List Sig → List Key → Bool
  | [], _ => true
  | _ :: _, [] => false
  | s :: ss, k :: ks => if ok s k then seqMatch ss ks else seqMatch (s :: ss) ks

/-- vm.go:2050-2055: one signature, keys parsed and tried in order. -/
def single (s : Sig) : List Key → MRes
  | [] => .reject
  | k :: ks => if bad k then .panic else if ok s k then .accept else single s ks

/-- which outstanding result arrives next: with two outstanding tasks the schedule bit decides. -/
def pick (c : Bool) : List (Nat × Nat) → Option ((Nat × Nat) × List (Nat × Nat))
  | [] => none
  | [t] => some (t, [])
  | t :: u :: r => if c then some (t, u :: r) else some (u, t :: r)

inductive StepRes where
  | done (r : MRes)
  | next (st : PState)

/-- vm.go:2098-2136, the body of the result loop for the arriving result of task `(ki, sg)`;
`rest` = the tasks still outstanding. -/
def parDeliver (sigs : List Sig) (keys : List Key) (st : PState) (ki sg : Nat) (rest : List (Nat × Nat)) : StepRes :=
  match sigs[sg]?, keys[ki]? with
  | some s, some k =>
    let rok := ok s k                                -- r.ok
    let goingForward := !(sg == st.s2)               -- l.2102-2105
    if st.k1 + 1 == st.k2 then                        -- l.2106
      let sigok := rok && (st.s1 + 1 == st.s2)
      if rest.length != 0 && sigok then .next { st with sigok := sigok, out := rest }
      else .done (.ofBool sigok)
    else if rok && (st.s1 + 1 == st.s2) then          -- l.2112-2118
      if rest.length != 0 && st.sigok then .next { st with out := rest }
      else .done (.ofBool st.sigok)
    else
      -- l.2119-2123 (only if r.ok), then l.2126-2137
      let s1 := if rok && goingForward then st.s1 + 1 else st.s1
      let s2 := if rok && !goingForward then st.s2 - 1 else st.s2
      let k1 := if goingForward then st.k1 + 1 else st.k1
      let k2 := if goingForward then st.k2 else st.k2 - 1
      let nextSig := if goingForward then s1 else s2
      let nextKey := if goingForward then k1 else k2
      match keys[nextKey]? with
      | none => .done .panic                          -- pubs[nextKey]: index out of range
      | some _ =>
        .next { k1 := k1, k2 := k2, s1 := s1, s2 := s2, sigok := st.sigok,
                out := rest ++ [(nextKey, nextSig)] }
  | _, _ => .done .undef

/-- one iteration of the result loop; `c` is the scheduler's choice of which outstanding result
arrives. -/
def parStep (sigs : List Sig) (keys : List Key) (c : Bool) (st : PState) : StepRes :=
  match pick c st.out with
  | none => .done .undef                               -- `range results` would block for ever
  | some ((ki, sg), rest) => parDeliver ok sigs keys st ki sg rest

/-- the loop under schedule `σ` (a stream of choices), one iteration per unit of fuel. -/
def parLoop (sigs : List Sig) (keys : List Key) : Nat → (Nat → Bool) → PState → MRes
  | 0, _, _ => .undef
  | fuel + 1, σ, st =>
    match parStep ok sigs keys (σ 0) st with
    | .done r => r
    | .next st' => parLoop sigs keys fuel (fun i => σ (i + 1)) st'

/-- all outcomes reachable under some schedule, by exhaustive exploration (used by the driver). -/
def parAll (sigs : List Sig) (keys : List Key) : Nat → PState → List MRes
  | 0, _ => [.undef]
  | fuel + 1, st =>
    let go (c : Bool) : List MRes :=
      match parStep ok sigs keys c st with
      | .done r => [r]
      | .next st' => parAll sigs keys fuel st'
    if st.out.length ≥ 2 then (go true ++ go false).eraseDups else go true

/-- the initial state of the loop (vm.go:2057-2096), or the immediate result. -/
def parInit (sigs : List Sig) (keys : List Key) : StepRes :=
  let k2 := keys.length - 1
  let s2 := sigs.length - 1
  if keys.any bad then .done .panic                    -- pubs[i] = bytesToPublicKey(pkeys[i]) for all i
  else match keys[0]?, keys[k2]? with
  | some _, some _ =>
    .next { k1 := 0, k2 := k2, s1 := 0, s2 := s2, sigok := true, out := [(0, 0), (k2, s2)] }
  | _, _ => .done .undef

/-- `CheckMultisigPar` under the schedule `σ`. -/
def checkMultisigPar (σ : Nat → Bool) (sigs : List Sig) (keys : List Key) : MRes :=
  if sigs.isEmpty || keys.length < sigs.length then .undef      -- outside the caller's contract
  else match sigs with
  | [s] => single ok bad s keys
  | _ =>
    match parInit bad sigs keys with
    | .done r => r
    | .next st => parLoop ok sigs keys (keys.length + 2) σ st

/-- every outcome of `CheckMultisigPar` over all schedules (driver). -/
def checkMultisigParAll (sigs : List Sig) (keys : List Key) : List MRes :=
  if sigs.isEmpty || keys.length < sigs.length then [.undef]
  else match sigs with
  | [s] => [single ok bad s keys]
  | _ =>
    match parInit bad sigs keys with
    | .done r => [r]
    | .next st => parAll ok sigs keys (keys.length + 2) st

end
end NeoModel.Codec
