/-
Model of pkg/encoding/bigint/bigint.go: `ToBytes`/`ToPreallocatedBytes` (l.97-161) and `FromBytes`
(l.21-75, `getEffectiveSize` l.79-93) over `Int`. The word-level manipulations of `math/big`
(`Bits`, `SetBits`, `FillBytes`) are abstracted to little-endian byte values (`leVal`/`leBytes`);
everything else is as written: length from `BitLen()/8+1`, the `-1` special case, complementing the
bytes of `|n|-1` for negatives; the decoder strips trailing sign bytes before converting.
Core Lean only.
-/
import NeoModel.Base.Hex
namespace NeoModel.Codec

/-- little-endian bytes of `v`, exactly `n` of them (`FillBytes` + `slices.Reverse`). -/
def leBytes : Nat → Nat → Bytes
  | 0, _ => []
  | n+1, v => UInt8.ofNat (v % 256) :: leBytes n (v / 256)

/-- little-endian value of a byte list. -/
def leVal : Bytes → Nat
  | [] => 0
  | b :: bs => b.toNat + 256 * leVal bs

/-- `big.Int.BitLen` of a magnitude. -/
def bitLen (n : Nat) : Nat := if n = 0 then 0 else Nat.log2 n + 1

/-- bytewise complement (`data[i] = ^data[i]`). -/
def complB (b : Bytes) : Bytes := b.map fun x => UInt8.ofNat (255 - x.toNat)

/-- MaxBytesLen (bigint.go:11). -/
def maxBytesLen : Nat := 32

/-- `ToBytes` (bigint.go:102-161). -/
def toBytes (n : Int) : Bytes :=
  if n = 0 then []                                   -- sign == 0: data[:0]
  else if 0 < n then
    let v := n.toNat
    leBytes (bitLen v / 8 + 1) v                      -- lb := n.BitLen()/8 + 1; FillBytes; Reverse
  else
    let m := (-n - 1).toNat                           -- bits[i]-- with carry: |n| - 1
    if m = 0 then [0xFF]                              -- !nonZero: n == -1
    else complB (leBytes (bitLen m / 8 + 1) m)        -- lb from BitLen of |n|-1; complement

/-- `getEffectiveSize` (bigint.go:79-93): drop trailing bytes equal to `p`. Front-recursive form. -/
def stripT (p : UInt8) : Bytes → Bytes
  | [] => []
  | x :: xs =>
    let r := stripT p xs
    if r.isEmpty && x == p then [] else x :: r

/-- top (last) byte has the sign bit: `data[size-1]&0x80 != 0`. -/
def isNegB (data : Bytes) : Bool :=
  match data.getLast? with
  | none => false
  | some t => 128 ≤ t.toNat

/-- `FromBytes` (bigint.go:21-75) for a non-nil slice. -/
def fromBytes (data : Bytes) : Int :=
  if data.isEmpty then 0
  else
    let neg := isNegB data
    let eff := stripT (if neg then 0xFF else 0x00) data
    if eff.isEmpty then (if neg then -1 else 0)
    else if neg then - (Int.ofNat (leVal (complB eff))) - 1       -- ^ws, mask, Neg, Sub 1
    else Int.ofNat (leVal eff)

/-- The canonical ("minimal") form: no redundant sign byte, zero is the empty string. -/
def minimalB (b : Bytes) : Bool :=
  match b.reverse with
  | [] => true
  | [x] => x != 0
  | t :: u :: _ => !((t == 0 && u.toNat < 128) || (t == 0xFF && 128 ≤ u.toNat))

/-- `stackitem.CheckIntegerSize` (pkg/vm/stackitem/item.go): fits 32 bytes. Stated on the value. -/
def fitsVM (n : Int) : Bool := decide (-(2:Int)^255 ≤ n ∧ n < (2:Int)^255)

end NeoModel.Codec
