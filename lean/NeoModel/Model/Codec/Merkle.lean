/-
Model of pkg/crypto/hash/merkle_tree.go.
 * `merkleSpec`   — the recursively defined pairwise root (the property's reference object);
 * `newMerkleTree`/`buildMerkleTree` (l.16-69) — the tree-building version, index loop as written
   (`parents[i]` from `leaves[2i]`, `leaves[2i+1]`, the last one duplicated when `2i+1 == len`);
 * `calcMerkleRoot` (l.76-103) — the in-place version: `hashes` itself is the scratchpad,
   `parents := hashes[:(len+1)/2]` aliases it and `parents[i]` is overwritten while later
   elements are still to be read.
`H` is the node hash (DoubleSha256 in the code); it is a parameter here, `Sha256.hash2` in the driver.
Parent pointers of `MerkleTreeNode` are not modelled (never read by `Root`).
Core Lean only.
-/
import NeoModel.Base.Hex
namespace NeoModel.Codec

/-- `util.Uint256{}`: what `CalcMerkleRoot` returns for an empty list. -/
def zero256 : Bytes := List.replicate 32 0

/-- one level of the specification: hash adjacent pairs, an odd last element is paired with itself. -/
def pairUp (H : Bytes → Bytes) : List Bytes → List Bytes
  | [] => []
  | [a] => [H (a ++ a)]
  | a :: b :: r => H (a ++ b) :: pairUp H r

theorem pairUp_length (H : Bytes → Bytes) (l : List Bytes) : (pairUp H l).length = (l.length + 1) / 2 := by
  fun_induction pairUp H l with
  | case1 => rfl
  | case2 => simp
  | case3 a b r ih => simp only [List.length_cons, ih]; omega

/-- The recursively defined Merkle root. -/
def merkleSpec (H : Bytes → Bytes) (l : List Bytes) : Bytes :=
  match l with
  | [] => zero256
  | [h] => h
  | a :: b :: r => merkleSpec H (pairUp H (a :: b :: r))
termination_by l.length
decreasing_by
  rw [pairUp_length]; simp only [List.length_cons]; omega

/-! ### tree-building version -/

inductive MNode where
  | leaf (h : Bytes)
  | node (h : Bytes) (l r : MNode)

def MNode.hash : MNode → Bytes
  | .leaf h => h
  | .node h _ _ => h

/-- one `parents` level of `buildMerkleTree` (l.47-66), the index loop as written. -/
def buildLevel (H : Bytes → Bytes) (leaves : List MNode) : List MNode :=
  (List.range ((leaves.length + 1) / 2)).map fun i =>
    let left := leaves.getD (i * 2) (.leaf [])
    let right := if i * 2 + 1 = leaves.length then left else leaves.getD (i * 2 + 1) (.leaf [])
    .node (H (left.hash ++ right.hash)) left right

theorem buildLevel_length (H : Bytes → Bytes) (l : List MNode) : (buildLevel H l).length = (l.length + 1) / 2 := by
  simp [buildLevel]

/-- `buildMerkleTree` (l.39-69); `none` = the `panic("length of leaves cannot be zero")`. -/
def buildMerkleTree (H : Bytes → Bytes) (leaves : List MNode) : Option MNode :=
  match leaves with
  | [] => none
  | [x] => some x
  | a :: b :: r => buildMerkleTree H (buildLevel H (a :: b :: r))
termination_by leaves.length
decreasing_by
  rw [buildLevel_length]; simp only [List.length_cons]; omega

/-- `NewMerkleTree(hashes).Root()` (l.16-37); `none` = the error for an empty list. -/
def treeRoot (H : Bytes → Bytes) (hashes : List Bytes) : Option Bytes :=
  if hashes.isEmpty then none
  else (buildMerkleTree H (hashes.map .leaf)).map MNode.hash

/-! ### in-place version -/

/-- loop body of `CalcMerkleRoot` (l.86-98) for index `i` on the shared array `arr` of length `n`. -/
def calcStep (H : Bytes → Bytes) (n : Nat) (arr : List Bytes) (i : Nat) : List Bytes :=
  let a := arr.getD (i * 2) []
  let b := if i * 2 + 1 = n then arr.getD (i * 2) [] else arr.getD (i * 2 + 1) []
  arr.set i (H (a ++ b))

theorem calcLoop_length (H : Bytes → Bytes) (n : Nat) (is : List Nat) (arr : List Bytes) :
    (is.foldl (calcStep H n) arr).length = arr.length := by
  induction is generalizing arr with
  | nil => rfl
  | cons i is ih => simp [List.foldl, ih, calcStep]

/-- `CalcMerkleRoot` (l.76-103). -/
def calcMerkleRoot (H : Bytes → Bytes) (hashes : List Bytes) : Bytes :=
  match hashes with
  | [] => zero256
  | [h] => h
  | a :: b :: r =>
    let hs := a :: b :: r
    let n := hs.length
    let arr := (List.range ((n + 1) / 2)).foldl (calcStep H n) hs
    calcMerkleRoot H (arr.take ((n + 1) / 2))          -- parents := hashes[:(len+1)/2]
termination_by hashes.length
decreasing_by
  simp only [List.length_take, calcLoop_length, List.length_cons]; omega

end NeoModel.Codec
