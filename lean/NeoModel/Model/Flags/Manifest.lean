/-
Model for C16, part 2 — the whole contract manifest: validity checks and the stack-item form (core Lean only).

Mirrors, as written:
  pkg/smartcontract/manifest/manifest.go:105-161   Manifest.IsValid (order of the checks; the checkSize branch is `isValidFull`)
  pkg/vm/stackitem/serialization.go:148-244        Serialize: item count limit MaxSerialized, size limit MaxSize
  pkg/smartcontract/manifest/manifest.go:168-200   Manifest.ToStackItem      :281-363  Manifest.FromStackItem
  pkg/smartcontract/manifest/abi.go:73-104         ABI.IsValid               :107-160  To/FromStackItem
  pkg/smartcontract/manifest/method.go:24-37       Method.IsValid            :40-98    To/FromStackItem
  pkg/smartcontract/manifest/event.go:22-27        Event.IsValid             :30-66    To/FromStackItem
  pkg/smartcontract/manifest/parameter.go:37-46    Parameter.IsValid  :92-104 Parameters.AreValid  :106-123 sliceHasDups
  pkg/smartcontract/manifest/group.go:37-76        Group.IsValid, Groups.AreValid   :118-151 To/FromStackItem
  pkg/smartcontract/manifest/permission.go:123-146 Permission.IsValid, Permissions.AreValid; :100-121 PermissionDesc.Compare
  pkg/smartcontract/manifest/permission.go:232-330 PermissionDesc / Permission To/FromStackItem
  pkg/smartcontract/manifest/container.go          WildStrings (Value == nil is the wildcard), WildPermissionDescs

Abstractions (parameters of the functions, instantiated by the driver / quantified in the theorems):
  verify      PublicKey.Verify(signature, sha256(contract hash)) of a group — "the signature as a parameter"
  decodeKey   keys.NewPublicKeyFromBytes followed by PublicKey.Bytes(): canonical compressed bytes of a valid key
  utf8        utf8.Valid (stackitem.ToString)
  validTypes  smartcontract.validParamTypes (regenerated: Generated.Interops? no — passed in; the driver uses the
              regenerated list `Generated.Effects.validParamTypes`)
  compact     the ordered-JSON re-marshalling of the `extra` field (manifest.go:259-279)
Strings are byte strings (Go strings), public keys are their compressed encodings, hashes their 20 bytes.
-/
import NeoModel.Base.Hex

namespace NeoModel.Flags.MF

/-! ## The manifest -/

structure Param where
  name : Bytes
  typ : Nat
deriving DecidableEq, Repr

structure Method where
  name : Bytes
  offset : Int
  params : List Param
  ret : Nat
  safe : Bool
deriving DecidableEq, Repr

structure Event where
  name : Bytes
  params : List Param
deriving DecidableEq, Repr

structure Group where
  key : Bytes
  sig : Bytes
deriving DecidableEq, Repr

/-- `manifest.PermissionDesc` with its value. -/
inductive Desc where
  | wildcard
  | hash (h : Bytes)
  | group (k : Bytes)
deriving DecidableEq, Repr

/-- `manifest.Permission`; `methods = none` is `WildStrings{Value: nil}`, the wildcard. -/
structure Perm where
  contract : Desc
  methods : Option (List Bytes)
deriving DecidableEq, Repr

/-- `manifest.WildPermissionDescs`: `value = none` is a nil slice. -/
structure Trusts where
  value : Option (List Desc)
  wildcard : Bool
deriving DecidableEq, Repr

/-- `manifest.Manifest`; `groups = none` is a nil slice. -/
structure Man where
  name : Bytes
  groups : Option (List Group)
  features : Bytes
  standards : List Bytes
  methods : List Method
  events : List Event
  perms : List Perm
  trusts : Trusts
  extra : Bytes
deriving DecidableEq, Repr

/-! ## Validity -/

inductive Err where
  | noName | emptyStandard | dupStandards
  | noMethods | methodEmptyName | methodNegOffset | methodBadReturn
  | paramEmptyName | paramVoid | paramBadType | dupParams
  | dupMethods | eventEmptyName | dupEvents
  | badFeatures | nullGroups | badGroupSignature | dupGroups
  | nullTrusts | dupTrusts | permEmptyMethod | permDupMethods | dupPermissions
  | notSerializable
deriving DecidableEq, Repr

/-- what `sliceHasDups(x, cmp)` (parameter.go:106-123) decides when `cmp` is a total preorder and `eqv a b` is
`cmp(a, b) == 0`: two positions hold equivalent elements (`Proofs/FlagsManifest.lean: adjDup_sorted_eq_hasDupBy`
proves that sorting with ANY correct sort and comparing neighbours computes exactly this). -/
def hasDupBy {α : Type} (eqv : α → α → Bool) : List α → Bool
  | [] => false
  | x :: xs => xs.any (eqv x) || hasDupBy eqv xs

/-- `smartcontract.VoidType`. -/
def voidType : Nat := 0xff

/-- Parameter.IsValid (parameter.go:37-46). -/
def Param.isValid (validTypes : List Nat) (p : Param) : Option Err :=
  if p.name.isEmpty then some .paramEmptyName
  else if p.typ == voidType then some .paramVoid
  else if !validTypes.contains p.typ then some .paramBadType
  else none

/-- Parameters.AreValid (parameter.go:92-104). -/
def paramsValid (validTypes : List Nat) (ps : List Param) : Option Err :=
  ps.findSome? (Param.isValid validTypes) <|>
  (if hasDupBy (fun a b : Param => a.name == b.name) ps then some .dupParams else none)

/-- Method.IsValid (method.go:24-37). -/
def Method.isValid (validTypes : List Nat) (m : Method) : Option Err :=
  if m.name.isEmpty then some .methodEmptyName
  else if m.offset < 0 then some .methodNegOffset
  else if !validTypes.contains m.ret then some .methodBadReturn
  else paramsValid validTypes m.params

/-- Event.IsValid (event.go:22-27). -/
def Event.isValid (validTypes : List Nat) (e : Event) : Option Err :=
  if e.name.isEmpty then some .eventEmptyName else paramsValid validTypes e.params

/-- ABI.IsValid (abi.go:73-104). -/
def abiValid (validTypes : List Nat) (methods : List Method) (events : List Event) : Option Err :=
  (if methods.isEmpty then some .noMethods else none) <|>
  methods.findSome? (Method.isValid validTypes) <|>
  (if hasDupBy (fun a b : Method => a.name == b.name && a.params.length == b.params.length) methods then some .dupMethods else none) <|>
  events.findSome? (Event.isValid validTypes) <|>
  (if hasDupBy (fun a b : Event => a.name == b.name) events then some .dupEvents else none)

/-- the features check (manifest.go:125-133): JSON whitespace stripped, `{}` must be left. -/
def featuresOk (f : Bytes) : Bool :=
  f.filter (fun c => !(c == 0x20 || c == 0x0a || c == 0x09 || c == 0x0d)) == [0x7b, 0x7d]

/-- Groups.AreValid (group.go:47-76); `checkHash` = the contract hash is not the zero hash. -/
def groupsValid (verify : Bytes → Bytes → Bool) (checkHash : Bool) (gs : Option (List Group)) : Option Err :=
  match gs with
  | none => some .nullGroups
  | some gs =>
    (if checkHash then gs.findSome? (fun g => if verify g.key g.sig then none else some .badGroupSignature) else none) <|>
    (if hasDupBy (fun a b : Group => a.key == b.key) gs then some .dupGroups else none)

/-- Permission.IsValid (permission.go:123-131). -/
def Perm.isValid (p : Perm) : Option Err :=
  match p.methods with
  | none => none
  | some ms =>
    if ms.contains [] then some .permEmptyMethod
    else if hasDupBy (fun a b : Bytes => a == b) ms then some .permDupMethods
    else none

/-- Permissions.AreValid (permission.go:134-146): `PermissionDesc.Compare(a, b) == 0` is equality of type and value. -/
def permsValid (ps : List Perm) : Option Err :=
  ps.findSome? Perm.isValid <|>
  (if hasDupBy (fun a b : Perm => a.contract == b.contract) ps then some .dupPermissions else none)

/-- the trusts checks (manifest.go:138-143); the duplicate check looks at `Value` whatever `Wildcard` says. -/
def trustsValid (t : Trusts) : Option Err :=
  (if t.value.isNone && !t.wildcard then some .nullTrusts else none) <|>
  (if hasDupBy (fun a b : Desc => a == b) (t.value.getD []) then some .dupTrusts else none)

/-- Manifest.IsValid(hash, checkSize = false) (manifest.go:105-148): `none` = valid, else the FIRST failing check. -/
def Man.isValid (validTypes : List Nat) (verify : Bytes → Bytes → Bool) (checkHash : Bool) (m : Man) : Option Err :=
  (if m.name.isEmpty then some .noName else none) <|>
  (if m.standards.contains [] then some .emptyStandard else none) <|>
  (if hasDupBy (fun a b : Bytes => a == b) m.standards then some .dupStandards else none) <|>
  abiValid validTypes m.methods m.events <|>
  (if featuresOk m.features then none else some .badFeatures) <|>
  groupsValid verify checkHash m.groups <|>
  trustsValid m.trusts <|>
  permsValid m.perms

/-! ## The permission check on full manifests -/

/-- Permission.IsAllowed (permission.go:149-171) on the concrete manifest. -/
def Perm.isAllowed (p : Perm) (hash : Bytes) (callee : Man) (method : Bytes) : Bool :=
  let descOk :=
    match p.contract with
    | .wildcard => true
    | .hash h => h == hash
    | .group k => (callee.groups.getD []).any (fun g => k == g.key)
  if !descOk then false
  else match p.methods with
    | none => true
    | some ms => ms.contains method

/-- Manifest.CanCall (manifest.go:97-101). -/
def Man.canCall (m : Man) (hash : Bytes) (callee : Man) (method : Bytes) : Bool :=
  m.perms.any (fun p => p.isAllowed hash callee method)

/-! ## Stack items -/

/-- the part of `stackitem.Item` the manifest conversion produces and inspects (a map only by its size). -/
inductive Item where
  | null
  | bool (b : Bool)
  | int (i : Int)
  | bytes (b : Bytes)
  /-- a Buffer item (never produced by ToStackItem) -/
  | buffer (b : Bytes)
  | array (xs : List Item)
  | struct (xs : List Item)
  | map (size : Nat)

def Param.toItem (p : Param) : Item := .struct [.bytes p.name, .int p.typ]

def Method.toItem (m : Method) : Item :=
  .struct [.bytes m.name, .array (m.params.map Param.toItem), .int m.ret, .int m.offset, .bool m.safe]

def Event.toItem (e : Event) : Item := .struct [.bytes e.name, .array (e.params.map Param.toItem)]

def Group.toItem (g : Group) : Item := .struct [.bytes g.key, .bytes g.sig]

def Desc.toItem : Desc → Item
  | .wildcard => .null
  | .hash h => .bytes h
  | .group k => .bytes k

def Perm.toItem (p : Perm) : Item :=
  .struct [p.contract.toItem, match p.methods with | none => .null | some ms => .array (ms.map .bytes)]

/-- extraToStackItem (manifest.go:259-279): nil or `null` stays `null`, anything else is re-marshalled. -/
def extraItem (compact : Bytes → Bytes) (extra : Bytes) : Bytes :=
  if extra.isEmpty || extra == [0x6e, 0x75, 0x6c, 0x6c] then [0x6e, 0x75, 0x6c, 0x6c] else compact extra

/-- Manifest.ToStackItem (manifest.go:168-200). -/
def Man.toItem (compact : Bytes → Bytes) (m : Man) : Item :=
  .struct [
    .bytes m.name,
    .array ((m.groups.getD []).map Group.toItem),
    .map 0,
    .array (m.standards.map .bytes),
    .struct [.array (m.methods.map Method.toItem), .array (m.events.map Event.toItem)],
    .array (m.perms.map Perm.toItem),
    (if m.trusts.wildcard then .null else .array ((m.trusts.value.getD []).map Desc.toItem)),
    .bytes (extraItem compact m.extra)]


/-! ## The size check of IsValid (checkSize = true): is the stack item serialisable? -/

/-- number of bytes of `bigint.ToBytes` (minimal two's complement; 0 is the empty string). -/
def intBytesLen (i : Int) : Nat :=
  if i = 0 then 0
  else
    let rec go (fuel : Nat) (n : Nat) (k : Nat) : Nat :=
      match fuel with
      | 0 => k
      | fuel + 1 => if n < 2 ^ (8 * k - 1) then k else go fuel n (k + 1)
    if 0 ≤ i then go 40 i.toNat 1 else go 40 ((-i).toNat - 1) 1

/-- length of a var-uint. -/
def varLen (n : Nat) : Nat := if n < 0xfd then 1 else if n ≤ 0xffff then 3 else if n ≤ 0xffffffff then 5 else 9

mutual
/-- number of items `stackitem.Serialize` visits (serialization.go:164-167: every item, containers included; the
items ToStackItem builds are all fresh, so nothing is shared). -/
def Item.count : Item → Nat
  | .array xs => 1 + Item.countList xs
  | .struct xs => 1 + Item.countList xs
  | _ => 1
def Item.countList : List Item → Nat
  | [] => 0
  | x :: xs => x.count + Item.countList xs
end

mutual
/-- number of bytes `stackitem.Serialize` produces (serialization.go:169-236). -/
def Item.size : Item → Nat
  | .null => 1
  | .bool _ => 2
  | .int i => 2 + intBytesLen i
  | .bytes b => 1 + varLen b.length + b.length
  | .buffer b => 1 + varLen b.length + b.length
  | .array xs => 1 + varLen xs.length + Item.sizeList xs
  | .struct xs => 1 + varLen xs.length + Item.sizeList xs
  | .map n => 1 + varLen n
def Item.sizeList : List Item → Nat
  | [] => 0
  | x :: xs => x.size + Item.sizeList xs
end

/-- `stackitem.MaxSerialized` and `stackitem.MaxSize` (regenerated: Generated.ManifestConsts). -/
def maxSerialized : Nat := 2048
def maxItemSize : Nat := 131070

/-- `stackitem.Serialize(m.ToStackItem())` succeeds: the limits are checked while the data grows, and both the
count and the size only grow, so it fails iff a total exceeds its limit. -/
def Man.serializable (compact : Bytes → Bytes) (m : Man) : Bool :=
  decide ((m.toItem compact).count ≤ maxSerialized) && decide ((m.toItem compact).size ≤ maxItemSize)

/-- Manifest.IsValid(hash, checkSize) (manifest.go:105-161), all of it. -/
def Man.isValidFull (validTypes : List Nat) (verify : Bytes → Bytes → Bool) (checkHash checkSize : Bool)
    (compact : Bytes → Bytes) (m : Man) : Option Err :=
  m.isValid validTypes verify checkHash <|>
  (if checkSize && !m.serializable compact then some .notSerializable else none)

/-- `List.mapM` in `Option`, structurally. -/
def mapOpt {α β : Type} (f : α → Option β) : List α → Option (List β)
  | [] => some []
  | x :: xs => do
    let y ← f x
    let ys ← mapOpt f xs
    pure (y :: ys)

/-- parameters of the decoding: `utf8.Valid`, the key decoder, the valid parameter types. -/
structure Dec where
  utf8 : Bytes → Bool
  decodeKey : Bytes → Option Bytes
  validTypes : List Nat

/-- `bigint.ToBytes`: minimal two's complement, little endian (`intBytesLen` bytes). -/
def intToBytes (i : Int) : Bytes :=
  let n := intBytesLen i
  (List.range n).map fun k => UInt8.ofNat ((i.emod (256 ^ n)).toNat / 256 ^ k % 256)

/-- `bigint.FromBytes`: little endian two's complement. -/
def bytesToInt (b : Bytes) : Int :=
  let n : Nat := (b.zipIdx.map fun (x, k) => x.toNat * 256 ^ k).sum
  match b.getLast? with
  | some top => if top ≥ 128 then (n : Int) - 256 ^ b.length else n
  | none => 0

/-- `Item.TryBytes` (item.go): ByteArray and Buffer as they are, Integer and Boolean converted, nothing else. -/
def tryBytes : Item → Option Bytes
  | .bytes b => some b
  | .buffer b => some b
  | .int i => some (intToBytes i)
  | .bool b => some [if b then 1 else 0]
  | _ => none

/-- `Item.TryInteger`: Integer, Boolean (0/1), ByteArray of at most 32 bytes; not Buffer. -/
def tryInt : Item → Option Int
  | .int i => some i
  | .bool b => some (if b then 1 else 0)
  | .bytes b => if b.length ≤ 32 then some (bytesToInt b) else none
  | _ => none

/-- `Item.TryBool`: everything converts except a ByteArray longer than 32 bytes. -/
def tryBool : Item → Option Bool
  | .bool b => some b
  | .int i => some (i != 0)
  | .bytes b => if b.length ≤ 32 then some (b.any (· != 0)) else none
  | .null => some false
  | _ => some true

/-- `(*big.Int).Int64()` as Go computes it also beyond the int64 range: the low 64 bits of |x|, reinterpreted as
int64, with the sign of x (method.go:83,91, parameter.go:72 apply `int(x.Int64())`). -/
def int64Of (i : Int) : Int :=
  let a : Int := (i.natAbs % 2 ^ 64 : Nat)
  let w := if a ≥ 2 ^ 63 then a - 2 ^ 64 else a
  if i < 0 then (if w = -(2 ^ 63) then w else -w) else w   -- the negation wraps in int64

/-- `stackitem.ToString`: TryBytes, then utf8.Valid. -/
def Dec.toStr (d : Dec) (it : Item) : Option Bytes :=
  (tryBytes it).bind fun b => if d.utf8 b then some b else none

/-- `TryInteger`, `int(x.Int64())`, then `ConvertToParamType`. -/
def Dec.toType (d : Dec) (it : Item) : Option Nat :=
  (tryInt it).bind fun i =>
    let v := int64Of i
    if 0 ≤ v ∧ d.validTypes.contains v.toNat then some v.toNat else none

/-- Parameter.FromStackItem (parameter.go:57-79). -/
def Dec.param (d : Dec) : Item → Option Param
  | .struct [n, t] => do
    let name ← d.toStr n
    let typ ← d.toType t
    pure ⟨name, typ⟩
  | _ => none

/-- Method.FromStackItem (method.go:53-98). -/
def Dec.method (d : Dec) : Item → Option Method
  | .struct [n, .array ps, r, off, safe] => do
    let name ← d.toStr n
    let params ← mapOpt d.param ps
    let ret ← d.toType r
    let o ← tryInt off
    let s ← tryBool safe
    pure ⟨name, int64Of o, params, ret, s⟩
  | _ => none

/-- Event.FromStackItem (event.go:42-66). -/
def Dec.event (d : Dec) : Item → Option Event
  | .struct [n, .array ps] => do
    let name ← d.toStr n
    let params ← mapOpt d.param ps
    pure ⟨name, params⟩
  | _ => none

/-- Group.FromStackItem (group.go:127-151); `keys.SignatureLen` = 64. -/
def Dec.group (d : Dec) : Item → Option Group
  | .struct [k, s] => do
    let kb ← tryBytes k
    let key ← d.decodeKey kb
    let sig ← tryBytes s
    if sig.length == 64 then pure ⟨key, sig⟩ else none
  | _ => none

/-- PermissionDesc.FromStackItem (permission.go:262-292): 20 bytes are a hash, 33 bytes a key. -/
def Dec.desc (d : Dec) : Item → Option Desc
  | .null => some .wildcard
  | .bytes b =>
    if b.length == 20 then some (.hash b)
    else if b.length == 33 then (d.decodeKey b).map .group
    else none
  | _ => none

/-- Permission.FromStackItem (permission.go:311-345). -/
def Dec.perm (d : Dec) : Item → Option Perm
  | .struct [c, .null] => do
    let desc ← d.desc c
    pure ⟨desc, none⟩
  | .struct [c, .array ms] => do
    let desc ← d.desc c
    let methods ← mapOpt d.toStr ms
    pure ⟨desc, some methods⟩
  | _ => none

/-- Manifest.FromStackItem (manifest.go:281-363). -/
def Dec.man (d : Dec) : Item → Option Man
  | .struct [n, .array gs, .map 0, .array ss, .struct [.array ms, .array es], .array ps, t, ex] => do
    let extra ← tryBytes ex
    let name ← d.toStr n
    let groups ← mapOpt d.group gs
    let standards ← mapOpt d.toStr ss
    let methods ← mapOpt d.method ms
    let events ← mapOpt d.event es
    let perms ← mapOpt d.perm ps
    let trusts ← (match t with
      | .null => some (⟨none, true⟩ : Trusts)
      | .array ts => (mapOpt d.desc ts).map (fun v => ⟨some v, false⟩)
      | _ => none)
    pure ⟨name, some groups, [0x7b, 0x7d], standards, methods, events, perms, trusts, extra⟩
  | _ => none

/-- what a manifest looks like after ToStackItem ∘ FromStackItem: nil slices become empty ones, the features are
`{}`, the trusts container is canonical, the extra field re-marshalled. -/
def Man.normalize (compact : Bytes → Bytes) (m : Man) : Man :=
  { m with
    groups := some (m.groups.getD [])
    features := [0x7b, 0x7d]
    trusts := if m.trusts.wildcard then ⟨none, true⟩ else ⟨some (m.trusts.value.getD []), false⟩
    extra := extraItem compact m.extra }

end NeoModel.Flags.MF
