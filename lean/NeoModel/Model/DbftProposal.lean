/-
C19 — what a backup checks before it answers a PrepareRequest (pkg/consensus/consensus.go:613-636
`verifyRequest`, dbft context.go:437-439 `hasAllTransactions`, consensus.go:546-604 `verifyBlock`), over
the ledger model of C06 (`NeoModel.AddBlock`: Model/AddBlock.lean), and the block the validators then sign
(consensus.go:776-817 `newBlockFromContext`, 646-697 `processBlock`/`getBlockWitness`). Core Lean only.

The point: the checks a backup makes are (almost) the checks `Blockchain.AddBlock` makes, on the same
ledger; Proofs/DbftProposal.lean proves that a proposal a backup answered, signed by the validators the
previous block named, is accepted by AddBlock on every node with that ledger — and shows the one check
AddBlock makes that the backup does not (two transactions of the proposal conflicting with each other).
-/
import NeoModel.Model.AddBlock
namespace NeoModel.Dbft.Proposal
open NeoModel.AddBlock

variable {L : Type}

/-- policy limits of the protocol configuration -/
structure Limits where
  maxTx : Nat          -- MaxTransactionsPerBlock
  maxSize : Nat        -- MaxBlockSize
  maxSysFee : Nat      -- MaxBlockSystemFee
  base : Nat           -- GetExpectedBlockSizeWithoutTransactions (empty witness)
  size : Tx → Nat      -- Transaction.Size()
  sysFee : Tx → Nat    -- Transaction.SystemFee

/-- a PrepareRequest as the backup holds it once every transaction it names is at hand
(prepare_request.go:11-19; `txs` are the node's own copies of the named transactions, in order) -/
structure Req where
  version : Nat
  prevHash : Nat
  ts : Nat
  stateRoot : Nat
  txs : List Tx
deriving Repr

/-- the header of the ledger's tip (Chain.CurrentBlockHash / GetBlock of it) -/
def tip (s : Node L) : Option Header := s.headers[s.blockHeight]?

/-- consensus.go:613-636 `verifyRequest`, in the order written -/
def verifyRequest (env : Env L) (s : Node L) (lim : Limits) (top : Header) (r : Req) : Bool :=
  if r.prevHash != top.hash then false
  else if r.version != 0 then false
  else if s.cfg.sr && r.stateRoot != env.rootOf s.ledger then false
  else if r.txs.length > lim.maxTx then false
  else true

/-- context.go:437-439: `len(TransactionHashes) == len(Transactions)` with Transactions a map keyed by hash:
reached only if no hash is named twice -/
def hasAllTransactions (r : Req) : Bool := !hasDup (r.txs.map (·.id))

/-- the transaction loop of `verifyBlock` (consensus.go:569-593): a transaction of the main pool goes
straight into the scratch pool, any other through `PoolTx` (stand-alone verification, then the scratch pool).
Unlike AddBlock's loop (blockchain.go, `mp.Count() != added`) it does not notice that an addition EVICTED an
earlier transaction of the proposal from the scratch pool. -/
def vbLoop (env : Env L) (s : Node L) : List Tx → List Tx → Bool
  | _, [] => true
  | p, t :: rest =>
    let r : Option (List Tx) :=
      if s.pool.any (fun q => q.id == t.id) then poolAdd (env.balance s.ledger) p t
      else if env.txValid s.ledger s.blockHeight t then poolAdd (env.balance s.ledger) p t
      else none
    match r with
    | some p' => vbLoop env s p' rest
    | none => false

/-- consensus.go:546-604 `verifyBlock`; `lastTs` is the service's `lastTimestamp` -/
def verifyBlock (env : Env L) (s : Node L) (lim : Limits) (lastTs index : Nat) (r : Req) : Bool :=
  if s.blockHeight ≥ index then false
  else if lastTs ≥ r.ts then false
  else if lim.base + sumBy lim.size r.txs > lim.maxSize then false
  else if !vbLoop env s [] r.txs then false
  else if sumBy lim.sysFee r.txs > lim.maxSysFee then false
  else true

/-- everything a backup requires before it sends its PrepareResponse (dbft.go:339-363) -/
def backupAccepts (env : Env L) (s : Node L) (lim : Limits) (top : Header) (lastTs : Nat) (r : Req) : Bool :=
  verifyRequest env s lim top r && hasAllTransactions r && verifyBlock env s lim lastTs (s.blockHeight + 1) r

/-- consensus.go:776-817 `newBlockFromContext` + 646-697: the block the validators sign and hand to the
ledger. `hash` is the header's hash, `nc` the NextConsensus computed from the ledger, `wit` the witness
assembled from the Commits, `primary` the PrimaryIndex of the view (context.go:112-119, below the number of
validators). -/
def blockOf (env : Env L) (s : Node L) (top : Header) (r : Req) (hash nc wit : Nat) (primary : Nat := 0) : Block :=
  { hdr := { index := s.blockHeight + 1, hash := hash, prevHash := top.hash,
             merkleRoot := env.merkle (r.txs.map (·.id)), ts := r.ts, nextConsensus := nc,
             sre := s.cfg.sr, prevStateRoot := env.rootOf s.ledger, wit := wit, primary := primary },
    txs := r.txs }

/-- no transaction of the list names another one of the list in a Conflicts attribute -/
def ConflictFree (txs : List Tx) : Prop := ∀ t ∈ txs, ∀ q ∈ txs, t.id ∉ q.conflicts

/-- the mempool shortcut is sound on this node: what is pooled would pass stand-alone verification now -/
def PoolValid (env : Env L) (s : Node L) : Prop :=
  ∀ q ∈ s.pool, env.txValid s.ledger s.blockHeight q = true

instance (txs : List Tx) : Decidable (ConflictFree txs) := by unfold ConflictFree; infer_instance
instance (env : Env L) (s : Node L) : Decidable (PoolValid env s) := by unfold PoolValid; infer_instance

end NeoModel.Dbft.Proposal
