/-
C20 (b) — the stage machine of statesync.Module (/repo/pkg/core/statesync/module.go) in the MPT-based mode,
over the billet-level model of the MPT stage (Model/Billet.lean): headers → MPT nodes → blocks of the window
→ state jump → inactive, with module re-creation / node restart at any point.

What is abstracted. A header is its index and whether it is the source chain's header for that index
(`genuine`; Blockchain.addHeaders verifies prev-hash, index and witness of every new header before it adds
any of them, blockchain.go:1957-2013, so a batch is added as a whole or not at all). A block is its index,
whether its header is the genuine one (module.go:535-538 compares its hash with the stored header hash) and
its transaction list as positions in the genuine list `List.range (ntx idx)` (foreign transactions ≥ 1000),
checked by `acceptsBody` (Merkle root incl. last-element duplication + repeated-transaction check,
module.go:520-534, Proofs/StateSyncMerkle.lean). `b0` is the height below the window of blocks
(`P − MaxTraceableBlocks(P)` or 0, getLatestSavedBlock module.go:422-462); the chain's own block height is 0
until the jump. What is persisted across a restart: the header height, the node store with its counters and
the temporary storage (`bs.ms`), StateSyncCurrentBlockHeight (`storedBh`), the stored blocks, the jump.
Storage-item mode (ContractStorageBased) keeps its driver-level stage model (Driver/Sync.lean).
Core Lean only.
-/
import NeoModel.Model.Billet
namespace NeoModel.StateSync

inductive Stage | headers | mpt | blocks | inactive
deriving DecidableEq, Repr

structure SCfg where
  p : Nat                        -- the sync point P
  b0 : Nat                       -- P − MaxTraceableBlocks (or 0)
  root : Hash                    -- state root at P (PrevStateRoot of header P+1)
  db : Hash → Option SNode       -- node table of the source trie at P
  fuel : Nat
  ntx : Nat → Nat                -- number of transactions of the source's block i

structure Hdr where
  idx : Nat
  genuine : Bool
deriving DecidableEq, Repr

inductive SMsg
  | init                                              -- (*Module).Init after a restart / module re-creation
  | headers (hs : List Hdr)                           -- AddHeaders
  | nodes (items : List BItem)                        -- AddMPTNodes
  | block (idx : Nat) (genuine : Bool) (body : List Nat)   -- AddBlock

inductive SRes | ok | err | panic
deriving DecidableEq, Repr

structure SS where
  stage : Stage
  hh : Nat                 -- header height of the chain
  bh : Nat                 -- Module.blockHeight
  storedBh : Nat           -- persisted StateSyncCurrentBlockHeight (0: none)
  bs : BS                  -- billet, node store, temporary storage, pool
  blocks : List Nat        -- indices of the blocks stored by AddBlock, in the order they were stored
  jumped : Bool            -- Blockchain.jumpToState(P) was made

/-- The height below the window of blocks: `P − MaxTraceableBlocks`, or 0 (getLatestSavedBlock, module.go:450-452;
tied by translation in Proofs/GoFuncs/C20Sync.lean). The driver checks the `b0` of every case against it. -/
def windowBase (p mtb : Nat) : Nat := if p > mtb then p - mtb else 0

/-- The sync point a fresh node chooses for a source at height `top`: the last multiple of the interval, unless the
chain is too low for state sync (Init, module.go:188-193; tied by translation in Proofs/GoFuncs/C20Sync.lean). The
driver checks the `P` of every case against it. -/
def syncPointOf (top interval : Nat) : Option Nat :=
  if top / interval * interval < 2 * interval then none else some (top / interval * interval)

def SS.init (c : SCfg) : SS :=
  { stage := .headers, hh := 0, bh := 0, storedBh := 0, bs := BS.init c.root, blocks := [], jumped := false }

/-- getLatestSavedBlock (module.go:422-462) before the jump: the chain's own height is 0. -/
def latestSaved (c : SCfg) (s : SS) : Nat := max c.b0 s.storedBh

/-- The tail of defineSyncStage / AddMPTNodes once the MPT is in sync (module.go:396-414, 603-614):
block height, blocks stage, and — when the blocks are there already — the jump. -/
def afterMpt (c : SCfg) (s : SS) : SS :=
  let bh := latestSaved c s
  if bh ≥ c.p then { s with stage := .inactive, bh := bh, jumped := true }     -- checkSyncIsCompleted
  else { s with stage := .blocks, bh := bh }

/-- defineSyncStage (module.go:309-415), MPT-based mode. `none`: Init returns an error. -/
def defineStage (c : SCfg) (s : SS) : Option SS :=
  if s.hh > c.p then
    match rebuildB c.db c.fuel c.root s.bs with
    | some (bs, .ok ()) =>
      if bs.ms.pool.isEmpty then some (afterMpt c { s with bs := bs })
      else some { s with bs := bs, stage := .mpt }
    | _ => none
  else some { s with stage := .headers }

/-- Blockchain.addHeaders (blockchain.go:1957-2013): headers at or below the header height are skipped; the
rest must continue the chain and verify, all of them, or nothing is added. -/
def addHeaders (hh : Nat) (hs : List Hdr) : Option Nat :=
  let rest := hs.dropWhile (fun h => h.idx ≤ hh)
  let rec go (last : Nat) : List Hdr → Option Nat
    | [] => some last
    | h :: r => if h.idx = last + 1 ∧ h.genuine then go h.idx r else none
  go hh rest

def SS.step (c : SCfg) (s : SS) : SMsg → SS × SRes
  | .init =>
    -- module.go:194-205: the chain is at the sync point already, regular block processing goes on
    if s.jumped then ({ s with stage := .inactive }, .ok)
    else match defineStage c s with
      | some s' => (s', .ok)
      | none => (s, .err)
  | .headers hs =>                                              -- AddHeaders, module.go:465-492
    if s.stage ≠ .headers then (s, .err)
    else match addHeaders s.hh hs with
      | none => (s, .err)
      | some hh' =>
        let s1 := { s with hh := hh' }
        if hh' > c.p then
          match defineStage c s1 with
          | some s' => (s', .ok)
          | none => (s1, .err)
        else (s1, .ok)
  | .nodes items =>                                             -- AddMPTNodes, module.go:572-632
    if s.stage ≠ .mpt then (s, .err)
    else
      let r := deliverB c.db c.fuel s.bs items
      -- module.go:618-630 (b477a41): the pool is looked at after the loop also when it ended with an error:
      -- mptSynced, blockHeight (blocksSynced is not looked at here)
      let s1 : SS := if r.1.ms.pool.isEmpty then { s with bs := r.1, stage := .blocks, bh := latestSaved c s }
                     else { s with bs := r.1 }
      (s1, match r.2 with
           | .ok _ => .ok
           | .err _ => .err
           | .panic => .panic)
  | .block idx genuine body =>                                  -- AddBlock, module.go:495-568
    if s.stage ≠ .blocks then (s, .ok)
    else if s.bh = c.p then (s, .ok)
    else if idx ≠ s.bh + 1 then (s, .err)
    else if ¬ (genuine ∧ acceptsBody (List.range (c.ntx idx)) body) then (s, .err)
    else
      let s1 := { s with bh := idx, storedBh := idx, blocks := s.blocks ++ [idx] }
      if idx = c.p then ({ s1 with stage := .inactive, jumped := true }, .ok)
      else (s1, .ok)

def SS.run (c : SCfg) (s : SS) (ms : List SMsg) : SS := ms.foldl (fun s m => (s.step c m).1) s

end NeoModel.StateSync
