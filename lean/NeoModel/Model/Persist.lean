/-
Model of the persistence pipeline of pkg/core (property C02).

* the database is the fold of a list of ATOMIC BATCHES (`PutChangeSet` / committed `SeekGC`);
* a flush (`Blockchain.persist`, blockchain.go:2498; `MemCachedStore.persist`, memcached_store.go:372-437)
  writes the whole write cache — every key class of every block since the previous flush — as ONE batch;
* `recover` mirrors `Blockchain.init` (blockchain.go:573-758) + `HeaderHashes.init` (headerhashes.go:70-133),
  including "stage marker present → resume the state reset";
* `Blockchain.Reset`/`resetStateInternal` (blockchain.go:928-1305) is a stage machine, each stage ending in
  one batch; `S` = persistBatchSize (blocks per intermediate batch, `100*headerBatchCount` in the code),
  `B` = headerBatchCount.

One canonical chain is considered, so a block hash is represented by the block's height.
Core Lean only.
-/
namespace NeoModel.Persist

/-- abstract key classes of the node's database (storage.KeyPrefix + what follows it). -/
inductive Key where
  | version | curBlock | curHeader | stage | syncPoint | mptLocal | mptValidated
  | exec (h : Nat)             -- DataExecutable ‖ block hash: header or block record
  | tx (h i : Nat)             -- DataExecutable ‖ tx hash: i-th transaction of block h
  | stub (c : Nat)             -- DataExecutable ‖ conflict hash `c`: conflict record stub
  | stubSig (c s : Nat)        -- … ‖ signer: conflict signer record
  | root (h : Nat)             -- DataMPTAux ‖ height → state root
  | trie (h : Nat)             -- DataMPT: the nodes of the state trie of height h
  | stor (p : Bool) (k : Nat)  -- STStorage (false) / STTempStorage (true) ‖ item key
  | xlog (acc : Nat)           -- ST*Transfers of an account
  | xinfo (acc : Nat)          -- STTokenTransferInfo
  | page (start : Nat)         -- IXHeaderHashList page
  deriving DecidableEq, Repr

inductive Val where
  | ver (p : Bool)             -- dao.Version with its StoragePrefix
  | ptr (h : Nat)              -- a height (tip pointers, local MPT height, sync point)
  | hdr (h : Nat)              -- header-only record (StoreHeader)
  | blk (h : Nat)              -- block record (StoreAsBlock: trimmed block + AERs)
  | txv (h : Nat)              -- transaction + AER, stored at height h
  | stubv (h : Nat)            -- conflict record value: height of the block that wrote it last
  | rootv (r : Nat)
  | snap (items : List (Nat × Nat))
  | item (v : Nat)
  | log (hs : List Nat)        -- heights of the logged transfers, oldest first
  | info (last : Nat)
  | pagev
  | stagev (reset : Bool) (s : Nat)   -- stateResetBit, stage bits
  deriving DecidableEq, Repr

abbrev Db := Key → Option Val
def Db.empty : Db := fun _ => none
def Db.set (db : Db) (k : Key) (v : Option Val) : Db := fun k' => if k' = k then v else db k'

/-- key/value change set (`none` = delete), oldest write first. -/
abbrev Writes := List (Key × Option Val)

def applyWrites : Writes → Db → Db
  | [], db => db
  | (k, v) :: r, db => applyWrites r (db.set k v)

/-- one element of an atomic batch: a put/delete, or the effect of a Seek-and-modify loop / SeekGC
(any function of the content the batch is applied to). -/
inductive W where
  | put (k : Key) (v : Option Val)
  | trans (g : Db → Db)

abbrev Batch := List W

def W.apply : W → Db → Db
  | .put k v, db => db.set k v
  | .trans g, db => g db

def applyBatch : Batch → Db → Db
  | [], db => db
  | w :: r, db => applyBatch r (w.apply db)

def ofWrites (w : Writes) : Batch := w.map (fun p => W.put p.1 p.2)

def foldBatches : List Batch → Db → Db
  | [], db => db
  | b :: r, db => foldBatches r (applyBatch b db)

/-- the fixed content of the chain being synchronised (what blocks compute is C01's subject):
per height the number of transactions, the (conflict hash, signer) pairs of Conflicts attributes,
the contract-storage changes, the accounts with token transfers; `hashOf` = state root of a storage. -/
structure Hist where
  ntx : Nat → Nat
  confl : Nat → List (Nat × Nat)
  eff : Nat → List (Nat × Option Nat)
  touched : Nat → List Nat
  hashOf : List (Nat × Nat) → Nat
  mtb : Nat := 0               -- MaxTraceableBlocks (only the state jump looks at it)
  rub : Bool := false          -- RemoveUntraceableBlocks (the MPT counts references then; only Reset looks at it)

def setItem (items : List (Nat × Nat)) (k : Nat) (v : Option Nat) : List (Nat × Nat) :=
  let r := items.filter (fun p => p.1 != k)
  match v with
  | some x => (k, x) :: r
  | none => r

def applyEff : List (Nat × Option Nat) → List (Nat × Nat) → List (Nat × Nat)
  | [], it => it
  | (k, v) :: r, it => applyEff r (setItem it k v)

/-- contract storage after block h of history H. -/
def itemsAt (H : Hist) : Nat → List (Nat × Nat)
  | 0 => applyEff (H.eff 0) []
  | h + 1 => applyEff (H.eff (h + 1)) (itemsAt H h)

structure Node where
  db : Db                     -- the backend
  cache : Writes              -- the write cache (bc.dao over the backend), oldest write first
  height : Nat                -- bc.blockHeight
  hdrHeight : Nat             -- HeaderHashes.lastHeaderIndex
  items : List (Nat × Nat)    -- the in-memory state (stateroot.Module's trie)
  pfx : Bool                  -- dao.Version.StoragePrefix
  mptReady : Bool             -- stateroot.Module initialised (Init / ResetState / JumpToState ran)

def Node.view (n : Node) : Db := applyWrites n.cache n.db

/-- HeaderHashes.addHeaders for one header (headerhashes.go:147-196): the record, and the page when
`latest` fills up (tryStoreBatch). -/
def headerWrites (B i : Nat) : Writes :=
  (Key.exec i, some (Val.hdr i)) ::
    (if (i + 1) % B = 0 then [(Key.page (i + 1 - B), some Val.pagev)] else [])

/-- headers `lo+1 … lo+n`. -/
def headersRange (B : Nat) (lo : Nat) : Nat → Writes
  | 0 => []
  | n + 1 => headersRange B lo n ++ headerWrites B (lo + n + 1)

def appendLog (v : Option Val) (h : Nat) : Val :=
  match v with
  | some (Val.log hs) => Val.log (hs ++ [h])
  | _ => Val.log [h]

def xferWrites (view : Db) (h : Nat) : List Nat → Writes
  | [] => []
  | a :: r => (Key.xlog a, some (appendLog (view (Key.xlog a)) h)) :: (Key.xinfo a, some (Val.info h)) :: xferWrites view h r

/-- storeBlock (blockchain.go:1967-2160): everything block h changes; merged into the write cache in one
`PersistPrivate`. -/
def blockWrites (H : Hist) (pfx : Bool) (view : Db) (items' : List (Nat × Nat)) (h : Nat) : Writes :=
  [(Key.exec h, some (Val.blk h))]
  ++ (List.range (H.ntx h)).map (fun i => (Key.tx h i, some (Val.txv h)))
  ++ (H.confl h).flatMap (fun p => [(Key.stub p.1, some (Val.stubv h)), (Key.stubSig p.1 p.2, some (Val.stubv h))])
  ++ (H.eff h).map (fun p => (Key.stor pfx p.1, p.2.map Val.item))
  ++ xferWrites view h (H.touched h)
  ++ [(Key.trie h, some (Val.snap items')), (Key.root h, some (Val.rootv (H.hashOf items'))),
      (Key.mptLocal, some (Val.ptr h)), (Key.curBlock, some (Val.ptr h))]

/-- one garbage-collection commit (tryRunGC, blockchain.go:1438-1472, for chains shorter than
headerBatchCount: stateroot.Module.GC + removeOldTransfers): a SeekGC applied DIRECTLY to the backend,
below the write cache. State-trie nodes that only old states (height ≤ tgt) use are dropped, transfer
logs are cut in some way `g`. -/
def gcSel (tgt : Nat) (g : Nat → Option Val → Option Val) (db : Db) : Db := fun k =>
  match k with
  | Key.trie i => if i ≤ tgt then none else db k
  | Key.xlog a => g a (db k)
  | _ => db k

inductive Op where
  | headers (upTo : Nat)     -- AddHeaders of the canonical headers up to this height
  | block                    -- AddBlock of the next canonical block
  | flush                    -- one persist() of the write cache
  | gc (tgt : Nat) (g : Nat → Option Val → Option Val)  -- one GC commit with target height tgt

/-- Blockchain.init on a database without a version (blockchain.go:575-612): version, genesis header
pointer, genesis block — all into the write cache. -/
def fresh (H : Hist) : Node :=
  let it := itemsAt H 0
  let w0 : Writes := [(Key.version, some (Val.ver false)), (Key.curHeader, some (Val.ptr 0))]
  { db := Db.empty, cache := w0 ++ blockWrites H false (applyWrites w0 Db.empty) it 0,
    height := 0, hdrHeight := 0, items := it, pfx := false, mptReady := true }

def step (H : Hist) (B : Nat) (n : Node) : Op → Node × Option Batch
  | .headers upTo =>
    if upTo ≤ n.hdrHeight then (n, none) else
    let w := headersRange B n.hdrHeight (upTo - n.hdrHeight) ++ [(Key.curHeader, some (Val.ptr upTo))]
    ({ n with cache := n.cache ++ w, hdrHeight := upTo }, none)
  | .block =>
    let h := n.height + 1
    let hw : Writes := if h = n.hdrHeight + 1 then headerWrites B h ++ [(Key.curHeader, some (Val.ptr h))] else []
    let it := applyEff (H.eff h) n.items
    let w := hw ++ blockWrites H n.pfx (applyWrites hw n.view) it h
    ({ n with cache := n.cache ++ w, height := h, hdrHeight := max n.hdrHeight h, items := it }, none)
  | .flush =>
    if n.cache.isEmpty then (n, none)
    else ({ n with db := applyWrites n.cache n.db, cache := [] }, some (ofWrites n.cache))
  | .gc tgt g =>
    -- tgtBlock = persistedHeight - MaxTraceableBlocks (rounded down), so it is below the persisted height
    match n.db Key.curBlock with
    | some (Val.ptr ph) =>
      if tgt < ph then ({ n with db := gcSel tgt g n.db }, some [W.trans (gcSel tgt g)]) else (n, none)
    | _ => (n, none)

def runFrom (H : Hist) (B : Nat) : Node → List Op → Node × List Batch
  | n, [] => (n, [])
  | n, o :: r =>
    let s := step H B n o
    let t := runFrom H B s.1 r
    (t.1, s.2.toList ++ t.2)

def run (H : Hist) (B : Nat) (ops : List Op) : Node × List Batch := runFrom H B (fresh H) ops

inductive Err where
  | noHeaderPtr | noPage | noHeader (i : Nat) | badStage | noSyncPoint | noBlockPtr | noRoot
  | noBlock (i : Nat) | badTarget | noVersion | refused
  deriving DecidableEq, Repr

/-- the walk of HeaderHashes.init (headerhashes.go:110-128) over records `lo … lo+n-1`: the first missing one. -/
def firstMissing (db : Db) (lo : Nat) : Nat → Option Nat
  | 0 => none
  | n + 1 => match firstMissing db lo n with
    | some i => some i
    | none => if (db (Key.exec (lo + n))).isSome then none else some (lo + n)

/-- HeaderHashes.init: header height, or the error. -/
def initHeaders (B : Nat) (db : Db) : Except Err Nat :=
  match db Key.curHeader with
  | some (Val.ptr hh) =>
    let stored := ((hh + 1) / B) * B
    if stored ≥ B ∧ (db (Key.page (stored - B))).isNone then .error .noPage else
    match firstMissing db stored (hh + 1 - stored) with
    | some i => .error (.noHeader i)
    | none => .ok hh
  | _ => .error .noHeaderPtr

/-! ### state reset (resetStateInternal, blockchain.go:937-1290) -/

def stNone : Nat := 1
def stJumpStarted : Nat := 2
def stNewItems : Nat := 4
def stBlocksRemoved : Nat := 8
def stHeadersReset : Nat := 16
def stTransfersReset : Nat := 32

def marker (s : Nat) : Key × Option Val := (Key.stage, some (Val.stagev true s))

/-- dao.DeleteBlock (dao.go:859-909) of the record of height i on view v: the record and the
transactions it lists. The loop over the transactions' Conflicts attributes (dao.go:870-904) never
runs: the block is read back with `getBlock`, whose transactions are trimmed (hash only, no
attributes), so conflict records written by the block stay in the database. -/
def deleteBlock (H : Hist) (v : Db) (i : Nat) : Except Err (Db × Writes) :=
  match v (Key.exec i) with
  | some (Val.blk _) =>
    let w : Writes := (Key.exec i, none) :: (List.range (H.ntx i)).map (fun j => (Key.tx i j, none))
    .ok (applyWrites w v, w)
  | some (Val.hdr _) => .ok (v.set (Key.exec i) none, [(Key.exec i, none)])
  | _ => .error (.noBlock i)

/-- the body of the block-removal loop of resetStateInternal: GetHeader, DeleteBlock, StoreHeader — the block
and its transactions go, its header stays (HeaderHashes.init needs the headers until the stage that resets
them is persisted). -/
def removeBlock (H : Hist) (v : Db) (i : Nat) : Except Err (Db × Writes) :=
  match deleteBlock H v i with
  | .error e => .error e
  | .ok (v', w) => .ok (v'.set (Key.exec i) (some (Val.hdr i)), w ++ [(Key.exec i, some (Val.hdr i))])

/-- the block-removal loop (blockchain.go:1045-1079): blocks i, i+1, … (`fuel` of them), an intermediate
batch every S blocks. Returns the intermediate batches, the view and the still unpersisted writes. -/
def removeBlocks (H : Hist) (S : Nat) : Nat → Nat → Db → Writes → Nat → Except Err (List Batch × Db × Writes)
  | _, 0, v, acc, _ => .ok ([], v, acc)
  | i, fuel + 1, v, acc, cnt =>
    match removeBlock H v i with
    | .error e => .error e
    | .ok (v', w) =>
      if cnt + 1 = S then
        match removeBlocks H S (i + 1) fuel v' [] 0 with
        | .error e => .error e
        | .ok (bs, v'', rest) => .ok (ofWrites (acc ++ w) :: bs, v'', rest)
      else removeBlocks H S (i + 1) fuel v' (acc ++ w) (cnt + 1)

def truncLog (t : Nat) (hs : List Nat) : List Nat := hs.filter (· ≤ t)

/-- stateroot.Module.ResetState + resetTransfers (module.go:240-296, blockchain.go:1307-1400) as one
Seek-and-modify pass: state roots above t dropped, transfer logs cut at t, transfer info rebuilt. -/
def resetMptXfer (t : Nat) (db : Db) : Db := fun k =>
  match k with
  | Key.root i => if i > t then none else db k
  | Key.xlog _ =>
    match db k with
    | some (Val.log hs) => if (truncLog t hs).isEmpty then none else some (Val.log (truncLog t hs))
    | o => o
  | Key.xinfo a =>
    match db (Key.xlog a) with
    | some (Val.log hs) => match (truncLog t hs).getLast? with
      | some l => some (Val.info l)
      | none => none
    | _ => none
  | _ => db k

def purgeHeaders (t hh : Nat) (B : Nat) (db : Db) : Db := fun k =>
  match k with
  | Key.exec i => if t < i ∧ i ≤ hh then none else db k
  | Key.page q => if q ≥ ((t + 1) / B) * B then none else db k
  | _ => db k

def dropStor (p : Bool) (db : Db) : Db := fun k =>
  match k with
  | Key.stor q _ => if q = p then none else db k
  | _ => db k

def validStage (st : Nat) : Bool :=
  st = stNone || st = stJumpStarted || st = stNewItems || st = stBlocksRemoved || st = stHeadersReset || st = stTransfersReset

/-- stage stateJumpStarted: remove blocks t+1 … cur, intermediate batches every S blocks; the last batch
carries marker staleBlocksRemoved. -/
def stageBlocks (H : Hist) (S t cur : Nat) (db : Db) : Except Err (List Batch × Db) :=
  match removeBlocks H S (t + 1) (cur - t) db [] 0 with
  | .error e => .error e
  | .ok (bs, _, rest) =>
    let all := bs ++ [ofWrites (rest ++ [marker stBlocksRemoved])]
    .ok (all, foldBatches all db)

/-- stage staleBlocksRemoved: copy the storage of the trie of height t under the other prefix; marker
newStorageItemsAdded. (One batch; the code splits every 200000 items, all of them idempotent puts.) -/
def stageCopy (t : Nat) (p0 : Bool) (d : Db) : Batch :=
  let items := match d (Key.trie t) with | some (Val.snap it) => it | _ => []
  ofWrites (items.map (fun kv => (Key.stor (!p0) kv.1, some (Val.item kv.2))) ++ [marker stNewItems])

/-- stage newStorageItemsAdded: purge headers above t, tip pointers, version with the other prefix; marker headersReset. -/
def stageHeaders (B t hh : Nat) (p0 : Bool) : Batch :=
  [W.trans (purgeHeaders t hh B), W.put Key.curBlock (some (Val.ptr t)), W.put Key.curHeader (some (Val.ptr t)),
   W.put Key.version (some (Val.ver (!p0))), W.put Key.stage (some (Val.stagev true stHeadersReset))]

/-- stage headersReset: MPT pointers and transfers; marker transfersReset. -/
def stageMpt (t r : Nat) : Batch :=
  [W.put (Key.root t) (some (Val.rootv r)), W.put Key.mptLocal (some (Val.ptr t)), W.trans (resetMptXfer t),
   W.put Key.stage (some (Val.stagev true stTransfersReset))]

/-- the SeekGC of the old storage prefix, directly on the backend. -/
def stageGc (pOld : Bool) : Batch := [W.trans (dropStor pOld)]

def stageDone : Batch := [W.put Key.stage none, W.put Key.syncPoint none]

/-- the stages from `st` on, as the fallthrough switch of resetStateInternal; `hh` = header height of the
running node. Result: the batches in commit order, the final database, and whether the stateroot module
got (re)initialised on the way (it is only by the `headersReset` stage). -/
def resetFrom (H : Hist) (B S : Nat) (t st hh : Nat) (db : Db) : Except Err (List Batch × Db × Bool) :=
  if ¬ validStage st then .error .badStage   -- "unknown state reset stage"
  else
  match db Key.curBlock, db (Key.exec t), db (Key.root t), db Key.version with
  | some (Val.ptr cur), some (Val.blk _), some (Val.rootv r), some (Val.ver p0) =>
    match (if st ≤ stJumpStarted then stageBlocks H S t cur db else .ok ([], db)) with
    | .error e => .error e
    | .ok (b2, d2) =>
      let copy : Bool := decide (st ≤ stJumpStarted) || decide (st = stBlocksRemoved)
      let b3 : List Batch := if copy then [stageCopy t p0 d2] else []
      let d3 := foldBatches b3 d2
      let hdrs : Bool := copy || decide (st = stNewItems)
      let pNew : Bool := if hdrs then !p0 else p0
      let b4 : List Batch := if hdrs then [stageHeaders B t hh p0] else []
      let d4 := foldBatches b4 d3
      let mpt : Bool := decide (st ≠ stTransfersReset)
      let b5 : List Batch := if mpt then [stageMpt t r] else []
      let d5 := foldBatches b5 d4
      -- common tail: SeekGC of the old prefix directly on the backend, then the marker removal
      let tail : List Batch := [stageGc (!pNew), stageDone]
      -- stage transfersReset (re)initialises the stateroot module (stateRoot.Init), so it is always ready
      .ok (b2 ++ b3 ++ b4 ++ b5 ++ tail, foldBatches tail d5, true)
  | none, _, _, _ => .error .noBlockPtr
  | _, _, none, _ => .error .noRoot
  | _, _, _, none => .error .noVersion
  | _, _, _, _ => .error (.noBlock t)

/-- resetRAMState (blockchain.go:907-935) after a reset to t: the node that is left running. -/
def nodeAfterReset (B t : Nat) (db : Db) (ready : Bool) : Except Err Node :=
  match initHeaders B db with
  | .error e => .error e
  | .ok hh =>
    match db (Key.exec t), db Key.version, db (Key.trie t) with
    | some (Val.blk _), some (Val.ver p), some (Val.snap it) =>
      .ok { db := db, cache := [], height := t, hdrHeight := hh, items := it, pfx := p, mptReady := ready }
    | _, _, _ => .error (.noBlock t)

/-- Blockchain.Reset(t) on a stopped node whose write cache is empty (blockchain.go:928-935): the sync
point and the first marker form the first batch. -/
def reset (H : Hist) (B S : Nat) (n : Node) (t : Nat) : Except Err (List Batch × Node) :=
  if t > n.height then .error .badTarget
  else if t = n.height ∧ n.hdrHeight = n.height then .ok ([], n)
  -- blockchain.go:976-978 (since b08d698): the MPT nodes of state t that later blocks released are flagged inactive on
  -- such a node and cannot be used again, so the reset is refused before anything is written. Only a FRESH call is
  -- checked (stage none); `recover` resuming a recorded stage goes straight to `resetFrom`.
  else if H.rub = true ∧ t < n.height then .error .refused
  else
    let b1 : Batch := ofWrites [(Key.syncPoint, some (Val.ptr t)), marker stJumpStarted]
    let d1 := applyBatch b1 n.db
    match resetFrom H B S t stNone n.hdrHeight d1 with
    | .error e => .error e
    | .ok (bs, d, ready) =>
      match nodeAfterReset B t d ready with
      | .error e => .error e
      | .ok n' => .ok (b1 :: bs, n')

/-! ### state jump (jumpToStateInternal, blockchain.go:760-905)

The state-sync module (statesync.Module, MPT-based mode) has stored, under the write cache of the same dao:
all headers, the state trie of the sync point P, its contract storage under the OTHER storage prefix, the
blocks P-mtb+1 … P, and SYSStateSyncPoint. The jump makes that state current in four batches. -/

def jmarker (s : Nat) : W := W.put Key.stage (some (Val.stagev false s))

/-- transfers (logs and info) are dropped altogether. -/
def dropXfers (db : Db) : Db := fun k =>
  match k with
  | Key.xlog _ => none
  | Key.xinfo _ => none
  | _ => db k

/-- stage none: only the marker stateJumpStarted. -/
def jumpA : Batch := [jmarker stJumpStarted]
/-- stage stateJumpStarted: the version gets the other storage prefix; marker newStorageItemsAdded. -/
def jumpB (p : Bool) : Batch := [W.put Key.version (some (Val.ver (!p))), jmarker stNewItems]
/-- stage newStorageItemsAdded: the items of the old prefix `p` go, the genesis block goes if P is beyond
MaxTraceableBlocks (with its transactions; also all transfer data), the sync point block becomes current;
marker staleBlocksRemoved. -/
def jumpC (H : Hist) (P : Nat) (p : Bool) : Batch :=
  [W.trans (dropStor p)]
  ++ (if P > H.mtb then
        ofWrites ((Key.exec 0, none) :: (List.range (H.ntx 0)).map (fun j => (Key.tx 0 j, none)) ++ [(Key.exec 0, some (Val.hdr 0))])
          ++ [W.trans dropXfers]
      else [])
  ++ [W.put Key.curBlock (some (Val.ptr P)), jmarker stBlocksRemoved]
/-- the tail: stateroot.Module.JumpToState and the marker removal. -/
def jumpD (H : Hist) (P : Nat) : Batch :=
  [W.put (Key.root P) (some (Val.rootv (H.hashOf (itemsAt H P)))), W.put Key.mptLocal (some (Val.ptr P)),
   W.put Key.mptValidated (some (Val.ptr P)), W.put Key.stage none]

/-- the stages from `st` on (fallthrough switch of jumpToStateInternal). `hh` = header height. -/
def jumpFrom (H : Hist) (P st hh : Nat) (db : Db) : Except Err (List Batch × Db) :=
  if P ≥ hh then .error .badTarget   -- "invalid state sync point"
  else if ¬ (st = stNone ∨ st = stJumpStarted ∨ st = stNewItems ∨ st = stBlocksRemoved) then .error .badStage
  else
  match db Key.version with
  | some (Val.ver v) =>
    -- the prefix the chain used before the jump: the version flips in stage stateJumpStarted
    let p : Bool := if st = stNone ∨ st = stJumpStarted then v else !v
    let bA : List Batch := if st = stNone then [jumpA] else []
    let bB : List Batch := if st = stNone ∨ st = stJumpStarted then [jumpB p] else []
    let d2 := foldBatches (bA ++ bB) db
    -- stage newStorageItemsAdded needs the genesis record (if it is to be deleted) and block P
    if st ≠ stBlocksRemoved ∧ ((P > H.mtb ∧ (d2 (Key.exec 0)).isNone) ∨ (d2 (Key.exec P)).isNone) then .error (.noBlock P)
    else
    let bC : List Batch := if st ≠ stBlocksRemoved then [jumpC H P p] else []
    let d3 := foldBatches bC d2
    -- the tail needs the header of P+1 (its PrevStateRoot is the root to jump to)
    if (d3 (Key.exec (P + 1))).isNone then .error (.noBlock (P + 1))
    else .ok (bA ++ bB ++ bC ++ [jumpD H P], applyBatch (jumpD H P) d3)
  | _ => .error .noVersion

/-- resetRAMState(P, false) after a jump: header hashes stay as initialised at start-up. -/
def nodeAfterJump (P hh : Nat) (db : Db) : Except Err Node :=
  match db (Key.exec P), db Key.version, db (Key.trie P) with
  | some _, some (Val.ver p), some (Val.snap it) =>
    .ok { db := db, cache := [], height := P, hdrHeight := hh, items := it, pfx := p, mptReady := true }
  | _, _, _ => .error (.noBlock P)

/-- Blockchain.jumpToState(P), called by the state-sync module once headers, MPT and blocks are complete,
on a node whose write cache has been flushed (the module's PersistSync). -/
def jump (H : Hist) (n : Node) (P : Nat) : Except Err (List Batch × Node) :=
  match jumpFrom H P stNone n.hdrHeight n.db with
  | .error e => .error e
  | .ok (bs, d) =>
    match nodeAfterJump P n.hdrHeight d with
    | .error e => .error e
    | .ok n' => .ok (bs, n')

/-- Blockchain.init on an existing database. -/
def recover (H : Hist) (B S : Nat) (db : Db) : Except Err Node :=
  match db Key.version with
  | some (Val.ver p) =>
    match initHeaders B db with
    | .error e => .error e
    | .ok hh =>
      match db Key.stage with
      | some (Val.stagev true st) =>
        match db Key.syncPoint with
        | some (Val.ptr t) =>
          match resetFrom H B S t st hh db with
          | .error e => .error e
          | .ok (_, d, ready) => nodeAfterReset B t d ready
        | _ => .error .noSyncPoint
      | some (Val.stagev false st) =>
        -- an unfinished state jump (the configuration check for P2PStateExchangeExtensions is not modelled)
        match db Key.syncPoint with
        | some (Val.ptr P) =>
          match jumpFrom H P st hh db with
          | .error e => .error e
          | .ok (_, d) => nodeAfterJump P hh d
        | _ => .error .noSyncPoint
      | some _ => .error .badStage
      | none =>
        match db Key.curBlock with
        | some (Val.ptr bh) =>
          match db (Key.root bh), db (Key.trie bh) with
          | some (Val.rootv _), some (Val.snap it) =>
            .ok { db := db, cache := [], height := bh, hdrHeight := hh, items := it, pfx := p, mptReady := true }
          | _, _ => .error .noRoot
        | _ => .error .noBlockPtr
  | _ => .ok (fresh H)

/-- a restart followed by statesync.Module.Init (defineSyncStage, module.go): when headers, the state trie
and the block of the recorded sync point are all stored but the chain is still below it, the pending jump is
performed; otherwise the node stays as recovered. -/
def restartSync (H : Hist) (B S : Nat) (db : Db) : Except Err Node :=
  match recover H B S db with
  | .error e => .error e
  | .ok m =>
    match db Key.syncPoint with
    | some (Val.ptr P) =>
      if m.height < P ∧ P < m.hdrHeight ∧ (db (Key.trie P)).isSome ∧ (db (Key.exec P)).isSome then
        match jump H m P with
        | .ok (_, n') => .ok n'
        | .error e => .error e
      else .ok m
    | _ => .ok m

/-! ### what the API shows of a node -/

/-- what the API tells about conflict hash c: a conflict record exists whose height is not above the node's. -/
def conflictKnown (n : Node) (c : Nat) : Bool :=
  match n.view (Key.stub c) with
  | some (Val.stubv i) => decide (i ≤ n.height)
  | _ => false

/-- the API-level view of a node (GetBlock/GetTransaction/GetStateRoot/SeekStorage under the ACTIVE prefix/
transfer logs/HasTransaction's conflict check). Raw MPT nodes, the prefix byte and caches are not part of it. -/
structure ApiObs where
  height : Nat
  hdrHeight : Nat
  block : Nat → Option Val
  tx : Nat → Nat → Option Val
  root : Nat → Option Val
  storage : Nat → Option Val
  transfers : Nat → Option Val
  conflict : Nat → Bool

def apiObs (n : Node) : ApiObs :=
  { height := n.height, hdrHeight := n.hdrHeight,
    block := fun i => n.view (Key.exec i), tx := fun i j => n.view (Key.tx i j), root := fun i => n.view (Key.root i),
    storage := fun k => n.view (Key.stor n.pfx k), transfers := fun a => n.view (Key.xlog a), conflict := conflictKnown n }


/-- the node that only ever synchronised t blocks and was stopped cleanly. -/
def syncedTo (H : Hist) (B t : Nat) : Node := (run H B (List.replicate t Op.block ++ [Op.flush])).1


/-- a light node on which the state-sync module has completed its work for sync point P with n headers:
genesis only, all headers, the trie and (under the other prefix) the storage of P, the last mtb blocks, the
sync point. -/
def syncedNode (H : Hist) (B P n : Nat) : Node :=
  let n0 := (run H B [Op.headers n, Op.flush]).1
  let items := itemsAt H P
  let blocks : Writes := (List.range H.mtb).flatMap (fun d =>
    (Key.exec (P - d), some (Val.blk (P - d))) :: (List.range (H.ntx (P - d))).map (fun j => (Key.tx (P - d) j, some (Val.txv (P - d)))))
  let w : Writes := [(Key.syncPoint, some (Val.ptr P)), (Key.trie P, some (Val.snap items))]
    ++ items.map (fun kv => (Key.stor true kv.1, some (Val.item kv.2))) ++ blocks
  { n0 with db := applyWrites w n0.db }


end NeoModel.Persist
