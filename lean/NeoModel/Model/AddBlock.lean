/-
C06 — model of the decision logic of Blockchain.AddBlock / addHeaders / verifyHeader /
the in-block transaction loop (pkg/core/blockchain.go AddBlock, addHeaders, verifyHeader, storeBlock's
next-header check) and of the scratch-pool admission used by it (pkg/core/mempool/mem_pool.go Add,
checkTxConflicts), as written after the fixes d99d969, ec0103c, d0c3ec8, ab64b57.
Core Lean only.

Hashes, addresses, witnesses and account ids are natural numbers (opaque identifiers).
What the model does not compute is a parameter (`Env`): signature verification, the Merkle
function, stand-alone transaction verification, block execution, the state root of a ledger,
balances, the post-block mempool filter.
-/
namespace NeoModel.AddBlock

/-- config switches read by AddBlock (config.StateRootInHeader, VerifyTransactions, SkipBlockVerification). -/
structure Cfg where
  sr : Bool
  verifyTx : Bool
  skip : Bool
deriving DecidableEq, Repr

/-- A header. `hash` is the value of `Header.Hash()`: a function of all fields except `wit`
(header.go:127-147 hashes `encodeHashableFields`, the witness is not among them). -/
structure Header where
  index : Nat
  hash : Nat
  prevHash : Nat
  merkleRoot : Nat
  ts : Nat
  nextConsensus : Nat
  sre : Bool
  prevStateRoot : Nat
  wit : Nat
  primary : Nat := 0          -- PrimaryIndex (inside the hash; read only by GAS.OnPersist)
deriving DecidableEq, Repr

/-- A transaction as the scratch pool sees it. `id` = hash (independent of `wit`). -/
structure Tx where
  id : Nat
  wit : Nat
  sender : Nat
  fee : Nat        -- SystemFee + NetworkFee
  netFee : Nat
  conflicts : List Nat
deriving DecidableEq, Repr

structure Block where
  hdr : Header
  txs : List Tx
deriving DecidableEq, Repr

inductive Err
  | indexFuture | indexOld | srFlag | prevUnknown | stateRoot | prevHash | hdrIndex
  | timestamp | witness | hashMismatch | merkle | dup | tx | store
deriving DecidableEq, Repr

/-- Everything the decision logic calls but does not decide itself. `L` = ledger state. -/
structure Env (L : Type) where
  signedBy : Nat → Nat → Nat → Bool        -- witness, header hash, consensus address (VerifyWitness, blockchain.go:3465)
  merkle : List Nat → Nat                   -- Block.ComputeMerkleRoot over the tx hashes
  txValid : L → Nat → Tx → Bool             -- every check of verifyAndPoolTx before pool.Add (ledger, height)
  balance : L → Nat → Nat                   -- GAS balance of a sender
  apply : L → Block → Option L              -- storeBlock's execution of the block; none = persist failure
  rootOf : L → Nat                          -- local state root
  keep : L → Tx → Bool                      -- IsTxStillRelevant for a pooled tx after the block
  spoil : L → Block → L                     -- the ledger after storeBlock executed the block, applied the MPT
                                            -- batch (stateroot.AddMPTBatch works on the live trie's nodes; the
                                            -- notification handler appends to stored token transfer logs in place,
                                            -- dao.GetTokenTransferLog / TokenTransferLog.Append) and then failed
  nvals : Nat := 1024                       -- number of next-block validators (NEO.GetNextBlockValidatorsInternal)

/-- The node. `headers[i]` is the stored header of index `i`; header height = length - 1. -/
structure Node (L : Type) where
  cfg : Cfg
  blockHeight : Nat
  headers : List Header
  ledger : L
  pool : List Tx                            -- the mempool's verified transactions

variable {L : Type}

def Node.headerHeight (s : Node L) : Nat := s.headers.length - 1

/-- bc.GetHeader(hash): any stored header with that hash (blockchain.go:2604). -/
def Node.lookup (s : Node L) (h : Nat) : Option Header := s.headers.find? (fun x => x.hash == h)

/-- verifyHeader (blockchain.go:2885-2904), in the order written. -/
def verifyHeader (env : Env L) (s : Node L) (cur prev : Header) : Option Err :=
  if s.cfg.sr && s.blockHeight == prev.index && cur.prevStateRoot != env.rootOf s.ledger then some .stateRoot
  else if prev.hash != cur.prevHash then some .prevHash
  else if prev.index + 1 != cur.index then some .hdrIndex
  else if prev.ts >= cur.ts then some .timestamp
  else if !env.signedBy cur.wit cur.hash prev.nextConsensus then some .witness
  else none

/-- the verification loop of addHeaders (blockchain.go:1931-1936). -/
def verifyChain (env : Env L) (s : Node L) : Header → List Header → Option Err
  | _, [] => none
  | last, h :: rest =>
    match verifyHeader env s h last with
    | some e => some e
    | none => verifyChain env s h rest

/-- HeaderHashes.addHeaders (headerhashes.go:146-176): a header is appended iff its index is the next one. -/
def appendHeaders : List Header → List Header → List Header
  | known, [] => known
  | known, h :: rest =>
    if h.index == known.length then appendHeaders (known ++ [h]) rest else appendHeaders known rest

/-- addHeaders (blockchain.go:1891-1947). The trusted-header branch is not modelled (default
configuration: trusted index 0, never equal to a header index above the current height). -/
def addHeaders (env : Env L) (s : Node L) (verify : Bool) (hs : List Header) : Node L × Option Err :=
  let hs := hs.dropWhile (fun h => h.index ≤ s.headerHeight)
  match hs with
  | [] => (s, none)
  | h0 :: rest =>
    let chk : Option Err :=
      if verify then
        match s.lookup h0.prevHash with
        | none => some .prevUnknown
        | some last => verifyChain env s last (h0 :: rest)
      else none
    match chk with
    | some e => (s, some e)
    | none => ({ s with headers := appendHeaders s.headers (h0 :: rest) }, none)

/-! ### the scratch pool of the in-block transaction loop -/

def sumBy (f : Tx → Nat) (l : List Tx) : Nat := (l.map f).sum

/-- pooled transactions that name `t` in a Conflicts attribute (checkTxConflicts step 1) -/
def namedBy (p : List Tx) (t : Tx) : List Tx := p.filter (fun q => q.conflicts.contains t.id)
/-- pooled transactions that `t` names in a Conflicts attribute (checkTxConflicts step 2) -/
def namesOf (p : List Tx) (t : Tx) : List Tx := p.filter (fun q => t.conflicts.contains q.id)
/-- the pooled transactions an addition of `t` evicts -/
def evicted (p : List Tx) (t : Tx) : List Tx := namedBy p t ++ namesOf p t
/-- network fees that `t` has to outbid -/
def conflictFee (p : List Tx) (t : Tx) : Nat :=
  sumBy (·.netFee) ((namedBy p t).filter (fun q => q.sender == t.sender)) + sumBy (·.netFee) (namesOf p t)
/-- fees of the sender's pooled transactions, and the part of them freed by the evictions -/
def pooledFee (p : List Tx) (t : Tx) : Nat := sumBy (·.fee) (p.filter (fun q => q.sender == t.sender))
def freedFee (p : List Tx) (t : Tx) : Nat := sumBy (·.fee) ((evicted p t).filter (fun q => q.sender == t.sender))

/-- mempool.Pool.Add into the scratch pool (mem_pool.go Add with checkTxConflicts), for
single-signer non-Notary transactions, capacity never reached (capacity = number of block txs).
`none` = any error (ErrDup, ErrConflictsAttribute, ErrInsufficientFunds, ErrConflict). -/
def poolAdd (bal : Nat → Nat) (p : List Tx) (t : Tx) : Option (List Tx) :=
  if p.any (fun q => q.id == t.id) then none
  else if (namesOf p t).any (fun q => q.sender != t.sender) then none
  else if conflictFee p t != 0 && decide (t.netFee ≤ conflictFee p t) then none
  else if bal t.sender < t.fee then none
  else if bal t.sender < t.fee + (pooledFee p t - freedFee p t) then none
  else some (p.filter (fun q => !((evicted p t).any (fun x => x.id == q.id))) ++ [t])

/-- the mempool shortcut of the loop: the transaction is pooled *with the same witnesses*
(`TryGetValue(hash)` and `txWitnessesEqual`). -/
def pooledSame (s : Node L) (t : Tx) : Bool := s.pool.any (fun q => q.id == t.id && q.wit == t.wit)

/-- the transaction loop of AddBlock: returns false iff it stops with an error (only possible with
VerifyTransactions). An addition that evicts another transaction of the block from the scratch pool
is an error too (`mp.Count() != added`); without VerifyTransactions the loop goes on with the new pool. -/
def txLoop (env : Env L) (s : Node L) : List Tx → List Tx → Bool
  | _, [] => true
  | p, t :: rest =>
    let r : Option (List Tx) :=
      if pooledSame s t then poolAdd (env.balance s.ledger) p t
      else if env.txValid s.ledger s.blockHeight t then poolAdd (env.balance s.ledger) p t
      else none
    match r with
    | some p' =>
      if p'.length == p.length + 1 then txLoop env s p' rest
      else if s.cfg.verifyTx then false else txLoop env s p' rest
    | none => if s.cfg.verifyTx then false else txLoop env s p rest

/-- storeBlock, blockchain.go:2101-2113: with state roots in headers and the next header already
known, its PrevStateRoot must be the root this block produced. -/
def nextHeaderOK (env : Env L) (s : Node L) (idx : Nat) (l' : L) : Bool :=
  if s.cfg.sr && decide (s.headerHeight > idx) then
    match s.headers[idx + 1]? with
    | some nh => nh.prevStateRoot == env.rootOf l'
    | none => false
  else true

/-- the commit at the end of storeBlock (blockchain.go:2131-2154). -/
def commit (env : Env L) (s : Node L) (b : Block) (l' : L) : Node L :=
  { s with
      ledger := l',
      blockHeight := b.hdr.index,
      headers := s.headers.set b.hdr.index b.hdr,     -- StoreAsBlock rewrites the record under the block hash
      pool := s.pool.filter (fun q => !(b.txs.any (fun t => t.id == q.id)) && env.keep l' q) }

/-- GAS.OnPersist (pkg/core/native/native_gas.go:109-131) pays the network fees of a block that has
transactions to `validators[PrimaryIndex]`: an index beyond the validator list makes the persisting
script fail (nothing is written). No other code checks the range of PrimaryIndex; a block without
transactions passes with any value. -/
def primaryOK (env : Env L) (b : Block) : Bool := b.txs.isEmpty || decide (b.hdr.primary < env.nvals)

/-- storeBlock as far as acceptance is concerned: the PrimaryIndex test of the persisting script, execution,
then the check of the next known header's PrevStateRoot, then the commit. The check comes after
stateRoot.AddMPTBatch, which works on the in-memory trie; on every error path after it storeBlock now
calls stateroot.Module.DropMPTBatch (the trie is reloaded from the current local root) and the transfer
logs are copied before they are appended to (b358bb1): a failing storeBlock leaves the node as it was.
(`Env.spoil` described what the execution left behind before these two fixes; it is no longer used by
the model - Props/C06Old.lean keeps the old behaviour as a regression example.) -/
def storeBlock (env : Env L) (s : Node L) (b : Block) : Node L × Option Err :=
  if !primaryOK env b then (s, some .store)
  else
    match env.apply s.ledger b with
    | none => (s, some .store)
    | some l' =>
      if nextHeaderOK env s b.hdr.index l' then (commit env s b l', none)
      else (s, some .store)

/-- AddBlock's header step: the header is either the next one (verify and record it) or already
known. Then its hash is compared with the recorded one and, unless the witness is the recorded
header's witness, the witness is verified against the previous header's NextConsensus (d99d969). -/
def headerStep (env : Env L) (s : Node L) (b : Block) : Node L × Option Err :=
  if b.hdr.index == s.headerHeight + 1 then addHeaders env s (!s.cfg.skip) [b.hdr]
  else
    match s.headers[b.hdr.index]? with
    | none => (s, some .hashMismatch)
    | some kh =>
      if kh.hash != b.hdr.hash then (s, some .hashMismatch)
      else if s.cfg.skip || kh.wit == b.hdr.wit then (s, none)
      else
        match s.lookup b.hdr.prevHash with
        | none => (s, some .prevUnknown)
        | some prev =>
          if env.signedBy b.hdr.wit b.hdr.hash prev.nextConsensus then (s, none) else (s, some .witness)

/-- duplicate transaction hashes (ab64b57) -/
def hasDup : List Nat → Bool
  | [] => false
  | x :: rest => rest.contains x || hasDup rest

/-- AddBlock's body: Merkle root, duplicate check, transaction loop (all skipped with
SkipBlockVerification), storeBlock. -/
def bodyStep (env : Env L) (s : Node L) (b : Block) : Node L × Option Err :=
  if !s.cfg.skip && b.hdr.merkleRoot != env.merkle (b.txs.map (·.id)) then (s, some .merkle)
  else if !s.cfg.skip && hasDup (b.txs.map (·.id)) then (s, some .dup)
  else if !s.cfg.skip && !txLoop env s [] b.txs then (s, some .tx)
  else storeBlock env s b

/-- Blockchain.AddBlock. Returns the node afterwards and the error, if any. -/
def addBlock (env : Env L) (s : Node L) (b : Block) : Node L × Option Err :=
  if s.blockHeight + 1 != b.hdr.index then
    (s, some (if b.hdr.index > s.blockHeight + 1 then .indexFuture else .indexOld))
  else if s.cfg.sr != b.hdr.sre then (s, some .srFlag)
  else
    match headerStep env s b with
    | (s1, some e) => (s1, some e)
    | (s1, none) => bodyStep env s1 b

/-! ### the Merkle root function (pkg/crypto/hash/merkle_tree.go:76-103 CalcMerkleRoot, used by
Block.ComputeMerkleRoot, pkg/core/block/block.go:62-69), over any two-to-one hash `h2` on any carrier
`α` (`z` = the zero value returned for an empty list). The driver instantiates it with
`α = Bytes`, `h2 a b = SHA-256(SHA-256(a ++ b))` and compares with the node's MerkleRoot check. -/

/-- one level: pairs are hashed together, the last element of an odd level with itself -/
def merkleLevel {α : Type} (h2 : α → α → α) : List α → List α
  | [] => []
  | [a] => [h2 a a]
  | a :: b :: rest => h2 a b :: merkleLevel h2 rest

def calcMerkle {α : Type} (h2 : α → α → α) (z : α) : Nat → List α → α
  | _, [] => z
  | _, [a] => a
  | 0, _ => z
  | fuel + 1, l => calcMerkle h2 z fuel (merkleLevel h2 l)

def merkleRoot {α : Type} (h2 : α → α → α) (z : α) (l : List α) : α := calcMerkle h2 z l.length l

end NeoModel.AddBlock
