/-
Garbage collection of blocks and header-hash pages (property C02), on top of Model/Persist.lean.

`Blockchain.Run` (blockchain.go:1352-1391): every timer tick is `persist()` followed, on a node with
RemoveUntraceableBlocks, by `tryRunGC(oldPersisted)` (blockchain.go:1393-1428):

    tgtBlock = (persistedHeight - MaxTraceableBlocks) / GCP * GCP
    if tgtBlock > GCP && persistedHeight/GCP != oldPersisted/GCP:
        removeOldTransfers(tgt)       SeekGC ST*Transfers       directly on the backend   ┐ `gcSel` of
        stateRoot.GC(tgt)             SeekGC DataMPT            directly on the backend   ┘ Model/Persist
        removeUntraceableBlocks(…)    DeleteBlock of old blocks INTO THE WRITE CACHE (a private layer persisted
                                      into bc.dao) - they reach the backend with the NEXT flush batch
        removeOldHeaderHashes(tgt)    SeekGC IXHeaderHashList   directly on the backend

Which header hashes the block-removal
loop can resolve depends on HeaderHashes' in-memory pages and its LRU page cache (headerhashes.go:235-277),
both are part of the node here. Core Lean only.
-/
import NeoModel.Model.Persist
namespace NeoModel.Persist

structure GcCfg where
  mtb : Nat                -- MaxTraceableBlocks
  gcp : Nat                -- GarbageCollectionPeriod
  p2pse : Bool := false    -- P2PStateExchangeExtensions
  ssi : Nat := 0           -- StateSyncInterval

/-- the node with the state the garbage collector keeps in memory. -/
structure GNode where
  n : Node
  gcLast : Nat := 0          -- gcLastUntraceableBlockHeight (blockchain.go:191-195)
  lru : List Nat := []       -- HeaderHashes.cache: start indexes of cached pages, most recently used first
  times : List Nat := []     -- gcBlockTimes (blockchain.go:189): heights whose timestamp is cached, most recently used first

def pagesCache : Nat := 8

/-- lru.Cache.Get: a hit moves the page to the front. -/
def lruGet (l : List Nat) (p : Nat) : Option (List Nat) :=
  if p ∈ l then some (p :: l.erase p) else none

/-- lru.Cache.Add: to the front, the oldest entry is evicted beyond `pagesCache` entries. -/
def lruAdd (l : List Nat) (p : Nat) : List Nat := (p :: l.erase p).take pagesCache

/-- defaultBlockTimesCache (blockchain.go:70-76). -/
def timesCache : Nat := 8

/-- storeBlock (blockchain.go:2057-2060): on a RemoveUntraceableBlocks node the timestamp of every block whose index is
a multiple of the GC period is put into the `gcBlockTimes` LRU. -/
def noteBlockTime (cfg : GcCfg) (times : List Nat) (h : Nat) : List Nat :=
  if h % cfg.gcp = 0 then (h :: times.erase h).take timesCache else times

/-- HeaderHashes.GetHeaderHash(i) (headerhashes.go:235-255): is the hash of height i known (a zero hash is returned
otherwise), and the page cache afterwards. Local: `latest` and `previous` (getLocalHeaderHash, :259-272), i.e.
heights from storedHeaderCount - B up to the last header; then the LRU cache; then the page in the dao
(the node's view), which is cached. -/
def hashKnown (B hdrHeight : Nat) (view : Db) (lru : List Nat) (i : Nat) : Bool × List Nat :=
  let stored := ((hdrHeight + 1) / B) * B
  if stored - B ≤ i ∧ i ≤ hdrHeight then (true, lru)
  else
    let page := (i / B) * B
    match lruGet lru page with
    | some l' => (true, l')
    | none =>
      match view (Key.page page) with
      | some _ => (true, lruAdd lru page)
      | none => (false, lru)

/-- the loop of removeUntraceableBlocks (blockchain.go:1675-1690) over `fuel` heights from `i`: unknown hashes are
skipped, a failing DeleteBlock (record already gone) is only logged. `v` is the private layer's view, `acc` its
change set. Conflict records stay (DeleteBlock reads trimmed transactions, see `deleteBlock`). -/
def gcBlocksLoop (H : Hist) (B hdrHeight : Nat) : Nat → Nat → Db → Writes → List Nat → Db × Writes × List Nat
  | 0, _, v, acc, l => (v, acc, l)
  | fuel + 1, i, v, acc, l =>
    let k := hashKnown B hdrHeight v l i
    if k.1 then
      match deleteBlock H v i with
      | .ok (v', w) => gcBlocksLoop H B hdrHeight fuel (i + 1) v' (acc ++ w) k.2
      | .error _ => gcBlocksLoop H B hdrHeight fuel (i + 1) v acc k.2
    else gcBlocksLoop H B hdrHeight fuel (i + 1) v acc k.2

/-- the height up to which blocks are removed (blockchain.go:1662-1667): if the GC target lies in the header-hash
page that is not stored yet, only blocks below the previous page boundary go. -/
def gcBlocksTarget (B gcp new tgt : Nat) : Nat :=
  if (new / gcp) * gcp / B = tgt / B then (tgt / B - 1) * B else tgt

/-- removeUntraceableBlocks(newPeriod = new/GCP, tgt): the deletions go to the write cache. -/
def gcBlocks (H : Hist) (B : Nat) (cfg : GcCfg) (g : GNode) (new tgt : Nat) : GNode :=
  let tgtH := gcBlocksTarget B cfg.gcp new tgt
  if tgtH = 0 then g else
  let r := gcBlocksLoop H B g.n.hdrHeight (tgtH - g.gcLast) g.gcLast g.n.view [] g.lru
  { g with n := { g.n with cache := g.n.cache ++ r.2.1 }, gcLast := tgtH, lru := r.2.2 }

/-- the SeekGC of removeOldHeaderHashes: every page starting at or below `till` goes. -/
def dropPages (till : Nat) (db : Db) : Db := fun k =>
  match k with
  | Key.page q => if q ≤ till then none else db k
  | _ => db k

/-- `till` of removeOldHeaderHashes(tgt) (blockchain.go:1635): ((tgt+1)/B - 1)*B, not positive = nothing to do. -/
def pagesTill (B tgt : Nat) : Nat := ((tgt + 1) / B - 1) * B

/-- the `till` removeOldHeaderHashes uses (blockchain.go:1636-1645, after fix 2cd5b80): `pagesTill`, capped so that the
page right below the stored header count of the PERSISTED header height - the one HeaderHashes.init reads at restart -
survives; nothing is removed if the persisted header height cannot be read. -/
def gcPagesTill (B : Nat) (db : Db) (tgt : Nat) : Nat :=
  match db Key.curHeader with
  | some (Val.ptr hh) => min (pagesTill B tgt) (((hh + 1) / B - 2) * B)
  | _ => 0

def u32 : Nat := 4294967296

/-- tgtBlock of tryRunGC before it is rounded to the GC period (blockchain.go:1400-1412), for `new ≥ mtb`:
`new - mtb`, and with P2PStateExchangeExtensions at most "the sync point before the latest one, minus mtb" - computed in
uint32 as the code does (`syncP--` and `syncP - mtb` wrap around). -/
def gcBase (cfg : GcCfg) (new : Nat) : Nat :=
  let t0 := new - cfg.mtb
  if cfg.p2pse then
    let ssi := cfg.ssi % u32
    let syncP := (((new / ssi + u32 - 1) % u32) * ssi) % u32
    min t0 ((syncP + u32 - cfg.mtb % u32) % u32)
  else t0

/-- the GC target of tryRunGC(old) at persisted height `new`, `none` = no collection this time (:1413-1427). -/
def gcTarget (cfg : GcCfg) (new old : Nat) : Option Nat :=
  if new < cfg.mtb then none else
  let tgt := gcBase cfg new / cfg.gcp * cfg.gcp
  if tgt > cfg.gcp ∧ new / cfg.gcp ≠ old / cfg.gcp then some tgt else none

/-- tryRunGC(old) on a node whose persisted height is `new`. Result: the node and the batches committed
directly to the backend, in order. `gx` = what the transfer GC does to a log. -/
def gcRun (H : Hist) (B : Nat) (cfg : GcCfg) (g : GNode) (old : Nat) (gx : Nat → Option Val → Option Val) : GNode × List Batch :=
  match g.n.db Key.curBlock with
  | some (Val.ptr new) =>
    if new < cfg.mtb then (g, []) else
    let tgt := gcBase cfg new / cfg.gcp * cfg.gcp
    if tgt > cfg.gcp ∧ new / cfg.gcp ≠ old / cfg.gcp then
      -- removeOldTransfers (blockchain.go:1566-1581) only works when the timestamp of the target block is still in
      -- gcBlockTimes (an LRU hit moves it to the front); otherwise the transfer logs are left alone this time
      let known := decide (tgt ∈ g.times)
      let gx : Nat → Option Val → Option Val := if known then gx else fun _ v => v
      let times := if known then tgt :: g.times.erase tgt else g.times
      let g1 : GNode := { g with n := { g.n with db := gcSel tgt gx g.n.db }, times := times }
      let g2 := gcBlocks H B cfg g1 new tgt
      let till := gcPagesTill B g.n.db tgt
      if till > 0 then
        ({ g2 with n := { g2.n with db := dropPages till g2.n.db } }, [[W.trans (gcSel tgt gx)], [W.trans (dropPages till)]])
      else (g2, [[W.trans (gcSel tgt gx)]])
    else (g, [])
  | _ => (g, [])

/-- tryRunGC as it was BEFORE fix 2cd5b80 (removeOldHeaderHashes used `pagesTill` uncapped); kept for the regression
example `gc_removes_needed_header_page` only. -/
def gcRunOld (H : Hist) (B : Nat) (cfg : GcCfg) (g : GNode) (old : Nat) (gx : Nat → Option Val → Option Val) : GNode × List Batch :=
  match g.n.db Key.curBlock with
  | some (Val.ptr new) =>
    if new < cfg.mtb then (g, []) else
    let tgt := (new - cfg.mtb) / cfg.gcp * cfg.gcp
    if tgt > cfg.gcp ∧ new / cfg.gcp ≠ old / cfg.gcp then
      let g1 : GNode := { g with n := { g.n with db := gcSel tgt gx g.n.db } }
      let g2 := gcBlocks H B cfg g1 new tgt
      let till := pagesTill B tgt
      if till > 0 then
        ({ g2 with n := { g2.n with db := dropPages till g2.n.db } }, [[W.trans (gcSel tgt gx)], [W.trans (dropPages till)]])
      else (g2, [[W.trans (gcSel tgt gx)]])
    else (g, [])
  | _ => (g, [])

inductive GOp where
  | base (o : Op)                                               -- a step of Model/Persist
  | gcRun (old : Nat) (gx : Nat → Option Val → Option Val)      -- one tryRunGC(old)
  | blockWait                                                   -- AddBlock with a flush during its back-pressure wait

/-- AddBlock of the next block while the persisting routine flushes: storeBlock (blockchain.go:2032-2229) computes
the block into two PRIVATE layers (`aerCache`: tip pointer, block, transactions, AERs, transfer logs; `cache`: contract
storage, MPT nodes, state root), then takes bc.lock and waits at `persistCond` while the write cache is too full
(:2196-2203); only then `bc.dao.PersistPrivate(aerCache, cache)` merges BOTH layers in one step. A flush that happens
during the wait therefore writes a batch that holds everything accepted before - and the header of the block, which
AddBlock hands to addHeaders beforehand when it is new (:1878-1893) - but NOTHING the block itself changes. -/
def blockWait (H : Hist) (B : Nat) (n : Node) : Node × Option Batch :=
  let n1 := (step H B n (.headers (n.height + 1))).1
  let s2 := step H B n1 .flush
  let s3 := step H B s2.1 .block
  (s3.1, s2.2)

/-- `blockWait` as the code behaved BEFORE fix 956252a on a node whose MPT counts references (RemoveUntraceableBlocks /
KeepOnlyLatestState); kept for the regression example `rc_flush_inside_block_breaks_restart` only.
Trie.updateRefCount (mpt/trie.go:450-490) rewrote the active flag / counter of a stored node IN PLACE in the slice it got
from the store - for a node that still sat in the shared write cache that was bc.dao's own copy (it clones the slice
now). So AddMPTBatch of the waiting block released the nodes of the previous state inside bc.dao BEFORE the block was
merged, and the flush during the wait carried them. In this model's granularity (`Key.trie h` = the nodes of the state
trie of height h) the trie of the current height was then not loadable from that batch (`none`), when it was still in
the write cache. -/
def blockWaitOldRC (H : Hist) (B : Nat) (n : Node) : Node × Option Batch :=
  let n1 := (step H B n (.headers (n.height + 1))).1
  let leak : Writes := if n1.cache.any (fun p => decide (p.1 = Key.trie n.height)) then [(Key.trie n.height, none)] else []
  let s2 := step H B { n1 with cache := n1.cache ++ leak } .flush
  let s3 := step H B s2.1 .block
  (s3.1, s2.2)

/-- the header writes AddBlock issues before storeBlock when the header of the next block is new. -/
def waitHeaderWrites (B : Nat) (n : Node) : Writes :=
  if n.height + 1 ≤ n.hdrHeight then []
  else headersRange B n.hdrHeight (n.height + 1 - n.hdrHeight) ++ [(Key.curHeader, some (Val.ptr (n.height + 1)))]

def gstep (H : Hist) (B : Nat) (cfg : GcCfg) (g : GNode) : GOp → GNode × List Batch
  | .base o =>
    let s := step H B g.n o
    let times := match o with | .block => noteBlockTime cfg g.times s.1.height | _ => g.times
    ({ g with n := s.1, times := times }, s.2.toList)
  | .gcRun old gx => gcRun H B cfg g old gx
  | .blockWait => let s := blockWait H B g.n; ({ g with n := s.1, times := noteBlockTime cfg g.times s.1.height }, s.2.toList)

def grunFrom (H : Hist) (B : Nat) (cfg : GcCfg) : GNode → List GOp → GNode × List Batch
  | g, [] => (g, [])
  | g, o :: r =>
    let s := gstep H B cfg g o
    let t := grunFrom H B cfg s.1 r
    (t.1, s.2 ++ t.2)

def grun (H : Hist) (B : Nat) (cfg : GcCfg) (ops : List GOp) : GNode × List Batch :=
  grunFrom H B cfg { n := fresh H, times := [0] } ops   -- the genesis block went through storeBlock too

/-- the first stored header-hash page among the first `cnt` page slots (0 if there is none). -/
def firstPage (B : Nat) (db : Db) (cnt : Nat) : Nat :=
  match (List.range cnt).find? (fun m => (db (Key.page (m * B))).isSome) with
  | some m => m * B
  | none => 0

/-- Blockchain.init with the GC state (blockchain.go:681-687): gcLastUntraceableBlockHeight is the start of the
first stored page, the page cache is empty. -/
def grecover (H : Hist) (B S : Nat) (db : Db) : Except Err GNode :=
  match recover H B S db with
  | .ok n => .ok { n := n, gcLast := firstPage B db (n.hdrHeight / B + 1), lru := [], times := [] }
  | .error e => .error e

end NeoModel.Persist
