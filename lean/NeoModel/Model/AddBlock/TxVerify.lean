/-
C06 — stand-alone verification of a transaction as AddBlock's transaction loop runs it:
`verifyAndPoolTx` up to (not including) `pool.Add` (pkg/core/blockchain.go:2996-3046), with
`CalculateAttributesFee` (3070-3087), `dao.HasTransaction` / `isTraceableBlock`
(pkg/core/dao/dao.go:789-832), `Policy.CheckPolicy` (pkg/core/native/policy.go:843-851),
`verifyTxWitnesses` / `verifyHashAgainstScript` / `InitVerificationContext`
(blockchain.go:3427-3538) and `verifyTxAttributes` (3089-3184), in the order written.
In-block transactions never carry `data`, so `isPartialTx = false` throughout.

The chain state is the record `Chain` of exactly what these functions read. Accounts and hashes are
natural numbers. What a witness script computes is not modelled: a witness is described by the facts
the verification reads (script hash matches the signer, scripts well-formed, the result the VM run
leaves and the GAS it consumes), the decision structure around them is.

`verifyOffChain` is `VerifyTx` (blockchain.go:2986-2991, 3234-3239): the MaxBlockSystemFee test in front
and `pool.Add` into an empty pool of capacity 1 behind; the in-block path has neither.
Core Lean only.
-/
import NeoModel.Model.AddBlock
namespace NeoModel.AddBlock
variable {L : Type}

/-- why a transaction of a block is refused (the error wrapped by "transaction … failed to verify"). -/
inductive TxErr
  | sysFeeLimit          -- ErrPolicy: SystemFee > MaxBlockSystemFee (off-chain entry only, blockchain.go:2987)
  | invalidScript        -- ErrInvalidScript (2999-3002)
  | expired              -- ErrTxExpired (3006)
  | notYetValid          -- ErrTxNotYetValid (3011)
  | policy               -- ErrPolicy: a signer is blocked (3016)
  | tooBig               -- ErrTxTooBig (3021)
  | smallNetFee          -- ErrTxSmallNetworkFee (3026)
  | alreadyExists        -- ErrAlreadyExists (3033)
  | hasConflicts         -- ErrHasConflicts: on-chain conflict record (3035)
  | witness              -- any error of verifyTxWitnesses (3040)
  | invalidAttr          -- ErrInvalidAttribute (3044)
  | poolDup              -- ErrAlreadyInPool (mempool.ErrDup)
  | poolConflictsAttr    -- "mempool: ErrHasConflicts" (mempool.ErrConflictsAttribute)
  | insufficientFunds    -- ErrInsufficientFunds
  | poolConflict         -- ErrMemPoolConflict: fee sum of the sender's pooled transactions
  | inBlockConflict      -- ErrMemPoolConflict: "conflicts with another transaction of the block" (1916-1919)
deriving DecidableEq, Repr

/-- what is stored under the executable key of a hash (dao.go:789-827). -/
inductive Rec
  | none                                              -- nothing (or a value shorter than 5 bytes)
  | block                                             -- a block record: "no conflict" (dao.go:799-804)
  | tx                                                -- a fully-qualified transaction
  | stub (index : Nat) (signers : List (Nat × Nat))   -- conflict record: newest index; per-signer records (account, index)
deriving DecidableEq, Repr

inductive Attr
  | highPriority
  | oracleResponse (scriptOk requestOk : Bool) (gasForResponse : Nat)
  | notValidBefore (height : Nat)
  | conflicts (hash : Nat)
  | notaryAssisted (nkeys : Nat)
  | other (typ : Nat)                -- any other attribute type value (reserved range 0xe0..0xff)
deriving DecidableEq, Repr

/-- attribute type values (pkg/core/transaction/attrtype.go). -/
def Attr.typ : Attr → Nat
  | .highPriority => 0x01
  | .oracleResponse .. => 0x11
  | .notValidBefore _ => 0x20
  | .conflicts _ => 0x21
  | .notaryAssisted _ => 0x22
  | .other t => t

/-- one witness, as verifyHashAgainstScript / InitVerificationContext see it. -/
inductive Witness
  /-- non-empty verification script: its hash equals the signer account; that account is a native
  contract; both scripts pass IsScriptCorrect; the VM run (given enough GAS) ends in HALT with exactly
  one `true` on the stack; the GAS the run consumes. -/
  | script (hashOk native scriptsOk result : Bool) (cost : Nat)
  /-- empty verification script: the deployed contract's `verify`, as a function of the GAS limit
  (`none` = any failure, incl. no such contract), not modelled further. -/
  | contract (run : Nat → Option Nat)

structure Signer where
  account : Nat
  scopeNone : Bool      -- Scopes == transaction.None

/-- the transaction as the verification reads it. `id`/`wit` identify the received object. -/
structure VTx where
  id : Nat
  wit : Nat
  scriptOk : Bool       -- scparser.IsScriptCorrect(t.Script) == nil
  sysFee : Nat
  netFee : Nat
  vub : Nat
  size : Nat
  signers : List Signer
  wits : List Witness   -- as many as signers (the decoder refuses anything else, transaction.go:205-215)
  attrs : List Attr

/-- the view the scratch pool of AddBlock's loop has of the transaction (`Tx` of Model/AddBlock). -/
def VTx.toTx (t : VTx) : Tx :=
  { id := t.id, wit := t.wit,
    sender := (t.signers.head?.map (·.account)).getD 0,
    fee := t.sysFee + t.netFee, netFee := t.netFee,
    conflicts := t.attrs.filterMap (fun a => match a with | .conflicts h => some h | _ => none) }

/-- the chain state and configuration the verification reads. -/
structure Chain where
  height : Nat
  maxVUBInc : Nat               -- GetMaxValidUntilBlockIncrement
  maxBlockSysFee : Nat          -- config.MaxBlockSystemFee (off-chain entry only)
  feePerByte : Nat
  maxVerGas : Nat               -- Policy.GetMaxVerificationGas
  mtb : Nat                     -- GetMaxTraceableBlocks
  p2pSigExt : Bool
  reservedAttrs : Bool
  notaryActive : Bool           -- hardfork of NotaryAssisted enabled at `height`
  attrFee : Nat → Nat           -- Policy.GetAttributeFeeInternal by type value
  blocked : Nat → Bool
  lookup : Nat → Rec
  committee : Nat               -- NEO.GetCommitteeAddress
  oracleHash : Option Nat       -- oracle contract initialised and the designated oracle nodes' address non-zero
  notary : Nat                  -- nativehashes.Notary

/-- transaction.MaxTransactionSize (transaction.go:26). -/
def maxTransactionSize : Nat := 102400
def attrReservedLower : Nat := 0xe0
def attrReservedUpper : Nat := 0xff

/-- `isTraceableBlock` (dao.go:829-832). -/
def isTraceable (index height mtb : Nat) : Bool := index ≤ height && index + mtb > height

/-- a conflict record that `dao.HasTransaction` reports for these signers (dao.go:805-826). -/
def stubHits (r : Rec) (signers : List Nat) (height mtb : Nat) : Bool :=
  match r with
  | .stub index recs =>
    signers.isEmpty ||
      (isTraceable index height mtb &&
        signers.any (fun a => recs.any (fun p => p.1 == a && isTraceable p.2 height mtb)))
  | _ => false

/-- `CalculateAttributesFee` (blockchain.go:3070-3087). -/
def attrsFee (c : Chain) (nsigners : Nat) : List Attr → Nat
  | [] => 0
  | a :: rest =>
    (match a with
      | .conflicts _ => c.attrFee a.typ * nsigners
      | .notaryAssisted nk => if c.p2pSigExt then c.attrFee a.typ * (nk + 1) else 0
      | _ => c.attrFee a.typ) + attrsFee c nsigners rest

/-- needNetworkFee (blockchain.go:3024). -/
def needFee (c : Chain) (t : VTx) : Nat := t.size * c.feePerByte + attrsFee c t.signers.length t.attrs

/-- verifyHashAgainstScript (blockchain.go:3481-3510) with `gas` left: the GAS consumed, or failure. -/
def verifyOne (c : Chain) (gas : Nat) : Witness → Option Nat
  | .script hashOk native scriptsOk result cost =>
    if !hashOk || native || !scriptsOk then none       -- InitVerificationContext (3428-3438, 3459-3463)
    else if cost > min gas c.maxVerGas then none        -- the VM faults: GAS limit exceeded (3482, 3490)
    else if !result then none                           -- no / more than one / non-boolean / false result (3493-3508)
    else some cost
  | .contract run => run (min gas c.maxVerGas)

/-- verifyTxWitnesses (blockchain.go:3520-3538): witness `i` gets what the previous ones left. -/
def verifyWitnesses (c : Chain) : Nat → List Witness → Option Nat
  | gas, [] => some gas
  | gas, w :: ws =>
    match verifyOne c gas w with
    | some used => verifyWitnesses c (gas - used) ws
    | none => none

/-- one attribute of verifyTxAttributes (blockchain.go:3092-3181). -/
def checkAttr (c : Chain) (t : VTx) : Attr → Bool
  | .highPriority => t.signers.any (·.account == c.committee)
  | .oracleResponse scriptOk requestOk gasForResponse =>
    match c.oracleHash with
    | none => false
    | some h =>
      t.signers.all (·.scopeNone) && t.signers.any (·.account == h) && scriptOk && requestOk
        && !(t.netFee + t.sysFee < gasForResponse)
  | .notValidBefore h => !(c.height < h)
  | .conflicts hash =>
    -- at most one Conflicts attribute with this hash, and the hash is not a transaction on chain
    (t.attrs.filter (fun b => match b with | .conflicts h' => h' == hash | _ => false)).length ≤ 1
      && !(c.lookup hash == .tx)
  | .notaryAssisted _ =>
    c.notaryActive && t.signers.any (·.account == c.notary)
      && !((t.signers.head?.map (·.account) == some c.notary) && t.signers.length != 2)
  | .other typ => !(!c.reservedAttrs && attrReservedLower ≤ typ && typ ≤ attrReservedUpper)

/-- verifyTxAttributes: every attribute passes. -/
def verifyAttrs (c : Chain) (t : VTx) : Bool := t.attrs.all (checkAttr c t)

/-- the accounts of the signers -/
def VTx.accounts (t : VTx) : List Nat := t.signers.map (·.account)

/-- the checks of verifyAndPoolTx before pool.Add, in the order written: (error class, passes). -/
def checks (c : Chain) (t : VTx) : List (TxErr × Bool) :=
  [ (.invalidScript, t.scriptOk),
    (.expired, !(t.vub ≤ c.height)),
    (.notYetValid, !(t.vub > c.height + c.maxVUBInc)),
    (.policy, !(t.accounts.any c.blocked)),
    (.tooBig, !(t.size > maxTransactionSize)),
    (.smallNetFee, !(t.netFee < needFee c t)),
    (.alreadyExists, !(c.lookup t.id == .tx)),
    (.hasConflicts, !(stubHits (c.lookup t.id) t.accounts c.height c.mtb)),
    (.witness, (verifyWitnesses c (t.netFee - needFee c t) t.wits).isSome),
    (.invalidAttr, verifyAttrs c t) ]

/-- verifyAndPoolTx up to pool.Add (blockchain.go:2996-3046), as written. `none` = verified. -/
def verifyTx (c : Chain) (t : VTx) : Option TxErr :=
  if !t.scriptOk then some .invalidScript
  else if t.vub ≤ c.height then some .expired
  else if t.vub > c.height + c.maxVUBInc then some .notYetValid
  else if t.accounts.any c.blocked then some .policy
  else if t.size > maxTransactionSize then some .tooBig
  else if t.netFee < needFee c t then some .smallNetFee
  else
    match c.lookup t.id with
    | .tx => some .alreadyExists
    | r =>
      if stubHits r t.accounts c.height c.mtb then some .hasConflicts
      else
        match verifyWitnesses c (t.netFee - needFee c t) t.wits with
        | none => some .witness
        | some _ => if !verifyAttrs c t then some .invalidAttr else none

/-- `VerifyTx` = verifyAndPoolOffChainTx into a fresh pool of capacity 1 (blockchain.go:2986-2991,
3234-3239; mem_pool.go checkBalance): `bal` = GAS balance of the sender. -/
def verifyOffChain (c : Chain) (bal : Nat) (t : VTx) : Option TxErr :=
  if t.sysFee > c.maxBlockSysFee then some .sysFeeLimit
  else
    match verifyTx c t with
    | some e => some e
    | none => if bal < t.sysFee + t.netFee then some .insufficientFunds else none

/-! ### which pooled transactions survive a block (the `keep` of the AddBlock model) -/

/-- what `fee.Calculate` knows of a witness without running it: the cost of a standard
(signature / multi-signature) verification script, `none` for anything else. -/
def Witness.stdCost : Witness → Option Nat
  | .script _ _ _ _ cost => some cost
  | .contract _ => none

/-- `Blockchain.IsTxStillRelevant(t, txpool, false)` (blockchain.go:3201-3249), as written, at the chain
state AFTER the block. `conf` = the conflict test: `txpool.HasConflicts(t)` (the transaction is in the
block, is named by a Conflicts attribute of a block transaction, or names a block transaction;
mem_pool.go:152-169) or, without a scratch pool, `dao.HasTransaction(..) != nil`. `std` = per witness the
cost `fee.Calculate` gives for a standard verification script, `none` for a non-standard one. -/
def stillRelevant (c : Chain) (t : VTx) (conf : Bool) (std : List (Option Nat)) : Bool :=
  if t.vub ≤ c.height then false
  else if t.vub > c.height + c.maxVUBInc then false
  else if conf then false
  else if t.accounts.any c.blocked then false
  else if t.netFee < needFee c t then false
  else if !verifyAttrs c t then false
  else if std.all Option.isSome then decide (needFee c t + (std.filterMap id).sum ≤ t.netFee)
  else (verifyWitnesses c (t.netFee - needFee c t) t.wits).isSome

/-- `Pool.RemoveStale` keeps a pooled transaction (mem_pool.go:433-479): still relevant, and the sender can
still pay it (`tryAddSendersFee`; the pool's fee-per-byte test is implied by the network-fee test of
IsTxStillRelevant). For the only pooled transaction of its sender. -/
def keptInPool (c : Chain) (bal : Nat) (t : VTx) (conf : Bool) : Bool :=
  stillRelevant c t conf (t.wits.map Witness.stdCost) && decide (t.sysFee + t.netFee ≤ bal)

/-- the hashes named by the Conflicts attributes -/
def VTx.confHashes (t : VTx) : List Nat :=
  t.attrs.filterMap (fun a => match a with | .conflicts h => some h | _ => none)

/-- `txpool.HasConflicts(t)` for the scratch pool holding the block's transactions (mem_pool.go:152-169):
`t` is in the block, a block transaction names it, or it names a block transaction. -/
def blockConflict (txs : List VTx) (t : VTx) : Bool :=
  txs.any (fun q => q.id == t.id) || txs.any (fun q => q.confHashes.contains t.id) ||
    t.confHashes.any (fun h => txs.any (fun q => q.id == h))

/-- what a block's transactions leave under a hash (dao.StoreAsTransaction, dao.go:947-991): the
transaction record under its own hash, a conflict record (content `stub x`) under every hash one of them
names, everything else untouched. -/
def lookupAfter (look : Nat → Rec) (txs : List VTx) (stub : Nat → Rec) : Nat → Rec := fun x =>
  if txs.any (fun q => q.id == x) then .tx
  else if txs.any (fun q => q.confHashes.contains x) then stub x
  else look x

/-! ### how the conflict record under a hash comes about -/

/-- the conflict-record part of `dao.StoreAsTransaction` (dao.go:963-990) for ONE Conflicts attribute of a
transaction stored at block `idx` with signers `signers`, applied to what is stored under the named hash:
a block record is left alone (short path), anything else is replaced by the 5-byte stub carrying THIS
index, and every signer's record is (re)written with this index; records of other signers stay. -/
def storeConflict (r : Rec) (idx : Nat) (signers : List Nat) : Rec :=
  match r with
  | .block => .block
  | .stub _ recs => .stub idx (signers.map (fun a => (a, idx)) ++ recs.filter (fun p => !signers.contains p.1))
  | _ => .stub idx (signers.map (fun a => (a, idx)))

/-- the record under a hash after the conflicting transactions `hist` = [(block index, signers), ...]
were stored in this order, starting from nothing. -/
def recordOf (hist : List (Nat × List Nat)) : Rec :=
  hist.foldl (fun r p => storeConflict r p.1 p.2) .none

/-- the specification `dao.HasTransaction` is meant to implement for a hash that is not a transaction
on chain: some conflicting transaction that shares a signer with the asking one is inside the
traceability window. -/
def conflictInWindow (hist : List (Nat × List Nat)) (signers : List Nat) (height mtb : Nat) : Bool :=
  hist.any (fun p => isTraceable p.1 height mtb && signers.any (fun a => p.2.contains a))

/-! ### GAS.OnPersist's fee burn -/

/-- GAS.OnPersist (pkg/core/native/native_gas.go:109-117) burns SystemFee + NetworkFee of every
transaction of the block from its sender, in order; burning more than the balance fails the persisting
script and with it storeBlock. Amounts are non-negative, so the burns succeed iff every sender's balance
covers the sum of its fees in the block. -/
def burnOK (bal : Nat → Nat) (txs : List Tx) : Bool :=
  txs.all (fun t => decide (sumBy (·.fee) (txs.filter (fun q => q.sender == t.sender)) ≤ bal t.sender))

/-! ### the transaction loop with the reason of the refusal -/

/-- mempool.Pool.Add into the scratch pool with its error class (`poolAdd` of Model/AddBlock says
only whether). -/
def poolAddE (bal : Nat → Nat) (p : List Tx) (t : Tx) : Except TxErr (List Tx) :=
  if p.any (fun q => q.id == t.id) then .error .poolDup
  else if (namesOf p t).any (fun q => q.sender != t.sender) then .error .poolConflictsAttr
  else if conflictFee p t != 0 && decide (t.netFee ≤ conflictFee p t) then .error .poolConflictsAttr
  else if bal t.sender < t.fee then .error .insufficientFunds
  else if bal t.sender < t.fee + (pooledFee p t - freedFee p t) then .error .poolConflict
  else .ok (p.filter (fun q => !((evicted p t).any (fun x => x.id == q.id))) ++ [t])

/-- one turn of the loop of AddBlock (blockchain.go:1901-1920): the mempool shortcut or the full
verification, then pool.Add into the scratch pool `p`, then the `mp.Count() != added` test.
`why t` = verdict of verifyAndPoolTx's checks before pool.Add. -/
def txStepE (env : Env L) (s : Node L) (why : Tx → Option TxErr) (p : List Tx) (t : Tx) : Except TxErr (List Tx) :=
  let r : Except TxErr (List Tx) :=
    if pooledSame s t then poolAddE (env.balance s.ledger) p t
    else match why t with
      | some e => .error e
      | none => poolAddE (env.balance s.ledger) p t
  match r with
  | .ok p' => if p'.length == p.length + 1 then .ok p' else .error .inBlockConflict
  | .error e => .error e

/-- the loop with VerifyTransactions on (blockchain.go:1901-1927): position and reason of the first
refusal ("transaction %s failed to verify: %w"). -/
def txLoopE (env : Env L) (s : Node L) (why : Tx → Option TxErr) : Nat → List Tx → List Tx → Option (Nat × TxErr)
  | _, _, [] => none
  | i, p, t :: rest =>
    match txStepE env s why p t with
    | .ok p' => txLoopE env s why (i + 1) p' rest
    | .error e => some (i, e)

end NeoModel.AddBlock
