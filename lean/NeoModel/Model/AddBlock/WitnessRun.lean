/-
C06 — the facts verifyHashAgainstScript reads of a witness given as BYTES, computed by running the scripts:
the price interpreter of Model/Fees.lean (C07's model of the VM on the opcodes standard witnesses use,
imported read-only) runs invocation + verification script on one stack; FAULT -> the witness never
verifies; else the Boolean left on the stack and the GAS consumed. `verifyOne` then applies the GAS limit
to the total (the interpreter charges monotonically, so "total ≤ limit" is "no FAULT for GAS").
Signature checking itself stays outside: `pairs` lists the (public key ‖ signature) pairs that verify for
the container. Core Lean only.
-/
import NeoModel.Model.AddBlock.TxVerify
import NeoModel.Model.Fees
namespace NeoModel.AddBlock

def chunks97 : Nat → Bytes → List Bytes
  | 0, _ => []
  | fuel + 1, bs => if bs.isEmpty then [] else bs.take 97 :: chunks97 fuel (bs.drop 97)

/-- keys.NewPublicKeyFromBytes accepts the bytes (compressed form; the harness only offers points on the curve) -/
def keyOk (k : Bytes) : Bool := k.length == 33 && (k.headD 0 == 2 || k.headD 0 == 3)

/-- a witness from its scripts: `base` = exec fee factor (picoGAS per price unit), `gorgon` = the 64-byte
signature rule, `hashOk` = the verification script hashes to the signer account, `verify key sig`. -/
def witnessRun (base : Nat) (gorgon hashOk : Bool) (verify : Bytes → Bytes → Bool) (inv ver : Bytes) : Witness :=
  match NeoModel.Fees.runWitness ⟨base, none, gorgon, keyOk, verify⟩ inv ver with
  | none => .script hashOk false false false 0
  | some s =>
    let res := match s.stack with
      | [it] => it.tryBool == some true
      | _ => false
    .script hashOk false true res (NeoModel.Fees.picoToDatoshi s.gas)

def witnessFromBytes (base : Nat) (gorgon hashOk : Bool) (inv ver pairs : Bytes) : Witness :=
  let ps := chunks97 pairs.length pairs
  witnessRun base gorgon hashOk (fun k sg => ps.contains (k ++ sg)) inv ver

end NeoModel.AddBlock
