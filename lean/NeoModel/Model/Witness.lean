/-
C15 — model of witness checking, as the code is written now.

  pkg/core/interop/runtime/witness.go:21-113   CheckHashedWitness, getContractGroups, scopeContext, checkScope
  pkg/core/transaction/witness_condition.go    WitnessCondition.Match (117-579), decodeBinaryCondition (242-260, 620-664)
  pkg/core/transaction/witness_rule.go:39-52   WitnessRule (action byte, Allow = 1)
  pkg/core/transaction/witness_scope.go:14-31  scope bits
  pkg/core/transaction/signer.go:17-27,51-74   Signer, maxSubitems, DecodeBinary
  pkg/vm/context.go:176-181                    Context.IsCalledByEntry (script-context chain)
  pkg/vm/vm.go:478-497, 2204-2216              loadScriptWithCallingHash (callingContext / callingScriptHash), Get*ScriptHash

Core Lean only. Hashes and keys are natural numbers (the value of the 20 / 33 bytes); `0` is `util.Uint160{}`.
-/
import NeoModel.Base.Hex
import NeoModel.Model.Wire.VarUint
namespace NeoModel.Witness

abbrev Hash := Nat
abbrev Key := Nat

/-- `transaction.WitnessCondition` (witness_condition.go:78-99). -/
inductive Cond where
  | boolean (b : Bool)
  | not (c : Cond)
  | and (cs : List Cond)
  | or (cs : List Cond)
  | scriptHash (h : Hash)
  | group (k : Key)
  | calledByEntry
  | calledByContract (h : Hash)
  | calledByGroup (k : Key)
deriving Repr, Inhabited

/-- the two ways `CheckHashedWitness` returns an error (the syscall then faults). -/
inductive Err where
  | noSigners      -- witness.go:68  "no valid signers"
  | noReadStates   -- witness.go:36  "missing ReadStates call flag"
deriving Repr, DecidableEq

/-- `(bool, error)` of the Go functions. -/
inductive Res where
  | ok (b : Bool)
  | err (e : Err)
deriving Repr, DecidableEq

/-- One script context of the VM (vm/context.go:21-63), the fields the witness check reads. -/
structure Frame where
  hash : Hash          -- scriptHash
  caller : Hash        -- callingScriptHash, set by loadScriptWithCallingHash (vm.go:497)
  readStates : Bool    -- callFlag.Has(callflag.ReadStates)
deriving Repr

/-- What `CheckHashedWitness` reads from the VM and the interop context.
`cur` is the executing script context, `parents` the `callingContext` chain (nearest first, entry script
last; empty when `cur` is the entry script), `contracts h` = `ic.GetContract(h)` reduced to the group keys
of the manifest (`none`: no such contract). -/
structure Env where
  cur : Frame
  parents : List Frame
  contracts : Hash → Option (List Key)

/-- loading a new script context on top of `e` (vm.go:478-497: `ctx.sc.callingContext = parent.sc`). -/
def Env.push (e : Env) (f : Frame) : Env := { e with cur := f, parents := e.cur :: e.parents }

/-- the environment after the entry script `f0` and the successive loads `fs` (outermost first). -/
def Env.ofCalls (k : Hash → Option (List Key)) (f0 : Frame) (fs : List Frame) : Env :=
  fs.foldl Env.push { cur := f0, parents := [], contracts := k }

/-- vm.go:2214 GetCurrentScriptHash. -/
def Env.current (e : Env) : Hash := e.cur.hash
/-- vm.go:2204 GetCallingScriptHash. -/
def Env.calling (e : Env) : Hash := e.cur.caller
/-- vm.go:2209 GetEntryScriptHash (bottom of the invocation stack). Not read by the witness check. -/
def Env.entry (e : Env) : Hash := ((e.cur :: e.parents).getLast?.getD e.cur).hash

/-- vm/context.go:178 `c.sc.callingContext == nil || c.sc.callingContext.callingContext == nil`. -/
def Env.isCalledByEntry (e : Env) : Bool :=
  match e.parents with
  | [] => true
  | [_] => true
  | _ :: _ :: _ => false

/-- witness.go:34-43 getContractGroups: the flag of the *executing* context is checked whatever `h` is;
a missing contract is not an error. -/
def getContractGroups (e : Env) (h : Hash) : Except Err (List Key) :=
  if !e.cur.readStates then .error .noReadStates
  else match e.contracts h with
    | none => .ok []
    | some gs => .ok gs

/-- witness.go:49-55 checkScriptGroups. -/
def checkScriptGroups (e : Env) (h : Hash) (k : Key) : Res :=
  match getContractGroups e h with
  | .error x => .err x
  | .ok gs => .ok (gs.contains k)

mutual
/-- `WitnessCondition.Match` with the `scopeContext` of witness.go:29-63. -/
def matchC (e : Env) : Cond → Res
  | .boolean b => .ok b                                            -- :117
  | .not c => match matchC e c with                                -- :168 ((err == nil) && !res), err
    | .ok r => .ok (!r)
    | .err x => .err x
  | .and cs => matchAnd e cs                                       -- :223
  | .or cs => matchOr e cs                                         -- :320
  | .scriptHash h => .ok (h == e.current)                          -- :381
  | .group k => checkScriptGroups e e.current k                    -- :431
  | .calledByEntry => .ok e.isCalledByEntry                        -- :481
  | .calledByContract h => .ok (h == e.calling)                    -- :527
  | .calledByGroup k => checkScriptGroups e e.calling k            -- :577
/-- ConditionAnd.Match loop (:224-233). -/
def matchAnd (e : Env) : List Cond → Res
  | [] => .ok true
  | c :: cs => match matchC e c with
    | .err x => .err x
    | .ok false => .ok false
    | .ok true => matchAnd e cs
/-- ConditionOr.Match loop (:321-330). -/
def matchOr (e : Env) : List Cond → Res
  | [] => .ok false
  | c :: cs => match matchC e c with
    | .err x => .err x
    | .ok true => .ok true
    | .ok false => matchOr e cs
end

/-- witness_rule.go:27-30. `action` is the raw byte: Deny = 0, Allow = 1. -/
structure Rule where
  action : Nat
  cond : Cond
deriving Repr

/-- signer.go:20-26. `scopes` is the raw scope byte. -/
structure Signer where
  account : Hash
  scopes : Nat
  allowedContracts : List Hash
  allowedGroups : List Key
  rules : List Rule
deriving Repr

-- witness_scope.go:14-31 (compared with the regenerated table in Props/C15.lean)
def scCalledByEntry : Nat := 0x01
def scCustomContracts : Nat := 0x10
def scCustomGroups : Nat := 0x20
def scRules : Nat := 0x40
def scGlobal : Nat := 0x80
/-- witness_rule.go:24. -/
def actAllow : Nat := 1
/-- witness_condition.go:43. -/
def maxConditionNesting : Nat := 3
/-- signer.go:17. -/
def maxSubitems : Nat := 16

/-- `c.Scopes & bit != 0`. -/
def hasScope (s bit : Nat) : Bool := (s &&& bit) != 0

/-- witness.go:99-107: the rule loop. The first rule whose condition matches decides. -/
def evalRules (e : Env) : List Rule → Res
  | [] => .ok false
  | r :: rs => match matchC e r.cond with
    | .err x => .err x
    | .ok true => .ok (r.action == actAllow)
    | .ok false => evalRules e rs

/-- witness.go:97-109 (the `Rules` step and the final `return false, nil`). -/
def stepRules (e : Env) (c : Signer) : Res :=
  if hasScope c.scopes scRules then evalRules e c.rules else .ok false

/-- witness.go:87-96 (the `CustomGroups` step), then the rest. -/
def stepGroups (e : Env) (c : Signer) : Res :=
  if hasScope c.scopes scCustomGroups then
    match getContractGroups e e.current with
    | .error x => .err x
    | .ok gs => if c.allowedGroups.any (fun k => gs.contains k) then .ok true else stepRules e c
  else stepRules e c

/-- witness.go:73-109: the body executed for the signer whose account is the checked hash. -/
def checkSigner (e : Env) (c : Signer) : Res :=
  if c.scopes == scGlobal then .ok true                                                        -- :73
  else if hasScope c.scopes scCalledByEntry && e.isCalledByEntry then .ok true                  -- :76
  else if hasScope c.scopes scCustomContracts && c.allowedContracts.contains e.current then .ok true  -- :81
  else stepGroups e c

/-- witness.go:70-112: the loop over the signers; the first signer with the account decides. -/
def scanSigners (e : Env) (h : Hash) : List Signer → Res
  | [] => .ok false
  | c :: cs => if c.account == h then checkSigner e c else scanSigners e h cs

/-- witness.go:65-113 checkScope. -/
def checkScope (e : Env) (signers : List Signer) (h : Hash) : Res :=
  if signers.isEmpty then .err .noSigners else scanSigners e h signers

/-- witness.go:21-27 CheckHashedWitness: a contract always witnesses the calls it makes itself. -/
def checkWitness (e : Env) (signers : List Signer) (h : Hash) : Res :=
  if e.calling != 0 && h == e.calling then .ok true else checkScope e signers h

/-! ### Binary decoder of conditions (witness_condition.go:242-260, 620-664) -/

/-- big-endian value of a byte string (hashes and keys as numbers). -/
def beVal (bs : Bytes) : Nat := bs.foldl (fun a b => a * 256 + b.toNat) 0

/-- `r.ReadBytes(c[:])` for a 20-byte hash. -/
def readHash (bs : Bytes) : Option (Hash × Bytes) :=
  (Wire.takeN 20 bs).map fun (x, r) => (beVal x, r)

/-- decode `n` items with `dec`, failing on the first failure (the reader's error is sticky). -/
def decodeN (dec : Bytes → Option (Cond × Bytes)) : Nat → Bytes → Option (List Cond × Bytes)
  | 0, bs => some ([], bs)
  | n+1, bs => match dec bs with
    | none => none
    | some (c, r) => match decodeN dec n r with
      | none => none
      | some (cs, r') => some (c :: cs, r')

/-- readArrayOfConditions (:242-260): items are decoded by `dec` (= depth − 1). -/
def readArrayOfConditions (dec : Bytes → Option (Cond × Bytes)) (bs : Bytes) : Option (List Cond × Bytes) :=
  match Wire.readVarUint bs with
  | none => none
  | some (l, r) =>
    if l == 0 then none                 -- "empty array of conditions"
    else if l > maxSubitems then none   -- "too many elements"
    else decodeN dec l r

-- witness_condition.go:22-40, the type bytes (compared with the regenerated table in Props/C15.lean)
def tBoolean : UInt8 := 0x00
def tNot : UInt8 := 0x01
def tAnd : UInt8 := 0x02
def tOr : UInt8 := 0x03
def tScriptHash : UInt8 := 0x18
def tGroup : UInt8 := 0x19
def tCalledByEntry : UInt8 := 0x20
def tCalledByContract : UInt8 := 0x28
def tCalledByGroup : UInt8 := 0x29
/-- the type bytes in the order of the constructors of `Cond`. -/
def condTypes : List Nat := [tBoolean, tNot, tAnd, tOr, tScriptHash, tGroup, tCalledByEntry, tCalledByContract,
  tCalledByGroup].map (·.toNat)

/-- decodeBinaryCondition (:625-664). `decKey` stands for `keys.PublicKey.DecodeBinary` (curve arithmetic is
not modelled); the first argument is `maxDepth`. -/
def decodeCond (decKey : Bytes → Option (Key × Bytes)) : Nat → Bytes → Option (Cond × Bytes)
  | 0, _ => none                                   -- "too many nesting levels"
  | d+1, bs => match bs with
    | [] => none
    | t :: rest =>
      if t = tBoolean then match rest with
        | [] => none
        | b :: r => some (.boolean (b != 0), r)     -- ReadBool
      else if t = tNot then match decodeCond decKey d rest with
        | none => none
        | some (c, r) => some (.not c, r)
      else if t = tAnd then match readArrayOfConditions (decodeCond decKey d) rest with
        | none => none
        | some (cs, r) => some (.and cs, r)
      else if t = tOr then match readArrayOfConditions (decodeCond decKey d) rest with
        | none => none
        | some (cs, r) => some (.or cs, r)
      else if t = tScriptHash then (readHash rest).map fun (h, r) => (.scriptHash h, r)
      else if t = tGroup then (decKey rest).map fun (k, r) => (.group k, r)
      else if t = tCalledByEntry then some (.calledByEntry, rest)
      else if t = tCalledByContract then (readHash rest).map fun (h, r) => (.calledByContract h, r)
      else if t = tCalledByGroup then (decKey rest).map fun (k, r) => (.calledByGroup k, r)
      else none                                     -- "invalid condition type"

/-- DecodeBinaryCondition (:621). -/
def decodeBinaryCondition (decKey : Bytes → Option (Key × Bytes)) (bs : Bytes) : Option (Cond × Bytes) :=
  decodeCond decKey maxConditionNesting bs

mutual
/-- nesting depth of a tree: a leaf has depth 1. -/
def Cond.depth : Cond → Nat
  | .not c => c.depth + 1
  | .and cs => depthList cs + 1
  | .or cs => depthList cs + 1
  | _ => 1
def depthList : List Cond → Nat
  | [] => 0
  | c :: cs => max c.depth (depthList cs)
end

mutual
/-- every And/Or of the tree has between 1 and `maxSubitems` operands. -/
def Cond.widthOk : Cond → Bool
  | .not c => c.widthOk
  | .and cs => cs.length != 0 && cs.length ≤ maxSubitems && widthOkList cs
  | .or cs => cs.length != 0 && cs.length ≤ maxSubitems && widthOkList cs
  | _ => true
def widthOkList : List Cond → Bool
  | [] => true
  | c :: cs => c.widthOk && widthOkList cs
end

mutual
/-- The two decoders whose input is already tree shaped — `condFromStackItem` (:668-770, used by
WitnessRule.FromStackItem) and `unmarshalConditionJSON` (:772-858) — apply the same limits while they
descend: `admits c maxDepth` tells whether they accept the tree `c`. -/
def admits : Cond → Nat → Bool
  | _, 0 => false                                 -- "too many nesting levels"
  | .not c, d+1 => admits c d
  | .and cs, d+1 => cs.length != 0 && cs.length ≤ maxSubitems && admitsAll cs d
  | .or cs, d+1 => cs.length != 0 && cs.length ≤ maxSubitems && admitsAll cs d
  | .boolean _, _+1 => true
  | .scriptHash _, _+1 => true
  | .group _, _+1 => true
  | .calledByEntry, _+1 => true
  | .calledByContract _, _+1 => true
  | .calledByGroup _, _+1 => true
def admitsAll : List Cond → Nat → Bool
  | [], _ => true
  | c :: cs, d => admits c d && admitsAll cs d
end

/-- the environment with another contract table (same VM state). -/
def Env.withContracts (e : Env) (k : Hash → Option (List Key)) : Env := { e with contracts := k }

/-! ### Binary decoder of signers (signer.go:50-72, witness_rule.go:45-52, io/binaryReader.go:103-149) -/


/-- decode `n` items with `dec`, failing on the first failure. -/
def decodeMany {α : Type} (dec : Bytes → Option (α × Bytes)) : Nat → Bytes → Option (List α × Bytes)
  | 0, bs => some ([], bs)
  | n+1, bs => match dec bs with
    | none => none
    | some (x, r) => match decodeMany dec n r with
      | none => none
      | some (xs, r') => some (x :: xs, r')

/-- io.BinReader.ReadArray with a maximum (binaryReader.go:103-149): a var-uint count, then the elements. -/
def readArrayMax {α : Type} (dec : Bytes → Option (α × Bytes)) (max : Nat) (bs : Bytes) : Option (List α × Bytes) :=
  match Wire.readVarUint bs with
  | none => none
  | some (l, r) => if l > max then none else decodeMany dec l r

/-- WitnessRule.DecodeBinary (witness_rule.go:45-52). -/
def decodeRule (decKey : Bytes → Option (Key × Bytes)) (bs : Bytes) : Option (Rule × Bytes) :=
  match bs with
  | [] => none
  | a :: rest =>
    if a.toNat != 0 && a.toNat != actAllow then none        -- "unknown witness rule action"
    else match decodeBinaryCondition decKey rest with
      | none => none
      | some (c, r) => some ({ action := a.toNat, cond := c }, r)

/-- the scope byte checks of Signer.DecodeBinary (signer.go:53-60): no unknown bit, Global only alone. -/
def validScopes (s : Nat) : Bool :=
  (s &&& 0x0E) == 0 && !(hasScope s scGlobal && s != scGlobal)

/-- Signer.DecodeBinary (signer.go:50-72). -/
def decodeSigner (decKey : Bytes → Option (Key × Bytes)) (bs : Bytes) : Option (Signer × Bytes) :=
  match readHash bs with
  | none => none
  | some (acc, r0) => match r0 with
    | [] => none
    | sb :: r1 =>
      let sc := sb.toNat
      if !validScopes sc then none
      else
        match (if hasScope sc scCustomContracts then readArrayMax readHash maxSubitems r1 else some ([], r1)) with
        | none => none
        | some (cs, r2) =>
          match (if hasScope sc scCustomGroups then readArrayMax decKey maxSubitems r2 else some ([], r2)) with
          | none => none
          | some (gs, r3) =>
            match (if hasScope sc scRules then readArrayMax (decodeRule decKey) maxSubitems r3 else some ([], r3)) with
            | none => none
            | some (rs, r4) =>
              some ({ account := acc, scopes := sc, allowedContracts := cs, allowedGroups := gs, rules := rs }, r4)

/-! ### Binary encoder of conditions -/


/-- big-endian bytes of `v`, exactly `n` of them. -/
def beBytes : Nat → Nat → Bytes
  | 0, _ => []
  | n+1, v => UInt8.ofNat (v / 256 ^ n % 256) :: beBytes n v

mutual
/-- WitnessCondition.EncodeBinary (witness_condition.go:122-585). -/
def encodeCond (encKey : Key → Bytes) : Cond → Bytes
  | .boolean b => [tBoolean, if b then 1 else 0]
  | .not c => tNot :: encodeCond encKey c
  | .and cs => tAnd :: (Wire.putVarUint cs.length ++ encodeConds encKey cs)
  | .or cs => tOr :: (Wire.putVarUint cs.length ++ encodeConds encKey cs)
  | .scriptHash h => tScriptHash :: beBytes 20 h
  | .group k => tGroup :: encKey k
  | .calledByEntry => [tCalledByEntry]
  | .calledByContract h => tCalledByContract :: beBytes 20 h
  | .calledByGroup k => tCalledByGroup :: encKey k
def encodeConds (encKey : Key → Bytes) : List Cond → Bytes
  | [] => []
  | c :: cs => encodeCond encKey c ++ encodeConds encKey cs
end

mutual
/-- every hash of the tree fits 20 bytes. -/
def Cond.hashesOk : Cond → Prop
  | .not c => c.hashesOk
  | .and cs => hashesOkList cs
  | .or cs => hashesOkList cs
  | .scriptHash h => h < 2 ^ 160
  | .calledByContract h => h < 2 ^ 160
  | _ => True
def hashesOkList : List Cond → Prop
  | [] => True
  | c :: cs => c.hashesOk ∧ hashesOkList cs
end

end NeoModel.Witness
