/-
C12: the NeoVM item-accounting model (implementation counter `refs` as vm.go maintains it, and the
specification count `reach` found by walking). See VmAcct/Heap.lean and VmAcct/Machine.lean.
-/
import NeoModel.Model.VmAcct.Heap
import NeoModel.Model.VmAcct.Machine
