/-
C09 — Persist / PersistSync as multi-step operations of concurrent goroutines, with `plock` and `mut` as
explicit locks (memcached_store.go:372-452):

  s.plock.Lock()                                   lockP   (l.397; PersistSync and Persist alike)
  s.mut.Lock(); keys == 0 → unlock both, return    begin   (l.399-405)
  tempstore{mem,stor: s.mem,s.stor; ps: s.ps}; s.ps = tempstore; fresh maps;
  if !isSync { s.mut.Unlock() }                            (l.411-419: one critical section)
  tempstore.ps.PutChangeSet(tempstore.mem, tempstore.stor)   lower   (l.420; may fail)
  if !isSync { s.mut.Lock() }; s.ps = tempstore.ps (on failure: the tempstore's entries go back into the
  new maps); s.mut.Unlock(); plock released; return keys     finish  (l.422-444)
  Put / Delete / PutChangeSet: s.mut.Lock(); write; Unlock    write   (l.109-153)
  Get / prepareSeekMemSnapshot: under s.mut.RLock             read

The cache's content is abstracted to the list of the identities of the writes it holds; the lower store
of a tempstore is whatever `s.ps` was at the swap — the backend, or (if two flushes could overlap) the
tempstore of another flush, whose maps a `PutChangeSet` just copies into. `direct = true` adds the rule of
seeded change C09-m6 (PersistSync without plock, writing s.mem/s.stor straight to s.ps under s.mut) for the
regression example. Core Lean only.
-/
namespace NeoModel.Store.Flush

/-- where a `ps` pointer points. -/
inductive Tgt where
  | backend
  | temp (owner : Nat)     -- the tempstore of the flush run by goroutine `owner`
  deriving Repr, DecidableEq

/-- one goroutine: 0 idle, 1 holds plock, 2 maps swapped / lower write pending, 3 lower write returned. -/
structure Th where
  pc : Nat := 0
  sync : Bool := false
  tmp : List Nat := []       -- the content of its tempstore
  batch : List Nat := []     -- what `keys` counted at the swap (l.401): the batch it will report
  tgt : Tgt := .backend      -- `tempstore.ps`
  ok : Bool := true          -- did the lower PutChangeSet succeed
  deriving Repr, DecidableEq

structure St where
  plock : Option Nat := none
  mtx : Option Nat := none         -- the goroutine holding s.mtx for writing (PersistSync holds it across the lower write)
  mem : List Nat := []             -- s.mem / s.stor: the pending writes
  ps : Tgt := .backend             -- s.ps
  backend : List Nat := []
  reported : List (List Nat) := [] -- the batches some flush returned as flushed (keys, nil)
  written : List Nat := []         -- ghost: every write ever made
  th : Nat → Th := fun _ => {}

def St.setTh (s : St) (t : Nat) (v : Th) : St := { s with th := fun u => if u = t then v else s.th u }

inductive Act where
  | lockP (t : Nat) (sync : Bool)
  | begin (t : Nat)
  | lower (t : Nat) (ok : Bool)
  | finish (t : Nat)
  | write (t : Nat) (id : Nat)
  | read (t : Nat)
  | direct (t : Nat)               -- C09-m6 only: PersistSync bypassing plock
  deriving Repr, DecidableEq

/-- `PutChangeSet` on what a `ps` pointer points to. -/
def St.putTo (s : St) (tg : Tgt) (batch : List Nat) : St :=
  match tg with
  | .backend => { s with backend := s.backend ++ batch }
  | .temp o => s.setTh o { s.th o with tmp := (s.th o).tmp ++ batch }

/-- one step of goroutine `t`; `none`: the step is not enabled (the goroutine waits). -/
def step (direct : Bool) (s : St) : Act → Option St
  | .lockP t sync =>
    if (s.th t).pc = 0 ∧ s.plock = none then
      some ({ s with plock := some t }.setTh t { s.th t with pc := 1, sync := sync })
    else none
  | .begin t =>
    if (s.th t).pc = 1 ∧ s.mtx = none then
      if s.mem = [] then some ({ s with plock := none }.setTh t { s.th t with pc := 0 })
      else
        some ({ s with mem := [], ps := .temp t, mtx := if (s.th t).sync then some t else none }.setTh t
          { s.th t with pc := 2, tmp := s.mem, batch := s.mem, tgt := s.ps })
    else none
  | .lower t ok =>
    if (s.th t).pc = 2 then
      let s1 := if ok then s.putTo (s.th t).tgt (s.th t).tmp else s
      some (s1.setTh t { s1.th t with pc := 3, ok := ok })
    else none
  | .finish t =>
    if (s.th t).pc = 3 ∧ ((s.th t).sync = true ∨ s.mtx = none) then
      let me := s.th t
      some ({ s with ps := me.tgt, plock := none, mtx := none,
                     mem := if me.ok then s.mem else me.tmp ++ s.mem,
                     reported := if me.ok then me.batch :: s.reported else s.reported }.setTh t { me with pc := 0, tmp := [] })
    else none
  | .write t id =>
    if (s.th t).pc = 0 ∧ s.mtx = none then some { s with mem := s.mem ++ [id], written := s.written ++ [id] } else none
  | .read t =>
    if (s.th t).pc = 0 ∧ s.mtx = none then some s else none
  | .direct t =>
    if direct ∧ (s.th t).pc = 0 ∧ s.mtx = none then
      if s.mem = [] then some s
      else some { (s.putTo s.ps s.mem) with mem := [], reported := s.mem :: s.reported }
    else none

/-- a schedule: steps that are not enabled are skipped (that goroutine was waiting). -/
def run (direct : Bool) : St → List Act → St
  | s, [] => s
  | s, a :: as => run direct ((step direct s a).getD s) as

def init : St := {}

/-- is a second flush by goroutine 1 (sync or not) able to start while goroutine 0's Persist of a non-empty
cache is in flight — in window 1 (maps swapped, lower write pending) or 2 (lower write done, `ps` not
restored)? (what the `overlap` line of the stream observes: `blocked`) -/
def overlapBlocked (sync : Bool) (window : Nat) : Bool :=
  let s := run false init ([.write 2 7, .lockP 0 false, .begin 0] ++ (if window = 2 then [.lower 0 true] else []))
  (step false s (.lockP 1 sync)).isNone

end NeoModel.Store.Flush
