/-
C09 — SeekGC on BoltDB at the level of the cursor: `BoltDBStore.SeekGC` (boltdb_store.go:129-141) runs
the loop of `boltSeek` (l.152-187) inside ONE read-write transaction and calls `c.Delete()` on the item
the cursor stands on before moving on with `c.Next()` / `c.Prev()`. The model below keeps the current
bucket contents as state and moves the cursor on the contents AFTER the deletion (the bbolt cursor
contract: after a `Delete` at the cursor, `Next`/`Prev` is the nearest remaining key in that direction).
`Proofs/StoreGCLoop.lean` proves this loop equal to the one-shot `Store.seekGC` of Model/Store.lean.
The in-memory stores and LevelDB iterate over a snapshot taken before the first deletion
(memory_store.go:120-136: `memList` is complete before `f` is called; goleveldb: the transaction's
iterator does not see the transaction's later writes), which is what `Store.seekGC` says literally.
Core Lean only.
-/
import NeoModel.Model.Store
namespace NeoModel.Store

/-- `c.Next()` (`bw = false`) / `c.Prev()` (`bw = true`) from the position of key `k` (present or just
deleted) in the current bucket `db`. -/
def cursorStep (db : List KV) (bw : Bool) (k : Key) : Option KV :=
  ((sortKV bw db).filter (fun e => ltDir bw k e.1)).head?

/-- the first position of `boltSeek` (l.163-174): `c.Seek(rang.Start)` forwards; `c.Last()` resp.
`c.Seek(rang.Limit); c.Prev()` backwards. -/
def cursorFirst (db : List KV) (rng : SeekRange) : Option KV :=
  let sorted := sortKV false db
  if !rng.bw then (sorted.dropWhile (fun e => lexLt e.1 (seekRangeToPrefixes rng).1)).head?
  else (boltBelow rng sorted).reverse.head?

/-- the `for` loop of `boltSeek` (l.176-185) with the SeekGC callback (l.130-139): guard, visit,
`c.Delete()` if not kept, stop if the callback says so, else move the cursor in the current bucket. -/
def boltGCLoop (rng : SeekRange) (keep : Key → Bool) (lim : Nat) : Nat → Option KV → List KV → List KV → List KV × List KV
  | 0, _, vis, db => (vis, db)
  | _ + 1, none, vis, db => (vis, db)
  | fuel + 1, some e, vis, db =>
    if !boltGuard rng e.1 then (vis, db)
    else
      let vis' := vis ++ [e]
      let db' := if keep e.1 then db else dbDel db e.1
      if !contOK lim vis' then (vis', db')
      else boltGCLoop rng keep lim fuel (cursorStep db' rng.bw e.1) vis' db'

/-- `BoltDBStore.SeekGC`: the visited items and the bucket after the transaction. -/
def boltSeekGC (db : List KV) (rng : SeekRange) (keep : Key → Bool) (lim : Nat) : List KV × List KV :=
  boltGCLoop rng keep lim (db.length + 1) (cursorFirst db rng) [] db

end NeoModel.Store
