/-
C09 — `MemCachedStore.SeekAsync` (memcached_store.go:171-190) between the call and the consumer's reads.

  res := make(chan KeyValue)
  ps, memRes := s.prepareSeekMemSnapshot(rng)       the CALL: the store's own maps are snapshotted here
  go func() { performSeek(ctx, ps, memRes, …); close(res) }()       `start`: the goroutine runs later
  return res                                          the consumer's `<-res`: `recv`

Between the call and every read the caller may write to the same store (Put / Delete / PutChangeSet:
`write` / `batch`; System.Storage.Find followed by Storage.Put in the same transaction-level DAO). The
lower store `ps` is not written by these (a write to a cache layer touches its own maps only).
`lazy = true` is the rule of seeded change C09-m7 (the snapshot taken inside the goroutine) for the
regression example. Core Lean only.
-/
import NeoModel.Model.Store
namespace NeoModel.Store

inductive AEv where
  | write (k : Key) (v : Option Val)   -- the caller's Put (`some`) / Delete (`none`)
  | batch (p st : GoMap)               -- the caller's PutChangeSet
  | start                              -- the seeking goroutine gets to run
  | recv                               -- the consumer reads one item (blocks while nothing is offered)

structure AScan where
  top : Layer                  -- the store's own maps (the caller goes on writing them)
  ps : Store                   -- its lower store
  snap : Option (List KVE)     -- memRes, once taken
  queue : Option (List KV)     -- what the goroutine still has to send, once it runs
  got : List KV                -- what the consumer has received

/-- `SeekAsync(ctx, rng, cutPrefix)` returns. -/
def asyncCall (lazy : Bool) (L : Layer) (ps : Store) (rng : SeekRange) : AScan :=
  { top := L, ps := ps, snap := if lazy then none else some (snapshot L rng), queue := none, got := [] }

def asyncStep (lazy : Bool) (rng : SeekRange) (cut : Bool) (a : AScan) : AEv → AScan
  | .write k v => { a with top := a.top.set k v }
  | .batch p st => { a with top := a.top.putCS p st }
  | .start =>
    match a.queue with
    | some _ => a
    | none =>
      let mem := match a.snap with
        | some m => m
        | none => if lazy then snapshot a.top rng else []
      { a with snap := some mem, queue := some (performSeek (a.ps.seek (lowerRange rng)) mem rng cut 0) }
  | .recv =>
    match a.queue with
    | some (x :: q) => { a with queue := some q, got := a.got ++ [x] }
    | _ => a

def asyncRun (lazy : Bool) (rng : SeekRange) (cut : Bool) (a : AScan) (es : List AEv) : AScan :=
  es.foldl (asyncStep lazy rng cut) a

/-- what the harness line `seekaw` does: the call, the caller's writes, then the goroutine and `lim` reads
(0: the drain — at most `fuel` reads). -/
def seekAsyncThenWrites (L : Layer) (ps : Store) (rng : SeekRange) (cut : Bool) (lim : Nat) (ws : List KVE) : List KV × Layer :=
  let a0 := asyncCall false L ps rng
  let a1 := asyncRun false rng cut a0 (ws.map fun w => AEv.write w.1 w.2)
  let a2 := asyncStep false rng cut a1 .start
  let n := if lim == 0 then (a2.queue.getD []).length else lim
  let a3 := asyncRun false rng cut a2 (List.replicate n .recv)
  (a3.got, a3.top)

end NeoModel.Store
