/-
C09 — which Go map OBJECTS a shared MemCachedStore writes, and which ones readers iterate without its lock.

`persist` (memcached_store.go:395-437) step 1 (l.398-413, under `s.mut.Lock`) hands the store's two maps to
a new `tempstore` reachable through `s.ps` and gives the store two fresh maps. A `Seek`
(`prepareSeekMemSnapshot` l.194-224) copies the items of the store's map under `s.mut.RLock`, reads `ps`
(the tempstore), releases the lock and later iterates the TEMPSTORE's maps under the tempstore's own mutex
(l.157 → l.307 → l.194 again): no lock shared with the store's writers — justified by the comment at
l.401-404 "nothing ever changes it, therefore accesses to it (reads) can go unprotected". So every map object
that has ever been a tempstore map must never be written again. Step 3 success (l.422-426) writes no map;
step 3 on failure (l.427-442, since /repo 3a75687) moves the tempstore's entries into the store's NEW maps
(it writes `s.mem` / `s.stor`, reads the tempstore's). Before 3a75687 it did
`maps.Copy(tempstore.mem, s.mem)`, `s.mem = tempstore.mem` (same for `stor`): it wrote INTO the tempstore's
maps and made them the store's maps again — kept here as the `old` rule for the regression example.
Map objects are identified by numbers. Core Lean only.
-/
namespace NeoModel.Store.Locks

/-- identities are natural numbers -/
notation "MapId" => Nat

/-- one shared MemCachedStore at the level of map objects. -/
structure PState where
  mem : MapId                      -- s.mem
  stor : MapId                     -- s.stor
  temp : Option (MapId × MapId)    -- the maps of the tempstore while a flush is in progress
  next : MapId                     -- every `make(map…)` takes a new identity
  deriving Repr, DecidableEq

inductive Ev where
  | begin                          -- persist step 1 (l.398-413)
  | finishOk                       -- persist step 3, the lower PutChangeSet succeeded (l.422-426)
  | finishFail                     -- persist step 3, it failed (l.427-442)
  | write (isStor : Bool)          -- Put / Delete / PutChangeSet (l.109-153)
  deriving Repr, DecidableEq

/-- the state after a critical section and the map objects it writes; `old`: the error branch as it was
before 3a75687. -/
def stepG (old : Bool) (s : PState) : Ev → PState × List MapId
  | .begin =>
    match s.temp with
    | some _ => (s, [])            -- plock: one flush at a time
    | none => ({ mem := s.next, stor := s.next + 1, temp := some (s.mem, s.stor), next := s.next + 2 }, [])
  | .finishOk => ({ s with temp := none }, [])
  | .finishFail =>
    match s.temp with
    | some (tm, ts) =>
      if old then ({ s with mem := tm, stor := ts, temp := none }, [tm, ts])
      else ({ s with temp := none }, [s.mem, s.stor])
    | none => (s, [])
  | .write isStor => (s, [if isStor then s.stor else s.mem])

/-- the code as it is. -/
def step (s : PState) (e : Ev) : PState × List MapId := stepG false s e

/-- the map objects handed to a tempstore by this event (from then on readers may iterate them without
the store's lock, for as long as they like). -/
def handedOut (s : PState) : Ev → List MapId
  | .begin => match s.temp with | some _ => [] | none => [s.mem, s.stor]
  | _ => []

/-- run a schedule; `lent` = every map object ever handed to a tempstore. The result says whether some
critical section wrote a lent map object (a write racing unprotected iteration). -/
def raceInG (old : Bool) : PState → List MapId → List Ev → Bool
  | _, _, [] => false
  | s, lent, e :: es =>
    let lent' := handedOut s e ++ lent
    ((stepG old s e).2.any (fun m => lent'.contains m)) || raceInG old (stepG old s e).1 lent' es

def raceIn (s : PState) (lent : List MapId) (es : List Ev) : Bool := raceInG false s lent es

/-- a store with its two maps, no flush in progress. -/
def init : PState := { mem := 0, stor := 1, temp := none, next := 2 }

/-- after a flush that began in `init` and ended with `e`: are the store's maps the very map objects the
tempstore held? (observable on the real store by comparing map addresses; the driver prints it for
`pend` / `pfail`) -/
def aliasedAfterG (old : Bool) (e : Ev) : Bool :=
  let s1 := (stepG old init .begin).1
  let s2 := (stepG old s1 e).1
  s1.temp == some (s2.mem, s2.stor)

def aliasedAfter (e : Ev) : Bool := aliasedAfterG false e

end NeoModel.Store.Locks
