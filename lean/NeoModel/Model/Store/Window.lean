/-
C09 — a range scan as it really runs: in SEVERAL critical sections.

`MemCachedStore.Seek` / `SeekAsync` (memcached_store.go:157-160, 173-190) call
`prepareSeekMemSnapshot` (l.194-224): under the read lock the cached items in range are copied and
the `ps` pointer is read; the lock is released; `performSeek` (l.234-329) then calls `ps.Seek` — later.
`ps` is the lower store itself or the tempstore of a flush in progress (l.405-406), whose maps and
`ps` pointer never change (l.401-404); the scan of a backend is one section of its own (MemoryStore.seek
copies under its RLock, memory_store.go:120-131; BoltDB: one View transaction; LevelDB: the iterator's
snapshot). So a scan of the production stack — private layers owned by the reader, ONE shared cache
layer, possibly its tempstore, the backend — reads every cache layer at one moment `t1` and the backend
at a later moment `t0`; anything may happen to the shared layer and the backend in between.
(`SeekAsync` iterates the tempstore's maps in its goroutine, i.e. a little later than the store's own maps:
the same thing, as a tempstore's maps never change — except in the error branch of persist, see
Model/Store/Locks.lean and the known finding persist-failure-map-race.)
Core Lean only.
-/
import NeoModel.Model.Store.Spec
namespace NeoModel.Store

/-- the backend at the bottom of a stack. -/
def Store.bottom : Store → Store
  | .cached _ ps => ps.bottom
  | b => b

/-- the cache layers of `s` over another bottom store. -/
def Store.withBottom : Store → Store → Store
  | .cached L ps, b => .cached L (ps.withBottom b)
  | _, b => b

/-- what the scan works on: the cache layers as they were when the scan took its snapshot (`s0`,
moment `t1`), the backend as it is when the lower scan opens (`s1`, moment `t0`). -/
def Store.splitView (s0 s1 : Store) : Store := s0.withBottom s1.bottom

/-- `Seek` / `SeekAsync` in two sections. `s1 = s0`: the one-step `seekObs`. -/
def Store.seekSplit (s0 s1 : Store) (rng : SeekRange) (cut : Bool) (lim : Nat) : List KV :=
  (s0.splitView s1).seekObs rng cut lim

/-- the reader's own private layers `up` (top first) over a stack: nobody else touches them. -/
def Store.under (up : List Layer) (s : Store) : Store := up.foldr Store.cached s

/-! ### what happens to one key during the window -/

/-- no cache layer of the stack has an entry (value or tombstone) for `k`. -/
def Store.Silent (k : Key) : Store → Prop
  | .cached L ps => layerSays L k = none ∧ ps.Silent k
  | _ => True

/-- what a client event writes to key `k`: `some (some v)` a value, `some none` a deletion, `none` nothing. -/
def Ev.writes (k : Key) : Ev → Option (Option Val)
  | .put k' v => if k = k' then some v else none
  | .batch p st => layerSays { priv := false, mem := p, stor := st } k
  | .tau => none

/-- some client event of the schedule writes `ov` to `k`. -/
def Written (es : List Ev) (k : Key) (ov : Option Val) : Prop := ∃ e ∈ es, e.writes k = some ov

end NeoModel.Store
