/-
C09 — the specification side: a store stack *is* one ordered map.

`Store.flatten` is the abstraction function (the net effect of every write that reached the stack,
upper layers shadowing lower ones, a nil value hiding the key). `IsSpecSeek f rng r` says that the
list `r` is THE answer of an ordered map `f` to a range scan: strictly ordered in the direction of
the scan (hence no duplicates) and containing exactly the pairs of `f` whose key is in range (hence
no omissions, nothing extra). Such a list is unique (`Proofs/StoreSpec.lean: isSpecSeek_unique`).
Core Lean only.
-/
import NeoModel.Model.Store
namespace NeoModel.Store

abbrev SpecMap := Key → Option Val

def SpecMap.empty : SpecMap := fun _ => none

/-- what one Go map says about a key: `some (some v)` value, `some none` deleted, `none` nothing. -/
def layerSays (L : Layer) (k : Key) : Option (Option Val) := mapGet (L.choose k) k

/-- a layer's entries laid over a map. -/
def overlay (L : Layer) (f : SpecMap) : SpecMap := fun k =>
  match layerSays L k with
  | some (some v) => some v
  | some none => none
  | none => f k

/-- the ordered map a store stack stands for. -/
def Store.flatten : Store → SpecMap
  | .memB m s => overlay { priv := false, mem := m, stor := s } SpecMap.empty
  | .level db => fun k => List.lookup k db
  | .bolt db => fun k => List.lookup k db
  | .cached L ps => overlay L ps.flatten

/-- the map seen through at most `d` cache layers (`SearchDepth = d`, 0 = all of them). -/
def Store.flattenD : Nat → Store → SpecMap
  | 0, s => s.flatten
  | 1, .cached L _ => overlay L SpecMap.empty
  | d + 2, .cached L ps => overlay L (ps.flattenD (d + 1))
  | _, s => s.flatten

/-- `k` lies in the range: it has the prefix and is on the right side of the start point
`prefix ‖ start` (inclusive), an empty start meaning no bound. -/
def inRange (rng : SeekRange) (k : Key) : Prop :=
  rng.pfx <+: k ∧
    (rng.start = [] ∨
      (if rng.bw then lexLe k (rng.pfx ++ rng.start) = true else lexLe (rng.pfx ++ rng.start) k = true))

/-- `r` is the answer of the ordered map `f` to the scan `rng`. -/
def IsSpecSeek (f : SpecMap) (rng : SeekRange) (r : List KV) : Prop :=
  r.Pairwise (fun a b => ltDir rng.bw a.1 b.1 = true) ∧
    ∀ k v, (k, v) ∈ r ↔ (f k = some v ∧ inRange rng k)

/-- the observable form: prefix cut if asked, stopped at the `lim`-th item (`0`: not stopped). -/
def specObs (r : List KV) (lP : Nat) (cut : Bool) (lim : Nat) : List KV :=
  let c := r.map (fun e => (cutKey cut lP e.1, e.2))
  if lim == 0 then c else c.take lim

/-- a spec map after one write. -/
def SpecMap.set (f : SpecMap) (k : Key) (v : Option Val) : SpecMap := fun q => if q = k then v else f q

/-- a spec map after a batch, later entries winning. -/
def SpecMap.apply (f : SpecMap) (cs : List KVE) : SpecMap := cs.foldl (fun g e => g.set e.1 e.2) f

/-! ### representation invariants (what every reachable state satisfies) -/

def MapWF (m : GoMap) : Prop := (m.map Prod.fst).Nodup
def DbWF (db : List KV) : Prop := (db.map Prod.fst).Nodup

/-- keys are in the map `chooseMap` would pick for them. -/
def Placed (mem stor : GoMap) : Prop :=
  (∀ e ∈ mem, isStor e.1 = false) ∧ (∀ e ∈ stor, isStor e.1 = true)

def Layer.WF (L : Layer) : Prop := MapWF L.mem ∧ MapWF L.stor

def Store.WF : Store → Prop
  | .memB m s => MapWF m ∧ MapWF s
  | .level db => DbWF db
  | .bolt db => DbWF db
  | .cached L ps => L.WF ∧ ps.WF

end NeoModel.Store
