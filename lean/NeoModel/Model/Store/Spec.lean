/-
C09 — the specification side: a store stack *is* one ordered map.

`Store.flatten` is the abstraction function (the net effect of every write that reached the stack,
upper layers shadowing lower ones, a nil value hiding the key). `IsSpecSeek f rng r` says that the
list `r` is THE answer of an ordered map `f` to a range scan: strictly ordered in the direction of
the scan (hence no duplicates) and containing exactly the pairs of `f` whose key is in range (hence
no omissions, nothing extra). Such a list is unique (`Proofs/StoreSpec.lean: isSpecSeek_unique`).
Core Lean only.
-/
import NeoModel.Model.Store
namespace NeoModel.Store

abbrev SpecMap := Key → Option Val

def SpecMap.empty : SpecMap := fun _ => none

/-- what one Go map says about a key: `some (some v)` value, `some none` deleted, `none` nothing. -/
def layerSays (L : Layer) (k : Key) : Option (Option Val) := mapGet (L.choose k) k

/-- a layer's entries laid over a map. -/
def overlay (L : Layer) (f : SpecMap) : SpecMap := fun k =>
  match layerSays L k with
  | some (some v) => some v
  | some none => none
  | none => f k

/-- the ordered map a store stack stands for. -/
def Store.flatten : Store → SpecMap
  | .memB m s => overlay { priv := false, mem := m, stor := s } SpecMap.empty
  | .level db => fun k => List.lookup k db
  | .bolt db => fun k => List.lookup k db
  | .cached L ps => overlay L ps.flatten

/-- the map seen through at most `d` cache layers (`SearchDepth = d`, 0 = all of them). -/
def Store.flattenD : Nat → Store → SpecMap
  | 0, s => s.flatten
  | 1, .cached L _ => overlay L SpecMap.empty
  | d + 2, .cached L ps => overlay L (ps.flattenD (d + 1))
  | _, s => s.flatten

/-- `k` lies in the range: it has the prefix and is on the right side of the start point
`prefix ‖ start`, an empty start meaning no bound. Forwards the scan starts at the first key
`≥ prefix‖start`; backwards at the last key that is `≤ prefix‖start` or has `prefix‖start` as a
prefix (store.go:60-75 with seekRangeToPrefixes; all backends and cache layers since 5043d25). -/
def inRange (rng : SeekRange) (k : Key) : Prop :=
  rng.pfx <+: k ∧
    (rng.start = [] ∨
      (if rng.bw then lexLe k (rng.pfx ++ rng.start) = true ∨ (rng.pfx ++ rng.start) <+: k
       else lexLe (rng.pfx ++ rng.start) k = true))

/-- `r` is the answer of the ordered map `f` to the scan `rng`. -/
def IsSpecSeek (f : SpecMap) (rng : SeekRange) (r : List KV) : Prop :=
  r.Pairwise (fun a b => ltDir rng.bw a.1 b.1 = true) ∧
    ∀ k v, (k, v) ∈ r ↔ (f k = some v ∧ inRange rng k)

/-- the observable form: prefix cut if asked, stopped at the `lim`-th item (`0`: not stopped). -/
def specObs (r : List KV) (lP : Nat) (cut : Bool) (lim : Nat) : List KV :=
  let c := r.map (fun e => (cutKey cut lP e.1, e.2))
  if lim == 0 then c else c.take lim

/-- a spec map after one write. -/
def SpecMap.set (f : SpecMap) (k : Key) (v : Option Val) : SpecMap := fun q => if q = k then v else f q

/-- a spec map after a batch, later entries winning. -/
def SpecMap.apply (f : SpecMap) (cs : List KVE) : SpecMap := cs.foldl (fun g e => g.set e.1 e.2) f

/-! ### representation invariants (what every reachable state satisfies) -/

def MapWF (m : GoMap) : Prop := (m.map Prod.fst).Nodup
def DbWF (db : List KV) : Prop := (db.map Prod.fst).Nodup

/-- keys are in the map `chooseMap` would pick for them. -/
def Placed (mem stor : GoMap) : Prop :=
  (∀ e ∈ mem, isStor e.1 = false) ∧ (∀ e ∈ stor, isStor e.1 = true)

def Layer.WF (L : Layer) : Prop := MapWF L.mem ∧ MapWF L.stor ∧ Placed L.mem L.stor

def Store.WF : Store → Prop
  | .memB m s => MapWF m ∧ MapWF s
  | .level db => DbWF db
  | .bolt db => DbWF db
  | .cached L ps => L.WF ∧ ps.WF

/-! ### the flush as atomic steps, schedules -/

/-- the lower store already holds everything the swapped-out layer `T` holds. -/
def Covered (T : Layer) (ps : Store) : Prop := overlay T ps.flatten = ps.flatten

/-- one atomic step of some flush somewhere in the stack. `begin`/`write`/`finish` are the three
critical sections of `persist` (memcached_store.go:398-416, 417, 419-436) of a shared store, `fail`
its error branch (the lower `PutChangeSet` failed and wrote nothing), `whole` a flush nothing can
interleave with (a private store's persist, `PersistSync`), `privateInto` one private store of
`PersistPrivate`, `deeper` the same steps of a store deeper in the stack. -/
inductive FlushStep : Store → Store → Prop
  | begin (L : Layer) (ps : Store) : FlushStep (.cached L ps) (Store.cached L ps).persist1
  | write (F T : Layer) (ps : Store) :
      FlushStep (.cached F (.cached T ps)) (Store.cached F (.cached T ps)).persist2
  | finish (F T : Layer) (ps : Store) : Covered T ps →
      FlushStep (.cached F (.cached T ps)) (Store.cached F (.cached T ps)).persist3
  | fail (F T : Layer) (ps : Store) :
      FlushStep (.cached F (.cached T ps)) (Store.cached F (.cached T ps)).persist3Fail
  | whole (L : Layer) (ps : Store) : FlushStep (.cached L ps) (Store.cached L ps).persist.1
  | privateInto (P L : Layer) (ps : Store) :
      FlushStep (.cached P (.cached L ps))
        (.cached { P with mem := [], stor := [], nilMaps := true } (.cached (L.putCS P.mem P.stor) ps))
  | deeper (L : Layer) (ps ps' : Store) : FlushStep ps ps' → FlushStep (.cached L ps) (.cached L ps')

/-- what a client of the top store does, or `tau`: an internal flush step. -/
inductive Ev where
  | put (k : Key) (v : Option Val)   -- Put (`some`) / Delete (`none`)
  | batch (p st : GoMap)             -- PutChangeSet
  | tau

inductive SysStep : Store → Ev → Store → Prop
  | put (L : Layer) (ps : Store) (k : Key) (v : Option Val) :
      SysStep (.cached L ps) (.put k v) ((Store.cached L ps).put k v)
  | batch (L : Layer) (ps : Store) (p st : GoMap) : MapWF p → MapWF st → Placed p st →
      SysStep (.cached L ps) (.batch p st) (.cached (L.putCS p st) ps)
  | flush (s s' : Store) : FlushStep s s' → SysStep s .tau s'

/-- a schedule: any interleaving of client writes with flush steps. -/
inductive Run : Store → List Ev → Store → Prop
  | nil (s : Store) : Run s [] s
  | cons (s s' s'' : Store) (e : Ev) (es : List Ev) : SysStep s e s' → Run s' es s'' → Run s (e :: es) s''

/-- the ordered map after the same client writes (flush steps do nothing to it). -/
def specAfter (f : SpecMap) : List Ev → SpecMap
  | [] => f
  | .put k v :: es => specAfter (f.set k v) es
  | .batch p st :: es => specAfter (overlay { priv := false, mem := p, stor := st } f) es
  | .tau :: es => specAfter f es

end NeoModel.Store
