/-
C09 — the DAO and interop wrappers around the store, as the code is written:

  pkg/core/dao/dao.go:426-449           Simple.Seek, Simple.SeekAsync, makeStorageItemKey
  pkg/core/statesync/module.go:296-305  TemporaryPrefix (the 0x70 / 0x71 swap of Version.StoragePrefix)
  pkg/core/interop/storage/find.go      findWithContext (option checks, SeekAsync call), Iterator.Value

Core Lean only.
-/
import NeoModel.Model.Store
namespace NeoModel.Store

/-- `uint32(id)` of an `int32` contract id (two's complement; native contracts have negative ids). -/
def u32OfInt (id : Int) : Nat := (id % 4294967296).toNat

/-- `binary.LittleEndian.PutUint32` (dao.go:446). -/
def le32 (n : Nat) : Bytes :=
  [UInt8.ofNat (n % 256), UInt8.ofNat (n / 256 % 256), UInt8.ofNat (n / 65536 % 256), UInt8.ofNat (n / 16777216 % 256)]

/-- the five bytes every storage item key of contract `id` starts with:
`buf[0] = byte(dao.Version.StoragePrefix)`, `PutUint32(buf[1:], uint32(id))` (dao.go:445-446). -/
def contractPrefix (sp : UInt8) (id : Int) : Bytes := sp :: le32 (u32OfInt id)

/-- `makeStorageItemKey` (dao.go:442-449): prefix byte ‖ little-endian id ‖ key. -/
def makeStorageItemKey (sp : UInt8) (id : Int) (key : Bytes) : Bytes := contractPrefix sp id ++ key

/-- `statesync.TemporaryPrefix` (module.go:296-305): `none` = the `panic` of the default branch. -/
def temporaryPrefix (p : UInt8) : Option UInt8 :=
  if p == 0x70 then some 0x71 else if p == 0x71 then some 0x70 else none

/-- `rng.Prefix = bytes.Clone(dao.makeStorageItemKey(id, rng.Prefix))` (dao.go:427, 437); Start,
Backwards and SearchDepth are passed through. -/
def daoRange (sp : UInt8) (id : Int) (rng : SeekRange) : SeekRange :=
  { rng with pfx := makeStorageItemKey sp id rng.pfx }

/-- `dao.Simple.Seek` (dao.go:426-431): `Store.Seek` without prefix cutting; the DAO itself hands
`k[len(rng.Prefix):]` to the callback, which stops at its `lim`-th call (0: never). -/
def daoSeek (s : Store) (sp : UInt8) (id : Int) (rng : SeekRange) (lim : Nat) : List KV :=
  let R := daoRange sp id rng
  (s.seekObs R false lim).map (fun e => (e.1.drop R.pfx.length, e.2))

/-- `dao.Simple.SeekAsync` (dao.go:436-439): `Store.SeekAsync(ctx, rng, cutPrefix = true)`, the
consumer reading `lim` items (0: all). -/
def daoSeekAsync (s : Store) (sp : UInt8) (id : Int) (rng : SeekRange) (lim : Nat) : List KV :=
  s.seekObs (daoRange sp id rng) true lim

/-! ### System.Storage.Find -/

def findKeysOnly : Nat := 1
def findRemovePrefix : Nat := 2
def findValuesOnly : Nat := 4
def findDeserialize : Nat := 8
def findPick0 : Nat := 16
def findPick1 : Nat := 32
def findBackwards : Nat := 128
/-- `FindAll` (find.go:25-26). -/
def findAll : Nat := findKeysOnly ||| findRemovePrefix ||| findValuesOnly ||| findDeserialize ||| findPick0 ||| findPick1 ||| findBackwards

def hasOpt (opts bit : Nat) : Bool := opts &&& bit != 0

/-- the option checks of `findWithContext` (find.go:102-118), in the order of the code
(every failure is the same `errFindInvalidOptions`). Options are non-negative here. -/
def findOptsOK (opts : Nat) : Bool :=
  if opts &&& findAll != opts then false                                                      -- opts&^FindAll != 0
  else if hasOpt opts findKeysOnly && hasOpt opts (findDeserialize ||| findPick0 ||| findPick1) then false
  else if hasOpt opts findValuesOnly && hasOpt opts (findKeysOnly ||| findRemovePrefix) then false
  else if hasOpt opts findPick0 && hasOpt opts findPick1 then false
  else if !hasOpt opts findDeserialize && (hasOpt opts findPick0 || hasOpt opts findPick1) then false
  else true

/-- what `Iterator.Value` (find.go:57-90) builds from one channel item, for the options that do not
look inside the value (`FindDeserialize` / `FindPick*` act on the value alone and are not modelled):
the key (with the search prefix put back unless `FindRemovePrefix`), the value, or both. -/
structure FindItem where
  key : Option Bytes
  val : Option Bytes
  deriving Repr, DecidableEq

def findValue (opts : Nat) (pfx : Bytes) (e : KV) : FindItem :=
  let key := if !hasOpt opts findRemovePrefix then pfx ++ e.1 else e.1
  if hasOpt opts findKeysOnly then { key := some key, val := none }
  else if hasOpt opts findValuesOnly then { key := none, val := some e.2 }
  else { key := some key, val := some e.2 }

/-- `findWithContext` + the consumer: `none` = the option error; otherwise the items the iterator
yields when read `lim` times (0: to the end). The seek range is `{Prefix: prefix, Backwards: bkwrds}`
(find.go:121): no Start, full depth. -/
def find (s : Store) (sp : UInt8) (id : Int) (pfx : Bytes) (opts : Nat) (lim : Nat) : Option (List FindItem) :=
  if !findOptsOK opts then none
  else
    let rng : SeekRange := { pfx := pfx, start := [], bw := hasOpt opts findBackwards, depth := 0 }
    some ((daoSeekAsync s sp id rng lim).map (findValue opts pfx))

end NeoModel.Store
