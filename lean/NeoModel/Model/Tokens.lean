/-
Model of the native token / governance accounting of neo-go, as the code is written:

  pkg/core/native/native_nep17.go   transfer (134-176), postTransfer (188-243), updateAccBalance (255-285),
                                    MintDeferrable (305-316), Burn (318-326), addTokens (328-352)
  pkg/core/native/native_gas.go     increaseBalance (51-72), OnPersist (109-132)
  pkg/core/native/native_neo.go     OnPersist (465-500), PostPersist (503-576), getLatestGASPerVote (578-591),
                                    increaseBalance (593-632), distributeGas (642-657), dropCandidateIfZero (782-793),
                                    calculateBonus (828-841), CalculateNEOHolderReward (844-871),
                                    registerCandidate (873-888), onNEP17Payment (900-921),
                                    RegisterCandidateInternal (925-956), unregisterCandidate (958-1006),
                                    vote (1008-1115), ModifyAccountVotes (1126-1146), modifyVoterTurnout (1322-1332)
  pkg/core/native/notary.go         OnPersist (164-213), onPayment (227-274), lockDepositUntil (277-303),
                                    withdraw (306-349)

Core Lean only.  Accounts and public keys are natural numbers (the harness numbers them).
Storage maps are association lists with in-place update (`get`/`put`/`del`), an absent key is a
deleted storage item.  A Go panic inside a native method faults the whole transaction in neo-go
(vm.go:1687-1693: a failing SYSCALL panics, execute() turns that into FAULT; an exception leaving a context
that was called from a native is turned into a panic by its onUnload callback, contract/call.go:168-170),
so `throw` below always means: the transaction's changes are dropped.
-/
namespace NeoModel.Tokens

/-! ## association lists -/

abbrev AL (α : Type) := List (Nat × α)

def get {α : Type} : AL α → Nat → Option α
  | [], _ => none
  | (k', v) :: r, k => if k' = k then some v else get r k

def put {α : Type} : AL α → Nat → α → AL α
  | [], k, v => [(k, v)]
  | (k', v') :: r, k, v => if k' = k then (k, v) :: r else (k', v') :: put r k v

def del {α : Type} : AL α → Nat → AL α
  | [], _ => []
  | (k', v') :: r, k => if k' = k then r else (k', v') :: del r k

def sumBy {α : Type} (f : α → Int) : AL α → Int
  | [] => 0
  | (_, v) :: r => f v + sumBy f r

/-- store `some v`, delete on `none` (updateAccBalance 279-283, addTokens 342-346). -/
def store {α : Type} (m : AL α) (k : Nat) : Option α → AL α
  | some v => put m k v
  | none => del m k

/-! ## state -/

/-- state.NEOBalance (state/native_state.go:20-26). -/
structure NeoAcc where
  bal : Int := 0
  height : Nat := 0
  vote : Option Nat := none
  lgpv : Int := 0
deriving Repr, DecidableEq, Inhabited

/-- candidate (native_neo_candidate.go:9-12). -/
structure Cand where
  reg : Bool
  votes : Int
deriving Repr, DecidableEq, Inhabited

/-- state.Deposit. -/
structure Dep where
  amount : Int
  till : Nat
deriving Repr, DecidableEq, Inhabited

inductive Tok | neo | gas
deriving Repr, DecidableEq, Inhabited

/-- a `Transfer` notification of one of the two native tokens. -/
structure Event where
  tok : Tok
  src : Option Nat
  dst : Option Nat
  amt : Int
deriving Repr, DecidableEq, Inhabited

/-- Everything a faulting transaction rolls back: contract storage of NEO/GAS/Notary that matters for the
accounting, the NEO cache fields that feed reward amounts, and the notifications collected so far. -/
structure Ledger where
  neo : AL NeoAcc := []
  neoSupply : Int := 0
  gas : AL Int := []
  gasSupply : Int := 0
  cands : AL Cand := []
  voters : Int := 0
  deps : AL Dep := []
  /-- storage prefix 23 (voter reward per committee member) -/
  gpv : AL Int := []
  /-- NeoCache.gasPerVoteCache -/
  gpvCache : AL Int := []
  votesChanged : Bool := true
  /-- NeoCache.gasPerBlock, oldest record first -/
  gpb : List (Nat × Int) := []
  regPrice : Int := 100000000000
  events : List Event := []
  /-- NeoCache.committee = storage item 14: the committee of the running epoch with the votes cached at its
  election, in election order (native_neo.go:63-67) -/
  committee : List (Nat × Int) := []
  /-- NeoCache.nextValidators (54) -/
  nextVals : List Nat := []
  /-- NeoCache.newEpochCommittee (68-70) -/
  neCommittee : List (Nat × Int) := []
  /-- NeoCache.newEpochNextValidators (55-62) -/
  neVals : List Nat := []
  /-- Policy's blocked accounts (policy.go:668-721) -/
  blocked : List Nat := []
  /-- the latest P2PNotary designation of the RoleManagement contract (designate.go: DesignationCache): the node
  accounts in key order, and the block index from which it is recorded (`index + 1` of the designating block;
  0 = none yet).  Notary.GetNotaryNodes (notary.go:425-428) asks for index MaxUint32, i.e. always the latest. -/
  notaryNodes : List Nat := []
  notaryHeight : Nat := 0
  /-- ghost: sum of the amounts of all GAS `Transfer` notifications with `from` = null emitted since genesis by
  executions that were not rolled back, and of those with `to` = null -/
  gasMinted : Int := 0
  gasBurned : Int := 0
deriving Repr, Inhabited

/-- transaction.WitnessCondition (core/transaction/witness_condition.go).  `and` / `or` are binary: a condition
list [c1, c2, c3] is `and c1 (and c2 c3)` (the loops of ConditionAnd/ConditionOr.Match, 222-233 / 319-330, return at
the first false resp. true element, no element of this subset returns an error).  `group` / `calledByGroup`: the
contracts of a case (the natives, the entry script, the helper contracts) have no manifest groups, so
CurrentScriptHasGroup / CallingScriptHasGroup are false. -/
inductive Cond
  | bool (b : Bool)
  | not (c : Cond)
  | and (a b : Cond)
  | or (a b : Cond)
  | scriptHash (h : Nat)
  | calledByEntry
  | calledByContract (h : Nat)
  | group
  | calledByGroup
deriving Repr, Inhabited

/-- transaction.Signer as far as runtime.checkScope (interop/runtime/witness.go:65-113) looks at it: the scope bits
None (0), CalledByEntry (1), CustomContracts (16), CustomGroups (32), Rules (64), Global (128), the allowed
contracts and the witness rules `(allow?, condition)` in order. -/
structure Signer where
  acc : Nat
  scopes : Nat
  allowed : List Nat := []
  rules : List (Bool × Cond) := []
deriving Repr, Inhabited

/-- what a contract does when NEP-17 tokens are paid to it (postTransfer, native_nep17.go:188-243, calls
onNEP17Payment of a deployed `to`).  `wallet`: the helper contract of the harness (contracts.go) — null data is
accepted, an array [hash, method, args] makes it call the native named (the nested calls follow on the op lines),
any other data makes it throw.  `noCallback`: a contract without onNEP17Payment (the call fails).  `accepts`: a
contract that accepts every payment made by a transfer (the native Treasury). -/
inductive CKind | wallet | noCallback | accepts
deriving Repr, DecidableEq, Inhabited

/-- the shape of the `data` argument of a transfer as a Wallet contract sees it. -/
inductive DataKind | null | call | other
deriving Repr, DecidableEq, Inhabited

/-- chain constants and the execution context. -/
structure Env where
  /-- account of the Notary contract -/
  notary : Nat
  /-- account of the NEO contract -/
  neoC : Nat
  /-- committee size -/
  csize : Nat
  /-- validators count -/
  vcount : Nat
  /-- Policy.GetAttributeFee(NotaryAssisted) -/
  attrFee : Int
  /-- contracts whose onNEP17Payment panics when GAS is minted to them (`from` = null): the native Treasury
  (treasury.go:99-107 converts `from` with toUint160, which panics on Null) -/
  noMint : List Nat := []
  /-- index of the block being persisted -/
  index : Nat := 0
  /-- sender of the transaction being executed -/
  sender : Nat := 0
  /-- cfg.StandbyCommittee in configuration order (native_neo.go:44, 419) -/
  standby : List Nat := []
  /-- account (script hash of the CheckSig script) of every public key of the case -/
  keyAcc : AL Nat := []
  /-- accounts of the GAS and Policy contracts -/
  gasC : Nat := 0
  policyC : Nat := 0
  /-- account of the RoleManagement contract -/
  desigC : Nat := 0
  /-- the majority multi-signature accounts the case can build: account ↦ its public keys sorted with
  PublicKey.Cmp (smartcontract.CreateMajorityMultiSigRedeemScript, native_neo.go:426-431) -/
  msig : List (Nat × List Nat) := []
  /-- signers of the transaction being executed -/
  signers : List Signer := []
  /-- the deployed contracts of the case that can be paid, with what their payment callback does -/
  contracts : AL CKind := []
deriving Repr, Inhabited

/-- one `Transfer` notification (native_nep17.go:188-190 emitTransfer); the two ghost totals follow the GAS
notifications whose `from` resp. `to` is null. -/
def addEvent (l : Ledger) (e : Event) : Ledger :=
  { l with
    events := l.events ++ [e]
    gasMinted := if e.tok = .gas ∧ e.src = none then l.gasMinted + e.amt else l.gasMinted
    gasBurned := if e.tok = .gas ∧ e.dst = none then l.gasBurned + e.amt else l.gasBurned }

/-! ## GAS rewards of NEO holders -/

/-- getLatestGASPerVote (578-591): cache first, then storage, else 0. -/
def latestGpv (l : Ledger) (c : Nat) : Int :=
  match get l.gpvCache c with
  | some g => g
  | none => (get l.gpv c).getD 0

/-- the loop of CalculateNEOHolderReward (853-866) over the records, newest first. -/
def holderSum : List (Nat × Int) → Nat → Nat → Int
  | [], _, _ => 0
  | (idx, g) :: rest, start, end_ =>
    if idx ≥ end_ then holderSum rest start end_
    else if idx ≤ start then ((end_ - start : Nat) : Int) * g
    else ((end_ - idx : Nat) : Int) * g + holderSum rest start idx

/-- CalculateNEOHolderReward (844-871); `none` = error "negative value". -/
def holderReward (l : Ledger) (value : Int) (start end_ : Nat) : Option Int :=
  if value = 0 ∨ start ≥ end_ then some 0
  else if value < 0 then none
  else some (value * holderSum l.gpb.reverse start end_ * 10 / 10000000000)

/-- calculateBonus (828-841). -/
def calcBonus (l : Ledger) (acc : NeoAcc) (end_ : Nat) : Option Int :=
  match holderReward l acc.bal acc.height end_ with
  | none => none
  | some r =>
    match acc.vote with
    | none => some r
    | some c => some ((latestGpv l c - acc.lgpv) * acc.bal / 100000000 + r)

/-- distributeGas (642-657): `none` = error; `some (acc', none)` = nothing to distribute in this block. -/
def distributeGas (e : Env) (l : Ledger) (acc : NeoAcc) : Option (NeoAcc × Option Int) :=
  if e.index = 0 ∨ e.index = acc.height then some (acc, none)
  else
    match calcBonus l acc e.index with
    | none => none
    | some gen =>
      let acc1 := { acc with height := e.index }
      match acc.vote with
      | some c => some ({ acc1 with lgpv := latestGpv l c }, some gen)
      | none => some (acc1, some gen)

/-! ## vote bookkeeping -/

/-- dropCandidateIfZero (782-793): the storage items (candidate, voter reward) and the cached GAS-per-vote value
are deleted (the cache is keyed by the 33-byte public key: `voterKey[1:]`, fix 350d30d). -/
def dropIfZero (l : Ledger) (c : Nat) (cd : Cand) : Option Ledger :=
  if cd.reg ∨ cd.votes ≠ 0 then none
  else some { l with cands := del l.cands c, gpv := del l.gpv c, gpvCache := del l.gpvCache c }

/-- ModifyAccountVotes (1126-1146); the Bool is `err == nil`. -/
def modVotes (l : Ledger) (acc : NeoAcc) (value : Int) (isNew : Bool) : Ledger × Bool :=
  let l := { l with votesChanged := true }
  match acc.vote with
  | none => (l, true)
  | some c =>
    match get l.cands c with
    | none => (l, false)
    | some cd =>
      let cd' : Cand := { cd with votes := cd.votes + value }
      if isNew then ({ l with cands := put l.cands c cd' }, true)
      else
        match dropIfZero l c cd' with
        | some l' => (l', true)
        | none => ({ l with cands := put l.cands c cd' }, true)

/-- `x < o` when `o` is given (the `checkBal != nil && balance < checkBal` tests). -/
def belowOpt (x : Int) : Option Int → Bool
  | some cb => decide (x < cb)
  | none => false

/-- `requiredBalance != nil && requiredBalance.Sign() > 0` (262). -/
def posOpt : Option Int → Bool
  | some r => decide (r > 0)
  | none => false

/-- result of an incBalance callback: the ledger (side effects), success, the new storage item
(`none` = nil: delete), the GAS to distribute. -/
structure IncRes (α : Type) where
  l : Ledger
  ok : Bool
  si : Option α
  dist : Option Int

/-- NEO.increaseBalance (593-632); `si = none` is the empty item (zero account). -/
def neoInc (e : Env) (l : Ledger) (si : Option NeoAcc) (amount : Int) (checkBal : Option Int) : IncRes NeoAcc :=
  let acc := si.getD {}
  if (amount < 0 ∧ acc.bal.natAbs < amount.natAbs) ∨
     (amount = 0 ∧ belowOpt acc.bal checkBal) then
    ⟨l, false, si, none⟩
  else
    match distributeGas e l acc with
    | none => ⟨l, false, si, none⟩
    | some (acc1, newGas) =>
      if amount = 0 then ⟨l, true, some acc1, newGas⟩
      else
        match modVotes l acc1 amount false with
        | (l1, false) => ⟨l1, false, si, none⟩
        | (l1, true) =>
          let l2 := if acc1.vote.isSome then { l1 with voters := l1.voters + amount } else l1
          let acc2 := { acc1 with bal := acc1.bal + amount }
          ⟨l2, true, if acc2.bal ≠ 0 then some acc2 else none, newGas⟩

/-- GAS.increaseBalance (51-72). -/
def gasInc (l : Ledger) (si : Option Int) (amount : Int) (checkBal : Option Int) : IncRes Int :=
  let bal := si.getD 0
  if amount = 0 then
    if belowOpt bal checkBal then ⟨l, false, si, none⟩
    else ⟨l, true, si, none⟩
  else if amount < 0 ∧ bal.natAbs < amount.natAbs then ⟨l, false, si, none⟩
  else
    let b := bal + amount
    ⟨l, true, if b ≠ 0 then some b else none, none⟩

/-- updateAccBalance (255-285) for NEO: (ledger, err == nil, distribution). -/
def updNeo (e : Env) (l : Ledger) (a : Nat) (amount : Int) (required : Option Int) : Ledger × Bool × Option Int :=
  let run (si : Option NeoAcc) : Ledger × Bool × Option Int :=
    let r := neoInc e l si amount required
    if r.ok then ({ r.l with neo := store r.l.neo a r.si }, true, r.dist)
    else (r.l, false, none)
  match get l.neo a with
  | none =>
    if amount < 0 then (l, false, none)
    else if posOpt required then (l, false, none)
    else if amount = 0 then (l, true, none)
    else run none
  | some acc => run (some acc)

/-- updateAccBalance for GAS. -/
def updGas (l : Ledger) (a : Nat) (amount : Int) (required : Option Int) : Ledger × Bool × Option Int :=
  let run (si : Option Int) : Ledger × Bool × Option Int :=
    let r := gasInc l si amount required
    if r.ok then ({ r.l with gas := store r.l.gas a r.si }, true, none)
    else (r.l, false, none)
  match get l.gas a with
  | none =>
    if amount < 0 then (l, false, none)
    else if posOpt required then (l, false, none)
    else if amount = 0 then (l, true, none)
    else run none
  | some b => run (some b)

def upd (t : Tok) (e : Env) (l : Ledger) (a : Nat) (amount : Int) (required : Option Int) : Ledger × Bool × Option Int :=
  match t with
  | .neo => updNeo e l a amount required
  | .gas => updGas l a amount required

/-- first half of `transfer` (134-175) up to and including the Transfer notification of postTransfer (190). -/
inductive TPre
  | thr
  | ret (l : Ledger) (b : Bool)
  | posted (l : Ledger) (d1 d2 : Option (Nat × Int))

def transferPre (t : Tok) (e : Env) (l : Ledger) (src dst : Nat) (amount : Int) (wit : Bool) : TPre :=
  if amount < 0 then .thr
  else if !wit then .ret l false
  else
    let isEmpty := src = dst ∨ amount = 0
    let inc : Int := if isEmpty then 0 else -amount
    match upd t e l src inc (some amount) with
    | (l1, false, _) => .ret l1 false
    | (l1, true, d1) =>
      let ev : Event := ⟨t, some src, some dst, amount⟩
      if isEmpty then .posted (addEvent l1 ev) (d1.map (fun g => (src, g))) none
      else
        match upd t e l1 dst amount none with
        | (l2, false, _) => .ret l2 false
        | (l2, true, d2) => .posted (addEvent l2 ev) (d1.map (fun g => (src, g))) (d2.map (fun g => (dst, g)))

/-- addTokens (328-352) for GAS followed by the notification; `none` = panic. -/
def gasAddTokens (l : Ledger) (h : Nat) (amount : Int) : Option Ledger :=
  let r := gasInc l (get l.gas h) amount none
  if r.ok then some { r.l with gas := store r.l.gas h r.si, gasSupply := r.l.gasSupply + amount }
  else none

/-- GAS.MintDeferrable (305-316) with an accepting (or absent) payment callback. -/
def mintGas (l : Ledger) (h : Nat) (amount : Int) : Option Ledger :=
  if amount = 0 then some l
  else (gasAddTokens l h amount).map (fun l' => addEvent l' ⟨.gas, none, some h, amount⟩)

/-- GAS.Burn (318-326). -/
def burnGas (l : Ledger) (h : Nat) (amount : Int) : Option Ledger :=
  if amount = 0 then some l
  else (gasAddTokens l h (-amount)).map (fun l' => addEvent l' ⟨.gas, some h, none, amount⟩)

/-- NEO.MintDeferrable at genesis (347): addTokens with NEO.increaseBalance, distribution dropped (310). -/
def mintNeo (e : Env) (l : Ledger) (h : Nat) (amount : Int) : Option Ledger :=
  if amount = 0 then some l
  else
    let r := neoInc e l (get l.neo h) amount none
    if r.ok then
      some (addEvent { r.l with neo := store r.l.neo h r.si, neoSupply := r.l.neoSupply + amount } ⟨.neo, none, some h, amount⟩)
    else none

/-- GAS.MintDeferrable with callOnPayment = true (204, 206, 1111): the receiving contract's onNEP17Payment runs
with `from` = null; the helper contracts accept; Notary.onPayment (231), NEO.onNEP17Payment (903) and the contracts
of `e.noMint` convert `from` with toUint160, which panics on Null. -/
def mintGasCb (e : Env) (l : Ledger) (h : Nat) (amount : Int) : Option Ledger :=
  if amount ≠ 0 ∧ (h = e.notary ∨ h = e.neoC ∨ e.noMint.contains h) then none else mintGas l h amount

/-- the two deferred distributions of postTransfer's continuation (194-216). -/
def mintDists (e : Env) (l : Ledger) (d1 d2 : Option (Nat × Int)) : Option Ledger :=
  let l1 := match d1 with
    | some (h, g) => mintGasCb e l h g
    | none => some l
  match l1 with
  | none => none
  | some l1 =>
    match d2 with
    | some (h, g) => mintGasCb e l1 h g
    | none => some l1

/-! ## candidates and votes -/

/-- RegisterCandidateInternal (925-956). -/
def registerInternal (l : Ledger) (pub : Nat) : Ledger :=
  match get l.cands pub with
  | none => { l with cands := put l.cands pub ⟨true, 0⟩, votesChanged := true }
  | some c =>
    let l' := { l with cands := put l.cands pub { c with reg := true } }
    if c.reg then l' else { l' with votesChanged := true }

/-- unregisterCandidate (958-1006): result is always `true` once witnessed. -/
def unregister (l : Ledger) (pub : Nat) (wit : Bool) : Ledger × Bool :=
  if !wit then (l, false)
  else
    match get l.cands pub with
    | none => (l, true)
    | some c =>
      let l := { l with votesChanged := true }
      let c' : Cand := { c with reg := false }
      match dropIfZero l pub c' with
      | some l' => (l', true)
      | none => ({ l with cands := put l.cands pub c' }, true)

/-- the candidate checks of vote (1056-1068): unvoting needs none; a key must have a record that is registered. -/
def candOk (l : Ledger) : Option Nat → Bool
  | none => true
  | some p =>
    match get l.cands p with
    | none => false
    | some cd => cd.reg

/-- the account item written by vote (1086-1097): the new vote; LastGasPerVote is the latest value of the new
candidate, or 0 when the vote is revoked (the second ModifyAccountVotes in between reads only `vote`). -/
def voteNewAcc (l : Ledger) (acc : NeoAcc) : Option Nat → NeoAcc
  | some p => { acc with vote := some p, lgpv := latestGpv l p }
  | none => { acc with vote := none, lgpv := 0 }

/-- voteDeferrable + voteInternalUncheckedDeferrable (1008-1115) up to the GAS mint:
(ledger, result, GAS to mint to the voter). -/
def votePre (e : Env) (l : Ledger) (h : Nat) (pub : Option Nat) (wit : Bool) : Ledger × Bool × Option Int :=
  if !wit then (l, false, none)
  else
    match get l.neo h with
    | none => (l, false, none)
    | some acc =>
      if !candOk l pub then (l, false, none)
      else
        let l1 : Ledger :=
          if acc.vote.isNone != pub.isNone then
            { l with voters := l.voters + (if pub.isNone then -acc.bal else acc.bal) }
          else l
        match distributeGas e l1 acc with
        | none => (l1, false, none)
        | some (acc1, newGas) =>
          match modVotes l1 acc1 (-acc1.bal) false with
          | (l2, false) => (l2, false, none)
          | (l2, true) =>
            let acc3 := voteNewAcc l2 acc1 pub
            match modVotes l2 acc3 acc3.bal true with
            | (l3, false) => (l3, false, none)
            | (l3, true) => ({ l3 with neo := put l3.neo h acc3 }, true, newGas)

/-! ## Notary -/

/-- Notary.onPayment (227-274) for a GAS payment; `cur` = ic.BlockHeight() = index - 1; `none` = panic. -/
def notaryOnPayment (e : Env) (l : Ledger) (src : Nat) (amount : Int) (dto : Option Nat) (till : Nat) : Option Ledger :=
  let to := dto.getD src
  let allowed := e.sender = to
  let cur := e.index - 1
  let dep := get l.deps to
  if till < cur + 2 then none
  else if (match dep with | some d => decide (till < d.till) | none => false) then none
  else
    match dep with
    | none =>
      if amount < 2 * e.attrFee then none
      else some { l with deps := put l.deps to ⟨amount, if allowed then till else cur + 5760⟩ }
    | some d =>
      some { l with deps := put l.deps to ⟨d.amount + amount, if allowed then till else d.till⟩ }

/-- lockDepositUntil (277-303). -/
def lockDeposit (e : Env) (l : Ledger) (a : Nat) (till : Nat) (wit : Bool) : Ledger × Bool :=
  if !wit then (l, false)
  else if till < (e.index - 1) + 1 + 1 then (l, false)
  else
    match get l.deps a with
    | none => (l, false)
    | some d =>
      if till < d.till then (l, false)
      else ({ l with deps := put l.deps a { d with till := till } }, true)

/-- withdraw (306-349) up to the GAS transfer: `none` = returned false; else the ledger without the deposit
and the amount to send. -/
def withdrawPre (e : Env) (l : Ledger) (src : Nat) (wit : Bool) : Option (Ledger × Int) :=
  if !wit then none
  else
    match get l.deps src with
    | none => none
    | some d =>
      if e.index - 1 < d.till then none
      else some ({ l with deps := del l.deps src }, d.amount)

/-- NEO.onNEP17Payment (900-921) for a GAS payment with a well-formed key as data; `none` = panic. -/
def neoOnPayment (e : Env) (l : Ledger) (amount : Int) (pub : Nat) (witPub : Bool) : Option Ledger :=
  if amount ≠ l.regPrice then none
  else if !witPub then none
  else burnGas (registerInternal l pub) e.neoC amount

/-! ## committee election

Public keys are numbered by the harness so that `k / 2` is the rank of the key's X coordinate among the keys of
the case and `k % 2` the parity of Y (the prefix byte 02 / 03 of the compressed form).  With pairwise different
X coordinates `keys.PublicKey.Cmp` (X first, then Y) and the comparator of getCandidates (native_neo.go:1173-1181)
are `<` on these numbers, and the byte order of the serialized keys — the order in which the storage is iterated
under prefix 33 — is `bytesLe`. -/

def bytesLe (a b : Nat) : Bool := a % 2 < b % 2 || (a % 2 == b % 2 && a / 2 ≤ b / 2)

def insertBy {α : Type} (le : α → α → Bool) (x : α) : List α → List α
  | [] => [x]
  | y :: r => if le x y then x :: y :: r else y :: insertBy le x r

/-- slices.SortFunc with a total order on pairwise different elements. -/
def sortBy {α : Type} (le : α → α → Bool) (l : List α) : List α := l.foldr (insertBy le) []

/-- the account of a public key (`hash.Hash160` of its CheckSig script, native_neo.go:1153-1154, 510). -/
def acctOf (e : Env) (k : Nat) : Nat := (get e.keyAcc k).getD 0

/-- the filter of getCandidates (1152-1156): registered and the key's account not blocked by Policy. -/
def eligible (e : Env) (l : Ledger) (p : Nat × Cand) : Bool :=
  p.2.reg && !(l.blocked.contains (acctOf e p.1))

/-- the candidates that pass the filter, with their votes, in the order the records are met. -/
def candList (e : Env) (l : Ledger) : List (Nat × Int) :=
  (l.cands.filter (eligible e l)).map (fun p => (p.1, p.2.votes))

/-- the comparator of getCandidates (1165-1182): most votes first, ties by key ascending. -/
def voteLe (a b : Nat × Int) : Bool := decide (a.2 > b.2) || (a.2 == b.2 && decide (a.1 ≤ b.1))

/-- getCandidates(d, false, -1) (1148-1185). -/
def candsByVotes (e : Env) (l : Ledger) : List (Nat × Int) := sortBy voteLe (candList e l)

/-- getCandidates(d, true, maxNum) (1148-1160): storage order, the iteration stops at `maxNum` entries. -/
def candsByKey (e : Env) (l : Ledger) (maxNum : Nat) : List (Nat × Int) :=
  (sortBy (fun a b => bytesLe a.1 b.1) (candList e l)).take maxNum

/-- the votes a standby key has in the candidate list (1387-1393). -/
def votesIn (cs : List (Nat × Int)) (k : Nat) : Int :=
  match cs.find? (fun c => c.1 == k) with
  | some c => c.2
  | none => 0

/-- computeCommitteeMembers (1363-1406), the `keysWithVotes` result; `none` = error / panic (no total supply:
division by zero; fewer standby keys than the committee size: slice out of range). -/
def computeCommittee (e : Env) (l : Ledger) : Option (List (Nat × Int)) :=
  if l.neoSupply = 0 then none
  else if e.standby.length < e.csize then none
  else
    let turnout := l.voters * 5 / l.neoSupply
    let cs := candsByVotes e l
    if turnout ≤ 0 ∨ cs.length < e.csize then
      some ((e.standby.take e.csize).map (fun k => (k, votesIn cs k)))
    else some (cs.take e.csize)

/-- `committee[:numOfCNs]` sorted with PublicKey.Cmp (433-435, 458-460); `none` = slice out of range. -/
def valsOf (e : Env) (cvs : List (Nat × Int)) : Option (List Nat) :=
  if cvs.length < e.vcount then none
  else some (sortBy (fun a b => decide (a ≤ b)) ((cvs.map (·.1)).take e.vcount))

/-- updateCachedNewEpochValues (445-462). -/
def updateNewEpoch (e : Env) (l : Ledger) : Option Ledger :=
  match computeCommittee e l with
  | none => none
  | some cvs =>
    match valsOf e cvs with
    | none => none
    | some vs => some { l with neCommittee := cvs, neVals := vs }

/-- the test of NEO.OnPersist (473-479) that decides whether `CommitteeChanged` is emitted. -/
def committeeChanged (l : Ledger) : Bool :=
  (l.committee.zipIdx).any (fun (c, i) =>
    (match l.neCommittee[i]? with
     | some n => n.1 != c.1
     | none => true) || (i == 0 && l.neCommittee.length != l.committee.length))

/-! ## block level -/

/-- one transaction as OnPersist sees it. -/
structure TxFee where
  sender : Nat
  sys : Int
  net : Int
  /-- NotaryAssisted.NKeys if the attribute is present -/
  nkeys : Option Nat
  /-- Signers[1] of a transaction sent by the Notary contract -/
  payer : Option Nat
deriving Repr, Inhabited

def burnFees : Ledger → List TxFee → Option Ledger
  | l, [] => some l
  | l, t :: ts =>
    match burnGas l t.sender (t.sys + t.net) with
    | none => none
    | some l' => burnFees l' ts

def primaryFee (e : Env) : List TxFee → Int
  | [] => 0
  | t :: ts =>
    (match t.nkeys with
     | some k => t.net - ((k : Int) + 1) * e.attrFee
     | none => t.net) + primaryFee e ts

/-- fees the account `a` has to pay as sender in this block. -/
def owedBy (a : Nat) : List TxFee → Int
  | [] => 0
  | t :: ts => (if t.sender = a then t.sys + t.net else 0) + owedBy a ts

/-- fees charged to the deposit of `p` in this block (transactions sent by the Notary contract `nt`, paid by `p`). -/
def chargedTo (nt p : Nat) : List TxFee → Int
  | [] => 0
  | t :: ts => (if t.sender = nt ∧ t.nkeys.isSome ∧ t.payer = some p then t.sys + t.net else 0) + chargedTo nt p ts

/-- the block is covered on the ledger its OnPersist sees — what transaction verification guarantees: the primary
index is a validator position, fees are positive, a transaction of the Notary contract names its payer, every
sender's GAS covers the fees of all its transactions, every payer's deposit covers what is charged to it, the
network fees cover the notary service fees.  The driver evaluates it on every block of the real chain. -/
def coveredB (e : Env) (l : Ledger) (pidx : Nat) (txs : List TxFee) : Bool :=
  decide (pidx < e.vcount) &&
  txs.all (fun t => decide (0 < t.sys + t.net)) &&
  txs.all (fun t => !(decide (t.sender = e.notary) && t.nkeys.isSome) || t.payer.isSome) &&
  txs.all (fun t => decide (owedBy t.sender txs ≤ (get l.gas t.sender).getD 0)) &&
  txs.all (fun t => match t.payer with
    | some p => decide (chargedTo e.notary p txs ≤ ((get l.deps p).map (·.amount)).getD 0)
    | none => true) &&
  decide (0 ≤ primaryFee e txs)

/-- GAS.OnPersist (109-132). -/
def gasOnPersist (e : Env) (l : Ledger) (primary : Nat) (txs : List TxFee) : Option Ledger :=
  if txs.isEmpty then some l
  else
    match burnFees l txs with
    | none => none
    | some l1 => mintGas l1 primary (primaryFee e txs)

/-- the deposit part of Notary.OnPersist (170-200): (ledger, number of fee units). -/
def notaryCharge (e : Env) : Ledger → List TxFee → Option (Ledger × Int)
  | l, [] => some (l, 0)
  | l, t :: ts =>
    match t.nkeys with
    | none => notaryCharge e l ts
    | some k =>
      let l1 : Option Ledger :=
        if t.sender = e.notary then
          match t.payer with
          | none => none
          | some p =>
            match get l.deps p with
            | none => none
            | some d =>
              let a := d.amount - (t.sys + t.net)
              if a < 0 then none
              else if a = 0 then some { l with deps := del l.deps p }
              else some { l with deps := put l.deps p { d with amount := a } }
        else some l
      match l1 with
      | none => none
      | some l1 =>
        match notaryCharge e l1 ts with
        | none => none
        | some (l2, n) => some (l2, n + (k : Int) + 1)

def mintAll : Ledger → List Nat → Int → Option Ledger
  | l, [], _ => some l
  | l, h :: hs, g =>
    match mintGas l h g with
    | none => none
    | some l' => mintAll l' hs g

/-- Notary.OnPersist (164-213). -/
def notaryOnPersist (e : Env) (l : Ledger) (notaries : List Nat) (txs : List TxFee) : Option Ledger :=
  match notaryCharge e l txs with
  | none => none
  | some (l1, nFees) =>
    if nFees = 0 then some l1
    else if notaries.isEmpty then some l1
    else mintAll l1 notaries (Int.tdiv (nFees * e.attrFee) (notaries.length : Int))

/-- GetGASPerBlock (687-697) over the records newest first; `none` = "NEO cache not initialized". -/
def gasPerBlockAt : List (Nat × Int) → Nat → Option Int
  | [], _ => none
  | (idx, g) :: rest, i => if idx ≤ i then some g else gasPerBlockAt rest i

/-- getCandidateVoteFromStorage (1270-1280). -/
def storageVotes (l : Ledger) (pub : Nat) : Int :=
  match get l.cands pub with
  | none => -1
  | some c => if c.reg then c.votes else -1

/-- the loop of PostPersist (525-552) over the cached committee `(key, cached votes)`. -/
def voterRewards (e : Env) (voterReward : Int) : Ledger → List (Nat × Int) → Nat → Ledger
  | l, [], _ => l
  | l, (pub, cached) :: rest, i =>
    let votes := if l.votesChanged then storageVotes l pub else cached
    let l' :=
      if votes > 0 then
        let tmp := (if i < e.vcount then 2 else 1) * voterReward / votes + latestGpv l pub
        { l with gpvCache := put l.gpvCache pub tmp, gpv := put l.gpv pub tmp }
      else l
    voterRewards e voterReward l' rest (i + 1)

/-- NEO.PostPersist (503-576) without the recomputation of the next committee (the committee is an input:
`(key, account of the key, cached votes)` in cache order); `none` = panic. -/
def neoPostPersist (e : Env) (l : Ledger) (committee : List (Nat × Nat × Int)) : Option Ledger :=
  match gasPerBlockAt l.gpb.reverse (e.index + 1) with
  | none => none
  | some gas =>
    if e.csize = 0 then none
    else
      match committee[e.index % e.csize]? with
      | none => none
      | some (_, acc, _) =>
        match mintGas l acc (gas * 10 / 100) with
        | none => none
        | some l1 =>
          if e.index % e.csize = 0 then
            let vr := 80 * gas * (100000000 * (e.csize : Int)) / ((e.csize : Int) + (e.vcount : Int)) / 100
            some (voterRewards e vr l1 (committee.map (fun c => (c.1, c.2.2))) 0)
          else some l1

/-- NEO.OnPersist (465-500): at the first block of an epoch the values computed at the end of the previous one
become the committee and the validators, and `votesChanged` is cleared. -/
def neoOnPersist (e : Env) (l : Ledger) : Ledger :=
  if e.csize ≠ 0 ∧ e.index % e.csize = 0 then
    { l with nextVals := l.neVals, committee := l.neCommittee, votesChanged := false }
  else l

/-- NEO.PostPersist (503-576) complete: the committee member's reward and the voters' rewards are computed from
the cached committee; in the last block of an epoch the next committee and validators are recomputed when a
vote, a (un)registration or a change of Policy's blocked list happened since the epoch's first block (or the
configured sizes differ from the cached lists). -/
def neoPostPersistAll (e : Env) (l : Ledger) : Option Ledger :=
  match neoPostPersist e l (l.committee.map (fun c => (c.1, acctOf e c.1, c.2))) with
  | none => none
  | some l1 =>
    if e.csize ≠ 0 ∧ (e.index + 1) % e.csize = 0 then
      if l1.votesChanged ∨ e.vcount ≠ l1.neVals.length ∨ e.csize ≠ l1.neCommittee.length then updateNewEpoch e l1
      else some l1
    else some l1

/-- SetGASPerBlock (742-756) + setGASPerBlock (732-739); `none` = panic. -/
def setGasPerBlock (e : Env) (l : Ledger) (gas : Int) (wit : Bool) : Option Ledger :=
  if gas < 0 ∨ gas > 1000000000 then none
  else if !wit then none
  else some { l with gpb := l.gpb ++ [(e.index + 1, gas)] }

/-- setRegisterPrice (767-780). -/
def setRegisterPrice (l : Ledger) (price : Int) (wit : Bool) : Option Ledger :=
  if price ≤ 0 ∨ price ≥ 9223372036854775808 then none
  else if !wit then none
  else some { l with regPrice := price }

/-- NEO.Initialize + GAS.Initialize (native_neo.go:312-366, native_gas.go:83-101) and NEO.OnPersist in block 0:
the committee is the first `csize` standby keys with 0 votes (334-341), both initial supplies go to the standby
validators' address `h`, the new-epoch values are computed from the (empty) candidate list (360-361), and
NEO.OnPersist of block 0 (an epoch start) installs them. -/
def genesisFrom (e : Env) (l0 : Ledger) (h : Nat) (gasInit : Int) : Option Ledger :=
  match mintNeo e l0 h 100000000 with
  | none => none
  | some l1 =>
    match updateNewEpoch e l1 with
    | none => none
    | some l2 => mintGas (neoOnPersist e l2) h gasInit

def genesis (e : Env) (h : Nat) (gasInit : Int) : Option Ledger :=
  let e := { e with index := 0 }
  let cvs0 : List (Nat × Int) := (e.standby.take e.csize).map (fun k => (k, 0))
  match valsOf e cvs0 with
  | none => none
  | some vs0 => genesisFrom e { gpb := [(0, 500000000)], committee := cvs0, nextVals := vs0 } h gasInit

/-! ## witnesses -/

/-- WitnessCondition.Match for a call of the native contract `cur` made by `caller` (`none` = the entry script):
the current script is the native, the calling script is `caller`. -/
def Cond.holds (caller : Option Nat) (cur : Nat) : Cond → Bool
  | .bool b => b
  | .not c => !(c.holds caller cur)
  | .and a b => a.holds caller cur && b.holds caller cur
  | .or a b => a.holds caller cur || b.holds caller cur
  | .scriptHash h => h == cur
  | .calledByEntry => caller.isNone
  | .calledByContract h => caller == some h
  | .group => false
  | .calledByGroup => false

/-- the loop over the witness rules (witness.go:97-108): the first rule whose condition matches decides. -/
def rulesAllow (caller : Option Nat) (cur : Nat) : List (Bool × Cond) → Bool
  | [] => false
  | (allow, c) :: rest => if c.holds caller cur then allow else rulesAllow caller cur rest

/-- runtime.CheckHashedWitness (interop/runtime/witness.go:21-27) + checkScope (65-113) for a call of the native
contract `cur` made by `caller` (`none` = the entry script, so the native's context "is called by entry"):
the calling contract itself, or the first signer with that account whose scope allows the call — Global;
CalledByEntry; CustomContracts listing the native; CustomGroups (never: no groups); the witness rules. -/
def witOf (e : Env) (acc : Nat) (caller : Option Nat) (cur : Nat) : Bool :=
  if caller = some acc then true
  else
    match e.signers.find? (fun sg => sg.acc == acc) with
    | none => false
    | some sg =>
      sg.scopes == 128 || (sg.scopes &&& 1 != 0 && caller.isNone) || (sg.scopes &&& 16 != 0 && sg.allowed.contains cur) ||
        (sg.scopes &&& 64 != 0 && rulesAllow caller cur sg.rules)

/-- NeoCache.committeeHash (updateCache 426-431): the majority multi-signature account of the committee's keys;
`none` = an account nobody of the case can sign for. -/
def committeeAcct (e : Env) (l : Ledger) : Option Nat :=
  (e.msig.find? (fun p => p.2 == sortBy (fun a b => decide (a ≤ b)) (l.committee.map (·.1)))).map (·.1)

/-- NEO.CheckCommittee (705-711). -/
def witCommittee (e : Env) (l : Ledger) (caller : Option Nat) (cur : Nat) : Bool :=
  match committeeAcct e l with
  | some a => witOf e a caller cur
  | none => false

def tokC (e : Env) : Tok → Nat
  | .neo => e.neoC
  | .gas => e.gasC

/-! ## RoleManagement.designateAsRole(P2PNotary, nodes) -/

/-- DesignateAsRole (designate.go:409-470) for the P2PNotary role; `none` = panic.  The checks in the code's order:
empty list, more than 32 nodes, committee witness, a designation for `index + 1` exists already (a second one in
the same block), duplicates; the keys are stored sorted (the harness numbers the notary nodes' accounts in key
order, so sorting the account numbers is sorting the keys). -/
def designateNotary (e : Env) (l : Ledger) (nodes : List Nat) (wit : Bool) : Option Ledger :=
  if nodes.isEmpty then none
  else if nodes.length > 32 then none
  else if !wit then none
  else if l.notaryHeight = e.index + 1 then none
  else if nodes.eraseDups.length ≠ nodes.length then none
  else some { l with notaryNodes := sortBy (fun a b => decide (a ≤ b)) nodes, notaryHeight := e.index + 1 }

/-! ## Policy.blockAccount / unblockAccount -/

/-- BlockAccountInternalDeferrable (policy.go:668-711) after the committee check, for a plain account or a contract
whose payment callback accepts a GAS mint (the only contracts of a case that can hold NEO): the votes of the account are revoked without a witness (RevokeVotesDeferrable, native_neo.go:1036-1038;
its error is ignored), the GAS it had not claimed is minted to it, then the continuation looks the account up again
(676-683: contract code run by the payment callback could have blocked it meanwhile — not for a plain account, so the
second test repeats the first), adds it to the list and tells the NEO cache that the next committee has to be
recomputed (markCommitteeOutdated).  `none` = panic; the Bool is the method's result. -/
def blockAccount (e : Env) (l : Ledger) (acc : Nat) : Option (Ledger × Bool) :=
  if l.blocked.contains acc then some (l, false)
  else
    let cont (l' : Ledger) : Ledger := { l' with blocked := acc :: l'.blocked, votesChanged := true }
    match votePre e l acc none true with
    | (l1, false, _) => some (cont l1, true)
    | (l1, true, none) => some (cont l1, true)
    | (l1, true, some g) =>
      match mintGasCb e l1 acc g with
      | none => none
      | some l2 => some (cont l2, true)

/-- unblockAccount (706-721) after the committee check. -/
def unblockAccount (l : Ledger) (acc : Nat) : Ledger × Bool :=
  if l.blocked.contains acc then ({ l with blocked := l.blocked.filter (· != acc), votesChanged := true }, true)
  else (l, false)

/-! ## the transaction machine -/

/-- what `to` does in onNEP17Payment when it is neither Notary nor NEO. -/
inductive Recv
  | none     -- not a contract: no call
  | accept   -- returns normally without touching the natives
  | throws   -- no such method / throws
  | cb       -- calls back into the natives: the nested calls follow, closed by `endCb`
deriving Repr, DecidableEq, Inhabited

/-- what the payment callback of `dst` does with data of shape `dk` (an account without an entry in `contracts` is
not a contract: no call). -/
def recvOf (e : Env) (dst : Nat) (dk : DataKind) : Recv :=
  match get e.contracts dst with
  | none => .none
  | some .noCallback => .throws
  | some .accepts => .accept
  | some .wallet =>
    match dk with
    | .null => .accept
    | .call => .cb
    | .other => .throws

/-- the `data` argument as far as Notary / NEO look at it. -/
inductive Data
  | other
  | notary (dto : Option Nat) (till : Nat)
  | pub (p : Nat)
deriving Repr, DecidableEq, Inhabited

/-- `caller` of a call: the contract that makes it, `none` = the entry script. -/
inductive Op
  | block (idx : Nat)
  | onPersist (primary : Nat) (notaries : List Nat) (txs : List TxFee)
  | txBegin (sender : Nat) (signers : List Signer)
  | transfer (t : Tok) (src dst : Nat) (amt : Int) (caller : Option Nat) (dk : DataKind) (data : Data)
  | vote (acc : Nat) (pub : Option Nat) (caller : Option Nat) (cb : Bool)
  | register (pub : Nat) (caller : Option Nat)
  | unregister (pub : Nat) (caller : Option Nat)
  | lock (acc : Nat) (till : Nat) (caller : Option Nat)
  | withdraw (src : Nat) (dst : Option Nat) (caller : Option Nat)
  | setGpb (gas : Int) (caller : Option Nat)
  | setRegPrice (price : Int) (caller : Option Nat)
  | blockAcc (acc : Nat) (caller : Option Nat)
  | unblockAcc (acc : Nat) (caller : Option Nat)
  | designate (nodes : List Nat) (caller : Option Nat)
  | endCb
  | txEnd (abort : Bool)
  | postPersist
deriving Repr, Inhabited

/-- value left on the stack by a top-level call. -/
inductive Res | t | f | null
deriving Repr, DecidableEq, Inhabited

/-- continuation of a transfer whose payment callback is running. -/
structure CbFrame where
  d1 : Option (Nat × Int)
  d2 : Option (Nat × Int)
deriving Repr, Inhabited

structure St where
  env : Env
  cur : Ledger
  /-- ledger at the start of the transaction (restored on FAULT) -/
  snap : Ledger
  /-- ledger at the start of the block, notifications cleared -/
  base : Ledger
  failing : Bool := false
  cbs : List CbFrame := []
  /-- > 0: inside the nested calls of a payment callback that was never entered (the transfer returned
  `false` before it): the lines up to the matching `endCb` are not executed -/
  skip : Nat := 0
  /-- results of the top-level calls of the running transaction, newest first -/
  results : List Res := []
  /-- outcome of the last finished transaction: `none` = FAULT -/
  last : Option (List Res) := none
  /-- OnPersist / PostPersist panicked (the node would stop) -/
  panicked : Bool := false
deriving Repr, Inhabited

def St.throw (s : St) : St := { s with failing := true, cur := s.snap, cbs := [], skip := 0 }

/-- a call finished normally with value `r`: it is recorded when the call was made by the entry script. -/
def St.done (s : St) (l : Ledger) (r : Res) : St :=
  if s.cbs.isEmpty then { s with cur := l, results := r :: s.results } else { s with cur := l }

def resOf (b : Bool) : Res := if b then .t else .f

/-- the payment callback of a transfer that got as far as the notification, then the distributions. -/
def afterPosted (s : St) (t : Tok) (l : Ledger) (src dst : Nat) (amt : Int) (recv : Recv) (data : Data)
    (d1 d2 : Option (Nat × Int)) : St :=
  let e := s.env
  let fin (l' : Ledger) : St :=
    match mintDists e l' d1 d2 with
    | none => s.throw
    | some l'' => s.done l'' .t
  if dst = e.notary then
    match t, data with
    | .gas, .notary dto till =>
      match notaryOnPayment e l src amt dto till with
      | none => s.throw
      | some l' => fin l'
    | _, _ => s.throw
  else if dst = e.neoC then
    match t, data with
    | .gas, .pub p =>
      -- checkRegisterCandidate (890-898): NEO.onNEP17Payment runs in a context called by the GAS contract
      match neoOnPayment e l amt p (witOf e (acctOf e p) (some e.gasC) e.neoC) with
      | none => s.throw
      | some l' => fin l'
    | _, _ => s.throw
  -- a contract blocked by Policy cannot be called (callExFromNative, interop/contract/call.go:129-132): its
  -- payment callback fails, which faults the transaction
  else if recv ≠ .none ∧ l.blocked.contains dst then s.throw
  else
    match recv with
    | .none => fin l
    | .accept => fin l
    | .throws => s.throw
    | .cb => { s with cur := l, cbs := ⟨d1, d2⟩ :: s.cbs }

/-- the operation proper; `step` below first deals with skipped nested calls. -/
def exec (s : St) (op : Op) : St :=
  match op with
  | .block idx =>
    let e := { s.env with index := idx }
    let l := neoOnPersist e { s.cur with events := [] }
    { s with env := e, cur := l, snap := l, base := l, failing := false, cbs := [], skip := 0, results := [] }
  | .onPersist pidx notaries txs =>
    -- GAS.OnPersist (native_gas.go:117-118): validators[PrimaryIndex] of the running epoch, looked up only when
    -- the block has transactions
    let primary := acctOf s.env ((s.cur.nextVals[pidx]?).getD 0)
    if !txs.isEmpty ∧ s.cur.nextVals.length ≤ pidx then { s with panicked := true }
    -- assumption A1: the accounts GAS is minted to here are key accounts, never the Notary contract
    else if primary = s.env.notary ∨ notaries.contains s.env.notary then s
    -- assumption A2: a transaction sent by the Notary contract carries the NotaryAssisted attribute (Notary.verify)
    else if txs.any (fun t => t.sender = s.env.notary ∧ (t.nkeys.isNone ∨ t.payer.isNone)) then s
    else
      match gasOnPersist s.env s.cur primary txs with
      | none => { s with panicked := true }
      | some l1 =>
        match notaryOnPersist s.env l1 notaries txs with
        | none => { s with panicked := true }
        | some l2 => { s with cur := l2, snap := l2 }
  | .postPersist =>
    if s.cur.committee.any (fun c => acctOf s.env c.1 = s.env.notary) then s
    else
      match neoPostPersistAll s.env s.cur with
      | none => { s with panicked := true }
      | some l => { s with cur := l, snap := l }
  | .txBegin sender signers =>
    { s with env := { s.env with sender := sender, signers := signers }, snap := s.cur, failing := false, cbs := [], skip := 0,
             results := [] }
  | .txEnd abort =>
    if s.failing ∨ abort ∨ !s.cbs.isEmpty then
      { s with cur := s.snap, failing := false, cbs := [], skip := 0, results := [], last := none }
    else
      { s with snap := s.cur, skip := 0, last := some s.results, results := [] }
  | .endCb =>
    if s.failing then s
    else
      match s.cbs with
      | [] => s
      | f :: rest =>
        let s' := { s with cbs := rest }
        match mintDists s.env s.cur f.d1 f.d2 with
        | none => s'.throw
        | some l => s'.done l .t
  | .transfer t src dst amt caller dk data =>
    if s.failing then s
    else
      -- assumption A3: only the Notary contract itself has a witness for its own account (it signs with scope None)
      match transferPre t s.env s.cur src dst amt (witOf s.env src caller (tokC s.env t) && src != s.env.notary) with
      | .thr => s.throw
      | .ret l b =>
        let s' := s.done l (resOf b)
        if recvOf s.env dst dk = .cb then { s' with skip := 1 } else s'
      | .posted l d1 d2 => afterPosted s t l src dst amt (recvOf s.env dst dk) data d1 d2
  | .vote acc pub caller cb =>
    -- `cb`: the voter is a contract whose payment callback makes further native calls when the GAS reward of the vote
    -- is paid to it (the nested calls follow, closed by `endCb`).  The account item with the new vote is written by
    -- `votePre` (native_neo.go:1097) BEFORE the reward is minted and the callback runs (1110-1112).
    if s.failing then s
    else
      let noCb (s' : St) : St := if cb then { s' with skip := 1 } else s'
      match votePre s.env s.cur acc pub (witOf s.env acc caller s.env.neoC) with
      | (l, false, _) => noCb (s.done l .f)
      | (l, true, g) =>
        match g with
        | none => noCb (s.done l .t)
        | some g =>
          match mintGasCb s.env l acc g with
          | none => s.throw
          -- a reward of 0 is not minted and pays nothing (MintDeferrable / addTokens return at once): no callback
          | some l' => if cb ∧ g ≠ 0 then { s with cur := l', cbs := ⟨none, none⟩ :: s.cbs } else noCb (s.done l' .t)
  | .register pub _ =>
    if s.failing then s else s.done (registerInternal s.cur pub) .t
  | .unregister pub caller =>
    if s.failing then s
    else
      let (l, b) := unregister s.cur pub (witOf s.env (acctOf s.env pub) caller s.env.neoC)
      s.done l (resOf b)
  | .lock acc till caller =>
    if s.failing then s
    else
      let (l, b) := lockDeposit s.env s.cur acc till (witOf s.env acc caller s.env.notary)
      s.done l (resOf b)
  | .withdraw src dst caller =>
    if s.failing then s
    else
      match withdrawPre s.env s.cur src (witOf s.env src caller s.env.notary) with
      | none => s.done s.cur .f
      | some (l, amt) =>
        let to := dst.getD src
        match transferPre .gas s.env l s.env.notary to amt true with
        | .thr => s.throw
        | .ret _ _ => s.throw          -- "`transfer` returned false" panic (341-343) / unreachable true without post
        | .posted l' d1 d2 => afterPosted s .gas l' s.env.notary to amt (recvOf s.env to .null) .other d1 d2
  | .setGpb gas caller =>
    if s.failing then s
    else
      match setGasPerBlock s.env s.cur gas (witCommittee s.env s.cur caller s.env.neoC) with
      | none => s.throw
      | some l => s.done l .null
  | .setRegPrice price caller =>
    if s.failing then s
    else
      match setRegisterPrice s.cur price (witCommittee s.env s.cur caller s.env.neoC) with
      | none => s.throw
      | some l => s.done l .null
  | .blockAcc acc caller =>
    if s.failing then s
    -- "invalid committee signature" (654-656); "cannot block native contract" (658-662)
    else if !witCommittee s.env s.cur caller s.env.policyC then s.throw
    else if acc = s.env.notary ∨ acc = s.env.neoC ∨ acc = s.env.gasC ∨ acc = s.env.policyC ∨ s.env.noMint.contains acc then s.throw
    else
      match blockAccount s.env s.cur acc with
      | none => s.throw
      | some (l, b) => s.done l (resOf b)
  | .unblockAcc acc caller =>
    if s.failing then s
    else if !witCommittee s.env s.cur caller s.env.policyC then s.throw
    else
      let (l, b) := unblockAccount s.cur acc
      s.done l (resOf b)
  | .designate nodes caller =>
    if s.failing then s
    else
      match designateNotary s.env s.cur nodes (witCommittee s.env s.cur caller s.env.desigC) with
      | none => s.throw
      | some l => s.done l .null

/-- a call made by a script (as opposed to the block-level operations). -/
def Op.isCall : Op → Bool
  | .block _ | .onPersist .. | .txBegin .. | .txEnd _ | .postPersist => false
  | _ => true

/-- the contract that makes the call (`none`: the entry script, or not a call). -/
def Op.caller : Op → Option Nat
  | .transfer _ _ _ _ c _ _ | .vote _ _ c _ | .register _ c | .unregister _ c | .lock _ _ c | .withdraw _ _ c
  | .setGpb _ c | .setRegPrice _ c | .blockAcc _ c | .unblockAcc _ c | .designate _ c => c
  | _ => none

/-- a call the entry script makes through a contract that Policy has blocked: System.Contract.Call refuses to enter
the contract (interop/contract/call.go:129-132) and the transaction faults.  (A contract that is already running —
inside its payment callback — is not affected.) -/
def callerBlocked (s : St) (op : Op) : Bool :=
  !s.failing && s.cbs.isEmpty &&
  match op.caller with
  | some c => s.cur.blocked.contains c
  | none => false

def step (s : St) (op : Op) : St :=
  if s.skip > 0 ∧ op.isCall then
    match op with
    | .transfer _ _ dst _ _ dk _ => if recvOf s.env dst dk = .cb then { s with skip := s.skip + 1 } else s
    | .vote _ _ _ cb => if cb then { s with skip := s.skip + 1 } else s
    | .endCb => { s with skip := s.skip - 1 }
    | _ => s
  else if callerBlocked s op then s.throw
  else exec s op

def run (s : St) (ops : List Op) : St := ops.foldl step s

/-- the machine after block 0 (natives initialised), before its PostPersist. -/
def initSt (e : Env) (l : Ledger) : St := { env := e, cur := l, snap := l, base := l }

end NeoModel.Tokens
