/-
Deterministic machine model of ONE validator: neo-go's consensus service (pkg/consensus/consensus.go,
recovery_message.go) on top of github.com/nspcc-dev/dbft v0.4.0 (dbft.go, check.go, send.go, context.go,
helpers.go), for property C19. Core Lean only.

Where `NeoModel.Dbft` (Model/Dbft.lean) is a guarded-command model (what a validator MAY do), this file is
the reaction function: given the validator's state and one event of the service's event loop
(consensus.go:343-419: start, payload, timer tick, transaction, chain block) it computes the new state
and the exact sequence of things the service does (payloads handed to Config.Broadcast, Timer.Reset /
Timer.Extend calls with their durations, RequestTx / StopTxFlow calls, the block handed to the
BlockQueue). `Driver/Dbft.lean` runs it next to every real service of the harness and compares both, after
every event; `Proofs/DbftMach*.lean` prove that every reaction is a sequence of enabled steps of the
guarded-command model, so the safety theorems of Props/C19.lean hold for networks of these machines.

Identities. A PrepareRequest payload is identified by its payload hash, here a proposal id `p : Nat`; what
the request carries is looked up in `Env.prop p`. A header is a function of (height, view → primary index,
proposal), i.e. a `Block ⟨h, v, p⟩` of Model/Dbft.lean; a Commit carries the block its signature signs, and
"the signature verifies against my header" (block.go:33-40) is equality of blocks.

Not modelled: the MaxTimePerBlock / mempool-subscription extension and the anti-MEV extension (both off in
the harness configuration and on N3 mainnet), watch-only nodes (every modelled node is a validator),
round-trip estimates (dbft.go:514-516; they stay 0 under the harness clock), byte overflow of view numbers.
-/
import NeoModel.Model.Dbft
namespace NeoModel.Dbft.Mach
open NeoModel.Dbft

/-- message header: validator index, block index, view number (payload.go:17-27) -/
structure Hd where
  frm : Nat
  h : Nat
  v : Nat
deriving DecidableEq, Repr, Inhabited

/-- RecoveryMessage content in its compact wire form (recovery_message.go:16-42) -/
structure Rec where
  cvs : List (Nat × Nat) := []            -- changeViewCompact: (ValidatorIndex, OriginalViewNumber)
  req : Option Nat := none                -- prepareRequest: the proposal it carries
  ph : Option Nat := none                 -- preparationHash (on the wire only without prepareRequest)
  preps : List Nat := []                  -- preparationCompact: ValidatorIndex
  commits : List (Nat × Nat × Block) := [] -- commitCompact: (ViewNumber, ValidatorIndex, what Signature signs)
deriving DecidableEq, Repr, Inhabited

/-- a consensus payload (payload.go:29-47) -/
inductive Pl where
  | cv (x : Hd) (reason : Nat)            -- ChangeView; NewViewNumber = x.v + 1 is not marshalled (payload.go:150-154)
  | prepReq (x : Hd) (p : Nat)
  | prepResp (x : Hd) (ph : Nat)
  | commit (x : Hd) (b : Block)
  | recReq (x : Hd)
  | recMsg (x : Hd) (r : Rec)
deriving DecidableEq, Repr, Inhabited

def Pl.hd : Pl → Hd
  | .cv x _ | .prepReq x _ | .prepResp x _ | .commit x _ | .recReq x | .recMsg x _ => x

/-- what a PrepareRequest carries (prepare_request.go:11-19) plus where it was sent -/
structure PropInfo where
  h : Nat := 0
  v : Nat := 0
  frm : Nat := 0
  ts : Nat := 0             -- milliseconds
  txs : List Nat := []
  prev : Nat := 0           -- prevHash: proposal id of the block it extends (0 = genesis)
  ver : Nat := 0
  sroot : Nat := 0          -- stateRoot: proposal id of the block whose post-state root it is
deriving DecidableEq, Repr, Inhabited

structure TxInfo where
  sysFee : Nat := 0
  size : Nat := 0
deriving DecidableEq, Repr, Inhabited

/-- configuration and the tables the run refers to -/
structure Env where
  n : Nat
  tpb : Nat := 1000000000         -- TimePerBlock, ns
  maxTx : Nat := 0                -- MaxTransactionsPerBlock
  maxSize : Nat := 0              -- MaxBlockSize
  maxSysFee : Nat := 0            -- MaxBlockSystemFee
  sr : Bool := false              -- StateRootInHeader
  baseV : Nat := 0                -- GetExpectedBlockSizeWithoutTransactions with the empty witness (verifyBlock)
  baseP : Nat := 0                -- the same with the default block witness (ApplyPolicyToTxSet)
  prop : Nat → PropInfo := fun _ => {}
  tx : Nat → TxInfo := fun _ => {}
  /-- stand-alone verification of transaction `t` on validator `i`'s ledger fails (PoolTx / pool.Add in
      verifyBlock, consensus.go:571-588) -/
  txBad : Nat → Nat → Bool := fun _ _ => false

def Env.f (e : Env) : Nat := (e.n - 1) / 3
def Env.m (e : Env) : Nat := e.n - e.f
/-- context.go:112-119 -/
def Env.primary (e : Env) (h v : Nat) : Nat := (h + (e.n - 1) * v) % e.n

/-- helpers.go: messages of one future height, by kind and sender -/
structure Inbox where
  prepare : List (Nat × Pl) := []
  chViews : List (Nat × Pl) := []
  commit : List (Nat × Pl) := []
deriving Repr, Inhabited

structure Timer where
  h : Nat := 0
  v : Nat := 0
  dur : Nat := 0
  armed : Bool := false
deriving DecidableEq, Repr, Inhabited

/-- One validator: its ledger as far as consensus reads it, the service's own fields (consensus.go:82-110)
and the dBFT context (context.go:17-100, dbft.go:17-24). -/
structure Node where
  my : Nat := 0
  chain : List Block := []          -- newest first
  pool : List Nat := []             -- mempool.GetVerifiedTransactions(), in that order
  lastTs : Nat := 0                 -- service.lastTimestamp, ms
  lastProposal : List Nat := []
  bi : Nat := 0                     -- BlockIndex
  view : Nat := 0
  pidx : Nat := 0                   -- PrimaryIndex
  txHashes : List Nat := []
  missing : List Nat := []
  txs : List Nat := []              -- keys of Context.Transactions
  prep : List (Option Pl) := []     -- PreparationPayloads
  commit : List (Option Pl) := []   -- CommitPayloads
  cv : List (Option Pl) := []       -- ChangeViewPayloads
  lastCv : List (Option Pl) := []   -- LastChangeViewPayloads
  lastSeen : List (Option (Nat × Nat)) := []
  blockProcessed : Bool := false
  lbTimestamp : Nat := 0            -- lastBlockTimestamp, ns
  lbTime : Option Nat := none       -- lastBlockTime (none = the zero time.Time)
  lbIndex : Nat := 0
  lbView : Nat := 0
  recovering : Bool := false
  cache : List (Nat × Inbox) := []
  timer : Timer := {}
  wish : List Nat := []             -- network.Server.txCbList: the hashes whose arrival is reported to consensus
deriving Inhabited

/-- what the service does, in order -/
inductive Out where
  | bcast (p : Pl)
  /-- the content of the PrepareRequest just built by Fill / newPrepareRequest -/
  | proposal (info : PropInfo)
  | timer (h v dur : Nat)
  | extend (d : Nat)
  | reqTx (ts : List Nat)
  | stopTx
  /-- processBlock: the block, the validators whose signatures getBlockWitness takes, and whether each
      of them signs this block -/
  | block (b : Block) (sigs : List (Nat × Bool))
deriving DecidableEq, Repr, Inhabited

/-- the world of one event: the node, what it has done so far, and the inputs of the event that are not
part of the protocol state: the clock, the hash of a PrepareRequest built now (it contains a random nonce,
context.go:324-330), the order in which Go iterates the maps of cached payloads (helpers.go:5-10,
dbft.go:119-135) given as the sequence of senders of all OnReceive calls of the event. -/
structure W where
  nd : Node
  out : List Out := []        -- newest first
  now : Nat := 0              -- Timer.Now().UnixNano()
  fresh : Nat := 0
  hints : List Nat := []
  oof : Bool := false         -- the recursion bound was hit (never on the traces of the harness)

def slot {α : Type} (l : List (Option α)) (i : Nat) : Option α := (l[i]?).join
def W.emit (w : W) (o : Out) : W := { w with out := o :: w.out }
def W.upd (w : W) (f : Node → Node) : W := { w with nd := f w.nd }
def blanks {α : Type} (n : Nat) : List (Option α) := List.replicate n none

/-! ### context.go predicates -/

def Node.isPrimary (nd : Node) : Bool := nd.my == nd.pidx
def Node.requestSOR (nd : Node) : Bool := (slot nd.prep nd.pidx).isSome
def Node.responseSent (nd : Node) : Bool := (slot nd.prep nd.my).isSome
def Node.commitSent (nd : Node) : Bool := (slot nd.commit nd.my).isSome
def Node.hasAllTx (nd : Node) : Bool := nd.txHashes.length == nd.txs.length
/-- context.go:198-206 -/
def Node.viewChanging (nd : Node) : Bool :=
  match slot nd.cv nd.my with
  | some p => decide (p.hd.v + 1 > nd.view)
  | none => false
/-- context.go:134-144 (no PreCommits on N3) -/
def Node.countCommitted (nd : Node) : Nat := (nd.commit.filter Option.isSome).length
/-- context.go:148-157 -/
def Node.countFailed (nd : Node) : Nat :=
  ((List.range nd.lastSeen.length).filter fun i =>
    (slot nd.commit i).isNone &&
      (match slot nd.lastSeen i with
       | none => true
       | some (h, v) => decide (h < nd.bi) || decide (v < nd.view))).length
def Node.moreThanF (e : Env) (nd : Node) : Bool := decide (nd.countCommitted + nd.countFailed > e.f)
def Node.notAccepting (e : Env) (nd : Node) : Bool := nd.viewChanging && !nd.moreThanF e
/-- the proposal of the PrepareRequest held for the current view -/
def Node.curProp (nd : Node) : Option Nat :=
  match slot nd.prep nd.pidx with
  | some (.prepReq _ p) => some p
  | _ => none
/-- context.go:403-420 `MakeHeader` (consensus.go:776-817 `newBlockFromContext`) -/
def Node.header (nd : Node) : Option Block := nd.curProp.map fun p => ⟨nd.bi, nd.view, p⟩
def Node.height (nd : Node) : Nat := nd.chain.length            -- Chain.BlockHeight()
def Node.topId (nd : Node) : Nat := match nd.chain with | b :: _ => b.p | [] => 0
def Node.onChain (e : Env) (nd : Node) (t : Nat) : Bool := nd.chain.any fun b => (e.prop b.p).txs.contains t

/-! ### the timer arithmetic, as functions of the durations (ns) -/

/-- dbft.go:141-151: what a validator waits in a new view before it acts: the primary one block time in
view 0 and nothing in later views, a backup `TimePerBlock << (view+1)` (doubling with every view). `pview` is
the view `initializeConsensus` was CALLED for, `cview` the view the context is in when the timer is armed —
they differ when the replay of cached ChangeViews changed the view inside the call (the primary test reads the
context, the `view == 0` test the parameter). -/
def baseTimeout (tpb : Nat) (primary : Bool) (pview cview : Nat) : Nat :=
  if primary then (if pview == 0 then tpb else 0) else tpb <<< (cview + 1)

/-- dbft.go:152-159: when the previous height is the one this validator last prepared, the time that has
passed since then (`lastBlockTime`, set at the first checkPrepare of that round) is taken off — the wait
counts from the previous block's proposal, not from its acceptance; `some none`: lastBlockTime is the zero
time, the difference saturates and nothing is left; never below zero -/
def roundTimeout (tpb : Nat) (primary : Bool) (pview cview : Nat) : Option (Option Nat) → Nat
  | none => baseTimeout tpb primary pview cview
  | some none => 0
  | some (some d) => baseTimeout tpb primary pview cview - d

/-- send.go:50-53: the primary's timer after its PrepareRequest -/
def afterRequest (tpb view : Nat) : Nat := (tpb <<< (view + 1)) - (if view == 0 then tpb else 0)
/-- send.go:74-75: after asking for view `view+1` -/
def afterChangeView (tpb view : Nat) : Nat := tpb <<< (view + 2)
/-- dbft.go:747-751 -/
def extension (tpb m count : Nat) : Nat := count * tpb / m

/-! ### timers (dbft.go:739-751) -/

def changeTimer (w : W) (delay : Nat) : W :=
  (w.upd fun nd => { nd with timer := { h := nd.bi, v := nd.view, dur := delay, armed := true } }).emit
    (.timer w.nd.bi w.nd.view delay)

def extendTimer (e : Env) (w : W) (count : Nat) : W :=
  if !w.nd.commitSent && !w.nd.viewChanging then
    let d := extension e.tpb e.m count
    (w.upd fun nd => { nd with timer := { nd.timer with dur := nd.timer.dur + d } }).emit (.extend d)
  else w

def bcast (w : W) (p : Pl) : W := w.emit (.bcast p)
def stopTx (w : W) : W := (w.upd fun nd => { nd with wish := [] }).emit .stopTx

/-! ### the cache of future payloads (helpers.go) -/

def setKey (l : List (Nat × Pl)) (k : Nat) (p : Pl) : List (Nat × Pl) :=
  if l.any (fun x => x.1 == k) then l.map (fun x => if x.1 == k then (k, p) else x) else l ++ [(k, p)]

def Inbox.add (b : Inbox) (m : Pl) : Inbox :=
  match m with
  | .prepReq x _ | .prepResp x _ => { b with prepare := setKey b.prepare x.frm m }
  | .cv x _ => { b with chViews := setKey b.chViews x.frm m }
  | .commit x _ => { b with commit := setKey b.commit x.frm m }
  | _ => b

def cacheAdd (c : List (Nat × Inbox)) (m : Pl) : List (Nat × Inbox) :=
  let h := m.hd.h
  if c.any (fun x => x.1 == h) then c.map (fun x => if x.1 == h then (h, x.2.add m) else x)
  else c ++ [(h, ({} : Inbox).add m)]

/-! ### service callbacks (consensus.go) -/

/-- consensus.go:530-544 `getTx`: the mempool, then the ledger (the relay cache is never filled) -/
def getTx (e : Env) (nd : Node) (t : Nat) : Bool := nd.pool.contains t || nd.onChain e t

/-- consensus.go:613-636 `verifyRequest` -/
def verifyRequest (e : Env) (nd : Node) (p : Nat) : Bool :=
  let pi := e.prop p
  pi.prev == nd.topId && pi.ver == 0 && (!e.sr || pi.sroot == nd.topId) && decide (pi.txs.length ≤ e.maxTx)

def sumBy (f : Nat → Nat) (l : List Nat) : Nat := (l.map f).sum

/-- consensus.go:546-604 `verifyBlock` -/
def verifyBlock (e : Env) (nd : Node) (p : Nat) : Bool :=
  let pi := e.prop p
  if nd.height ≥ nd.bi then false
  else if nd.lastTs ≥ pi.ts then false
  else if e.baseV + sumBy (fun t => (e.tx t).size) pi.txs > e.maxSize then false
  else if pi.txs.any (fun t => e.txBad nd.my t) then false
  else if sumBy (fun t => (e.tx t).sysFee) pi.txs > e.maxSysFee then false
  else true

/-- blockchain.go:2905-2939 `ApplyPolicyToTxSet`: the loop cuts BEFORE the first transaction with which the
running size or system fee exceeds the limit -/
def policyLoop (e : Env) : Nat → Nat → List Nat → List Nat
  | _, _, [] => []
  | size, fee, t :: rest =>
    let size := size + (e.tx t).size
    let fee := fee + (e.tx t).sysFee
    if size > e.maxSize || fee > e.maxSysFee then [] else t :: policyLoop e size fee rest

def applyPolicy (e : Env) (txs : List Nat) : List Nat :=
  let txs := if e.maxTx != 0 && decide (txs.length > e.maxTx) then txs.take e.maxTx else txs
  policyLoop e e.baseP 0 txs

/-- consensus.go:707-737 `getVerifiedTx` -/
def getVerifiedTx (e : Env) (nd : Node) : List Nat :=
  let txx :=
    if decide (nd.view > 0) && !nd.lastProposal.isEmpty then
      let txx := nd.lastProposal.filter (fun t => nd.pool.contains t)
      if txx.length < nd.lastProposal.length / 2 then nd.pool else txx
    else nd.pool
  if txx.isEmpty then txx else applyPolicy e txx

/-- the ledger takes block `b`: its transactions leave the mempool (blockchain.go storeBlock / mempool
RemoveStale; further evictions reach the model through the next `mp` report of the harness) -/
def addToChain (e : Env) (nd : Node) (b : Block) : Node :=
  { nd with chain := b :: nd.chain, pool := nd.pool.filter fun t => !(e.prop b.p).txs.contains t }

/-- consensus.go:661-664 -/
def postBlock (e : Env) (nd : Node) (b : Block) : Node :=
  { nd with lastTs := max nd.lastTs (e.prop b.p).ts, lastProposal := [] }

/-! ### dbft: one level of the mutually recursive handlers; `k` is OnReceive one level down -/

/-- context.go:243-305 `reset` -/
def reset (e : Env) (nd : Node) (view ts : Nat) : Node :=
  let nd := { nd with lbTimestamp := ts }
  let nd :=
    if view == 0 then
      { nd with bi := nd.height + 1, lastCv := blanks e.n, lastSeen := blanks e.n, blockProcessed := false }
    else
      { nd with lastCv := (List.range e.n).map fun i =>
          match slot nd.cv i with
          | some m => if m.hd.v + 1 ≥ view then some m else none
          | none => none }
  let nd := { nd with cv := blanks e.n }
  let nd := if view == 0 then { nd with commit := blanks e.n } else nd
  let nd := { nd with prep := blanks e.n, txs := [], txHashes := [], missing := [],
                      pidx := e.primary nd.bi view, view := view }
  { nd with lastSeen := nd.lastSeen.set nd.my (some (nd.bi, view)) }

/-- the next cached payload to replay: the one the real service took (hint), else the first -/
def choose (g : List (Nat × Pl)) (hints : List Nat) : Option (Pl × List (Nat × Pl)) :=
  match g with
  | [] => none
  | (k0, m0) :: rest =>
    match hints with
    | hnt :: _ =>
      match g.find? (fun x => x.1 == hnt) with
      | some (k, m) => some (m, g.filter (fun x => x.1 != k))
      | none => some (m0, rest.filter (fun x => x.1 != k0))
    | [] => some (m0, rest.filter (fun x => x.1 != k0))

def replay (k : W → Pl → W) : Nat → W → List (Nat × Pl) → W
  | 0, w, _ => w
  | fuel + 1, w, g =>
    match choose g w.hints with
    | none => w
    | some (m, rest) => replay k fuel (k w m) rest

/-- dbft.go:92-160 `initializeConsensus` -/
def initConsensus (k : W → Pl → W) (e : Env) (w : W) (view ts : Nat) : W :=
  let w := w.upd fun nd => reset e nd view ts
  let w := stopTx w
  -- cached payloads of this height (cache.getHeight deletes the inbox)
  let box := (w.nd.cache.find? (fun x => x.1 == w.nd.bi)).map (·.2)
  let w := w.upd fun nd => { nd with cache := nd.cache.filter (fun x => x.1 != nd.bi) }
  let w := match box with
    | none => w
    | some b =>
      let w := replay k b.prepare.length w b.prepare
      let w := replay k b.chViews.length w b.chViews
      replay k b.commit.length w b.commit
  let nd := w.nd
  let elapsed : Option (Option Nat) :=
    if nd.lbIndex + 1 == nd.bi then some (nd.lbTime.map fun t => w.now - t) else none
  changeTimer w (roundTimeout e.tpb (nd.isPrimary && !nd.recovering) view nd.view elapsed)

/-- check.go:155-180 -/
def checkChangeView (k : W → Pl → W) (e : Env) (w : W) (view : Nat) : W :=
  let nd := w.nd
  if nd.view ≥ view then w
  else
    let count := (nd.cv.filter fun s => match s with
      | some m => decide (m.hd.v + 1 ≥ view)
      | none => false).length
    if count < e.m then w
    else
      let w := match slot nd.cv nd.my with
        | some m =>
          if m.hd.v + 1 < view then
            -- makeChangeView stores the new payload in the node's own slot (send.go:60-67)
            let msg := Pl.cv ⟨nd.my, nd.bi, nd.view⟩ 1
            bcast (w.upd fun nd => { nd with cv := nd.cv.set nd.my (some msg) }) msg
          else w
        | none => w
      initConsensus k e w view w.nd.lbTimestamp

/-- dbft.go:367-384 -/
def processMissingTx (e : Env) (w : W) : W :=
  let nd := w.nd
  let step : Node → Nat → Node := fun nd t =>
    if nd.txs.contains t then nd
    else if getTx e nd t then { nd with txs := nd.txs ++ [t] }
    else { nd with missing := nd.missing ++ [t] }
  let nd := nd.txHashes.foldl step nd
  let w := { w with nd := nd }
  -- Config.RequestTx = network.Server.RequestTx (server.go:1709-1730): the wish list is replaced
  if !nd.missing.isEmpty then (w.upd fun nd => { nd with wish := nd.missing }).emit (.reqTx nd.missing) else w

/-- send.go:186-194 -/
def sendRecoveryRequest (e : Env) (w : W) : W :=
  let w := if w.nd.requestSOR && !w.nd.hasAllTx then processMissingTx e w else w
  bcast w (.recReq ⟨w.nd.my, w.nd.bi, w.nd.view⟩)

/-- send.go:69-104 -/
def sendChangeView (k : W → Pl → W) (e : Env) (w : W) (reason : Nat) : W :=
  let newView := w.nd.view + 1
  let w := changeTimer w (afterChangeView e.tpb w.nd.view)
  let nd := w.nd
  if reason == 0 && decide (nd.countCommitted + nd.countFailed > e.f) then sendRecoveryRequest e w
  else
    let reason := if !nd.hasAllTx && reason == 0 then 2 else reason
    let msg := Pl.cv ⟨nd.my, nd.bi, nd.view⟩ reason
    let w := w.upd fun nd => { nd with cv := nd.cv.set nd.my (some msg) }
    let w := stopTx w
    let w := bcast w msg
    checkChangeView k e w newView

/-- send.go:196-236 `makeRecoveryMessage` through recovery_message.go:143-186 `AddPayload` -/
def makeRecovery (nd : Node) : Rec :=
  let preps := (List.range nd.prep.length).filterMap fun i => (slot nd.prep i).map fun _ => i
  let req := nd.prep.findSome? fun s => match s with
    | some (.prepReq _ p) => some p
    | _ => none
  -- the hash is taken from the request, else from the first response; it is written only without a request
  let ph := nd.prep.findSome? fun s => match s with
    | some (.prepResp _ h) => some h
    | _ => none
  let cvs := nd.lastCv.filterMap fun s => s.map fun m => (m.hd.frm, m.hd.v)
  let commits := if nd.commitSent then nd.commit.filterMap fun s => match s with
      | some (.commit x b) => some (x.v, x.frm, b)
      | _ => none
    else []
  { cvs := cvs, req := req, ph := if req.isSome then none else ph, preps := preps, commits := commits }

def sendRecoveryMessage (w : W) : W :=
  bcast w (.recMsg ⟨w.nd.my, w.nd.bi, w.nd.view⟩ (makeRecovery w.nd))

/-- consensus.go:666-696 `getBlockWitness`: the commits of the current view, the first M in validator order -/
def blockWitness (e : Env) (nd : Node) (b : Block) : List (Nat × Bool) :=
  ((List.range e.n).filterMap fun i =>
    match slot nd.commit i with
    | some (.commit x sb) => if x.v == nd.view then some (i, decide (sb = b)) else none
    | _ => none).take e.m

/-- check.go:106-153 `checkCommit`, consensus.go:646-659 `processBlock` with the harness' synchronous block
queue: the ledger takes the block iff all M signatures of the witness sign it -/
def checkCommit (e : Env) (w : W) : W :=
  let nd := w.nd
  if !nd.hasAllTx then w
  else
    let count := (nd.commit.filter fun s => match s with
      | some m => m.hd.v == nd.view
      | none => false).length
    if count < e.m then w
    else
      match nd.header with
      | none => w        -- CreateBlock returns nil: the library would dereference it (never with M ≥ 1 commits of the view verified)
      | some b =>
        let sigs := blockWitness e nd b
        let ok := sigs.all (·.2) && sigs.length == e.m && nd.height + 1 == b.h
        let w := w.emit (.block b sigs)
        let w := if ok then w.upd fun nd => addToChain e nd b else w
        w.upd fun nd => { postBlock e nd b with blockProcessed := true }

/-- send.go:143-184 `makeCommit`/`sendCommit` -/
def sendCommit (w : W) : W :=
  let nd := w.nd
  match slot nd.commit nd.my with
  | some msg => bcast w msg
  | none =>
    match nd.header with
    | none => w
    | some b =>
      let msg := Pl.commit ⟨nd.my, nd.bi, nd.view⟩ b
      bcast (w.upd fun nd => { nd with commit := nd.commit.set nd.my (some msg) }) msg

/-- check.go:7-50 -/
def checkPrepare (e : Env) (w : W) : W :=
  let w := if w.nd.lbIndex != w.nd.bi || w.nd.lbView != w.nd.view then
      w.upd fun nd => { nd with lbTime := some w.now, lbIndex := nd.bi, lbView := nd.view }
    else w
  let nd := w.nd
  if !nd.hasAllTx then w
  else
    let count := (nd.prep.filter fun s => match s with
      | some m => m.hd.v == nd.view
      | none => false).length
    let hasRequest := nd.prep.any fun s => match s with
      | some (.prepReq _ _) => true
      | _ => false
    if hasRequest && decide (count ≥ e.m) then
      checkCommit e (changeTimer (sendCommit w) e.tpb)
    else w

/-- send.go:106-120 -/
def sendPrepareResponse (w : W) : W :=
  let nd := w.nd
  match nd.curProp with
  | none => w
  | some p =>
    let msg := Pl.prepResp ⟨nd.my, nd.bi, nd.view⟩ p
    let w := w.upd fun nd => { nd with prep := nd.prep.set nd.my (some msg) }
    bcast (stopTx w) msg

/-- dbft.go:386-410 -/
def createAndCheckBlock (k : W → Pl → W) (e : Env) (w : W) : W × Bool :=
  match w.nd.curProp with
  | none => (w, false)
  | some p =>
    if verifyBlock e w.nd p then (w, true) else (sendChangeView k e w 4, false)

/-- send.go:19-58 `sendPrepareRequest` with context.go:318-344 `Fill` -/
def sendPrepareRequest (e : Env) (w : W) : W :=
  let nd := w.nd
  let txx := getVerifiedTx e nd
  let ts := max (nd.lbTimestamp + 1000000) (w.now / 1000000 * 1000000)
  let info : PropInfo := { h := nd.bi, v := nd.view, frm := nd.my, ts := ts / 1000000, txs := txx,
                           prev := nd.topId, ver := 0, sroot := if e.sr then nd.topId else 0 }
  let msg := Pl.prepReq ⟨nd.my, nd.bi, nd.view⟩ w.fresh
  let w := w.upd fun nd => { nd with txHashes := txx, txs := txx.foldl (fun acc t => if acc.contains t then acc else acc ++ [t]) nd.txs,
                                      prep := nd.prep.set nd.my (some msg) }
  let w := bcast (w.emit (.proposal info)) msg
  checkPrepare e (changeTimer w (afterRequest e.tpb nd.view))

/-- dbft.go:653-671 -/
def onRecoveryRequest (e : Env) (w : W) (x : Hd) : W :=
  let nd := w.nd
  if !nd.commitSent && decide ((nd.my + e.n - 1 - x.frm) % e.n > e.f) then w
  else sendRecoveryMessage w

/-- dbft.go:525-554 -/
def onChangeView (k : W → Pl → W) (e : Env) (w : W) (msg : Pl) : W :=
  let nd := w.nd
  let x := msg.hd
  let nv := x.v + 1
  if nv ≤ nd.view then onRecoveryRequest e w x
  else if nd.commitSent then sendRecoveryMessage w
  else
    match slot nd.cv x.frm with
    | some m => if nv < m.hd.v + 1 then w else
        checkChangeView k e (w.upd fun nd => { nd with cv := nd.cv.set x.frm (some msg) }) nv
    | none => checkChangeView k e (w.upd fun nd => { nd with cv := nd.cv.set x.frm (some msg) }) nv

/-- dbft.go:319-365 -/
def onPrepareRequest (k : W → Pl → W) (e : Env) (w : W) (msg : Pl) (p : Nat) : W :=
  let nd := w.nd
  let x := msg.hd
  if nd.requestSOR then w
  else if nd.view != x.v then w
  else if x.frm != nd.pidx then w
  else if !verifyRequest e nd p then sendChangeView k e w 5
  else
    let w := w.upd fun nd => { nd with lastProposal := (e.prop p).txs }        -- consensus.go:633
    let w := extendTimer e w 2
    let w := w.upd fun nd => { nd with txHashes := (e.prop p).txs }
    let w := processMissingTx e w
    -- updateExistingPayloads (dbft.go:414-430): responses for another hash are dropped; the commits
    -- cannot be checked here: MakeHeader is still nil, the request is stored only afterwards
    let w := w.upd fun nd => { nd with prep := nd.prep.map fun s => match s with
      | some (.prepResp y ph) => if ph != p then none else some (.prepResp y ph)
      | s => s }
    let w := w.upd fun nd => { nd with prep := nd.prep.set x.frm (some msg) }
    if !w.nd.hasAllTx then w
    else
      let (w, ok) := createAndCheckBlock k e w
      if !ok then w else checkPrepare e (sendPrepareResponse w)

/-- dbft.go:469-523 -/
def onPrepareResponse (e : Env) (w : W) (msg : Pl) (ph : Nat) : W :=
  let nd := w.nd
  let x := msg.hd
  if nd.view != x.v then w
  else if x.frm == nd.pidx then w
  else if (slot nd.prep x.frm).isSome || nd.notAccepting e then w
  else
    let w := w.upd fun nd => { nd with prep := nd.prep.set x.frm (some msg) }
    match w.nd.curProp with
    | some p =>
      if ph != p then w.upd fun nd => { nd with prep := nd.prep.set x.frm none }
      else
        let w := extendTimer e w 2
        if !w.nd.commitSent && w.nd.requestSOR then checkPrepare e w else w
    | none =>
      let w := extendTimer e w 2
      if !w.nd.commitSent && w.nd.requestSOR then checkPrepare e w else w

/-- dbft.go:606-651 -/
def onCommit (e : Env) (w : W) (msg : Pl) (sb : Block) : W :=
  let nd := w.nd
  let x := msg.hd
  if (slot nd.commit x.frm).isSome then w
  else
    let w := w.upd fun nd => { nd with commit := nd.commit.set x.frm (some msg) }
    if nd.view == x.v then
      let w := extendTimer e w 4
      match w.nd.header with
      | none => w
      | some b =>
        if sb = b then checkCommit e w
        else w.upd fun nd => { nd with commit := nd.commit.set x.frm none }
    else w

/-- recovery_message.go:188-213; `j` is the primary index the caller passes -/
def recPrepReq (e : Env) (x : Hd) (r : Rec) (j : Nat) : Option Pl :=
  match r.req with
  | none => none
  | some p =>
    if r.preps.contains j then
      -- the request is re-addressed to validator j at the recovery message's height and view: the same
      -- payload (hash) only if that is where it came from
      let pi := e.prop p
      let p' := if pi.frm == j && pi.v == x.v && pi.h == x.h then p else 1000000 * (j + 1) + p
      some (.prepReq ⟨j, x.h, x.v⟩ p')
    else none

/-- dbft.go:673-737 -/
def onRecoveryMessage (k : W → Pl → W) (e : Env) (w : W) (x : Hd) (r : Rec) : W :=
  let w := w.upd fun nd => { nd with recovering := true }
  let stop : Bool := decide (x.v > w.nd.view) && w.nd.commitSent
  let w :=
    if stop then w
    else
      let w :=
        if x.v > w.nd.view then
          r.cvs.foldl (fun w c => k w (.cv ⟨c.1, x.h, c.2⟩ 0)) w
        else w
      let w :=
        if x.v == w.nd.view && !w.nd.notAccepting e && !w.nd.commitSent then
          let w :=
            if !w.nd.requestSOR then
              match recPrepReq e x r w.nd.pidx with
              | some m => k w m
              | none => w
            else w
          match r.ph with
          | none => w
          | some ph => r.preps.foldl (fun w j => k w (.prepResp ⟨j, x.h, x.v⟩ ph)) w
        else w
      if x.v ≤ w.nd.view then
        -- recovery_message.go:266-281 GetCommits: every Commit keeps the view it was sent in (ec63204)
        r.commits.foldl (fun w c => k w (.commit ⟨c.2.1, x.h, c.1⟩ c.2.2)) w
      else w
  w.upd fun nd => { nd with recovering := false }

/-- dbft.go:249-317 `OnReceive` -/
def onReceive1 (k : W → Pl → W) (e : Env) (w : W) (msg : Pl) : W :=
  let x := msg.hd
  if x.frm ≥ e.n then w
  else
    let w := { w with hints := w.hints.drop 1 }
    let nd := w.nd
    if x.h < nd.bi then w
    else
      let future := match msg with
        | .cv .. | .recMsg .. => false
        | _ => decide (x.v > nd.view)
      if x.h > nd.bi || future then w.upd fun nd => { nd with cache := cacheAdd nd.cache msg }
      else
        let w := match slot nd.lastSeen x.frm with
          | some (h, v) =>
            if h < x.h || v < x.v then w.upd fun nd => { nd with lastSeen := nd.lastSeen.set x.frm (some (x.h, x.v)) } else w
          | none => w.upd fun nd => { nd with lastSeen := nd.lastSeen.set x.frm (some (x.h, x.v)) }
        match msg with
        | .recReq x => onRecoveryRequest e w x
        | _ =>
          if w.nd.blockProcessed then w
          else match msg with
            | .cv .. => onChangeView k e w msg
            | .prepReq _ p => onPrepareRequest k e w msg p
            | .prepResp _ ph => onPrepareResponse e w msg ph
            | .commit _ b => onCommit e w msg b
            | .recReq x => onRecoveryRequest e w x
            | .recMsg x r => onRecoveryMessage k e w x r

def onReceive (e : Env) : Nat → W → Pl → W
  | 0 => fun w _ => { w with oof := true }
  | fuel + 1 => fun w msg => onReceive1 (onReceive e fuel) e w msg

/-- the depth bound used everywhere: recovery → view change → replay → … strictly increases the view -/
def fuel : Nat := 64

/-- dbft.go:204-246 `onTimeout` (no MaxTimePerBlock) -/
def onTimeout (e : Env) (w : W) (h v : Nat) : W :=
  let nd := w.nd
  if nd.blockProcessed then w
  else if h != nd.bi || v != nd.view then w
  else if nd.isPrimary && !nd.requestSOR then sendPrepareRequest e w
  else if nd.commitSent then changeTimer (sendRecoveryMessage w) (e.tpb <<< 1)
  else sendChangeView (onReceive e fuel) e w 0

/-- dbft.go:53-70, 164-188 `OnTransaction` / `addTransaction` -/
def onTransaction (e : Env) (w : W) (t : Nat) : W :=
  let nd := w.nd
  if nd.isPrimary || nd.notAccepting e || !nd.requestSOR || nd.responseSent || nd.commitSent
      || nd.blockProcessed || nd.missing.isEmpty then w
  else
    match nd.missing.idxOf? t with
    | none => w
    | some i =>
      let w := w.upd fun nd => { nd with txs := if nd.txs.contains t then nd.txs else nd.txs ++ [t] }
      let w :=
        if w.nd.hasAllTx then
          let (w, ok) := createAndCheckBlock (onReceive e fuel) e w
          if !ok then w else checkPrepare e (sendPrepareResponse (extendTimer e w 2))
        else w
      if w.nd.missing.isEmpty then w
      else w.upd fun nd => { nd with missing := nd.missing.eraseIdx i }

/-! ### the service's event loop (consensus.go:333-446) -/

inductive Event where
  | start                         -- Service.Start
  | recv (m : Pl)                 -- a payload from the network (after OnPayload's checks)
  | tick                          -- the timer fires
  | tx (t : Nat)                  -- a requested transaction arrives
  | block (b : Block)             -- the ledger accepted a block from elsewhere (block relay / sync)
deriving Repr, Inhabited

/-- consensus.go:437-446 `handleChainBlock`, when the ledger is ahead of the dBFT context. Replaying
cached payloads inside `Reset` can decide the next height as well, whose block notification is handled
in turn (consensus.go:405-418), hence the loop. -/
def syncChain (e : Env) : Nat → W → W
  | 0, w => w
  | k + 1, w =>
    match w.nd.chain with
    | b :: _ =>
      if b.h ≥ w.nd.bi then
        let w := w.upd fun nd => postBlock e nd b
        syncChain e k (initConsensus (onReceive e fuel) e w 0 ((e.prop b.p).ts * 1000000))
      else w
    | [] => w

/-- consensus.go:364-399: a RecoveryMessage without preparation hash gets the hash of the request it
carries, re-addressed to the receiver's CURRENT primary -/
def fillPrepHash (e : Env) (nd : Node) (m : Pl) : Pl :=
  match m with
  | .recMsg x r =>
    match r.ph with
    | some _ => m
    | none =>
      match recPrepReq e x r nd.pidx with
      | some (.prepReq _ p') => .recMsg x { r with ph := some p' }
      | _ => m
  | _ => m

def handle (e : Env) (w : W) (gts : Nat) : Event → W
  | .start =>
    -- consensus.go:305-312, dbft.go:75-81
    let w := w.upd fun nd => { nd with lastTs := gts, cache := [] }
    let w := initConsensus (onReceive e fuel) e w 0 (gts * 1000000)
    if w.nd.isPrimary then sendPrepareRequest e w else w
  | .recv m => onReceive e fuel w (fillPrepHash e w.nd m)
  | .tick =>
    let w := w.upd fun nd => { nd with timer := { nd.timer with armed := false } }
    onTimeout e w w.nd.timer.h w.nd.timer.v
  -- in_map.go:46-59: a transaction that is already pooled is dropped at the server's door;
  -- server.go:1337-1356 txHandlerLoop: consensus hears of the others only if they are on the wish list
  | .tx t => if w.nd.pool.contains t then w else if w.nd.wish.contains t then onTransaction e w t else w
  | .block b => w.upd fun nd => if nd.height + 1 == b.h then addToChain e nd b else nd

/-- one iteration of the event loop: the event, then the chain's block notification if the ledger moved
(consensus.go:405-418). `gts` is the timestamp (ms) of the ledger's tip when the service starts. -/
def step (e : Env) (nd : Node) (ev : Event) (now fresh : Nat) (hints : List Nat) (gts : Nat := 0) : Node × List Out × Bool :=
  let w : W := { nd := nd, now := now, fresh := fresh, hints := hints }
  let w := syncChain e fuel (handle e w gts ev)
  (w.nd, w.out.reverse, w.oof)

def initNode (e : Env) (i : Nat) : Node :=
  { my := i, prep := blanks e.n, commit := blanks e.n, cv := blanks e.n, lastCv := blanks e.n, lastSeen := blanks e.n }

end NeoModel.Dbft.Mach
