/- C07 helper lemmas: every script the multisig parser accepts, whatever integer pushes it uses. -/
import NeoModel.Proofs.FeesRun
namespace NeoModel.Fees
open NeoModel.Generated.FeeConsts
open NeoModel.Wire (leBytes leVal putVarUint varUintSize)

/-- an instruction that pushes the integer `v`: PUSH1..PUSH16, or PUSHINT8..PUSHINT256 with any operand of that value. -/
def PushInt (ins : Bytes) (v : Nat) : Prop :=
  (∃ b : UInt8, ins = [b] ∧ opPUSHM1 ≤ b.toNat ∧ b.toNat ≤ opPUSH16 ∧ b.toNat = opPUSH0 + v)
  ∨ (∃ (b : UInt8) (param : Bytes), ins = b :: param ∧ b.toNat ≤ opPUSHINT256 ∧ param.length = 2 ^ b.toNat ∧ signedLE param = (v : Int))

/-- the opcode of an instruction. -/
def opOf (ins : Bytes) : Nat := (ins.headD 0).toNat

theorem pushInt_size {ins : Bytes} {v : Nat} (h : PushInt ins v) : pushIntSize (opOf ins) = ins.length := by
  rcases h with ⟨b, rfl, h1, h2, _⟩ | ⟨b, param, rfl, h1, h2, _⟩
  · have : ¬ b.toNat ≤ opPUSHINT256 := by simp only [opPUSHM1, opPUSHINT256] at *; omega
    simp [pushIntSize, opOf, this]
  · simp [pushIntSize, opOf, h1, h2]; omega

theorem pushInt_ne_nil {ins : Bytes} {v : Nat} (h : PushInt ins v) : ins ≠ [] := by
  rcases h with ⟨b, rfl, _⟩ | ⟨b, param, rfl, _⟩ <;> simp

/-- running it pushes `v` and charges the price of its opcode. -/
theorem run_pushInt (base g vk vf) (s : VM) (ins : Bytes) (v : Nat) (h : PushInt ins v) (hm : s.mode = .op)
    (hst : s.stack.length + 1 ≤ maxStackSize) :
    runBytes (envU base g vk vf) s ins = some ⟨.int (v : Int) :: s.stack, s.gas + coeff (opOf ins) * base, .op⟩ := by
  rcases h with ⟨b, rfl, h1, h2, h3⟩ | ⟨b, param, rfl, h1, h2, h3⟩
  · have e1 : ¬ b.toNat ≤ opPUSHINT256 := by simp only [opPUSHM1, opPUSHINT256] at *; omega
    have e2 : ¬ b.toNat = opPUSHDATA1 := by simp only [opPUSHM1, opPUSHDATA1] at *; omega
    have e3 : ¬ b.toNat = opPUSHDATA2 := by simp only [opPUSHM1, opPUSHDATA2] at *; omega
    have e4 : ¬ b.toNat = opPUSHDATA4 := by simp only [opPUSHM1, opPUSHDATA4] at *; omega
    have e6 : ¬ (b.toNat = opPUSHDATA1 ∨ b.toNat = opPUSHDATA2 ∨ b.toNat = opPUSHDATA4) := by simp [e2, e3, e4]
    rw [runBytes_cons]
    simp only [step, hm, e1, e2, e3, e4, h1, h2, and_self, if_true, if_false]
    simp only [exec, charge_none, Option.bind_some, execBody, e1, e6, h1, h2, and_self, if_true, if_false, stackCheck, opOf,
      List.headD_cons]
    have hlen : ¬ (Item.int ((b.toNat : Int) - (opPUSH0 : Int)) :: s.stack).length > maxStackSize := by
      simp only [List.length_cons]; omega
    simp only [hlen, if_false]
    have hv : ((b.toNat : Int) - (opPUSH0 : Int)) = (v : Int) := by omega
    rw [hv]
    simp
  · rw [runBytes_cons]
    simp only [step, hm, h1, if_true, Option.bind_some]
    have hne : param ≠ [] := by
      intro e; rw [e] at h2; simp at h2
      have : 0 < 2 ^ b.toNat := Nat.two_pow_pos _
      omega
    have := run_data (envU base g vk vf) b.toNat param [] s hne
    rw [h2] at this
    rw [this, List.nil_append, exec_pushint _ _ _ _ _ _ _ h1 hst, h3]
    simp [opOf]

/-- `emit.Int` makes such an instruction. -/
theorem pushInt_emitInt (i : Nat) (hi : i < 2 ^ 63) : PushInt (emitInt i) i := by
  unfold emitInt
  by_cases h16 : i < 16
  · left
    have hop : (UInt8.ofNat (opPUSH0 + i)).toNat = opPUSH0 + i := by
      apply toNat_ofNat_lt; simp [opPUSH0]; omega
    refine ⟨UInt8.ofNat (opPUSH0 + i), by simp [h16], ?_, ?_, hop⟩
    · rw [hop]; simp only [opPUSHM1, opPUSH0]; omega
    · rw [hop]; simp [opPUSH16, opPUSH0]; omega
  · right
    have hp : padSizeOf (posByteLen i) ≤ 3 := by
      unfold padSizeOf; split <;> (try split) <;> (try split) <;> omega
    have hi' : i < 2 ^ (8 * 2 ^ padSizeOf (posByteLen i) - 1) := by
      unfold padSizeOf posByteLen
      repeat' split
      all_goals (simp at *; try omega)
    have hop : (UInt8.ofNat (opPUSHINT8 + padSizeOf (posByteLen i))).toNat = opPUSHINT8 + padSizeOf (posByteLen i) := by
      apply toNat_ofNat_lt; simp [opPUSHINT8]; omega
    have h0 : opPUSHINT8 + padSizeOf (posByteLen i) = padSizeOf (posByteLen i) := by simp [opPUSHINT8]
    refine ⟨UInt8.ofNat (opPUSHINT8 + padSizeOf (posByteLen i)), leBytes (2 ^ padSizeOf (posByteLen i)) i, by simp only [h16, if_false], ?_, ?_, ?_⟩
    · rw [hop]; simp only [opPUSHINT8, opPUSHINT256]; omega
    · rw [hop, h0, leBytes_length']
    · exact signedLE_leBytes _ _ (Nat.one_le_two_pow) hi'

/-- the shape of a multisig script: push m, PUSHDATA1 keys, push n, SYSCALL CheckMultisig. -/
def msShape (mIns : Bytes) (keys : List Bytes) (nIns : Bytes) : Bytes :=
  mIns ++ (keys.flatMap emitBytes ++ (nIns ++ emitSyscall checkMultisigId))

/-- picoGAS the interpreter charges for such a witness with `m` signatures. -/
def shapePico (base m n mOp nOp : Nat) : Nat :=
  coeff opPUSHDATA1 * base * (m + n) + (coeff mOp + coeff nOp) * base + base * ecdsaVerifyPrice * n

/-- **every script of the shape costs what its own instructions cost.** -/
theorem run_shape_witness (base : Nat) (g : Bool) (vk : Bytes → Bool) (vf : Bytes → Bytes → Bool)
    (mIns nIns : Bytes) (keys sigs : List Bytes) (r : Bool)
    (hmI : PushInt mIns sigs.length) (hnI : PushInt nIns keys.length)
    (hm1 : 1 ≤ sigs.length) (hmn : sigs.length ≤ keys.length)
    (hk : ∀ k ∈ keys, k.length < 256) (hs : ∀ sg ∈ sigs, sg.length < 256)
    (hg : g = true → ∀ sg ∈ sigs, sg.length = signatureLen)
    (hstack : sigs.length + keys.length + 2 ≤ maxStackSize)
    (hr : multisigResult vk vf keys.reverse sigs.reverse = some r) :
    runWitness (envU base g vk vf) (invScript sigs) (msShape mIns keys nIns)
      = some ⟨[.bool r], shapePico base sigs.length keys.length (opOf mIns) (opOf nIns), .op⟩ := by
  have hsys0 : coeff opSYSCALL = 0 := by decide
  have hcm0 : checkMultisigPrice = 0 := by decide
  have hne : ¬ (checkMultisigId = checkSigId) := by decide
  have hidlen : checkMultisigId.length = 4 := by decide
  unfold runWitness runScript invScript msShape
  rw [run_pushes base g vk vf sigs VM.init hs rfl (by simp [VM.init]; omega)]
  simp only [VM.init, if_true, List.append_nil, Nat.zero_add]
  rw [runBytes_append, run_pushInt base g vk vf _ mIns sigs.length hmI rfl (by simp; omega)]
  simp only [Option.bind_some]
  rw [runBytes_append, run_pushes base g vk vf keys _ hk rfl (by simp; omega)]
  simp only [Option.bind_some]
  rw [runBytes_append, run_pushInt base g vk vf _ nIns keys.length hnI rfl (by simp; omega)]
  simp only [Option.bind_some]
  rw [run_emitSyscall _ _ _ hidlen rfl, exec_syscall]
  simp only [syscall, hne, if_false, if_true, charge_none, Option.bind_some]
  rw [popSig_rev keys _ (by omega)]
  simp only [Option.bind_some]
  rw [popSig_rev_nil sigs hm1]
  simp only [Option.bind_some, multisigFinish, List.length_reverse]
  have h1 : ¬ keys.length < sigs.length := by omega
  have h2 : (g && sigs.reverse.any fun sg => sg.length != signatureLen) = false := by
    cases g with
    | false => rfl
    | true =>
      simp only [Bool.true_and, List.any_reverse]
      rw [List.any_eq_false]
      intro x hx
      simp [hg rfl x hx]
  simp only [h1, h2, if_false, hr, Option.map_some]
  have h3 : ¬ ([Item.bool r].length > maxStackSize) := by simp [maxStackSize]
  simp only [Bool.false_eq_true, if_false, Option.bind_some, stackCheck, h3, if_true]
  congr 2
  simp only [shapePico, hsys0, hcm0]
  simp only [Nat.zero_mul, Nat.add_zero, Nat.mul_add, Nat.add_mul]
  rw [Nat.mul_comm sigs.length, Nat.mul_comm keys.length]
  omega

theorem leVal_append (a b : Bytes) : leVal (a ++ b) = leVal a + 256 ^ a.length * leVal b := by
  induction a with
  | nil => simp [leVal]
  | cons x xs ih => simp only [List.cons_append, leVal, ih, List.length_cons, Nat.pow_succ]; rw [Nat.mul_add]; 
                    rw [← Nat.mul_assoc, Nat.mul_comm 256 (256 ^ xs.length)]; omega

theorem leVal_zeros : ∀ (b : Bytes), (b.any (· != 0)) = false → leVal b = 0 := by
  intro b
  induction b with
  | nil => intro _; rfl
  | cons x xs ih =>
    intro h
    simp only [List.any_cons, Bool.or_eq_false_iff, bne_eq_false_iff_eq] at h
    simp [leVal, h.1, ih h.2]

theorem leVal_lt (b : Bytes) : leVal b < 256 ^ b.length := by
  induction b with
  | nil => simp [leVal]
  | cons x xs ih =>
    simp only [leVal, List.length_cons, Nat.pow_succ]
    have := x.toNat_lt
    omega

/-- what `getNumOfThingsFromInstr` accepts is an integer push of that value, followed by the rest. -/
theorem parseCount_inv (bs rest : Bytes) (v : Nat) (h : parseCount bs = some (v, rest)) :
    ∃ ins, bs = ins ++ rest ∧ PushInt ins v ∧ 1 ≤ v ∧ v ≤ maxMultisigKeys := by
  cases bs with
  | nil => simp [parseCount] at h
  | cons b r =>
    simp only [parseCount] at h
    split at h
    · rename_i hop
      split at h; · simp at h
      rename_i hlen
      -- the value
      split at h
      · simp at h
      · rename_i v0 hv
        split at h; · simp at h
        rename_i hrange
        simp only [Option.some.injEq, Prod.mk.injEq] at h
        obtain ⟨hv1, hr⟩ := h
        have hsplit : r = r.take (2 ^ b.toNat) ++ rest := by rw [← hr]; exact (List.take_append_drop _ _).symm
        have hplen : (r.take (2 ^ b.toNat)).length = 2 ^ b.toNat := by
          simp only [List.length_take]; omega
        have hvpos : (1 : Int) ≤ v0 ∧ v0 ≤ (maxMultisigKeys : Int) := by omega
        have hvv : (v : Int) = v0 := by rw [← hv1]; omega
        refine ⟨b :: r.take (2 ^ b.toNat), by rw [List.cons_append, ← hsplit], Or.inr ⟨b, _, rfl, hop, hplen, ?_⟩, by omega, by omega⟩
        rw [hvv]
        -- signedLE of the operand is the accepted value
        split at hv
        · simp only [Option.some.injEq] at hv; exact hv
        · split at hv; · simp at hv
          split at hv; · simp at hv
          rename_i h64 hz h80
          simp only [Option.some.injEq] at hv
          rw [← hv]
          generalize hp : r.take (2 ^ b.toNat) = param at hplen hz h80
          have hsp : param = param.take 8 ++ param.drop 8 := (List.take_append_drop _ _).symm
          have hz' : leVal (param.drop 8) = 0 := leVal_zeros _ (by simpa using hz)
          have hle : leVal param = leVal (param.take 8) := by
            conv => lhs; rw [hsp]
            rw [leVal_append, hz']; simp
          have hlt : leVal (param.take 8) < 256 ^ 8 := by
            have := leVal_lt (param.take 8)
            have h8 : (param.take 8).length ≤ 8 := by simp only [List.length_take]; omega
            exact Nat.lt_of_lt_of_le this (Nat.pow_le_pow_right (by omega) h8)
          have hbig : 16 ≤ param.length := by
            rw [hplen]
            have : 4 ≤ b.toNat := by simp only [opPUSHINT64] at h64; omega
            exact Nat.pow_le_pow_right (by omega : 0 < 2) this
          simp only [signedLE, hle]
          have : leVal (param.take 8) < 2 ^ (8 * param.length - 1) := by
            have : (256 : Nat) ^ 8 ≤ 2 ^ (8 * param.length - 1) := by
              have : (256 : Nat) ^ 8 = 2 ^ 64 := by decide
              rw [this]; exact Nat.pow_le_pow_right (by omega) (by omega)
            omega
          simp [this]
    · split at h
      · rename_i hnot hrange
        split at h; · simp at h
        rename_i hr2
        simp only [Option.some.injEq, Prod.mk.injEq] at h
        obtain ⟨hv1, hr⟩ := h
        subst hr
        refine ⟨[b], rfl, Or.inl ⟨b, rfl, hrange.1, hrange.2, ?_⟩, by omega, by omega⟩
        omega
      · simp at h


/-- what the key loop consumed is a run of PUSHDATA1 pushes of 33..255 bytes. -/
theorem parsePubs_inv : ∀ (fuel : Nat) (bs : Bytes) (acc pubs : List Bytes) (rest : Bytes),
    parsePubs fuel bs acc = some (pubs, rest) →
    ∃ ks, pubs = acc ++ ks ∧ bs = ks.flatMap emitBytes ++ rest ∧ (∀ k ∈ ks, 33 ≤ k.length ∧ k.length < 256) := by
  intro fuel
  induction fuel with
  | zero => intro bs acc pubs rest h; simp [parsePubs] at h
  | succ fuel ih =>
    intro bs acc pubs rest h
    cases bs with
    | nil =>
      simp only [parsePubs, Option.some.injEq, Prod.mk.injEq] at h
      obtain ⟨rfl, rfl⟩ := h
      exact ⟨[], by simp, by simp, by simp⟩
    | cons b r =>
      simp only [parsePubs] at h
      split at h
      · rename_i hb
        cases r with
        | nil => simp at h
        | cons l r' =>
          simp only at h
          split at h; · simp at h
          split at h; · simp at h
          split at h; · simp at h
          rename_i h1 h2 h3
          obtain ⟨ks, hp, hbs, hk⟩ := ih _ _ _ _ h
          have hl : (r'.take l.toNat).length = l.toNat := by simp only [List.length_take]; omega
          have hl256 : l.toNat < 256 := l.toNat_lt
          refine ⟨r'.take l.toNat :: ks, by rw [hp]; simp, ?_, ?_⟩
          · have hb' : b = UInt8.ofNat opPUSHDATA1 := by
              apply UInt8.toNat_inj.mp; rw [hb]; decide
            have hll : UInt8.ofNat (r'.take l.toNat).length = l := by
              rw [hl]; apply UInt8.toNat_inj.mp; simp
            simp only [List.flatMap_cons, emitBytes, hl, hl256, if_true, List.cons_append, hb', List.append_assoc]
            rw [← hbs, ← hl, hll, List.take_append_drop]
          · intro k hk'
            simp only [List.mem_cons] at hk'
            rcases hk' with rfl | hk'
            · rw [hl]; omega
            · exact hk k hk'
      · simp only [Option.some.injEq, Prod.mk.injEq] at h
        obtain ⟨rfl, rfl⟩ := h
        exact ⟨[], by simp, by simp, by simp⟩

/-- **every script `ParseMultiSigContract` accepts has the shape**, with integer pushes of m and of the key count. -/
theorem parseMultiSig_inv (script : Bytes) (m : Nat) (pubs : List Bytes) (h : parseMultiSig script = some (m, pubs)) :
    ∃ mIns nIns, script = msShape mIns pubs nIns ∧ PushInt mIns m ∧ PushInt nIns pubs.length
      ∧ 1 ≤ m ∧ m ≤ pubs.length ∧ pubs.length ≤ maxMultisigKeys ∧ ∀ k ∈ pubs, 33 ≤ k.length ∧ k.length < 256 := by
  unfold parseMultiSig at h
  split at h; · simp at h
  split at h; · simp at h
  rename_i nsigs r1 hc1
  split at h; · simp at h
  rename_i pubs' r2 hpp
  split at h; · simp at h
  rename_i hge
  split at h; · simp at h
  rename_i nk2 r3 hc2
  split at h; · simp at h
  rename_i heq
  split at h
  · rename_i hsys
    simp only [Option.some.injEq, Prod.mk.injEq] at h
    obtain ⟨rfl, rfl⟩ := h
    obtain ⟨mIns, hs1, hm, hm1, _⟩ := parseCount_inv _ _ _ hc1
    obtain ⟨ks, hp, hbs, hk⟩ := parsePubs_inv _ _ _ _ _ hpp
    obtain ⟨nIns, hs2, hn, _, hn2⟩ := parseCount_inv _ _ _ hc2
    simp only [List.nil_append] at hp
    subst hp
    have heq' : nk2 = pubs'.length := by simpa using heq
    subst heq'
    refine ⟨mIns, nIns, ?_, hm, hn, hm1, by omega, hn2, hk⟩
    rw [msShape, hs1, hbs, hs2, hsys]
  · simp at h

theorem flatMap_emitBytes_length (keys : List Bytes) (hk : ∀ k ∈ keys, k.length < 256) :
    (keys.flatMap emitBytes).length = (keys.map fun p => 2 + p.length).sum := by
  induction keys with
  | nil => rfl
  | cons k ks ih =>
    have h1 : k.length < 0x100 := hk k (by simp)
    simp only [List.flatMap_cons, List.length_append, List.map_cons, List.sum_cons, ih (fun x hx => hk x (by simp [hx])),
      emitBytes, h1, if_true, List.length_cons]
    omega

/-- on a script of the shape the two opcodes the calculator prices are those of the two integer pushes. -/
theorem shape_ops (mIns nIns : Bytes) (keys : List Bytes) (m n : Nat) (hm : PushInt mIns m) (hn : PushInt nIns n)
    (hk : ∀ k ∈ keys, k.length < 256) :
    ((msShape mIns keys nIns).headD 0).toNat = opOf mIns
    ∧ ((msShape mIns keys nIns).getD (pushIntSize (opOf mIns) + (keys.map fun p => 2 + p.length).sum) 0).toNat = opOf nIns := by
  constructor
  · cases mIns with
    | nil => exact absurd rfl (pushInt_ne_nil hm)
    | cons b t => simp [msShape, opOf]
  · rw [pushInt_size hm, ← flatMap_emitBytes_length keys hk]
    cases nIns with
    | nil => exact absurd rfl (pushInt_ne_nil hn)
    | cons b t =>
      simp only [msShape, opOf, List.headD_cons]
      rw [← List.append_assoc, List.getD_eq_getElem?_getD, List.getElem?_append_right (by simp)]
      simp

theorem isSignatureContract_false_of_parse (script : Bytes) (m : Nat) (pubs : List Bytes)
    (h : parseMultiSig script = some (m, pubs)) : isSignatureContract script = false := by
  have hl : ¬ script.length < 42 := by
    intro hlt; simp [parseMultiSig, hlt] at h
  have : script.length ≠ 40 := by omega
  simp [isSignatureContract, this]

/-- **the calculator on every accepted multisig script**: the prices of its own instructions. -/
theorem calculate_parsed (base : Nat) (script : Bytes) (m : Nat) (pubs : List Bytes)
    (h : parseMultiSig script = some (m, pubs)) :
    ∃ mIns nIns, script = msShape mIns pubs nIns ∧ PushInt mIns m ∧ PushInt nIns pubs.length
      ∧ (calculate base script).1 = picoToDatoshi (shapePico base m pubs.length (opOf mIns) (opOf nIns)) := by
  obtain ⟨mIns, nIns, hs, hm, hn, _, _, _, hk⟩ := parseMultiSig_inv script m pubs h
  refine ⟨mIns, nIns, hs, hm, hn, ?_⟩
  have hops := shape_ops mIns nIns pubs m pubs.length hm hn (fun k hk' => (hk k hk').2)
  unfold calculate
  rw [isSignatureContract_false_of_parse script m pubs h]
  simp only [Bool.false_eq_true, if_false, h]
  rw [hs, hops.1, hops.2]
  rfl

end NeoModel.Fees
