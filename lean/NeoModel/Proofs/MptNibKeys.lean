/-
The one place where loading a node in the model differs from the code's decoder: an extension key with
a byte that is not a nibble. `ofP` (Model/Mpt/Lazy.lean) fails exactly on such nodes, the records
Flush writes never are such nodes, and for the READ paths the difference is not observable: the code
compares the key with a nibble path (`bytes.HasPrefix(path, n.key)`), which fails too.
-/
import NeoModel.Proofs.MptLazyFlush
namespace NeoModel.Mpt

/-- every extension key of a decoded node (inline children included) is a nibble string. -/
def NibKeys : PNode → Prop
  | .empty => True
  | .hash _ => True
  | .leaf _ => True
  | .ext k n => (∀ b ∈ k, b.toNat < 16) ∧ NibKeys n
  | .branch cs => ∀ i, NibKeys (cs i)

theorem toNib_isSome (b : UInt8) : (toNib? b).isSome = true ↔ b.toNat < 16 := by
  unfold toNib?
  by_cases h : b.toNat < 16 <;> simp [h]

theorem toPath_isSome (k : Bytes) : (toPath? k).isSome = true ↔ ∀ b ∈ k, b.toNat < 16 := by
  induction k with
  | nil => simp [toPath?]
  | cons a k ih =>
    simp only [toPath?, List.mem_cons, forall_eq_or_imp]
    rw [← ih, ← toNib_isSome]
    cases toNib? a <;> cases toPath? k <;> simp

/-- the model loads a decoded node iff all its extension keys are nibble strings. -/
theorem ofP_isSome (n : PNode) : (ofP n).isSome = true ↔ NibKeys n := by
  induction n with
  | empty => simp [ofP, NibKeys]
  | hash h => simp [ofP, NibKeys]
  | leaf v => simp [ofP, NibKeys]
  | ext k n ih =>
    simp only [ofP, NibKeys]
    rw [← ih, ← toPath_isSome]
    cases toPath? k <;> cases ofP n <;> simp
  | branch cs ih =>
    simp only [ofP, NibKeys]
    constructor
    · intro h i
      by_cases hall : (List.finRange 17).all (fun i => (ofP (cs i)).isSome) = true
      · exact (ih i).mp (List.all_eq_true.mp hall i (List.mem_finRange i))
      · simp [hall] at h
    · intro h
      have hall : (List.finRange 17).all (fun i => (ofP (cs i)).isSome) = true :=
        List.all_eq_true.mpr (fun i _ => (ih i).mpr (h i))
      simp [hall]

/-- where the model's `getFromStore` fails although the code's succeeds: exactly the stored nodes with
a non-nibble extension key byte. -/
theorem resolve_deviation (S : LStore) (h data : Bytes) (n : PNode) (hs : S h = some data)
    (hd : decodeTop data = some n) (hk : (match n with | .empty => false | .hash _ => false | _ => true) = true) :
    resolve S h = none ↔ ¬ NibKeys n := by
  rw [← ofP_isSome]
  unfold resolve
  rw [hs]
  simp only [hd]
  cases n with
  | empty => simp at hk
  | hash x => simp at hk
  | leaf v => simp [ofP]
  | ext k m => cases ho : ofP (.ext k m) <;> simp [ho]
  | branch cs => cases ho : ofP (.branch cs) <;> simp [ho]

/-- no node of a trie built by the code is such a node: what Flush writes decodes to nibble keys. -/
theorem nibKeys_shallow (H : Bytes → Bytes) (t : Node) : NibKeys (shallow H t) :=
  (ofP_isSome _).mp (by rw [ofP_shallow]; rfl)

/-- on the read path a non-nibble key byte behaves like a failed load: the code's prefix test
`bytes.HasPrefix(path, n.key)` against a nibble path fails … -/
theorem stripPreB_non_nibble : ∀ (k : Bytes) (p : Path), (∃ b ∈ k, ¬ b.toNat < 16) → stripPreB k p = none := by
  intro k
  induction k with
  | nil => intro p h; obtain ⟨b, hb, _⟩ := h; cases hb
  | cons a k ih =>
    intro p h
    cases p with
    | nil => rfl
    | cons x p =>
      simp only [stripPreB]
      by_cases e : a = nibByte x
      · rw [if_pos e]
        apply ih
        obtain ⟨b, hb, hbad⟩ := h
        rcases List.mem_cons.mp hb with rfl | hb
        · exfalso; apply hbad; rw [e, nibByte_toNat]; exact x.isLt
        · exact ⟨b, hb, hbad⟩
      · rw [if_neg e]

/-- … so `Get` / `VerifyProof` through such an extension (`walkNode`: getWithPath over decoded nodes
with raw byte keys, tied on every decoder case) answers "not found", as the lazy model does when
its load fails (`lget`: `none`). -/
theorem walkNode_non_nibble (res : Bytes → Path → VR) (k : Bytes) (n : PNode) (p : Path)
    (h : ∃ b ∈ k, ¬ b.toNat < 16) : walkNode res (.ext k n) p = .notFound := by
  simp [walkNode, stripPreB_non_nibble k p h]

end NeoModel.Mpt
