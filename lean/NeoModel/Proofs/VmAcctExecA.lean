/-
C12 proofs, part 5a: stack instructions and allocation.
-/
import NeoModel.Proofs.VmAcctOps
namespace NeoModel.VmAcct

variable {rest : Nat → Nat} {n : Nat}

theorem generic_inv {w w' : W} (k j : Nat) (inv : InvW w rest n) (h : execS (.generic k j) w = some (.ok w')) :
    InvW w' rest n := by
  simp only [execS, Option.map_eq_some_iff] at h
  obtain ⟨w1, h1, h2⟩ := h
  obtain ⟨i1, _, _, _⟩ := popN_inv k inv h1
  have := (pushPrims_inv j i1).1
  simp only [Outcome.ok.injEq] at h2
  rw [← h2]; exact this

theorem dup_inv {w w' : W} (inv : InvW w rest n) (h : execS .dup w = some (.ok w')) : InvW w' rest n := by
  simp only [execS] at h
  cases hst : w.st with
  | nil => simp [hst] at h
  | cons x r =>
    simp only [hst, okW, Option.some.injEq, Outcome.ok.injEq] at h
    rw [← h]
    exact (push_inv inv (inv.mem_valid (by simp [hst]))).1

theorem over_inv {w w' : W} (inv : InvW w rest n) (h : execS .over w = some (.ok w')) : InvW w' rest n := by
  simp only [execS] at h
  cases hst : w.st with
  | nil => simp [hst] at h
  | cons a r =>
    cases r with
    | nil => simp [hst] at h
    | cons x r =>
      simp only [hst, okW, Option.some.injEq, Outcome.ok.injEq] at h
      rw [← h]
      exact (push_inv inv (inv.mem_valid (by simp [hst]))).1

theorem pick_inv {w w' : W} (k : Nat) (inv : InvW w rest n) (h : execS (.pick k) w = some (.ok w')) : InvW w' rest n := by
  simp only [execS] at h
  cases hp : w.pop with
  | none => simp [hp] at h
  | some r =>
    obtain ⟨y, w1⟩ := r
    simp only [hp] at h
    obtain ⟨i1, _, _, _⟩ := pop_inv inv hp
    cases hk : w1.st[k]? with
    | none => simp [hk] at h
    | some x =>
      simp only [hk, okW, Option.some.injEq, Outcome.ok.injEq] at h
      rw [← h]
      exact (push_inv i1 (i1.mem_valid (List.mem_of_getElem? hk))).1

theorem tuck_inv {w w' : W} (inv : InvW w rest n) (h : execS .tuck w = some (.ok w')) : InvW w' rest n := by
  simp only [execS] at h
  cases hst : w.st with
  | nil => simp [hst] at h
  | cons a r =>
    cases r with
    | nil => simp [hst] at h
    | cons b r =>
      simp only [hst, okW, Option.some.injEq, Outcome.ok.injEq] at h
      rw [← h]
      have h1 := (inv_add a (inv.mem_valid (by simp [hst])) inv).1
      exact h1.congr (by intro id; simp only [hst, cnt_cons, cnt_nil]; omega) (by simp [hst]; omega)

theorem swap_inv {w w' : W} (inv : InvW w rest n) (h : execS .swap w = some (.ok w')) : InvW w' rest n := by
  simp only [execS] at h
  cases hst : w.st with
  | nil => simp [hst] at h
  | cons a r =>
    cases r with
    | nil => simp [hst] at h
    | cons b r =>
      simp only [hst, okW, Option.some.injEq, Outcome.ok.injEq] at h
      rw [← h]
      exact inv.congr (by intro id; simp only [hst, cnt_cons]; omega) (by simp [hst])

theorem rot_inv {w w' : W} (inv : InvW w rest n) (h : execS .rot w = some (.ok w')) : InvW w' rest n := by
  simp only [execS] at h
  cases hst : w.st with
  | nil => simp [hst] at h
  | cons a r =>
    cases r with
    | nil => simp [hst] at h
    | cons b r =>
      cases r with
      | nil => simp [hst] at h
      | cons c r =>
        simp only [hst, okW, Option.some.injEq, Outcome.ok.injEq] at h
        rw [← h]
        exact inv.congr (by intro id; simp only [hst, cnt_cons]; omega) (by simp [hst])

theorem roll_inv {w w' : W} (k : Nat) (inv : InvW w rest n) (h : execS (.roll k) w = some (.ok w')) : InvW w' rest n := by
  simp only [execS] at h
  cases hp : w.pop with
  | none => simp [hp] at h
  | some r =>
    obtain ⟨y, w1⟩ := r
    simp only [hp] at h
    obtain ⟨i1, _, _, _⟩ := pop_inv inv hp
    cases hk : w1.st[k]? with
    | none => simp [hk] at h
    | some x =>
      simp only [hk, okW, Option.some.injEq, Outcome.ok.injEq] at h
      rw [← h]
      have hc := fun id => cnt_eraseIdx id w1.st k x hk
      exact i1.congr (by intro id; have := (hc id).1; simp only [cnt_cons, cnt_nil] at this ⊢; omega)
        (by have := (hc 0).2; simp only [List.length_cons]; omega)

theorem reverse_inv {w w' : W} (k : Nat) (pf : Bool) (inv : InvW w rest n) (h : execS (.reverse k pf) w = some (.ok w')) :
    InvW w' rest n := by
  simp only [execS] at h
  have key : ∀ w1 : W, InvW w1 rest n → k ≤ w1.st.length →
      InvW { w1 with st := (w1.st.take k).reverse ++ w1.st.drop k } rest n := by
    intro w1 i1 _
    exact i1.congr (by intro id; have := cnt_take_drop id k w1.st; simp only [cnt_append, cnt_reverse]; omega)
      (by simp [List.length_take]; omega)
  cases pf with
  | false =>
    simp only [Bool.false_eq_true, if_false] at h
    split at h
    · rename_i hk
      simp only [okW, Option.some.injEq, Outcome.ok.injEq] at h
      rw [← h]; exact key w inv hk
    · cases h
  | true =>
    simp only [if_true] at h
    cases hp : w.pop with
    | none => simp [hp] at h
    | some r =>
      obtain ⟨y, w1⟩ := r
      simp only [hp, Option.map_some] at h
      obtain ⟨i1, _, _, _⟩ := pop_inv inv hp
      split at h
      · rename_i hk
        simp only [okW, Option.some.injEq, Outcome.ok.injEq] at h
        rw [← h]; exact key w1 i1 hk
      · cases h

theorem nip_inv {w w' : W} (inv : InvW w rest n) (h : execS .nip w = some (.ok w')) : InvW w' rest n := by
  simp only [execS] at h
  cases hst : w.st with
  | nil => simp [hst] at h
  | cons a r =>
    cases r with
    | nil => simp [hst] at h
    | cons b r =>
      simp only [hst, okW, Option.some.injEq, Outcome.ok.injEq] at h
      rw [← h]
      exact (inv_rem (f := fun id => cnt id (a :: r) + rest id) (n := (a :: r).length + n) b
        (inv.congr (by intro id; simp only [hst, cnt_cons, cnt_nil]; omega) (by simp [hst]; omega))).1

theorem xdrop_inv {w w' : W} (k : Nat) (inv : InvW w rest n) (h : execS (.xdrop k) w = some (.ok w')) : InvW w' rest n := by
  simp only [execS] at h
  cases hp : w.pop with
  | none => simp [hp] at h
  | some r =>
    obtain ⟨y, w1⟩ := r
    simp only [hp] at h
    obtain ⟨i1, _, _, _⟩ := pop_inv inv hp
    cases hk : w1.st[k]? with
    | none => simp [hk] at h
    | some x =>
      simp only [hk, okW, Option.some.injEq, Outcome.ok.injEq] at h
      rw [← h]
      have hc := fun id => cnt_eraseIdx id w1.st k x hk
      exact (inv_rem (f := fun id => cnt id (w1.st.eraseIdx k) + rest id) (n := (w1.st.eraseIdx k).length + n) x
        (i1.congr (by intro id; have := (hc id).1; omega) (by have := (hc 0).2; omega))).1

theorem clear_inv {w w' : W} (inv : InvW w rest n) (h : execS .clear w = some (.ok w')) : InvW w' rest n := by
  simp only [execS, okW, Option.some.injEq, Outcome.ok.injEq] at h
  rw [← h]
  exact ((inv_remAll (f := rest) (n := n) w.st.reverse
    (inv.congr (by intro id; simp only [cnt_reverse]; omega) (by simp; omega))).1).congr (by intro id; simp) (by simp)

theorem newEmpty_inv {w w' : W} (k : Kind) (inv : InvW w rest n) (h : execS (.newEmpty k) w = some (.ok w')) : InvW w' rest n := by
  simp only [execS, W.alloc, W.setHeap, okW, Option.some.injEq, Outcome.ok.injEq] at h
  rw [← h]
  have h0 := inv_alloc0 (c := w.c) [] (by intro x hx; cases hx) inv
  refine (push_inv (w := { c := { w.c with heap := w.c.heap ++ [{ rc := 0, ch := [] }] }, st := w.st }) h0 ?_).1
  intro d hd
  cases k <;> simp only [Kind.mk, Item.cid, Option.some.injEq] at hd <;> subst hd <;> simp

theorem mkarray_inv {w w' : W} (inv : InvW w rest n) (h : execS .mkarray w = some (.ok w')) : InvW w' rest n := by
  simp only [execS, W.alloc, W.setHeap, okW, Option.some.injEq, Outcome.ok.injEq] at h
  rw [← h]
  have h0 := inv_alloc0 (c := w.c) [.prim, .prim] (by intro x hx; simp at hx; subst hx; exact wfItem_prim _) inv
  refine (push_inv (w := { c := { w.c with heap := w.c.heap ++ [{ rc := 0, ch := [.prim, .prim] }] }, st := w.st }) h0 ?_).1
  intro d hd
  simp only [Item.cid, Option.some.injEq] at hd; subst hd; simp

theorem cnt_mk (k : Kind) (id j : Nat) : cnt j [k.mk id] = if j = id then 1 else 0 := by
  cases k <;> simp [cnt_cons, Kind.mk, Item.cid, eq_comm]

theorem newSized_inv {w w' : W} (k : Kind) (m : Nat) (inv : InvW w rest n) (h : execS (.newSized k m) w = some (.ok w')) :
    InvW w' rest n := by
  simp only [execS] at h
  cases hp : w.pop with
  | none => simp [hp] at h
  | some r =>
    obtain ⟨y, w1⟩ := r
    simp only [hp] at h
    by_cases hkm : k = .map
    · simp [hkm] at h
    rw [if_neg hkm] at h
    simp only [W.alloc, W.setHeap, W.pushNoRef, W.addRefs, okW, Option.some.injEq, Outcome.ok.injEq] at h
    obtain ⟨i1, _, _, _⟩ := pop_inv inv hp
    rw [← h]
    -- as if `m` primitives had been pushed (counted) and then packed
    have i2 : InvC { w1.c with refs := w1.c.refs + m }
        (fun id => (cnt id w1.st + rest id) + cnt id (List.replicate m Item.prim)) ((w1.st.length + n) + (List.replicate m Item.prim).length) := by
      refine ⟨i1.wf, fun id => ?_, ?_⟩
      · have := i1.rc id; simp only [cnt_replicate_prim]; omega
      · have := i1.refs; simp only [List.length_replicate]; push_cast at this ⊢; omega
    have i3 := inv_alloc1 (List.replicate m Item.prim) i2
    refine ⟨i3.wf, fun id => ?_, ?_⟩
    · have := i3.rc id
      have hm := cnt_mk k w1.c.heap.length id
      simp only [cnt_cons, cnt_nil] at hm ⊢
      dsimp only at this ⊢
      rw [this]; omega
    · have := i3.refs
      simp only [List.length_cons] at this ⊢
      push_cast at this ⊢; omega

theorem pack_inv {w w' : W} (k : Kind) (m : Nat) (inv : InvW w rest n) (h : execS (.pack k m) w = some (.ok w')) :
    InvW w' rest n := by
  simp only [execS] at h
  cases hp : w.pop with
  | none => simp [hp] at h
  | some r =>
    obtain ⟨y, w1⟩ := r
    simp only [hp] at h
    by_cases hkm : k = .map
    · simp [hkm] at h
    rw [if_neg hkm] at h
    obtain ⟨i1, _, _, _⟩ := pop_inv inv hp
    split at h
    · rename_i hm
      simp only [W.alloc, W.setHeap, W.pushNoRef, W.addRefs, okW, Option.some.injEq, Outcome.ok.injEq] at h
      rw [← h]
      have i2 : InvC w1.c (fun id => (cnt id (w1.st.drop m) + rest id) + cnt id (w1.st.take m))
          (((w1.st.drop m).length + n) + (w1.st.take m).length) := by
        refine i1.congr (by intro id; have := cnt_take_drop id m w1.st; omega) ?_
        have : (w1.st.take m).length + (w1.st.drop m).length = w1.st.length := by
          rw [← List.length_append, List.take_append_drop]
        omega
      have i3 := inv_alloc1 (w1.st.take m) i2
      refine ⟨i3.wf, fun id => ?_, ?_⟩
      · have := i3.rc id
        have hm := cnt_mk k w1.c.heap.length id
        simp only [cnt_cons, cnt_nil] at hm ⊢
        dsimp only at this ⊢
        rw [this]; omega
      · have := i3.refs
        simp only [List.length_cons] at this ⊢
        push_cast at this ⊢; omega
    · cases h

end NeoModel.VmAcct
