/-
Helper lemmas for C18 / NEP-2 layout: round trip conditional on the laws of the primitives, shape of
everything the decoder accepts, what acceptance under another passphrase implies.
-/
import NeoModel.Model.Codec.Nep2
import NeoModel.Proofs.CodecBase58Inv
namespace NeoModel.Codec

structure Nep2Laws (Q : Nep2Prims) : Prop where
  kdf_len : ∀ p s, (Q.kdf p s).length = 64
  enc_len : ∀ x k, (Q.enc x k).length = x.length
  dec_len : ∀ x k, (Q.dec x k).length = x.length
  dec_enc : ∀ x k, Q.dec (Q.enc x k) k = x

theorem xorB_length (a b : Bytes) : (xorB a b).length = min a.length b.length := by simp [xorB]

theorem xorB_xorB : ∀ (a k : Bytes), a.length ≤ k.length → xorB (xorB a k) k = a := by
  intro a
  induction a with
  | nil => intro k _; simp [xorB]
  | cons x t ih =>
    intro k hk
    cases k with
    | nil => simp at hk
    | cons y u =>
      simp only [xorB, List.zipWith_cons_cons] at ih ⊢
      rw [ih u (by simpa using hk), UInt8.xor_assoc, UInt8.xor_self, UInt8.xor_zero]

/-- the 39 bytes under Base58Check. -/
def nep2Payload (addrHash encrypted : Bytes) : Bytes := nep2Header ++ addrHash ++ encrypted

theorem nep2_roundtrip (Q : Nep2Prims) (L : Nep2Laws Q) (H : Bytes → Bytes) (hH : ∀ x, 4 ≤ (H x).length)
    (priv pass : Bytes) (hp : priv.length = 32) :
    nep2Decrypt Q H (nep2Encrypt Q H priv pass) pass = some priv := by
  have hc : (checksum H (Q.addrOf priv)).length = 4 := by simp [checksum]; have := hH (Q.addrOf priv); omega
  generalize hah : checksum H (Q.addrOf priv) = ah at hc
  have hdk := L.kdf_len pass ah
  generalize hdkk : Q.kdf pass ah = dk at hdk
  have hd1 : (dk.take 32).length = 32 := by rw [List.length_take]; omega
  have hxr : (xorB priv (dk.take 32)).length = 32 := by rw [xorB_length]; omega
  have he := L.enc_len (xorB priv (dk.take 32)) (dk.drop 32)
  generalize hee : Q.enc (xorB priv (dk.take 32)) (dk.drop 32) = e at he
  rw [hxr] at he
  have henc : nep2Encrypt Q H priv pass = checkEncode H (nep2Header ++ ah ++ e) := by
    simp only [nep2Encrypt, hah, hdkk, hee]
  rw [henc]
  unfold nep2Decrypt
  rw [checkDecode_encode H hH _ (by simp [nep2Header])]
  have hlen : (nep2Header ++ ah ++ e).length = 39 := by simp [nep2Header, hc, he]
  have g0 : (nep2Header ++ ah ++ e).getD 0 0 = 0x01 := by simp [nep2Header]
  have g1 : (nep2Header ++ ah ++ e).getD 1 0 = 0x42 := by simp [nep2Header]
  have g2 : (nep2Header ++ ah ++ e).getD 2 0 = 0xe0 := by simp [nep2Header]
  have d3 : ((nep2Header ++ ah ++ e).drop 3).take 4 = ah := by
    have : nep2Header ++ ah ++ e = nep2Header ++ (ah ++ e) := by simp
    rw [this, List.drop_left' (by simp [nep2Header])]
    exact List.take_left' hc
  have d7 : (nep2Header ++ ah ++ e).drop 7 = e := List.drop_left' (by simp [nep2Header, hc])
  simp only [hlen, g0, g1, g2, bne_self_eq_false, Bool.false_eq_true, if_false, d3, d7, hdkk]
  rw [← hee, L.dec_enc, xorB_xorB priv _ (by omega)]
  simp [hp, hah]

/-- everything `NEP2Decrypt` accepts has the NEP-2 layout, and the key it returns hashes to the
address hash stored in the string. -/
theorem nep2_shape (Q : Nep2Prims) (H : Bytes → Bytes) (s pass priv : Bytes) (h : nep2Decrypt Q H s pass = some priv) :
    ∃ ah e, ah.length = 4 ∧ e.length = 32 ∧ s = checkEncode H (nep2Payload ah e) ∧ priv.length = 32 ∧
      checksum H (Q.addrOf priv) = ah ∧
      priv = xorB (Q.dec e ((Q.kdf pass ah).drop 32)) ((Q.kdf pass ah).take 32) := by
  unfold nep2Decrypt at h
  cases hd : checkDecode H s with
  | none => rw [hd] at h; cases h
  | some b =>
    rw [hd] at h
    simp only at h
    by_cases c39 : (b.length != 39) = true
    · simp [c39] at h
    simp only [c39, Bool.false_eq_true, if_false] at h
    have hl : b.length = 39 := by simpa using c39
    by_cases c0 : (b.getD 0 0 != 0x01) = true
    · simp only [c0, if_true] at h; cases h
    simp only [c0, Bool.false_eq_true, if_false] at h
    by_cases c1 : (b.getD 1 0 != 0x42) = true
    · simp only [c1, if_true] at h; cases h
    simp only [c1, Bool.false_eq_true, if_false] at h
    by_cases c2 : (b.getD 2 0 != 0xe0) = true
    · simp only [c2, if_true] at h; cases h
    simp only [c2, Bool.false_eq_true, if_false] at h
    by_cases c32 : ((xorB (Q.dec (b.drop 7) ((Q.kdf pass ((b.drop 3).take 4)).drop 32))
        ((Q.kdf pass ((b.drop 3).take 4)).take 32)).length != 32) = true
    · simp only [c32, if_true] at h; cases h
    simp only [c32, Bool.false_eq_true, if_false] at h
    split at h
    · rename_i hck
      injection h with h
      have hck' : checksum H (Q.addrOf priv) = (b.drop 3).take 4 := by rw [← h]; simpa using hck
      have h0 : b.getD 0 0 = 0x01 := by simpa using c0
      have h1 : b.getD 1 0 = 0x42 := by simpa using c1
      have h2 : b.getD 2 0 = 0xe0 := by simpa using c2
      have hb : b = nep2Header ++ (b.drop 3).take 4 ++ b.drop 7 := by
        have e1 : b = b.take 3 ++ b.drop 3 := (List.take_append_drop 3 b).symm
        have e2 : b.drop 3 = (b.drop 3).take 4 ++ b.drop 7 := by
          have := (List.take_append_drop 4 (b.drop 3)).symm
          rw [List.drop_drop] at this; exact this
        have e3 : b.take 3 = nep2Header := by
          match b, hl, h0, h1, h2 with
          | x0 :: x1 :: x2 :: _, _, h0, h1, h2 =>
            simp only [List.getD_cons_zero, List.getD_cons_succ] at h0 h1 h2
            simp [nep2Header, h0, h1, h2]
        conv => lhs; rw [e1, e2, e3]
        simp
      refine ⟨(b.drop 3).take 4, b.drop 7, ?_, ?_, ?_, ?_, hck', h.symm⟩
      · rw [List.length_take, List.length_drop]; omega
      · rw [List.length_drop]; omega
      · rw [← checkEncode_decode H s b hd]; unfold nep2Payload; rw [← hb]
      · rw [← h]; simpa using c32
    · cases h

/-- NEP-2 accepts exactly: a well-formed string whose decrypted key (under THIS passphrase) has the
stored address hash. In particular a string made with `pass` is accepted under `pass'` only if the
key `pass'` yields has the same 4-byte address hash as the original key. -/
theorem nep2_other_passphrase (Q : Nep2Prims) (H : Bytes → Bytes) (hH : ∀ x, 4 ≤ (H x).length)
    (priv pass pass' priv' : Bytes)
    (h : nep2Decrypt Q H (nep2Encrypt Q H priv pass) pass' = some priv') :
    checksum H (Q.addrOf priv') = checksum H (Q.addrOf priv) := by
  obtain ⟨ah, e, hal, hel, hs, _, hck, _⟩ := nep2_shape Q H _ pass' priv' h
  -- the string determines its payload
  have hc : (checksum H (Q.addrOf priv)).length = 4 := by simp [checksum]; have := hH (Q.addrOf priv); omega
  have hne : nep2Payload ah e ≠ [] := by simp [nep2Payload, nep2Header]
  have h1 := checkDecode_encode H hH (nep2Payload ah e) hne
  rw [← hs] at h1
  unfold nep2Encrypt at h1
  simp only at h1
  rw [checkDecode_encode H hH _ (by simp [nep2Header])] at h1
  injection h1 with h1
  unfold nep2Payload at h1
  simp only [List.append_assoc] at h1
  have h2 := List.append_cancel_left h1
  have h3 := List.append_inj_left h2 (by rw [hc, hal])
  rw [hck, h3]

end NeoModel.Codec
