/-
C08 helper: concurrency at method granularity. Every exported method of the pool takes the pool's mutex for its
whole body, so a system of clients calling the pool concurrently is modelled as: at each step some client makes
its next call, atomically. Whatever the schedule, the outcome is that of ONE sequential history that keeps every
client's own order (the history of the critical sections), every call returns what it returns in that sequential
history, and the invariant holds throughout.
-/
import NeoModel.Proofs.MempoolRun
namespace NeoModel.Mempool

/-- what a call returns -/
inductive Res
  | unit
  | err (e : Option Err)
  | bool (b : Bool)
  deriving DecidableEq, Repr

def result (mp : Pool) : Op → Res
  | .add t f d => .err (add mp t f d).2
  | .verify t f => .bool (verify mp t f).2
  | _ => .unit

/-- a call that was made: the client, the operation, the result it returned -/
structure Call where
  client : Nat
  op : Op
  res : Res

/-- the pool, what every client still has to call, and the calls made so far in the order of their critical sections -/
structure Conf where
  pool : Pool
  progs : List (List Op)
  hist : List Call

/-- client `i` makes its next call -/
def Conf.step (c : Conf) (i : Nat) : Option Conf :=
  match c.progs[i]? with
  | some (op :: rest) =>
    some { pool := applyOp c.pool op, progs := c.progs.set i rest, hist := c.hist ++ [⟨i, op, result c.pool op⟩] }
  | _ => none

/-- a schedule: which client moves next (`none` = the schedule asks a client that has finished) -/
def Conf.exec : Conf → List Nat → Option Conf
  | c, [] => some c
  | c, i :: s => (c.step i).bind (fun c' => c'.exec s)

/-- the calls of client `i` in a history, in order -/
def proj (i : Nat) (h : List Call) : List Op := (h.filter (fun x => x.client == i)).map (·.op)

/-- sequential execution of a list of calls, with the results -/
def seqRun (mp : Pool) : List Op → Pool × List Res
  | [] => (mp, [])
  | op :: l => ((seqRun (applyOp mp op) l).1, result mp op :: (seqRun (applyOp mp op) l).2)

theorem seqRun_pool (l : List Op) : ∀ mp, (seqRun mp l).1 = l.foldl applyOp mp := by
  induction l with
  | nil => intro mp; rfl
  | cons op l ih => intro mp; simp only [seqRun, List.foldl_cons]; exact ih _

theorem proj_append (i : Nat) (a b : List Call) : proj i (a ++ b) = proj i a ++ proj i b := by
  simp [proj]

theorem exec_spec : ∀ (s : List Nat) (c cf : Conf), c.exec s = some cf →
    ∃ nh : List Call, cf.hist = c.hist ++ nh ∧
      cf.pool = (nh.map (·.op)).foldl applyOp c.pool ∧
      nh.map (·.res) = (seqRun c.pool (nh.map (·.op))).2 ∧
      (∀ i, (c.progs[i]?).getD [] = proj i nh ++ (cf.progs[i]?).getD []) ∧
      (∀ x ∈ nh, ∃ p ∈ c.progs, x.op ∈ p) := by
  intro s
  induction s with
  | nil =>
    intro c cf h
    simp only [Conf.exec, Option.some.injEq] at h
    subst h
    exact ⟨[], by simp, rfl, rfl, fun i => by simp [proj], fun x hx => by cases hx⟩
  | cons i s ih =>
    intro c cf h
    simp only [Conf.exec] at h
    cases hst : c.step i with
    | none => rw [hst] at h; cases h
    | some c' =>
      rw [hst] at h
      simp only [Option.bind_some] at h
      obtain ⟨nh, h1, h2, h3, h4, h5⟩ := ih c' cf h
      unfold Conf.step at hst
      cases hp : c.progs[i]? with
      | none => rw [hp] at hst; cases hst
      | some prog =>
        cases prog with
        | nil => rw [hp] at hst; cases hst
        | cons op rest =>
          rw [hp] at hst
          simp only [Option.some.injEq] at hst
          subst hst
          have hil : i < c.progs.length := by
            apply Nat.lt_of_not_le
            intro hle
            rw [List.getElem?_eq_none hle] at hp; cases hp
          refine ⟨⟨i, op, result c.pool op⟩ :: nh, ?_, ?_, ?_, ?_, ?_⟩
          · rw [h1]; simp
          · rw [h2]; rfl
          · simp only [List.map_cons, seqRun]
            rw [← h3]
          · intro j
            have := h4 j
            simp only [List.getElem?_set] at this
            by_cases e : i = j
            · subst e
              simp only [if_true, hil] at this
              rw [hp]
              simp only [Option.getD_some] at this ⊢
              rw [this]
              simp [proj]
            · simp only [e, if_false] at this
              rw [this]
              have : proj j (⟨i, op, result c.pool op⟩ :: nh) = proj j nh := by
                simp [proj, e]
              rw [this]
          · intro x hx
            rcases List.mem_cons.mp hx with rfl | hx
            · exact ⟨op :: rest, List.mem_of_getElem? hp, List.mem_cons_self⟩
            · obtain ⟨p, hp1, hp2⟩ := h5 x hx
              rcases List.mem_or_eq_of_mem_set hp1 with h' | h'
              · exact ⟨p, h', hp2⟩
              · exact ⟨op :: rest, List.mem_of_getElem? hp, by rw [h'] at hp2; exact List.mem_cons_of_mem _ hp2⟩

/-- the start: an empty pool of capacity `cap`, every client with its whole program -/
def Conf.init (cap : Nat) (progs : List (List Op)) : Conf := { pool := new cap, progs := progs, hist := [] }

/-- Linearisability at method granularity: for every schedule of the clients, with `l` the calls in the order of
their critical sections, (1) the final pool is the one of the sequential history `l`, (2) every call returned
what it returns in that sequential history, (3) `l` keeps every client's program order (a client's program is
its calls in `l` followed by what it has not called yet), and (4) if all offered transactions are well-formed the
invariant holds in the final state (hence, the schedule being arbitrary, in every intermediate state). -/
theorem linearizable {U : Tx → Prop} (hw : WF U) (cap : Nat) (progs : List (List Op)) (s : List Nat) (cf : Conf)
    (h : (Conf.init cap progs).exec s = some cf) :
    cf.pool = run cap (cf.hist.map (·.op)) ∧
    cf.hist.map (·.res) = (seqRun (new cap) (cf.hist.map (·.op))).2 ∧
    (∀ i, (progs[i]?).getD [] = proj i cf.hist ++ (cf.progs[i]?).getD []) ∧
    ((∀ p ∈ progs, ∀ op ∈ p, OpOk U op) → Inv U cf.pool) := by
  obtain ⟨nh, h1, h2, h3, h4, h5⟩ := exec_spec s _ cf h
  have hh : cf.hist = nh := by rw [h1]; rfl
  rw [hh]
  refine ⟨h2, h3, h4, ?_⟩
  intro hok
  rw [h2]
  apply inv_foldl hw _ _ (inv_new U cap)
  intro op hop
  obtain ⟨x, hx, rfl⟩ := List.mem_map.mp hop
  obtain ⟨p, hp1, hp2⟩ := h5 x hx
  exact hok p hp1 _ hp2

end NeoModel.Mempool
