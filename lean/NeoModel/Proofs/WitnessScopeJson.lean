/-
C15 — ScopesFromString accepts exactly the scope bytes the binary decoder accepts. Core Lean only.
-/
import NeoModel.Model.Witness.ScopeJson
namespace NeoModel.Witness

theorem scopeOfName_bits {n : List Char} {b : Nat} (h : scopeOfName n = some b) : b &&& 0x0E = 0 ∧ b < 256 := by
  unfold scopeOfName at h
  repeat' split at h
  all_goals first | (cases h; decide) | cases h

theorem and_or_zero (a b : Nat) (ha : a &&& 0x0E = 0) (hb : b &&& 0x0E = 0) : (a ||| b) &&& 0x0E = 0 := by
  rw [Nat.and_or_distrib_right, ha, hb]; rfl

theorem orNames_bits : ∀ (ns : List (List Char)) (acc r : Nat), acc &&& 0x0E = 0 → acc < 256 →
    orNames acc ns = some r → r &&& 0x0E = 0 ∧ r < 256
  | [], acc, r, h0, hl, h => by simp [orNames] at h; subst h; exact ⟨h0, hl⟩
  | n :: ns, acc, r, h0, hl, h => by
    simp only [orNames] at h
    split at h
    · cases h
    · rename_i b hb
      have := scopeOfName_bits hb
      exact orNames_bits ns (acc ||| b) r (and_or_zero acc b h0 this.1) (Nat.or_lt_two_pow (n := 8) hl this.2) h

/-- Whatever scope string the JSON path accepts denotes a scope byte the binary path accepts too: no unknown
bit, Global only alone. -/
theorem scopesFromString_valid (s : List Char) (r : Nat) (h : scopesFromString s = some r) :
    validScopes r = true ∧ r < 256 := by
  unfold scopesFromString at h
  split at h
  · cases h
  · rename_i r' hr
    split at h
    · cases h
    · rename_i hg
      cases h
      have hb := orNames_bits _ 0 r (by decide) (by decide) hr
      refine ⟨?_, hb.2⟩
      unfold validScopes
      simp only [hb.1, beq_self_eq_true, Bool.true_and]
      have hg' : hasScope r scGlobal = true → r = scGlobal := by simpa using hg
      cases hs : hasScope r scGlobal with
      | false => simp
      | true => simp [hg' hs]


set_option maxRecDepth 100000 in
/-- ... and conversely every byte the binary path accepts is written by `scopesToString` and read back: the
two paths admit exactly the same scope combinations. -/
theorem scopesFromString_toString (b : Fin 256) (h : validScopes b.val = true) :
    scopesFromString (scopesToString b.val) = some b.val := by
  revert b; decide


end NeoModel.Witness
