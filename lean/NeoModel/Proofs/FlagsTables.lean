/-
C16 — obligations over the regenerated tables (Generated/Interops, NativeMethods, Effects): re-proved by `decide`
against the current source on every run. The machine-level theorems are in Props/C16.lean.
-/
import NeoModel.Proofs.FlagsBasic
namespace NeoModel.Flags
open CallFlags Generated

/-! ## 1. The regenerated tables are guarded (re-proved against the current source on every run)

`Generated.Effects` is the MAY-EFFECT table: for every system-call handler, CALLT and every native method handler
a call-graph walk of the source (go/ast + go/types, `harness/cmd/extract/effects.go`) down to the effect
primitives — storage Get/Seek (bit 1), storage Put/Delete (bit 2), creation of an execution context (bit 4),
AddNotification (bit 8), native cache accessors (16), dispatch to a native method (32) / to a system call (64),
an unresolved function value (128) — per hardfork index. Bits 1/2/4/8 are the bit values of the call flags
ReadStates/WriteStates/AllowCall/AllowNotify that must guard them. -/

/-- every system call of the linked table has a may-effect row (same names, same order). -/
theorem effects_cover_syscalls : Effects.syscalls.map (·.1) = Interops.table.map (·.name) := by decide +kernel

/-- the check of one system call at one hardfork index: it has a may-effect row, 4-bit flags, and either its
handler starts with the system-trigger guard or: every write / call / notify may-effect is covered by a required
flag, no function value is unresolved, nothing dispatches to a system call, and only System.Contract.CallNative
dispatches to a native method (whose own flags native.Call then checks — `table_guards_natives`). -/
def syscallOk (hf : Nat) (e : Interops.Entry) : Bool :=
  match syscallBits hf e.name with
  | Option.none => false
  | some (b, sysOnly) => decide (e.flags < 16) &&
      (sysOnly || ((b &&& 14) &&& (15 ^^^ e.flags) == 0 && b &&& 192 == 0 &&
                   (b &&& 32 == 0 || e.name == "System.Contract.CallNative")))

set_option maxRecDepth 1000000 in
/-- `table_guards`, system calls: at every hardfork index, every system call of the node whose handler MAY (by
the call graph of the current source) write storage requires WriteStates, MAY notify requires AllowNotify, MAY
create an execution context requires AllowCall — except the two persist calls that only the system triggers can
run. A new system call, or a new unguarded effect in an existing handler, breaks this. -/
theorem table_guards_syscalls : ∀ hf ∈ List.range 9, ∀ e ∈ Interops.table, syscallOk hf e = true := by decide +kernel

/-- the only system calls exempted as system-trigger-only, with the trigger their first statement demands. -/
theorem sysonly_syscalls :
    (Effects.syscalls.filter (fun r => r.2.2.1 != "")).map (fun r => (r.1, r.2.2.1)) =
      [("System.Contract.NativeOnPersist", "OnPersist"), ("System.Contract.NativePostPersist", "PostPersist")] := by
  decide +kernel

set_option maxRecDepth 1000000 in
/-- reads (not part of C16's statement, recorded for completeness): the only system calls that MAY read storage
without requiring ReadStates are the two Put calls (they read the old item to price the write). -/
theorem syscall_reads_without_readstates :
    ∀ hf ∈ List.range 9, (Interops.table.filterMap fun e =>
      match syscallBits hf e.name with
      | some (b, false) => if b &&& 1 == 1 && e.flags &&& 1 == 0 then some e.name else Option.none
      | _ => Option.none) = ["System.Storage.Local.Put", "System.Storage.Put"] := by decide +kernel

/-- the function values the walk could not resolve: two reads of the state-root module's validator callback,
reached only from native.PostPersist (system trigger only; the only rows with bit 128 are trigger-guarded, see
`syscallOk` / `nativeOk`). -/
theorem effects_unresolved :
    Effects.unresolved.map (·.1) = ["field updateValidatorsCb read", "field updateValidatorsCb read"] := by decide +kernel

/-- the check of one native method descriptor at one hardfork index (flag coverage of write/notify/call is
`nativeViolationsAt`): a handler serves it and has a may-effect row without dispatch / unresolved bits; a method
published as safe MAY NOT write, notify or call; `Safe` is exactly "requires none of the bits of AddMethod's mask"
(WriteStates|AllowNotify); only deferrable handlers MAY create an execution context; whatever MAY read storage
or the native caches requires ReadStates. -/
def nativeOk (hf : Nat) (m : NativeMethods.Entry) : Bool :=
  match nativeBits hf m with
  | Option.none => false
  | some b => decide (m.flags < 16) && decide (b < 32)
      && (!m.safe || b &&& 14 == 0)
      && (m.safe == ((ofNat m.flags).inter (ofNat Interops.safeDefMask) == CallFlags.empty))
      && (b &&& 4 == 0 || m.deferrable)
      && (b &&& 17 == 0 || (nativeReq hf m).read)

set_option maxRecDepth 1000000 in
/-- `table_guards`, native methods (1). -/
theorem table_guards_natives :
    ∀ hf ∈ List.range 9, ∀ m ∈ NativeMethods.table, activeAt hf m = true → nativeOk hf m = true := by decide +kernel

set_option maxRecDepth 1000000 in
/-- at every hardfork index exactly one handler row serves an active native method descriptor. -/
theorem native_rows_unambiguous :
    ∀ hf ∈ List.range 9, ∀ m ∈ NativeMethods.table, activeAt hf m = true →
      (Effects.natives.filter (fun r => r.1 == m.contract && r.2.1 == m.name && r.2.2.1 == m.nparams && r.2.2.2.1.contains hf)).length = 1 := by
  decide +kernel

set_option maxRecDepth 1000000 in
/-- `table_guards`, native methods (2), PARTIAL — the full statement "at every hardfork every may-effect of every
active native method is covered by a required flag" is FALSE on the current code; what holds is: the uncovered
(method, effect) pairs of the REGENERATED may-effect table are exactly these, per hardfork index (0 = genesis
rules … 8 = Huyao), and each of them is a real violation reproduced on the chain (known-findings):
* notifications of NEO registerCandidate/unregisterCandidate/vote without AllowNotify before Echidna (index 5) —
  retired descriptors, the Echidna versions require AllowNotify;
* ContractManagement deploy/update calling `_deploy` without AllowCall before Aspidochelone (index 1);
* at EVERY hardfork incl. the latest: NEO.vote, and from Faun (index 6) Policy.blockAccount and
  ContractManagement.destroy through vote revocation, pay the voter's GAS reward with the `onNEP17Payment`
  callback (native_neo.go → native_nep17.go postTransfer → contract.CallFromNative) although the method requires
  only States|AllowNotify: a contract call from a context that need not hold AllowCall.
A new native method (or a new call path in an existing one) with an unguarded effect changes this list. -/
theorem table_guards_natives_partial :
    (List.range 9).map nativeViolationsAt =
    [ [("ContractManagement", "deploy", 2, "call"), ("ContractManagement", "deploy", 3, "call"),
       ("ContractManagement", "update", 2, "call"), ("ContractManagement", "update", 3, "call"),
       ("NeoToken", "registerCandidate", 1, "notify"), ("NeoToken", "unregisterCandidate", 1, "notify"),
       ("NeoToken", "vote", 2, "notify"), ("NeoToken", "vote", 2, "call")],
      [("NeoToken", "registerCandidate", 1, "notify"),
       ("NeoToken", "unregisterCandidate", 1, "notify"), ("NeoToken", "vote", 2, "notify"), ("NeoToken", "vote", 2, "call")],
      [("NeoToken", "registerCandidate", 1, "notify"),
       ("NeoToken", "unregisterCandidate", 1, "notify"), ("NeoToken", "vote", 2, "notify"), ("NeoToken", "vote", 2, "call")],
      [("NeoToken", "registerCandidate", 1, "notify"),
       ("NeoToken", "unregisterCandidate", 1, "notify"), ("NeoToken", "vote", 2, "notify"), ("NeoToken", "vote", 2, "call")],
      [("NeoToken", "registerCandidate", 1, "notify"),
       ("NeoToken", "unregisterCandidate", 1, "notify"), ("NeoToken", "vote", 2, "notify"), ("NeoToken", "vote", 2, "call")],
      [("NeoToken", "vote", 2, "call")],
      [("ContractManagement", "destroy", 0, "call"), ("NeoToken", "vote", 2, "call"), ("PolicyContract", "blockAccount", 1, "call")],
      [("ContractManagement", "destroy", 0, "call"), ("NeoToken", "vote", 2, "call"), ("PolicyContract", "blockAccount", 1, "call")],
      [("ContractManagement", "destroy", 0, "call"), ("NeoToken", "vote", 2, "call"), ("PolicyContract", "blockAccount", 1, "call")] ] := by
  decide +kernel

/-- negation witness for the full statement: at the latest hardfork the handler of NEO.vote MAY create an execution
context (write + notify + call) and its required flags (States|AllowNotify = 11) do not include AllowCall. -/
theorem vote_calls_without_allowcall :
    ∃ m ∈ NativeMethods.table, m.contract = "NeoToken" ∧ m.name = "vote" ∧ activeAt 8 m = true ∧
      classifyNative 8 m = some wnc ∧ (nativeReq 8 m).call = false := by
  refine ⟨⟨"NeoToken", -5, "vote", 2, 11, false, true, true, 5, 0, 65536, 0⟩, by decide, rfl, rfl, by decide, by decide, by decide⟩


end NeoModel.Flags
