/-
C19, validator epochs: NextConsensus of a block names the signers of the next one across every change of
the validator set; the rule of seeded change C19-m6 does not.  Model: Model/DbftEpoch.lean.
-/
import NeoModel.Model.DbftEpoch

namespace NeoModel.Dbft.Epoch

/-- Between epoch boundaries the two lists coincide. -/
theorem newEpoch_eq_next {σ : Type} (committee : Nat) (g : σ) (elect : Nat → σ) (h : Nat)
    (hb : shouldUpdate committee (h + 1) = false) :
    (vsAt committee g elect h).newEpoch = (vsAt committee g elect h).next := by
  induction h with
  | zero =>
    simp only [vsAt, persist, hb]
    by_cases h0 : shouldUpdate committee 0 = true <;> simp [h0]
  | succ k ih =>
    simp only [vsAt, persist, hb]
    by_cases h1 : shouldUpdate committee (k + 1) = true
    · simp [h1]
    · have h1' : shouldUpdate committee (k + 1) = false := by simpa using h1
      simp [h1', ih h1']

/-- NextConsensus of block `h+1` names exactly the keys that sign block `h+2`: across every epoch
boundary, whatever is elected, however the number of validators changes. -/
theorem nextConsensus_names_signers {σ : Type} (committee : Nat) (g : σ) (elect : Nat → σ) (h : Nat) :
    signers committee g elect (h + 1) = nextConsensus committee g elect h := by
  unfold signers nextConsensus
  by_cases h1 : shouldUpdate committee (h + 1) = true
  · simp only [vsAt, persist, h1, if_true]
    by_cases h2 : shouldUpdate committee (h + 1 + 1) = true <;> simp [h2]
  · have h1' : shouldUpdate committee (h + 1) = false := by simpa using h1
    have := newEpoch_eq_next committee g elect h h1'
    simp only [vsAt, persist, h1']
    by_cases h2 : shouldUpdate committee (h + 1 + 1) = true <;> simp [h2, this]

/-- The genesis block's NextConsensus (the standby validators) names the signers of block 1 unless the
committee has one member (then block 1 already starts an epoch and the election of block 0 counts). -/
theorem signers_zero {σ : Type} (committee : Nat) (g : σ) (elect : Nat → σ) :
    signers committee g elect 0 = g := by
  unfold signers
  simp only [vsAt, persist]
  by_cases h0 : shouldUpdate committee 0 = true <;> by_cases h1 : shouldUpdate committee 1 = true <;>
    simp [h0, h1]

/-- A chain of headers as the ledger checks it (`verifyHeader`: the witness of block `h+1` must be a
valid multi-signature of the account in block `h`'s NextConsensus). `sig h` is the set whose
signatures block `h` carries, `nc h` its NextConsensus. -/
def ChainOK {σ : Type} (g : σ) (sig nc : Nat → σ) (upTo : Nat) : Prop :=
  ∀ h, h < upTo → sig (h + 1) = (if h = 0 then g else nc h)

/-- Blocks made by the services (signed by `GetNextBlockValidators` of the ledger they extend,
NextConsensus by the rule above) pass the ledger's witness check at every height. -/
theorem consensus_chain_ok {σ : Type} (committee : Nat) (g : σ) (elect : Nat → σ) (upTo : Nat) :
    ChainOK g (fun h => signers committee g elect (h - 1))
      (fun h => nextConsensus committee g elect (h - 1)) upTo := by
  intro h _
  cases h with
  | zero => simp [signers_zero]
  | succ k =>
    simp only [Nat.add_sub_cancel, Nat.succ_ne_zero, if_false]
    exact nextConsensus_names_signers committee g elect k

/-- The README scenario of C19-m6: committee of 7, sets named by numbers, the standby set `4`
replaced by set `7` at the first boundary. -/
def exElect : Nat → Nat := fun h => if h < 7 then 4 else 7

/-- With the m6 rule block 7 (the first block of the second epoch) is made with the *old* set in
NextConsensus, while block 8 is signed by the new set: the ledgers reject it. -/
theorem m6_rule_breaks_chain :
    nextConsensusM6 7 4 exElect 6 = 4 ∧ signers 7 4 exElect 7 = 7 ∧
    ¬ ChainOK 4 (fun h => signers 7 4 exElect (h - 1)) (fun h => nextConsensusM6 7 4 exElect (h - 1)) 8 := by
  refine ⟨by decide, by decide, ?_⟩
  intro hc
  have := hc 7 (by decide)
  revert this
  decide

/-- and it is exactly at changing boundaries that the m6 rule differs: it agrees with the code's rule
whenever the set elected at the boundary equals the outgoing one. -/
theorem m6_rule_agrees_when_unchanged {σ : Type} (committee : Nat) (g : σ) (elect : Nat → σ) (h : Nat)
    (same : shouldUpdate committee (h + 1) = true →
      (vsAt committee g elect h).newEpoch = (vsAt committee g elect h).next) :
    nextConsensusM6 committee g elect h = nextConsensus committee g elect h := by
  unfold nextConsensusM6 nextConsensus
  by_cases h2 : shouldUpdate committee (h + 2) = true
  · simp [h2]
  · have h2' : shouldUpdate committee (h + 2) = false := by simpa using h2
    simp only [h2']
    by_cases h1 : shouldUpdate committee (h + 1) = true
    · exact (same h1).symm
    · have h1' : shouldUpdate committee (h + 1) = false := by simpa using h1
      exact (newEpoch_eq_next committee g elect h h1').symm

end NeoModel.Dbft.Epoch
