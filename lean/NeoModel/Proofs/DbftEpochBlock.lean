/-
C19: the block agreed on by dBFT passes `Blockchain.AddBlock` on histories whose validator set changes.
`Proposal.Answered` (Proofs/DbftProposal.lean) takes "the witness verifies for the previous block's consensus
address" as a hypothesis; here it is derived: the witness is a multi-signature of the validators dBFT ran with
(`GetNextBlockValidators` of the ledger being extended), the previous block's NextConsensus was filled in by
`newBlockFromContext` (`ComputeNextBlockValidators` of the ledger before it), and the two name the same keys at
every height (Proofs/DbftEpoch.lean), epoch boundary or not.
-/
import NeoModel.Proofs.DbftProposal
import NeoModel.Proofs.DbftEpoch

namespace NeoModel.Dbft.Epoch
open NeoModel.AddBlock NeoModel.Dbft.Proposal

variable {L σ : Type}

/-- NextConsensus of the block at height `h` of a chain made by the services: the standby validators' address
in the genesis block, the rule of `newBlockFromContext` above it. -/
def tipNC (committee : Nat) (g : σ) (elect : Nat → σ) (h : Nat) : σ :=
  if h = 0 then g else nextConsensus committee g elect (h - 1)

theorem tipNC_eq_signers (committee : Nat) (g : σ) (elect : Nat → σ) (h : Nat) :
    tipNC committee g elect h = signers committee g elect h := by
  cases h with
  | zero => simp [tipNC, signers_zero]
  | succ k => simp [tipNC, nextConsensus_names_signers]

/-- `Answered` with the witness hypothesis replaced by its two sources: the tip carries the NextConsensus the
rule gave it at height `h`, and the block is signed by the validators of the ledger of height `h`; the block's own
NextConsensus is what the rule gives on that ledger. -/
def AnsweredAt (env : Env L) (t' : Node L) (blk : Block) (addr : σ → Nat)
    (committee : Nat) (g : σ) (elect : Nat → σ) (h : Nat) : Prop :=
  ∃ (s : Node L) (lim : Limits) (top : Header) (lastTs : Nat) (r : Req) (hash wit primary : Nat),
    blk = blockOf env s top r hash (addr (nextConsensus committee g elect h)) wit primary ∧ primary < env.nvals ∧
    backupAccepts env s lim top lastTs r = true ∧ ConflictFree r.txs ∧ PoolValid env s ∧
    (∀ t ∈ r.txs, ∀ q ∈ s.pool, q.id = t.id → q = t) ∧
    s.headers ≠ [] ∧ s.headerHeight = s.blockHeight ∧ s.lookup top.hash = some top ∧ top.index = s.blockHeight ∧
    top.ts ≤ lastTs ∧
    top.nextConsensus = addr (tipNC committee g elect h) ∧
    env.signedBy wit hash (addr (signers committee g elect h)) = true ∧
    (env.apply s.ledger blk).isSome ∧
    t'.cfg = s.cfg ∧ t'.ledger = s.ledger ∧ t'.blockHeight = s.blockHeight ∧ t'.headers = s.headers

theorem AnsweredAt.answered (env : Env L) (t' : Node L) (blk : Block) (addr : σ → Nat)
    (committee : Nat) (g : σ) (elect : Nat → σ) (h : Nat)
    (ha : AnsweredAt env t' blk addr committee g elect h) : Answered env t' blk := by
  obtain ⟨s, lim, top, lastTs, r, hash, wit, primary, hb, hp, hacc, hf, hpv, hown, hne, hhh, hlook, htopi, hlast,
    hnc, hsig, happly, hc, hl, hbh, hh⟩ := ha
  refine ⟨s, lim, top, lastTs, r, hash, _, wit, primary, hb, hp, hacc, hf, hpv, hown, hne, hhh, hlook, htopi, hlast,
    ?_, happly, hc, hl, hbh, hh⟩
  rw [hnc, tipNC_eq_signers]; exact hsig

/-- The ledger takes the block, and the new tip again carries the NextConsensus of the rule: the hypothesis
`top.nextConsensus = addr (tipNC … h)` is re-established for height `h+1`. -/
theorem AnsweredAt.accepted (env : Env L) (t' : Node L) (blk : Block) (addr : σ → Nat)
    (committee : Nat) (g : σ) (elect : Nat → σ) (h : Nat)
    (ha : AnsweredAt env t' blk addr committee g elect h) :
    (addBlock env t' blk).2 = none ∧ blk.hdr.nextConsensus = addr (tipNC committee g elect (h + 1)) := by
  refine ⟨Answered.accepted env t' blk (ha.answered env t' blk addr committee g elect h), ?_⟩
  obtain ⟨s, lim, top, lastTs, r, hash, wit, primary, hb, _⟩ := ha
  subst hb
  simp [blockOf, tipNC]

/-- With the rule of seeded change C19-m6 the tip of height 7 (README scenario: committee of 7, set `4` replaced
by set `7`) carries the address of the old set, the block of height 8 is signed by the new one: for an injective
address the two differ, so the witness hypothesis of `Answered` is not what the ledger checks. -/
theorem m6_tip_names_other_keys (addr : Nat → Nat) (inj : ∀ a b, addr a = addr b → a = b) :
    addr (nextConsensusM6 7 4 exElect 6) ≠ addr (signers 7 4 exElect 7) := by
  intro h
  have := inj _ _ h
  revert this
  decide

end NeoModel.Dbft.Epoch
