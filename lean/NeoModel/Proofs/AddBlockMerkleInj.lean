/-
C06 helper lemmas: over symbolic Merkle terms (a collision-free node hash) the Merkle root of the model
determines the leaf list up to repeated elements; transfer to a concrete hash by evaluation.
(Same argument as Proofs/StateSyncMerkle for statesync's body check, here for the polymorphic
`merkleRoot` of Model/AddBlock that the C06 driver runs with double SHA-256.)
-/
import NeoModel.Proofs.AddBlockMerkle
namespace NeoModel.AddBlock

/-- symbolic Merkle terms: a collision-free node hash = structural equality of the hashed terms -/
inductive MT
  | zero
  | leaf (i : Nat)
  | node (l r : MT)
deriving DecidableEq, Repr

def MT.depth : MT → Nat
  | .zero => 0
  | .leaf _ => 0
  | .node l _ => l.depth + 1

/-- all terms of one level: same depth, none is the zero value -/
def Uniform (d : Nat) (l : List MT) : Prop := ∀ t ∈ l, t.depth = d ∧ t ≠ .zero

abbrev lvl := merkleLevel MT.node

theorem mem_lvl (l : List MT) (t : MT) (h : t ∈ lvl l) : ∃ x y, t = .node x y ∧ x ∈ l := by
  unfold lvl at h
  fun_induction merkleLevel MT.node l with
  | case1 => cases h
  | case2 a => simp at h; exact ⟨a, a, h, by simp⟩
  | case3 a b r ih =>
    simp only [List.mem_cons] at h
    rcases h with rfl | h
    · exact ⟨a, b, rfl, by simp⟩
    · obtain ⟨x, y, e, hx⟩ := ih h; exact ⟨x, y, e, by simp [hx]⟩

theorem uniform_lvl (d : Nat) (l : List MT) (h : Uniform d l) : Uniform (d + 1) (lvl l) := by
  intro t ht
  unfold lvl at ht
  fun_induction merkleLevel MT.node l with
  | case1 => cases ht
  | case2 a => simp at ht; subst ht; exact ⟨by simp [MT.depth, (h a (by simp)).1], by simp⟩
  | case3 a b r ih =>
    simp only [List.mem_cons] at ht
    rcases ht with rfl | ht
    · exact ⟨by simp [MT.depth, (h a (by simp)).1], by simp⟩
    · exact ih (fun t ht => h t (by simp [ht])) ht

theorem nodup_lvl (l : List MT) (h : l.Nodup) : (lvl l).Nodup := by
  unfold lvl
  fun_induction merkleLevel MT.node l with
  | case1 => simp
  | case2 a => simp
  | case3 a b r ih =>
    rw [List.nodup_cons] at h ⊢
    obtain ⟨ha, hr⟩ := h
    rw [List.nodup_cons] at hr
    refine ⟨?_, ih hr.2⟩
    intro hm
    obtain ⟨x, y, e, hx⟩ := mem_lvl r _ hm
    cases e
    exact ha (by simp [hx])

/-- one level is injective up to the duplication of the last element -/
theorem lvl_inj (l1 l2 : List MT) (h : lvl l1 = lvl l2) : l1 = l2 ∨ ¬ l1.Nodup ∨ ¬ l2.Nodup := by
  unfold lvl at h
  fun_induction merkleLevel MT.node l1 generalizing l2 with
  | case1 =>
    match l2, h with
    | [], _ => exact .inl rfl
    | [_], h => simp [merkleLevel] at h
    | _ :: _ :: _, h => simp [merkleLevel] at h
  | case2 a =>
    match l2, h with
    | [], h => simp [merkleLevel] at h
    | [x], h => simp [merkleLevel] at h; exact .inl (by rw [h])
    | x :: y :: r, h =>
      simp [merkleLevel] at h
      obtain ⟨⟨rfl, rfl⟩, _⟩ := h
      exact .inr (.inr (by simp))
  | case3 a b r ih =>
    match l2, h with
    | [], h => simp [merkleLevel] at h
    | [x], h =>
      simp [merkleLevel] at h
      obtain ⟨⟨rfl, rfl⟩, _⟩ := h
      exact .inr (.inl (by simp))
    | x :: y :: r2, h =>
      simp only [merkleLevel, List.cons.injEq, MT.node.injEq] at h
      obtain ⟨⟨rfl, rfl⟩, hr⟩ := h
      rcases ih r2 hr with h1 | h1 | h1
      · exact .inl (by rw [h1])
      · exact .inr (.inl (fun hn => h1 ((List.nodup_cons.1 (List.nodup_cons.1 hn).2).2)))
      · exact .inr (.inr (fun hn => h1 ((List.nodup_cons.1 (List.nodup_cons.1 hn).2).2)))

abbrev cm := calcMerkle MT.node MT.zero

theorem cm_two (f : Nat) (a b : MT) (r : List MT) : cm (f + 1) (a :: b :: r) = cm f (lvl (a :: b :: r)) := rfl

theorem cm_depth (d f : Nat) (l : List MT) (hu : Uniform d l) (hne : l ≠ []) (hf : l.length ≤ f) :
    d ≤ (cm f l).depth ∧ cm f l ≠ .zero := by
  induction f generalizing d l with
  | zero => cases l with
    | nil => exact absurd rfl hne
    | cons a r => simp at hf
  | succ f ih =>
    match l, hne, hf, hu with
    | [a], _, _, hu => simp only [cm, calcMerkle]; exact ⟨Nat.le_of_eq (hu a (by simp)).1.symm, (hu a (by simp)).2⟩
    | a :: b :: r, _, hf, hu =>
      rw [cm_two]
      have hl := merkleLevel_length MT.node (a :: b :: r)
      have := ih (d + 1) (lvl (a :: b :: r)) (uniform_lvl d _ hu) (by simp [lvl, merkleLevel])
        (by unfold lvl; rw [hl]; simp only [List.length_cons] at hf ⊢; omega)
      exact ⟨by omega, this.2⟩

/-- the Merkle root commits to the list up to repeated elements (symbolic hashes) -/
theorem cm_inj (d f1 f2 : Nat) (l1 l2 : List MT) (h1 : Uniform d l1) (h2 : Uniform d l2)
    (hf1 : l1.length ≤ f1) (hf2 : l2.length ≤ f2) (he : cm f1 l1 = cm f2 l2) :
    l1 = l2 ∨ ¬ l1.Nodup ∨ ¬ l2.Nodup := by
  induction f1 generalizing d f2 l1 l2 with
  | zero =>
    cases l1 with
    | cons a r => simp at hf1
    | nil =>
      cases l2 with
      | nil => exact .inl rfl
      | cons b r2 =>
        have := (cm_depth d f2 (b :: r2) h2 (by simp) hf2).2
        rw [← he] at this; simp [cm, calcMerkle] at this
  | succ f1 ih =>
    match l1, hf1, h1, he with
    | [], _, _, he =>
      cases l2 with
      | nil => exact .inl rfl
      | cons b r2 =>
        have := (cm_depth d f2 (b :: r2) h2 (by simp) hf2).2
        rw [← he] at this; simp [cm, calcMerkle] at this
    | [a], _, h1, he =>
      match l2, hf2, h2, he with
      | [], _, _, he => simp only [cm, calcMerkle] at he; exact absurd he (h1 a (by simp)).2
      | [b], _, _, he =>
        cases f2 <;> simp only [cm, calcMerkle] at he <;> exact .inl (by rw [he])
      | b :: c :: r2, hf2, h2, he =>
        exfalso
        cases f2 with
        | zero => simp at hf2
        | succ f2 =>
          rw [cm_two] at he
          have hl := merkleLevel_length MT.node (b :: c :: r2)
          have := (cm_depth (d + 1) f2 (lvl (b :: c :: r2)) (uniform_lvl d _ h2) (by simp [lvl, merkleLevel])
            (by unfold lvl; rw [hl]; simp only [List.length_cons] at hf2 ⊢; omega)).1
          rw [← he] at this
          simp only [cm, calcMerkle] at this
          have := (h1 a (by simp)).1
          omega
    | a :: b :: r, hf1, h1, he =>
      match l2, hf2, h2, he with
      | [], _, _, he =>
        have := (cm_depth d (f1 + 1) (a :: b :: r) h1 (by simp) hf1).2
        rw [he] at this; simp [cm, calcMerkle] at this
      | [c], _, h2, he =>
        exfalso
        rw [cm_two] at he
        have hl := merkleLevel_length MT.node (a :: b :: r)
        have := (cm_depth (d + 1) f1 (lvl (a :: b :: r)) (uniform_lvl d _ h1) (by simp [lvl, merkleLevel])
          (by unfold lvl; rw [hl]; simp only [List.length_cons] at hf1 ⊢; omega)).1
        rw [he] at this
        have hc := (h2 c (by simp)).1
        cases f2 <;> simp only [cm, calcMerkle] at this <;> omega
      | c :: e :: r2, hf2, h2, he =>
        cases f2 with
        | zero => simp at hf2
        | succ f2 =>
          rw [cm_two, cm_two] at he
          have hl1 := merkleLevel_length MT.node (a :: b :: r)
          have hl2 := merkleLevel_length MT.node (c :: e :: r2)
          rcases ih (d + 1) f2 _ _ (uniform_lvl d _ h1) (uniform_lvl d _ h2)
            (by unfold lvl; rw [hl1]; simp only [List.length_cons] at hf1 ⊢; omega)
            (by unfold lvl; rw [hl2]; simp only [List.length_cons] at hf2 ⊢; omega) he with h | h | h
          · exact lvl_inj _ _ h
          · exact .inr (.inl (fun hn => h (nodup_lvl _ hn)))
          · exact .inr (.inr (fun hn => h (nodup_lvl _ hn)))

/-- C06: with a collision-free node hash (symbolic terms) the Merkle root of the model determines the
transaction list among the lists WITHOUT a repeated transaction: two duplicate-free lists with the same
root are equal. So the Merkle check and the duplicate check of AddBlock together make the accepted
transaction list unique for a header; neither does alone (`merkle_dup_last_any`). -/
theorem merkle_root_determines_nodup_list (l1 l2 : List Nat) (hn1 : l1.Nodup) (hn2 : l2.Nodup)
    (h : merkleRoot MT.node MT.zero (l1.map MT.leaf) = merkleRoot MT.node MT.zero (l2.map MT.leaf)) : l1 = l2 := by
  have hu : ∀ l : List Nat, Uniform 0 (l.map MT.leaf) := by
    intro l t ht; simp only [List.mem_map] at ht; obtain ⟨i, _, rfl⟩ := ht; exact ⟨rfl, by simp⟩
  have hinj : ∀ a b : List Nat, a.map MT.leaf = b.map MT.leaf → a = b := by
    intro a
    induction a with
    | nil => intro b hb; cases b <;> simp_all
    | cons x r ih =>
      intro b hb
      cases b with
      | nil => simp at hb
      | cons y r2 =>
        simp only [List.map_cons, List.cons.injEq, MT.leaf.injEq] at hb
        rw [hb.1, ih r2 hb.2]
  have hmap : ∀ l : List Nat, l.Nodup → (l.map MT.leaf).Nodup := by
    intro l
    induction l with
    | nil => intro _; simp
    | cons x r ih =>
      intro hx
      rw [List.nodup_cons] at hx
      simp only [List.map_cons, List.nodup_cons]
      refine ⟨?_, ih hx.2⟩
      intro hm
      simp only [List.mem_map, MT.leaf.injEq] at hm
      obtain ⟨y, hy, rfl⟩ := hm
      exact hx.1 hy
  unfold merkleRoot at h
  rcases cm_inj 0 _ _ _ _ (hu l1) (hu l2) (Nat.le_refl _) (Nat.le_refl _) h with h | h | h
  · exact hinj _ _ h
  · exact absurd (hmap l1 hn1) h
  · exact absurd (hmap l2 hn2) h

/-- the value of a symbolic Merkle term under a concrete node hash `h2`, leaf values `txh`, zero `z` -/
def MT.eval {α : Type} (txh : Nat → α) (h2 : α → α → α) (z : α) : MT → α
  | .zero => z
  | .leaf i => txh i
  | .node l r => h2 (l.eval txh h2 z) (r.eval txh h2 z)

theorem merkleLevel_eval {α : Type} (txh : Nat → α) (h2 : α → α → α) (z : α) (l : List MT) :
    merkleLevel h2 (l.map (MT.eval txh h2 z)) = (merkleLevel MT.node l).map (MT.eval txh h2 z) := by
  fun_induction merkleLevel MT.node l with
  | case1 => rfl
  | case2 a => rfl
  | case3 a b r ih => simp only [List.map_cons, merkleLevel, ih, MT.eval]

theorem calcMerkle_eval {α : Type} (txh : Nat → α) (h2 : α → α → α) (z : α) (f : Nat) (l : List MT) :
    calcMerkle h2 z f (l.map (MT.eval txh h2 z)) = (calcMerkle MT.node MT.zero f l).eval txh h2 z := by
  induction f generalizing l with
  | zero =>
    match l with
    | [] => rfl
    | [a] => rfl
    | a :: b :: r => rfl
  | succ f ih =>
    match l with
    | [] => rfl
    | [a] => rfl
    | a :: b :: r =>
      show calcMerkle h2 z f (merkleLevel h2 ((a :: b :: r).map (MT.eval txh h2 z))) = _
      rw [merkleLevel_eval, ih]
      rfl

/-- C06: the same for any concrete node hash that is collision-free on the Merkle terms of the two
lists (hypothesis `hcf`, never an axiom): equal roots of two duplicate-free transaction lists mean equal
lists. `txh i` = hash of transaction `i`. -/
theorem merkle_root_determines_nodup_list_hash {α : Type} (txh : Nat → α) (h2 : α → α → α) (z : α)
    (l1 l2 : List Nat) (hn1 : l1.Nodup) (hn2 : l2.Nodup)
    (hcf : (merkleRoot MT.node MT.zero (l1.map MT.leaf)).eval txh h2 z =
             (merkleRoot MT.node MT.zero (l2.map MT.leaf)).eval txh h2 z →
           merkleRoot MT.node MT.zero (l1.map MT.leaf) = merkleRoot MT.node MT.zero (l2.map MT.leaf))
    (h : merkleRoot h2 z (l1.map txh) = merkleRoot h2 z (l2.map txh)) : l1 = l2 := by
  apply merkle_root_determines_nodup_list l1 l2 hn1 hn2
  apply hcf
  have e : ∀ l : List Nat, l.map txh = (l.map MT.leaf).map (MT.eval txh h2 z) := by
    intro l; rw [List.map_map]; rfl
  unfold merkleRoot at h ⊢
  rw [e l1, e l2, List.length_map, List.length_map, calcMerkle_eval, calcMerkle_eval] at h
  simpa using h

end NeoModel.AddBlock
