/-
Voter rewards: what the loop of PostPersist adds to each committee member's GAS-per-vote value, and the bound of
the total accrued at an epoch start by 80 % of the epoch's GAS generation.
-/
import NeoModel.Proofs.TokensAL
namespace NeoModel.Tokens

/-- the votes PostPersist uses for a member (native_neo.go:526-529). -/
def memberVotes (l : Ledger) (pub : Nat) (cached : Int) : Int := if l.votesChanged then storageVotes l pub else cached

/-- the increment of the member at committee position `pos`. -/
def gpvInc (e : Env) (vr : Int) (l : Ledger) (pub : Nat) (cached : Int) (pos : Nat) : Int :=
  if memberVotes l pub cached > 0 then (if pos < e.vcount then 2 else 1) * vr / memberVotes l pub cached else 0

theorem latestGpv_put_ne (l : Ledger) (p q : Nat) (v : Int) (h : q ≠ p) :
    latestGpv { l with gpvCache := put l.gpvCache p v, gpv := put l.gpv p v } q = latestGpv l q := by
  unfold latestGpv
  simp only [get_put_ne _ _ _ _ h]

theorem latestGpv_put_eq (l : Ledger) (p : Nat) (v : Int) :
    latestGpv { l with gpvCache := put l.gpvCache p v, gpv := put l.gpv p v } p = v := by
  unfold latestGpv
  simp only [get_put_eq]

/-- one iteration of the loop. -/
def stepGpv (e : Env) (vr : Int) (l : Ledger) (pub : Nat) (cached : Int) (i : Nat) : Ledger :=
  if memberVotes l pub cached > 0 then
    { l with gpvCache := put l.gpvCache pub ((if i < e.vcount then 2 else 1) * vr / memberVotes l pub cached + latestGpv l pub),
             gpv := put l.gpv pub ((if i < e.vcount then 2 else 1) * vr / memberVotes l pub cached + latestGpv l pub) }
  else l

theorem voterRewards_cons (e : Env) (vr : Int) (l : Ledger) (pub : Nat) (cached : Int) (rest : List (Nat × Int)) (i : Nat) :
    voterRewards e vr l ((pub, cached) :: rest) i = voterRewards e vr (stepGpv e vr l pub cached i) rest (i + 1) := rfl

theorem stepGpv_flag (e : Env) (vr : Int) (l : Ledger) (pub : Nat) (cached : Int) (i : Nat) :
    (stepGpv e vr l pub cached i).votesChanged = l.votesChanged ∧ (stepGpv e vr l pub cached i).cands = l.cands := by
  unfold stepGpv; split <;> exact ⟨rfl, rfl⟩

theorem stepGpv_other (e : Env) (vr : Int) (l : Ledger) (pub : Nat) (cached : Int) (i : Nat) (q : Nat) (h : q ≠ pub) :
    latestGpv (stepGpv e vr l pub cached i) q = latestGpv l q := by
  unfold stepGpv
  split
  · exact latestGpv_put_ne l pub q _ h
  · rfl

theorem stepGpv_self (e : Env) (vr : Int) (l : Ledger) (pub : Nat) (cached : Int) (i : Nat) :
    latestGpv (stepGpv e vr l pub cached i) pub = latestGpv l pub + gpvInc e vr l pub cached i := by
  unfold stepGpv gpvInc
  split
  · rw [latestGpv_put_eq]; omega
  · omega

theorem stepGpv_votes (e : Env) (vr : Int) (l : Ledger) (pub : Nat) (cached : Int) (i : Nat) (q : Nat) (c : Int) :
    memberVotes (stepGpv e vr l pub cached i) q c = memberVotes l q c := by
  obtain ⟨h1, h2⟩ := stepGpv_flag e vr l pub cached i
  unfold memberVotes storageVotes
  rw [h1, h2]

/-- members not in the list keep their value. -/
theorem voterRewards_other (e : Env) (vr : Int) (l : Ledger) (cs : List (Nat × Int)) (i : Nat) (q : Nat)
    (hq : q ∉ cs.map (·.1)) : latestGpv (voterRewards e vr l cs i) q = latestGpv l q := by
  induction cs generalizing l i with
  | nil => rfl
  | cons c rest ih =>
    obtain ⟨pub, cached⟩ := c
    simp only [List.map_cons, List.mem_cons, not_or] at hq
    rw [voterRewards_cons, ih _ _ hq.2, stepGpv_other _ _ _ _ _ _ _ hq.1]

/-- every member's GAS-per-vote value grows by exactly `gpvInc`: twice the voter reward for a validator position,
once otherwise, divided by the member's votes (nothing for a member without votes). -/
theorem voterRewards_member (e : Env) (vr : Int) (l : Ledger) (cs : List (Nat × Int)) (i j : Nat) (pub : Nat) (cached : Int)
    (hn : (cs.map (·.1)).Nodup) (hj : cs[j]? = some (pub, cached)) :
    latestGpv (voterRewards e vr l cs i) pub = latestGpv l pub + gpvInc e vr l pub cached (i + j) := by
  induction cs generalizing l i j with
  | nil => simp at hj
  | cons c rest ih =>
    obtain ⟨p0, c0⟩ := c
    simp only [List.map_cons, List.nodup_cons] at hn
    rw [voterRewards_cons]
    cases j with
    | zero =>
      simp only [List.getElem?_cons_zero, Option.some.injEq, Prod.mk.injEq] at hj
      obtain ⟨rfl, rfl⟩ := hj
      rw [voterRewards_other _ _ _ _ _ _ hn.1, stepGpv_self]; rfl
    | succ j =>
      simp only [List.getElem?_cons_succ] at hj
      have hne : pub ≠ p0 := by
        intro he; apply hn.1
        have := List.mem_of_getElem? hj
        exact List.mem_map.mpr ⟨(pub, cached), this, by simp [he]⟩
      rw [ih _ (i + 1) j hn.2 hj, stepGpv_other _ _ _ _ _ _ _ hne]
      have e1 : i + 1 + j = i + (j + 1) := by omega
      rw [e1]
      unfold gpvInc
      rw [stepGpv_votes]

/-- what the voters of one member can claim from the increment never exceeds the member's share. -/
theorem gpvInc_bound (e : Env) (vr : Int) (l : Ledger) (pub : Nat) (cached : Int) (pos : Nat) (hvr : 0 ≤ vr) :
    0 ≤ gpvInc e vr l pub cached pos ∧
    memberVotes l pub cached * gpvInc e vr l pub cached pos ≤ (if pos < e.vcount then 2 else 1) * vr := by
  unfold gpvInc
  split
  · rename_i hpos
    have hf : 0 ≤ (if pos < e.vcount then 2 else 1) * vr := by split <;> omega
    exact ⟨Int.ediv_nonneg hf (by omega), Int.mul_ediv_self_le (by omega)⟩
  · have hf : 0 ≤ (if pos < e.vcount then 2 else 1) * vr := by split <;> omega
    simp only [Int.mul_zero]; exact ⟨by omega, hf⟩

/-- Σ over the members (from position `i`) of votes × increment. -/
def epochAccrual (e : Env) (vr : Int) (l : Ledger) : List (Nat × Int) → Nat → Int
  | [], _ => 0
  | (pub, cached) :: rest, i => memberVotes l pub cached * gpvInc e vr l pub cached i + epochAccrual e vr l rest (i + 1)

/-- Σ of the position factors (2 for validator positions, 1 otherwise). -/
def factorSum (e : Env) : Nat → Nat → Int
  | 0, _ => 0
  | n + 1, i => (if i < e.vcount then 2 else 1) + factorSum e n (i + 1)

theorem epochAccrual_le (e : Env) (vr : Int) (l : Ledger) (cs : List (Nat × Int)) (i : Nat) (hvr : 0 ≤ vr) :
    epochAccrual e vr l cs i ≤ factorSum e cs.length i * vr := by
  induction cs generalizing i with
  | nil => simp [epochAccrual, factorSum]
  | cons c rest ih =>
    obtain ⟨pub, cached⟩ := c
    simp only [epochAccrual, List.length_cons, factorSum]
    have h1 := (gpvInc_bound e vr l pub cached i hvr).2
    have h2 := ih (i + 1)
    rw [Int.add_mul]; omega

theorem factorSum_le' (e : Env) (n i : Nat) : factorSum e n i ≤ ((n + (e.vcount - i) : Nat) : Int) := by
  induction n generalizing i with
  | zero => simp [factorSum]
  | succ n ih =>
    simp only [factorSum]
    have := ih (i + 1)
    by_cases h : i < e.vcount
    · rw [if_pos h]; omega
    · rw [if_neg h]; omega

/-- the factors of a whole committee add up to at most committee size + validators count. -/
theorem factorSum_le (e : Env) (n : Nat) : factorSum e n 0 ≤ (n : Int) + (e.vcount : Int) := by
  have := factorSum_le' e n 0
  omega

/-- the voter reward of PostPersist (native_neo.go:514-519) times (committee size + validators count) is at most
80 % of the GAS generated in the epoch's committee-size blocks, scaled by the voter reward factor 10^8. -/
theorem voterReward_le (gas : Int) (c v : Nat) (hg : 0 ≤ gas) (hc : 0 < c + v) :
    ((c : Int) + (v : Int)) * (80 * gas * (100000000 * (c : Int)) / ((c : Int) + (v : Int)) / 100) ≤
      80 * gas * (100000000 * (c : Int)) / 100 := by
  have hx : 0 ≤ 80 * gas * (100000000 * (c : Int)) := by
    apply Int.mul_nonneg (by omega)
    apply Int.mul_nonneg (by omega) (by omega)
  generalize 80 * gas * (100000000 * (c : Int)) = x at hx ⊢
  have hd : 0 < (c : Int) + (v : Int) := by omega
  generalize (c : Int) + (v : Int) = d at hd ⊢
  -- d * (x / d / 100) ≤ x / 100
  have h1 : d * (x / d) ≤ x := Int.mul_ediv_self_le (by omega)
  have h2 : 100 * (x / d / 100) ≤ x / d := Int.mul_ediv_self_le (by omega)
  have h3 : 0 ≤ x / d / 100 := Int.ediv_nonneg (Int.ediv_nonneg hx (by omega)) (by omega)
  apply (Int.le_ediv_iff_mul_le (by omega : (0 : Int) < 100)).mpr
  calc d * (x / d / 100) * 100 = d * (100 * (x / d / 100)) := by rw [Int.mul_assoc, Int.mul_comm (x / d / 100) 100]
    _ ≤ d * (x / d) := Int.mul_le_mul_of_nonneg_left h2 (by omega)
    _ ≤ x := h1

/-- what the voters of all members together can claim (scaled by 10^8) from one epoch start is at most 80 % of the GAS
generated in an epoch's committee-size blocks. -/
theorem epochAccrual_bound (e : Env) (gas : Int) (l : Ledger) (cs : List (Nat × Int)) (hg : 0 ≤ gas)
    (hlen : cs.length = e.csize) (hc : 0 < e.csize + e.vcount) :
    epochAccrual e (80 * gas * (100000000 * (e.csize : Int)) / ((e.csize : Int) + (e.vcount : Int)) / 100) l cs 0 ≤
      80 * gas * (100000000 * (e.csize : Int)) / 100 := by
  have hvr : 0 ≤ 80 * gas * (100000000 * (e.csize : Int)) / ((e.csize : Int) + (e.vcount : Int)) / 100 := by
    apply Int.ediv_nonneg _ (by omega)
    apply Int.ediv_nonneg _ (by omega)
    apply Int.mul_nonneg (by omega)
    apply Int.mul_nonneg (by omega) (by omega)
  have h1 := epochAccrual_le e _ l cs 0 hvr
  have h2 := factorSum_le' e cs.length 0
  have h3 := voterReward_le gas e.csize e.vcount hg hc
  rw [hlen] at h1 h2
  have h4 : factorSum e e.csize 0 * (80 * gas * (100000000 * (e.csize : Int)) / ((e.csize : Int) + (e.vcount : Int)) / 100) ≤
      ((e.csize : Int) + (e.vcount : Int)) * (80 * gas * (100000000 * (e.csize : Int)) / ((e.csize : Int) + (e.vcount : Int)) / 100) :=
    Int.mul_le_mul_of_nonneg_right (by omega) hvr
  omega

end NeoModel.Tokens
