/-
C18: the literal constants of the anchored code (regenerated from /repo on every run into
Generated/CodecConsts.lean) agree with the constants the Codec models use, and the parameters of the
two real curves satisfy the decidable part of the laws the public-key theorems assume.
-/
import NeoModel.Generated.CodecConsts
import NeoModel.Proofs.CodecPubKey
import NeoModel.Proofs.CodecNep2
import NeoModel.Proofs.CodecMsCanon
import NeoModel.Model.Codec.Fixed
namespace NeoModel.Codec
open NeoModel.Generated

/-- the model's constants are the code's constants. -/
theorem codec_consts_agree :
    CodecConsts.addressPrefix = addrPrefix.toNat ∧ CodecConsts.addressPrefix = CodecConsts.neo3Prefix ∧
    CodecConsts.wifVersion = 0x80 ∧ CodecConsts.signatureLen = 64 ∧ CodecConsts.coordLen = 32 ∧
    CodecConsts.maxMultisigKeys = 1024 ∧ CodecConsts.bigintMaxBytesLen = maxBytesLen ∧
    CodecConsts.maxBigIntegerSizeBits = 256 ∧
    CodecConsts.checkMultisigID = multisigID ∧ CodecConsts.checkSigID = checksigID ∧
    CodecConsts.opPUSHINT8 = opPUSHINT8.toNat ∧ CodecConsts.opPUSHINT256 = opPUSHINT256.toNat ∧
    CodecConsts.opPUSHDATA1 = opPUSHDATA1.toNat ∧ CodecConsts.opPUSHDATA2 = opPUSHDATA2.toNat ∧
    CodecConsts.opPUSHDATA4 = opPUSHDATA4.toNat ∧ CodecConsts.opPUSHM1 = opPUSHM1.toNat ∧
    CodecConsts.opPUSH0 = opPUSH0.toNat ∧ CodecConsts.opPUSH16 = opPUSH16.toNat ∧
    CodecConsts.opRET = opRET.toNat ∧ CodecConsts.opSYSCALL = opSYSCALL.toNat ∧
    CodecConsts.nep2Header ++ [UInt8.ofNat CodecConsts.nep2_nepFlag] = nep2Header ∧ CodecConsts.nep2_keyLen = 64 ∧
    CodecConsts.nep2Validate = [39, 0x01, 0x42, 0xe0] ∧
    CodecConsts.pubkeyPrefixes = [0, 2, 3, 4] ∧
    CodecConsts.fixed8_decimals = 10 ^ CodecConsts.fixed8_precision ∧ CodecConsts.fixed8_precision = 8 := by
  decide

/-- secp256r1 and secp256k1 as the driver instantiates them. -/
def r1Curve : CurveP := mkCurve CodecConsts.r1P CodecConsts.r1A CodecConsts.r1B
def k1Curve : CurveP := mkCurve CodecConsts.k1P CodecConsts.k1A CodecConsts.k1B

/-- the decidable laws hold for the real parameters (so `pubkey_accepts_only`, `pubkey_encode_decode`
and `pubkey_malformed_rejected` apply to both real curves without further hypotheses), both primes
are ≡ 3 (mod 4) (the branch of `ModSqrt` the model instantiates), and the standard base points
satisfy the model's curve equation (y² = x³ − 3x + b, y² = x³ + 7). -/
theorem real_curves_sound :
    CurveSound r1Curve ∧ CurveSound k1Curve ∧ CodecConsts.r1P % 4 = 3 ∧ CodecConsts.k1P % 4 = 3 ∧
    onCurve r1Curve CodecConsts.r1Gx CodecConsts.r1Gy = true ∧ onCurve k1Curve CodecConsts.k1Gx CodecConsts.k1Gy = true :=
  ⟨mkCurve_sound _ _ _ (by decide) (by decide), mkCurve_sound _ _ _ (by decide) (by decide), by decide, by decide,
   by decide, by decide⟩

end NeoModel.Codec
