/-
C12 proofs, part 8e: SETITEM, REMOVE, KEYS, VALUES, CONVERT preserve the Map shape invariant;
all stack/heap instructions together (`execS_good`) and the former side conditions as
consequences (`okFor_of_good`).
-/
import NeoModel.Proofs.VmAcctKindsOps2
namespace NeoModel.VmAcct

variable {km : Nat → Bool}

theorem setitemTail_good {w : W} (i : Int) (cloned : Item) (g : GoodW km w) (gc : Good km w.c.heap.length cloned) :
    ∀ out, setitemTail i cloned w = some out → GoodW km out.w ∧ w.c.heap.length ≤ out.w.c.heap.length := by
  intro out h
  simp only [setitemTail] at h
  cases hp1 : w.pop with
  | none => simp [hp1] at h
  | some r1 =>
    obtain ⟨key, w1⟩ := r1
    simp only [hp1] at h
    by_cases hkc : key.cid.isSome = true
    · simp [hkc] at h
    rw [if_neg hkc] at h
    have hkey := cid_none_of_not_isSome hkc
    obtain ⟨g1, _, l1, _⟩ := g.pop hp1
    cases hp2 : w1.pop with
    | none => simp [hp2] at h
    | some r2 =>
      obtain ⟨obj, w2⟩ := r2
      simp only [hp2] at h
      obtain ⟨g2, gobj, l2, _⟩ := g1.pop hp2
      have l12 : w2.c.heap.length = w.c.heap.length := by rw [l2, l1]
      have gc2 : Good km w2.c.heap.length cloned := by rw [l12]; exact gc
      have gkey : Good km w2.c.heap.length key := good_of_cid_none hkey
      -- any change of the counter part followed by a well-shaped store
      have store : ∀ (id : Nat) (xs : List Item) (c' : Ctr), c'.heap.length = w2.c.heap.length → (∀ j, chOf c'.heap j = chOf w2.c.heap j) →
          GoodL km w2.c.heap.length xs → (km id = true → PairsOk xs) →
          GoodW km (({ w2 with c := c' } : W).setHeap (setCh c'.heap id xs)) ∧
            w.c.heap.length ≤ (({ w2 with c := c' } : W).setHeap (setCh c'.heap id xs)).c.heap.length := by
        intro id xs c' hl hc gx hpp
        have g' := g2.ctr c' hl hc
        have gh := goodH_setCh g'.h id (xs := xs) (by simpa [hl] using gx) hpp
        exact ⟨⟨by simpa [W.setHeap] using gh, by simpa [W.setHeap, hl] using g2.st⟩, by simp [W.setHeap, hl, l12]⟩
      have ite2 : ∀ (p : Prop) [Decidable p] (a b : W) (f : W → W),
          (GoodW km (f a) ∧ w.c.heap.length ≤ (f a).c.heap.length) → (GoodW km (f b) ∧ w.c.heap.length ≤ (f b).c.heap.length) →
          GoodW km (f (if p then a else b)) ∧ w.c.heap.length ≤ (f (if p then a else b)).c.heap.length := by
        intro p _ a b f ha hb; split <;> assumption
      have thr : GoodW km ({ w2 with c := w2.c.rem cloned } : W) ∧ w.c.heap.length ≤ ({ w2 with c := w2.c.rem cloned } : W).c.heap.length :=
        ⟨g2.ctr _ (by simp) (by simp), by simp [l12]⟩
      have seq : ∀ id, (obj = .arr id ∨ obj = .str id) → ∀ out,
          (if i < 0 then some (Outcome.throw { w2 with c := w2.c.rem cloned })
            else match (chOf w2.c.heap id)[i.toNat]? with
              | none => none
              | some old =>
                okW ((if rcOf w2.c.heap id ≠ 0 then ({ w2 with c := w2.c.rem old } : W) else { w2 with c := w2.c.rem cloned }).setHeap
                  (setCh (if rcOf w2.c.heap id ≠ 0 then ({ w2 with c := w2.c.rem old } : W) else { w2 with c := w2.c.rem cloned }).c.heap id
                    (listSet (chOf w2.c.heap id) i.toNat cloned)))) = some out →
          GoodW km out.w ∧ w.c.heap.length ≤ out.w.c.heap.length := by
        intro id hid out h
        have nm : km id = true → False := by
          rcases hid with rfl | rfl
          · exact gobj.not_map_arr
          · exact gobj.not_map_str
        by_cases hi : i < 0
        · simp only [hi, if_true, Option.some.injEq] at h
          subst h; exact thr
        · simp only [hi, if_false] at h
          cases hg : (chOf w2.c.heap id)[i.toNat]? with
          | none => simp [hg] at h
          | some old =>
            simp only [hg, okW, Option.some.injEq] at h
            subst h
            have gx : GoodL km w2.c.heap.length (listSet (chOf w2.c.heap id) i.toNat cloned) := (g2.h.ch id).set _ gc2
            exact ite2 _ _ _ (fun x => x.setHeap (setCh x.c.heap id (listSet (chOf w2.c.heap id) i.toNat cloned)))
              (store id _ _ (by simp) (by simp) gx (fun hk => (nm hk).elim))
              (store id _ _ (by simp) (by simp) gx (fun hk => (nm hk).elim))
      cases obj with
      | arr id => exact seq id (Or.inl rfl) out h
      | str id => exact seq id (Or.inr rfl) out h
      | prim =>
        simp only at h
        by_cases hi : i < 0
        · simp only [hi, if_true, Option.some.injEq] at h
          subst h; exact thr
        · simp only [hi, if_false, okW, Option.some.injEq] at h
          subst h; exact thr
      | map id =>
        have pm : PairsOk (chOf w2.c.heap id) := g2.h.pairs id gobj.2
        simp only at h
        by_cases hi : i < 0
        · simp only [hi, if_true, okW, Option.some.injEq] at h
          subst h
          have gx : GoodL km w2.c.heap.length (chOf w2.c.heap id ++ [key, cloned]) :=
            (g2.h.ch id).append (GoodL.cons gkey (GoodL.cons gc2 (GoodL.nil _ _)))
          exact ite2 _ _ _ (fun x => x.setHeap (setCh x.c.heap id (chOf w2.c.heap id ++ [key, cloned])))
            (store id _ _ (by simp) (by simp) gx (fun _ => pairsOk_snoc pm cloned hkey))
            (store id _ _ (by simp) (by simp) gx (fun _ => pairsOk_snoc pm cloned hkey))
        · simp only [hi, if_false] at h
          cases hg : (chOf w2.c.heap id)[2 * i.toNat + 1]? with
          | none => simp [hg] at h
          | some old =>
            simp only [hg, okW, Option.some.injEq] at h
            subst h
            have gx : GoodL km w2.c.heap.length (listSet (chOf w2.c.heap id) (2 * i.toNat + 1) cloned) := (g2.h.ch id).set _ gc2
            exact ite2 _ _ _ (fun x => x.setHeap (setCh x.c.heap id (listSet (chOf w2.c.heap id) (2 * i.toNat + 1) cloned)))
              (store id _ _ (by simp) (by simp) gx (fun _ => pairsOk_set_odd pm i.toNat cloned))
              (store id _ _ (by simp) (by simp) gx (fun _ => pairsOk_set_odd pm i.toNat cloned))

theorem setitem_good {w : W} (i : Int) (g : GoodW km w) : ∀ out, execS (.setitem i) w = some out → GoodOut km w.c.heap.length out := by
  intro out h
  simp only [execS] at h
  cases hp0 : w.popNoRef with
  | none => simp [hp0] at h
  | some r0 =>
    obtain ⟨item, w0⟩ := r0
    simp only [hp0] at h
    have gK := g.ext false
    have fb := fb_extK km w.c.heap.length
    obtain ⟨g0, gi, c0, _⟩ := gK.popNoRef hp0
    have l0 : w0.c.heap.length = w.c.heap.length := by rw [c0]
    cases hcl : w0.cloneIfStruct item with
    | none => simp [hcl] at h
    | some p =>
      obtain ⟨cloned, isS, w0c⟩ := p
      simp only [hcl] at h
      obtain ⟨g1, lc, gcl, _⟩ := cloneIfStruct_good hcl g0 (by rw [l0]; exact fb) (by rw [l0]; exact gi)
      have g1' : GoodW (extK km w.c.heap.length false) (if isS = true then ({ w0c with c := (w0c.c.rem item).add cloned } : W) else w0c) :=
        goodW_ite _ (g1.ctr _ (by simp) (by simp)) g1
      have e1 : (if isS = true then ({ w0c with c := (w0c.c.rem item).add cloned } : W) else w0c).c.heap.length = w0c.c.heap.length := by
        split <;> simp
      obtain ⟨g2, l2⟩ := setitemTail_good i cloned g1' (by rw [e1]; exact gcl) out h
      exact ⟨extK km w.c.heap.length false, fun j hj => extK_lt _ _ _ _ hj, g2, by rw [e1] at l2; omega⟩

theorem remove_good {w : W} (i : Int) (g : GoodW km w) : ∀ out, execS (.remove i) w = some out → GoodOut km w.c.heap.length out := by
  intro out h
  simp only [execS] at h
  cases hp : w.pop with
  | none => simp [hp] at h
  | some r =>
    obtain ⟨y, w1⟩ := r
    simp only [hp] at h
    obtain ⟨g1, _, l1, _⟩ := g.pop hp
    cases hp2 : w1.pop with
    | none => simp [hp2] at h
    | some r2 =>
      obtain ⟨elem, w2⟩ := r2
      simp only [hp2] at h
      obtain ⟨g2, ge, l2, _⟩ := g1.pop hp2
      have l12 : w2.c.heap.length = w.c.heap.length := by rw [l2, l1]
      have seq : ∀ id, (elem = .arr id ∨ elem = .str id) → ∀ out,
          (if i < 0 then none
            else match (chOf w2.c.heap id)[i.toNat]? with
              | none => none
              | some x =>
                okW ((if rcOf w2.c.heap id ≠ 0 then ({ w2 with c := w2.c.rem x } : W) else w2).setHeap
                  (setCh (if rcOf w2.c.heap id ≠ 0 then ({ w2 with c := w2.c.rem x } : W) else w2).c.heap id
                    ((chOf w2.c.heap id).eraseIdx i.toNat)))) = some out →
          GoodOut km w.c.heap.length out := by
        intro id hid out h
        have nm : km id = true → False := by
          rcases hid with rfl | rfl
          · exact ge.not_map_arr
          · exact ge.not_map_str
        split at h
        · cases h
        · split at h <;> simp only [okW, Option.some.injEq, reduceCtorEq] at h
          rename_i x hx
          subst h
          have gx : GoodL km w2.c.heap.length ((chOf w2.c.heap id).eraseIdx i.toNat) := (g2.h.ch id).eraseIdx _
          by_cases hr : rcOf w2.c.heap id = 0
          · simp only [hr, ne_eq, not_true_eq_false, if_false]
            have gh := goodH_setCh g2.h id gx (fun hk => (nm hk).elim)
            exact goodOut_same ⟨by simpa [W.setHeap] using gh, by simpa [W.setHeap] using g2.st⟩ (by simp [W.setHeap, l12])
          · simp only [ne_eq, hr, not_false_eq_true, if_true]
            have g' := g2.ctr (w2.c.rem x) (by simp) (by simp)
            have gh := goodH_setCh g'.h id (xs := (chOf w2.c.heap id).eraseIdx i.toNat) (by simpa using gx) (fun hk => (nm hk).elim)
            exact goodOut_same ⟨by simpa [W.setHeap] using gh, by simpa [W.setHeap] using g2.st⟩ (by simp [W.setHeap, l12])
      cases elem with
      | prim => simp at h
      | arr id => exact seq id (Or.inl rfl) out h
      | str id => exact seq id (Or.inr rfl) out h
      | map id =>
        have pm : PairsOk (chOf w2.c.heap id) := g2.h.pairs id ge.2
        simp only at h
        split at h
        · simp only [okW, Option.some.injEq] at h
          subst h; exact goodOut_same g2 (by simp [l12])
        · split at h
          · rename_i k v hk hv
            simp only [okW, W.setHeap, Option.some.injEq] at h
            subst h
            have hlt : 2 * i.toNat + 1 < (chOf w2.c.heap id).length := by
              rcases Nat.lt_or_ge (2 * i.toNat + 1) (chOf w2.c.heap id).length with hl | hl
              · exact hl
              · rw [List.getElem?_eq_none hl] at hv; cases hv
            have gx : GoodL km w2.c.heap.length (((chOf w2.c.heap id).eraseIdx (2 * i.toNat + 1)).eraseIdx (2 * i.toNat)) :=
              ((g2.h.ch id).eraseIdx _).eraseIdx _
            have gh := goodH_setCh g2.h id gx (fun _ => pairsOk_erase_pair pm i.toNat hlt)
            refine goodOut_same (goodW_ite _ ?_ ?_) (by apply ite_len <;> simp [l12])
            · exact ⟨by simpa using gh, by simpa using g2.st⟩
            · exact ⟨gh, by simpa using g2.st⟩
          · cases h

theorem keys_good {w : W} (g : GoodW km w) : ∀ out, execS .keys w = some out → GoodOut km w.c.heap.length out := by
  intro out h
  simp only [execS] at h
  cases hp : w.pop with
  | none => simp [hp] at h
  | some r =>
    obtain ⟨y, w1⟩ := r
    simp only [hp] at h
    obtain ⟨g1, _, l1, _⟩ := g.pop hp
    split at h
    · cases h
    · simp only [okW, W.alloc, W.setHeap, W.pushNoRef, W.addRefs, Option.some.injEq, reduceCtorEq] at h
      rename_i id w1' heq
      simp only [Option.some.injEq, Prod.mk.injEq] at heq
      obtain ⟨_, rfl⟩ := heq
      subst h
      have gk : GoodL km w1.c.heap.length (evens (chOf w1.c.heap id)) := (g1.h.ch id).sub (fun x hx => evens_mem _ x hx)
      have := alloc_push_good g1 .arr 1 (evens (chOf w1.c.heap id)) (w1.c.refs + (↑(evens (chOf w1.c.heap id)).length + 1)) gk
        (by intro h; cases h)
      rw [← l1]
      exact goodOut_ext _ this (by simp)
    · cases h

theorem convert_good {w : W} (t : Nat) (g : GoodW km w) : ∀ out, execS (.convert t) w = some out → GoodOut km w.c.heap.length out := by
  intro out h
  simp only [execS] at h
  cases hp : w.pop with
  | none => simp [hp] at h
  | some r =>
    obtain ⟨item, w1⟩ := r
    simp only [hp] at h
    obtain ⟨g1, gi, l1, _⟩ := g.pop hp
    rw [← l1] at gi ⊢
    have same : ∀ x, Good km w1.c.heap.length x → GoodOut km w1.c.heap.length (.ok (w1.push x)) :=
      fun x gx => goodOut_same (g1.push gx) (by simp)
    have fresh : ∀ (k : Kind) id, k ≠ .map →
        GoodOut km w1.c.heap.length (.ok ((w1.setHeap (w1.c.heap ++ [{ rc := 0, ch := chOf w1.c.heap id }])).push (k.mk w1.c.heap.length))) := by
      intro k id hk
      have := alloc_push_good g1 k 0 (chOf w1.c.heap id) w1.c.refs (g1.h.ch id) (fun e => absurd e hk)
      have gK : GoodW (extK km w1.c.heap.length (k == .map)) (w1.setHeap (w1.c.heap ++ [{ rc := 0, ch := chOf w1.c.heap id }])) :=
        ⟨by simpa [W.setHeap] using this.h, by simpa [W.setHeap] using this.st.tail⟩
      exact goodOut_ext (k == .map) (gK.push (by simpa [W.setHeap] using this.st.head)) (by simp [W.setHeap])
    cases item with
    | prim => simp only [okW, Option.some.injEq] at h; subst h; exact same _ (good_prim _ _)
    | arr id =>
      simp only at h
      split at h
      · simp only [okW, Option.some.injEq] at h; subst h; exact same _ gi
      · split at h
        · simp only [okW, W.alloc, Option.some.injEq] at h; subst h; exact fresh .str id (by decide)
        · split at h
          · simp only [okW, Option.some.injEq] at h; subst h; exact same _ (good_prim _ _)
          · cases h
    | str id =>
      simp only at h
      split at h
      · simp only [okW, Option.some.injEq] at h; subst h; exact same _ gi
      · split at h
        · simp only [okW, W.alloc, Option.some.injEq] at h; subst h; exact fresh .arr id (by decide)
        · split at h
          · simp only [okW, Option.some.injEq] at h; subst h; exact same _ (good_prim _ _)
          · cases h
    | map id =>
      simp only at h
      split at h
      · simp only [okW, Option.some.injEq] at h; subst h; exact same _ gi
      · split at h
        · simp only [okW, Option.some.injEq] at h; subst h; exact same _ (good_prim _ _)
        · cases h

theorem values_good {w : W} (g : GoodW km w) : ∀ out, execS .values w = some out → GoodOut km w.c.heap.length out := by
  intro out h
  simp only [execS] at h
  cases hp : w.popNoRef with
  | none => simp [hp] at h
  | some r =>
    obtain ⟨item, w1⟩ := r
    simp only [hp] at h
    have gK := g.ext false
    have fb := fb_extK km w.c.heap.length
    obtain ⟨g1, gi, c1, _⟩ := gK.popNoRef hp
    have l1 : w1.c.heap.length = w.c.heap.length := by rw [c1]
    -- the common tail: copy `xs` (children of the popped item), allocate the result array
    have fin : ∀ (wb : W) (xs : List Item) (b : Bool), GoodW (extK km w.c.heap.length false) wb → wb.c.heap.length = w.c.heap.length →
        GoodL (extK km w.c.heap.length false) wb.c.heap.length xs → ∀ out,
        (match cpValues xs b wb with
          | none => none
          | some (arr, w) => okW ((w.setHeap (w.c.heap ++ [{ rc := 1, ch := arr }])).pushNoRef (.arr w.c.heap.length))) = some out →
        GoodOut km w.c.heap.length out := by
      intro wb xs b gb lb gx out h
      split at h
      · cases h
      · rename_i arr w3 hcp
        simp only [okW, W.setHeap, W.pushNoRef, Option.some.injEq] at h
        subst h
        obtain ⟨g3, l3, ga, _⟩ := cpValues_good xs b wb arr w3 hcp gb (by rw [lb]; exact fb) gx
        have fb3 : FB (extK km w.c.heap.length false) w3.c.heap.length := fb.mono (by omega)
        refine ⟨extK km w.c.heap.length false, fun j hj => extK_lt _ _ _ _ hj, ⟨?_, ?_⟩, by simp only [Outcome.w, List.length_append, List.length_singleton]; omega⟩
        · exact goodH_alloc_false g3.h fb3 1 (ga.le (Nat.le_succ _))
        · show GoodL _ (w3.c.heap ++ [({ rc := 1, ch := arr } : Cell)]).length (.arr w3.c.heap.length :: w3.st)
          rw [List.length_append, List.length_singleton]
          exact GoodL.cons (good_fresh_arr fb3) (g3.st.le (Nat.le_succ _))
    have gdec : ∀ id, GoodW (extK km w.c.heap.length false) (w1.setHeap (decRC w1.c.heap id)) :=
      fun id => ⟨by simpa [W.setHeap] using g1.h, by simpa [W.setHeap] using g1.st⟩
    cases item with
    | prim => simp at h
    | arr id =>
      simp only [W.alloc] at h
      exact fin _ _ _ (gdec id) (by simp [W.setHeap, l1]) (by simpa [W.setHeap] using g1.h.ch id) out h
    | str id =>
      simp only [W.alloc] at h
      exact fin _ _ _ (gdec id) (by simp [W.setHeap, l1]) (by simpa [W.setHeap] using g1.h.ch id) out h
    | map id =>
      simp only [W.alloc] at h
      refine fin _ _ _ (goodW_ite _ (gdec id) ?_) ?_ ?_ out h
      · exact ⟨by simpa [W.setHeap, W.addRefs] using g1.h, by simpa [W.setHeap, W.addRefs] using g1.st⟩
      · split <;> simp [W.setHeap, W.addRefs, l1]
      · have : GoodL (extK km w.c.heap.length false) w1.c.heap.length (odds (chOf w1.c.heap id)) :=
          (g1.h.ch id).sub (fun x hx => odds_mem _ x hx)
        have e : (if (decide (rcOf (w1.setHeap (decRC w1.c.heap id)).c.heap id ≠ 0)) = true then w1.setHeap (decRC w1.c.heap id)
              else (w1.setHeap (decRC w1.c.heap id)).addRefs (-Int.ofNat ((chOf (w1.setHeap (decRC w1.c.heap id)).c.heap id).length / 2))).c.heap.length
              = w1.c.heap.length := by
          split <;> simp [W.setHeap, W.addRefs]
        rw [e]
        simpa [W.setHeap] using this

/-- **every stack/heap instruction preserves the Map shape invariant** -/
theorem execS_good (op : SOp) {w : W} (g : GoodW km w) : ∀ out, execS op w = some out → GoodOut km w.c.heap.length out := by
  cases op with
  | generic k j => exact generic_good k j g
  | dup => exact stackops_good _ g (Or.inl rfl)
  | over => exact stackops_good _ g (Or.inr (Or.inl rfl))
  | tuck => exact stackops_good _ g (Or.inr (Or.inr (Or.inl rfl)))
  | swap => exact stackops_good _ g (Or.inr (Or.inr (Or.inr (Or.inl rfl))))
  | rot => exact stackops_good _ g (Or.inr (Or.inr (Or.inr (Or.inr (Or.inl rfl)))))
  | nip => exact stackops_good _ g (Or.inr (Or.inr (Or.inr (Or.inr (Or.inr (Or.inl rfl))))))
  | clear => exact stackops_good _ g (Or.inr (Or.inr (Or.inr (Or.inr (Or.inr (Or.inr rfl))))))
  | pick k => exact pick_good k g
  | roll k => exact roll_good k g
  | reverse k pf => exact reverse_good k pf g
  | xdrop k => exact xdrop_good k g
  | newEmpty k => exact newEmpty_good k g
  | newSized k m => exact newSized_good k m g
  | pack k m => exact pack_good k m g
  | packmap k dups => exact packmap_good k dups g
  | unpack => exact unpack_good g
  | append => exact append_good g
  | setitem i => exact setitem_good i g
  | remove i => exact remove_good i g
  | clearitems => exact clearitems_good g
  | popitem => exact popitem_good g
  | pickitem i => exact pickitem_good i g
  | keys => exact keys_good g
  | values => exact values_good g
  | convert t => exact convert_good t g
  | reverseitems => exact reverseitems_good g
  | mkarray => exact mkarray_good g

/-- the keys of the next `k` pairs are primitives if the PACKMAP loop succeeds -/
theorem packMapLoop_keys : ∀ (ds : List Int) (ents : List Item) (w : W) (r : List Item × W),
    packMapLoop ds ents w = some r → ∀ x ∈ pairKeys ds.length w.st, x.cid = none := by
  intro ds
  induction ds with
  | nil => intro ents w r _ x hx; simp [pairKeys] at hx
  | cons d ds ih =>
    intro ents w r h x hx
    simp only [packMapLoop] at h
    cases hst : w.st with
    | nil => simp [hst] at h
    | cons key t =>
      cases t with
      | nil => simp [hst] at h
      | cons val rr =>
        simp only [hst] at h
        by_cases hkc : key.cid.isSome = true
        · simp [hkc] at h
        rw [if_neg hkc] at h
        simp only [hst, List.length_cons, pairKeys, List.mem_cons] at hx
        rcases hx with rfl | hx
        · exact cid_none_of_not_isSome hkc
        · by_cases hd : d < 0
          · simp only [hd, if_true] at h
            exact ih _ _ _ h x hx
          · simp only [hd, if_false] at h
            split at h
            · cases h
            · exact ih _ _ _ h x (by simpa [W.addRefs] using hx)

/-- the former side conditions of the accounting proofs follow from the invariant and from the
instruction not faulting -/
theorem okFor_of_good (op : SOp) {w : W} (g : GoodW km w) (out : Outcome) (h : execS op w = some out) : op.okFor w := by
  cases op with
  | setitem i =>
    intro a k id r hst
    simp only [execS] at h
    simp only [W.popNoRef, hst] at h
    cases hcl : ({ w with st := k :: .map id :: r } : W).cloneIfStruct a with
    | none => simp [hcl] at h
    | some p =>
      obtain ⟨cloned, isS, w0c⟩ := p
      simp only [hcl] at h
      have hst' : w0c.st = k :: .map id :: r := by
        unfold W.cloneIfStruct at hcl
        cases a <;> simp only at hcl
        · simp only [Option.some.injEq, Prod.mk.injEq] at hcl; rw [← hcl.2.2]
        · simp only [Option.some.injEq, Prod.mk.injEq] at hcl; rw [← hcl.2.2]
        · split at hcl
          · cases hcl
          · simp only [Option.some.injEq, Prod.mk.injEq] at hcl; rw [← hcl.2.2]; rfl
        · simp only [Option.some.injEq, Prod.mk.injEq] at hcl; rw [← hcl.2.2]
      have hst'' : (if isS = true then ({ w0c with c := (w0c.c.rem a).add cloned } : W) else w0c).st = k :: .map id :: r := by
        split <;> simpa using hst'
      simp only [setitemTail, W.pop, hst''] at h
      by_cases hkc : k.cid.isSome = true
      · simp [hkc] at h
      · have := cid_none_of_not_isSome hkc
        cases k <;> simp [Item.cid] at this
        rfl
  | keys =>
    intro id r hst
    have : Good km w.c.heap.length (.map id) := g.st _ (by rw [hst]; exact List.mem_cons_self ..)
    exact (g.h.pairs id this.2).2
  | values =>
    intro id r hst
    have : Good km w.c.heap.length (.map id) := g.st _ (by rw [hst]; exact List.mem_cons_self ..)
    exact g.h.pairs id this.2
  | packmap k dups =>
    simp only [execS] at h
    cases hp : w.pop with
    | none => simp [hp] at h
    | some r =>
      obtain ⟨y, w1⟩ := r
      simp only [hp] at h
      obtain ⟨_, _, _, hst⟩ := g.pop hp
      split at h
      · cases h
      · rename_i hlen
        have hlen' : dups.length = k := by
          apply Classical.byContradiction; intro hne; exact hlen hne
        split at h
        · cases h
        · rename_i ents w2 hl
          have := packMapLoop_keys _ _ _ _ hl
          rw [hlen'] at this
          intro x hx
          apply this x
          rw [hst] at hx; simpa using hx
  | _ => trivial

end NeoModel.VmAcct
