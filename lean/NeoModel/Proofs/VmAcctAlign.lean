/-
C12 proofs, part 13: the list of try stacks stays aligned with the invocation stack.
-/
import NeoModel.Proofs.VmAcctTry
namespace NeoModel.VmAcct

/-- what an instruction does to the number of contexts -/
def Op.dlen : Op → Nat → Nat
  | .call _, n => n + 1
  | .load _ _, n => n + 1
  | .ret, n => n - 1
  | _, n => n

theorem exec_len {s : St} (op : Op) (r : Res) (h : exec op s = some r) : r.s.frames.length = op.dlen s.frames.length := by
  cases op with
  | nop => simp only [exec, ok, Option.some.injEq] at h; subst h; rfl
  | s sop =>
    simp only [exec] at h
    split at h
    · cases h
    · simp only [ok, Option.some.injEq] at h; subst h; simp [Op.dlen]
    · simp only [Option.some.injEq] at h; subst h; simp [Op.dlen]
  | initsslot n =>
    simp only [exec] at h
    split at h
    · cases h
    · split at h
      · cases h
      · split at h
        · simp only [ok, Option.some.injEq] at h; subst h; simp [Op.dlen]
        · cases h
  | initslot l a =>
    simp only [exec] at h
    cases hf : s.frames with
    | nil => simp [hf] at h
    | cons f fs =>
      simp only [hf] at h
      split at h
      · cases h
      · have key : ∀ s1 : St, s1.frames.length = s.frames.length → s1.halted = s.halted →
            (if a = 0 then ok s1 else if a ≤ s1.cur.length then ok ((slotSet s1 .arg (s1.cur.take a)).setCur (s1.cur.drop a)) else none) = some r →
            r.s.frames.length = (Op.initslot l a).dlen s.frames.length := by
          intro s1 hl hh h
          by_cases ha : a = 0
          · simp only [ha, if_true, ok, Option.some.injEq] at h
            subst h; simpa [Op.dlen] using hl
          · simp only [ha, if_false] at h
            split at h
            · simp only [ok, Option.some.injEq] at h
              subst h; simp [Op.dlen, hl]
            · cases h
        by_cases hl : l > 0
        · simp only [hl, if_true] at h
          have := key _ (by simp) (by simp) h
          rw [hf] at this; exact this
        · simp only [hl, if_false] at h
          have := key s rfl rfl h
          rw [hf] at this; exact this
  | ld k i =>
    simp only [exec] at h
    split at h
    · cases h
    · split at h
      · cases h
      · simp only [ok, Option.some.injEq] at h; subst h; simp [Op.dlen]
  | st k i =>
    simp only [exec] at h
    split at h
    · cases h
    · split at h
      · simp only [ok, Option.some.injEq] at h; subst h; simp [Op.dlen]
      · cases h
  | call pops =>
    simp only [exec] at h
    split at h
    · cases h
    · rename_i w hw
      split at h
      · cases h
      · rename_i hc
        simp only [ok, Option.some.injEq] at h
        subst h
        simp only [Bool.or_eq_true, List.isEmpty_iff, decide_eq_true_eq, not_or, Nat.not_le] at hc
        have hl : (s.setW w).frames.length = s.frames.length := by simp
        show (s.setW w).frames.length + 1 = _
        simp [Op.dlen]
  | load mode nargs =>
    simp only [exec] at h
    split at h
    · cases h
    · split at h
      · cases h
      · rename_i w hw
        split at h
        · cases h
        · rename_i hc
          simp only [ok, Option.some.injEq] at h
          subst h
          simp only [decide_eq_true_eq, Nat.not_le] at hc
          have hl : (s.setW w).frames.length = s.frames.length := by simp
          simp [Op.dlen]
  | throw_ =>
    simp only [exec] at h
    split at h
    · cases h
    · simp only [Option.some.injEq] at h; subst h; simp [Op.dlen]
  | endfinally =>
    simp only [exec] at h
    split at h
    · simp only [Option.some.injEq] at h; subst h; rfl
    · simp only [ok, Option.some.injEq] at h; subst h; rfl
  | ret =>
    simp only [exec] at h
    cases hf : s.frames with
    | nil => simp [hf] at h
    | cons f rest =>
      simp only [hf] at h
      split at h
      · rename_i hre
        simp only [ok, Option.some.injEq] at h
        subst h
        have : rest = [] := by simpa using hre
        subst this
        simp [Op.dlen]
      · have fin : ∀ (s1 : St) (b : Bool) (m : Nat), s1.frames.length = rest.length → ∀ r,
            (if b then (if m = 0 then ok (s1.setW (s1.w.push .prim)) else if m > 1 then none else ok s1) else ok s1) = some r →
            r.s.frames.length = rest.length := by
          intro s1 b m hl r h
          split at h
          · split at h
            · simp only [ok, Option.some.injEq] at h; subst h; simp [hl]
            · split at h
              · cases h
              · simp only [ok, Option.some.injEq] at h; subst h; exact hl
          · simp only [ok, Option.some.injEq] at h; subst h; exact hl
        simp only [Op.dlen, List.length_cons, Nat.add_sub_cancel]
        cases ho : f.own with
        | some st =>
          simp only [ho] at h
          split at h
          · cases h
          · exact fin _ _ st.length (by simp) r h
        | none =>
          simp only [ho] at h
          exact fin ({ s with frames := rest, c := unloadSlots f s.c } : St) _ _ rfl r h

theorem findHandler_len : ∀ (tr : List (List TryE)) (k0 k : Nat) (c : Bool) (tr' : List (List TryE)),
    findHandler tr k0 = some (k, c, tr') → tr'.length + k = tr.length + k0 := by
  intro tr
  induction tr with
  | nil => intro k0 k c tr' h; simp [findHandler] at h
  | cons t ts ih =>
    intro k0 k c tr' h
    simp only [findHandler] at h
    split at h
    · have := ih _ _ _ _ h
      simp only [List.length_cons]; omega
    · split at h <;> (simp only [Option.some.injEq, Prod.mk.injEq] at h; obtain ⟨rfl, _, rfl⟩ := h; simp)

theorem length_modifyHead (f : List TryE → List TryE) (tr : List (List TryE)) : (modifyHead f tr).length = tr.length := by
  cases tr <;> simp [modifyHead]

/-- exception unwinding removes exactly `k` contexts -/
theorem unwind_len {s s' : St} {x : Item} {k : Nat} {c : Bool} (h : unwind s x k c = some s') :
    s'.frames.length = s.frames.length - k := by
  simp only [unwind] at h
  split at h
  · cases h
  · rename_i fs c1 hu
    obtain ⟨_, hfs⟩ := unwindFrames_length k _ _ _ _ hu
    split at h
    · cases h
    · split at h <;> (simp only [Option.some.injEq] at h; subst h)
      · simp [hfs]
      · simp [hfs]

/-- the number of contexts after one step: the instruction's own effect, minus the contexts unloaded by
exception unwinding if it raised -/
theorem step_len {s s' : St} {op : Op} {unw : Option (Nat × Bool)} {ext : Bool} (h : step s op unw ext = some s') :
    ∃ r, exec op s = some r ∧ r.s.frames.length = op.dlen s.frames.length ∧
      ((r.raised = none ∧ s'.frames.length = r.s.frames.length) ∨
       (∃ x k c, r.raised = some x ∧ unw = some (k, c) ∧ s'.frames.length = r.s.frames.length - k)) := by
  simp only [step] at h
  split at h
  · cases h
  · cases he : exec op s with
    | none => simp [he] at h
    | some r =>
      simp only [he] at h
      refine ⟨r, rfl, exec_len op r he, ?_⟩
      cases hr : r.raised with
      | none =>
        simp only [hr] at h
        split at h
        · cases h
        · simp only [Option.some.injEq] at h; subst h; exact Or.inl ⟨rfl, rfl⟩
      | some x =>
        cases hu : unw with
        | none => simp [hr, hu] at h
        | some p =>
          obtain ⟨k, c⟩ := p
          simp only [hr, hu] at h
          cases hw : unwind r.s x k c with
          | none => simp [hw] at h
          | some s2 =>
            simp only [hw] at h
            split at h
            · cases h
            · simp only [Option.some.injEq] at h; subst h
              exact Or.inr ⟨x, k, c, rfl, rfl, unwind_len hw⟩

theorem mayRaise_dlen {op : Op} (h : op.mayRaise = true) (n : Nat) : op.dlen n = n := by
  cases op with
  | s sop => cases sop <;> simp [Op.mayRaise] at h <;> rfl
  | throw_ => rfl
  | endfinally => rfl
  | _ => simp [Op.mayRaise] at h

theorem triesAfter_len {tr : List (List TryE)} {op : Op} {top : TOp} (hb : topBad op top = false) :
    (triesAfter tr op top).length = op.dlen tr.length := by
  cases top with
  | try_ c f =>
    have : op.isNop = true := by simpa [topBad] using hb
    cases op <;> simp [Op.isNop] at this
    simp [triesAfter, length_modifyHead, Op.dlen]
  | endtry =>
    have : op.isNop = true := by simpa [topBad] using hb
    cases op <;> simp [Op.isNop] at this
    simp [triesAfter, length_modifyHead, Op.dlen]
  | other =>
    cases op <;> simp [triesAfter, length_modifyHead, Op.dlen]

/-- one step keeps the list of try stacks aligned with the invocation stack -/
theorem tstep_aligned {t t' : TSt} {b burn : Nat} {op : Op} {top : TOp} {ext : Bool} {u : Option (Nat × Bool)}
    (h : tstep t b op top burn ext = some (t', u)) (ha : t.tries.length = t.g.s.frames.length) :
    t'.tries.length = t'.g.s.frames.length := by
  have hg := tstep_refines h
  obtain ⟨_, _, s', hst, _, hg'⟩ := gasStep_some hg
  have hs' : t'.g.s = s' := by rw [hg']
  obtain ⟨r, he, hlen, hcase⟩ := step_len hst
  unfold tstep at h
  split at h
  · cases h
  · rename_i hbad
    simp only [Bool.or_eq_true, not_or, Bool.not_eq_true] at hbad
    split at h
    · rename_i hra
      split at h
      · cases h
      · rename_i k c tr' hf
        split at h
        · cases h
        · simp only [Option.some.injEq, Prod.mk.injEq] at h
          obtain ⟨ht', hu⟩ := h
          have hfl := findHandler_len _ _ _ _ _ hf
          have hmr : op.mayRaise = true := by
            simp only [raises, Bool.and_eq_true] at hra; exact hra.1
          rw [mayRaise_dlen hmr] at hlen
          rw [hs']
          rcases hcase with ⟨hn, _⟩ | ⟨x, k', c', _, hku, hl⟩
          · -- `raises` says the instruction raised
            simp only [raises, Bool.and_eq_true, he] at hra
            rw [hn] at hra; simp at hra
          · rw [← hu] at hku
            simp only [Option.some.injEq, Prod.mk.injEq] at hku
            rw [← ht']
            show tr'.length = _
            rw [hl, hlen, ← hku.1]; omega
    · split at h
      · cases h
      · simp only [Option.some.injEq, Prod.mk.injEq] at h
        obtain ⟨ht', hu⟩ := h
        rw [hs', ← ht']
        show (triesAfter t.tries op top).length = _
        rw [triesAfter_len hbad.1]
        rcases hcase with ⟨_, hl⟩ | ⟨x, k', c', _, hku, _⟩
        · rw [hl, hlen, ha]
        · rw [← hu] at hku; cases hku

/-- **try_aligned**: in every state the try machine reaches there is exactly one try stack per context
of the invocation stack (so `findHandler` walks the contexts `handleException` walks) -/
theorem try_aligned {t : TSt} (h : TRun t) : t.tries.length = t.g.s.frames.length := by
  induction h with
  | init limit base => rfl
  | step b op top burn ext u _ hs ih => exact tstep_aligned hs ih

end NeoModel.VmAcct
