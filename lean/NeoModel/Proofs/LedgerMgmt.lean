/-
C01 — ContractManagement with manifests (Model/Ledger/Mgmt.lean): cache coherence is a theorem about the stack-item
round trip of the manifest (C16's `man_roundtrip`: FromStackItem (ToStackItem m) = normalize m).

  MgmtJ s c     for every contract number: cached and stored record exist together, agree on id and update counter, the
                cached manifest object is well-formed and SERIALISES TO EXACTLY THE STORED ITEM

  mgmt_init     InitializeCache (FromStackItem of every stored item) yields such a cache          (uses the round trip)
  mgmt_rel      deploy / update (with or without manifest) / destroy / inter-contract call preserve it, and for any TWO
                such caches — the running node's objects parsed from JSON, the restarted node's objects rebuilt from
                the items — every operation has the same outcome and the same storage effect: same permission decision
                of System.Contract.Call, same item written back by a NEF-only update

Hypotheses on the parameters (what the Go types / encoding/json establish, never axioms):
  (that an accepted manifest is well-formed for the decoder is no longer a hypothesis: `accept` checks it, `wfB_wf`)
  hc   re-marshalling `extra` is idempotent (extraToStackItem of its own output)
-/
import NeoModel.Model.Ledger.Mgmt
import NeoModel.Proofs.FlagsManifest
import NeoModel.Proofs.LedgerRel
import NeoModel.Proofs.LedgerProduct
namespace NeoModel.Ledger.Mgmt
open NeoModel.Flags.MF NeoModel.Ledger NeoModel.Ledger.Comp

theorem descWfB_wf (d : Dec) (x : Desc) (h : descWfB d x = true) : x.WF d := by
  cases x with
  | wildcard => trivial
  | hash hh => simpa [descWfB, Desc.WF] using h
  | group k => simpa [descWfB, Desc.WF] using h

theorem wfB_wf (d : Dec) (m : Man) (h : wfB d m = true) : m.WF d := by
  simp only [wfB, Bool.and_eq_true, List.all_eq_true, beq_iff_eq, List.contains_eq_mem, decide_eq_true_eq] at h
  obtain ⟨⟨⟨⟨⟨⟨h1, h2⟩, h3⟩, h4⟩, h5⟩, h6⟩, h7⟩ := h
  refine ⟨h1, ?_, h3, ?_, ?_, ?_, ?_⟩
  · intro g hg; exact h2 g hg
  · intro x hx
    obtain ⟨⟨⟨⟨⟨a1, a2⟩, a3⟩, a4⟩, a5⟩, a6⟩ := h4 x hx
    exact ⟨a1, a2, fun p hp => ⟨(a3 p hp).1.1, (a3 p hp).1.2, (a3 p hp).2⟩, a4, a5, a6⟩
  · intro e he
    have := h5 e he
    exact ⟨this.1, fun p hp => ⟨(this.2 p hp).1.1, (this.2 p hp).1.2, (this.2 p hp).2⟩⟩
  · intro p hp
    have := h6 p hp
    refine ⟨descWfB_wf d _ this.1, ?_⟩
    intro ms hms x hx
    have h2 := this.2
    rw [hms] at h2
    simp only [List.all_eq_true] at h2
    exact h2 x hx
  · intro t ht; exact descWfB_wf d t (h7 t ht)

structure Hyp (P : Params) : Prop where
  hc : ∀ e, extraItem P.compact (extraItem P.compact e) = extraItem P.compact e

def RecRel (P : Params) (rc : Rec Man) (rs : Rec Item) : Prop :=
  rc.id = rs.id ∧ rc.upd = rs.upd ∧ rc.man.WF P.dec ∧ rc.man.toItem P.compact = rs.man

def OptRel (P : Params) : Option (Rec Man) → Option (Rec Item) → Prop
  | none, none => True
  | some rc, some rs => RecRel P rc rs
  | _, _ => False

def MgmtJ (P : Params) (s : MStore) (c : MCache) : Prop := ∀ k, OptRel P (c k) (s.contracts k)

-- the round trip -----------------------------------------------------------------------------------------------------

theorem wf_normalize (d : Dec) (compact : Bytes → Bytes) (m : Man) (h : m.WF d) : (m.normalize compact).WF d := by
  obtain ⟨h1, h2, h3, h4, h5, h6, h7⟩ := h
  refine ⟨h1, ?_, h3, h4, h5, h6, ?_⟩
  · simpa [Man.normalize] using h2
  · intro t ht
    apply h7
    simp only [Man.normalize] at ht
    cases hw : m.trusts.wildcard
    · simpa [hw] using ht
    · simp [hw] at ht

theorem toItem_normalize (compact : Bytes → Bytes) (hc : ∀ e, extraItem compact (extraItem compact e) = extraItem compact e)
    (m : Man) : (m.normalize compact).toItem compact = m.toItem compact := by
  cases hw : m.trusts.wildcard <;> simp [Man.toItem, Man.normalize, hw, hc]

/-- two well-formed manifest objects that serialise to the same item differ by normalisation only -/
theorem same_item (P : Params) (m₁ m₂ : Man) (w1 : m₁.WF P.dec) (w2 : m₂.WF P.dec)
    (h : m₁.toItem P.compact = m₂.toItem P.compact) : m₁.normalize P.compact = m₂.normalize P.compact := by
  have r1 := man_roundtrip P.dec P.compact m₁ w1
  have r2 := man_roundtrip P.dec P.compact m₂ w2
  rw [h, r2] at r1
  exact (Option.some.inj r1).symm

theorem same_fields (P : Params) (m₁ m₂ : Man) (h : m₁.normalize P.compact = m₂.normalize P.compact) :
    m₁.name = m₂.name ∧ m₁.methods = m₂.methods ∧ m₁.perms = m₂.perms ∧ m₁.groups.getD [] = m₂.groups.getD [] := by
  have a : (m₁.normalize P.compact).name = (m₂.normalize P.compact).name := by rw [h]
  have b : (m₁.normalize P.compact).methods = (m₂.normalize P.compact).methods := by rw [h]
  have c : (m₁.normalize P.compact).perms = (m₂.normalize P.compact).perms := by rw [h]
  have d : (m₁.normalize P.compact).groups = (m₂.normalize P.compact).groups := by rw [h]
  refine ⟨a, b, c, ?_⟩
  simpa [Man.normalize] using d

/-- the permission decision depends on the caller's permissions and the callee's groups only -/
theorem canCall_same (a₁ a₂ b₁ b₂ : Man) (hash meth : Bytes) (hp : a₁.perms = a₂.perms)
    (hg : b₁.groups.getD [] = b₂.groups.getD []) : a₁.canCall hash b₁ meth = a₂.canCall hash b₂ meth := by
  simp only [Man.canCall, hp]
  congr 1
  funext p
  simp only [Perm.isAllowed, hg]

-- InitializeCache ------------------------------------------------------------------------------------------------------

theorem mgmt_init (P : Params) (hy : Hyp P) (s : MStore) (c : MCache) (hj : MgmtJ P s c) : MgmtJ P s (init P s) := by
  intro k
  have hk := hj k
  unfold init
  cases hs : s.contracts k with
  | none => simp [OptRel]
  | some rs =>
    cases hck : c k with
    | none => rw [hck, hs] at hk; simp [OptRel] at hk
    | some rc =>
      rw [hck, hs] at hk
      obtain ⟨h1, h2, h3, h4⟩ := hk
      have hr := man_roundtrip P.dec P.compact rc.man h3
      rw [h4] at hr
      simp only [Option.bind_some, hr, Option.map_some, OptRel]
      exact ⟨rfl, rfl, wf_normalize _ _ _ h3, by rw [toItem_normalize _ hy.hc, h4]⟩

-- operations -----------------------------------------------------------------------------------------------------------

theorem optRel_upd (P : Params) (s : Nat → Option (Rec Item)) (c : MCache) (k : Nat) (vc : Option (Rec Man)) (vs : Option (Rec Item))
    (hj : ∀ k, OptRel P (c k) (s k)) (hv : OptRel P vc vs) : ∀ k', OptRel P (upd c k vc k') (upd s k vs k') := by
  intro k'
  unfold upd
  by_cases e : k' = k
  · simp [e, hv]
  · simp [e, hj k']

theorem mgmt_step (P : Params) (_hy : Hyp P) (s : MStore) (c : MCache) (o : MOp) (s' : MStore) (c' : MCache)
    (hj : MgmtJ P s c) (he : exec P s c o = some (s', c')) : MgmtJ P s' c' := by
  cases o with
  | deploy k m =>
    simp only [exec] at he
    cases hck : c k with
    | some r => simp [hck] at he
    | none =>
      simp only [hck] at he
      by_cases hv : accept P m = true
      · simp only [hv, Bool.not_true, Bool.false_eq_true, if_false, Option.some.injEq, Prod.mk.injEq] at he
        rw [← he.1, ← he.2]
        exact optRel_upd P _ _ _ _ _ hj ⟨rfl, rfl, wfB_wf _ m (by simp only [accept, Bool.and_eq_true] at hv; exact hv.1), rfl⟩
      · simp [hv] at he
  | update k mo =>
    simp only [exec] at he
    cases hck : c k with
    | none => simp [hck] at he
    | some r =>
      have hk := hj k
      rw [hck] at hk
      cases hs : s.contracts k with
      | none => rw [hs] at hk; simp [OptRel] at hk
      | some rs =>
        rw [hs] at hk
        simp only [hck] at he
        cases mo with
        | none =>
          simp only [Option.some.injEq, Prod.mk.injEq] at he
          rw [← he.1, ← he.2]
          exact optRel_upd P _ _ _ _ _ hj ⟨rfl, rfl, hk.2.2.1, rfl⟩
        | some m =>
          simp only at he
          by_cases hv : accept P m = true
          · by_cases hn : m.name != r.man.name
            · simp [hv, hn] at he
            · simp only [hv, hn, Bool.not_true, Bool.or_self, Bool.false_eq_true, if_false, Option.some.injEq, Prod.mk.injEq] at he
              rw [← he.1, ← he.2]
              exact optRel_upd P _ _ _ _ _ hj ⟨rfl, rfl, wfB_wf _ m (by simp only [accept, Bool.and_eq_true] at hv; exact hv.1), rfl⟩
          · simp [hv] at he
  | destroy k =>
    simp only [exec] at he
    cases hck : c k with
    | none => simp [hck] at he
    | some r =>
      simp only [hck, Option.some.injEq, Prod.mk.injEq] at he
      rw [← he.1, ← he.2]
      exact optRel_upd P _ _ _ _ _ hj (by simp [OptRel])
  | call a b meth =>
    simp only [exec] at he
    cases hca : c a with
    | none => simp [hca] at he
    | some ra =>
      cases hcb : c b with
      | none => simp [hca, hcb] at he
      | some rb =>
        simp only [hca, hcb] at he
        cases hf : rb.man.methods.find? (·.name == meth) with
        | none => simp [hf] at he
        | some md =>
          simp only [hf] at he
          split at he
          · simp at he
          · simp only [Option.some.injEq, Prod.mk.injEq] at he
            rw [← he.1, ← he.2]; exact hj

/-- what two fitting caches have in common at one contract number -/
theorem common (P : Params) (s : MStore) (c₁ c₂ : MCache) (j1 : MgmtJ P s c₁) (j2 : MgmtJ P s c₂) (k : Nat) :
    (c₁ k = none ∧ c₂ k = none) ∨
    ∃ r₁ r₂, c₁ k = some r₁ ∧ c₂ k = some r₂ ∧ r₁.id = r₂.id ∧ r₁.upd = r₂.upd ∧
      r₁.man.toItem P.compact = r₂.man.toItem P.compact ∧
      r₁.man.name = r₂.man.name ∧ r₁.man.methods = r₂.man.methods ∧ r₁.man.perms = r₂.man.perms ∧
      r₁.man.groups.getD [] = r₂.man.groups.getD [] := by
  have h1 := j1 k
  have h2 := j2 k
  cases hs : s.contracts k with
  | none =>
    rw [hs] at h1 h2
    left
    constructor
    · cases hc : c₁ k with
      | none => rfl
      | some r => rw [hc] at h1; simp [OptRel] at h1
    · cases hc : c₂ k with
      | none => rfl
      | some r => rw [hc] at h2; simp [OptRel] at h2
  | some rs =>
    rw [hs] at h1 h2
    right
    cases hc1 : c₁ k with
    | none => rw [hc1] at h1; simp [OptRel] at h1
    | some r₁ =>
      cases hc2 : c₂ k with
      | none => rw [hc2] at h2; simp [OptRel] at h2
      | some r₂ =>
        rw [hc1] at h1; rw [hc2] at h2
        obtain ⟨a1, a2, a3, a4⟩ := h1
        obtain ⟨b1, b2, b3, b4⟩ := h2
        have hi : r₁.man.toItem P.compact = r₂.man.toItem P.compact := by rw [a4, b4]
        have hf := same_fields P _ _ (same_item P _ _ a3 b3 hi)
        exact ⟨r₁, r₂, rfl, rfl, by rw [a1, b1], by rw [a2, b2], hi, hf.1, hf.2.1, hf.2.2.1, hf.2.2.2⟩

/-- (the heart of restart transparency for ContractManagement) any two fitting caches — e.g. the manifest objects a
    running node parsed from JSON and the objects a restarted node rebuilt from the stored items — give every
    operation the same outcome and the same effect on storage -/
theorem mgmt_blind (P : Params) (s : MStore) (c₁ c₂ : MCache) (o : MOp) (j1 : MgmtJ P s c₁) (j2 : MgmtJ P s c₂) :
    (exec P s c₁ o).map (·.1) = (exec P s c₂ o).map (·.1) := by
  cases o with
  | deploy k m =>
    rcases common P s c₁ c₂ j1 j2 k with ⟨h1, h2⟩ | ⟨r₁, r₂, h1, h2, _⟩
    · simp only [exec, h1, h2]
      by_cases hv : accept P m = true <;> simp [hv]
    · simp [exec, h1, h2]
  | update k mo =>
    rcases common P s c₁ c₂ j1 j2 k with ⟨h1, h2⟩ | ⟨r₁, r₂, h1, h2, hid, hup, hit, hn, _⟩
    · simp [exec, h1, h2]
    · simp only [exec, h1, h2]
      cases mo with
      | none => simp [hid, hup, hit]
      | some m =>
        simp only [hn]
        by_cases hv : accept P m = true <;> by_cases hnn : m.name != r₂.man.name <;> simp [hv, hnn, hid, hup]
  | destroy k =>
    rcases common P s c₁ c₂ j1 j2 k with ⟨h1, h2⟩ | ⟨r₁, r₂, h1, h2, _⟩
    · simp [exec, h1, h2]
    · simp [exec, h1, h2]
  | call a b meth =>
    rcases common P s c₁ c₂ j1 j2 a with ⟨h1, h2⟩ | ⟨ra₁, ra₂, h1, h2, _, _, _, _, _, hpa, _⟩
    · simp [exec, h1, h2]
    · rcases common P s c₁ c₂ j1 j2 b with ⟨g1, g2⟩ | ⟨rb₁, rb₂, g1, g2, _, _, _, _, hmb, _, hgb⟩
      · simp [exec, h1, h2, g1, g2]
      · simp only [exec, h1, h2, g1, g2, hmb]
        cases hf : rb₂.man.methods.find? (·.name == meth) with
        | none => rfl
        | some md =>
          simp only
          rw [canCall_same ra₁.man ra₂.man rb₁.man rb₂.man (P.hashOf b) meth hpa hgb]
          split <;> rfl

theorem mgmt_rel (P : Params) (hy : Hyp P) : (management P).Rel (fun _ => MgmtJ P) where
  step := fun _ s c o s' c' hj he => mgmt_step P hy s c o s' c' hj he
  noLeak := fun _ _ => rfl
  blind := fun s c₁ c₂ _ o j1 j2 => mgmt_blind P s c₁ c₂ o j1 j2

/-- getContract answers alike on any two fitting caches -/
theorem getContract_same (P : Params) (s : MStore) (c₁ c₂ : MCache) (j1 : MgmtJ P s c₁) (j2 : MgmtJ P s c₂) :
    getContract P c₁ = getContract P c₂ := by
  funext k
  rcases common P s c₁ c₂ j1 j2 k with ⟨h1, h2⟩ | ⟨r₁, r₂, h1, h2, hid, hup, hit, _⟩
  · simp [getContract, h1, h2]
  · simp [getContract, h1, h2, hid, hup, hit]

-- the system -------------------------------------------------------------------------------------------------------------

/-- ContractManagement as a single-state system: results = predicted outcome of every transaction, getters = getContract -/
def mgmtU (P : Params) : USys MStore MCache (List (CTx MOp)) (List Bool) (Nat → Option (Int × Nat × Item)) where
  apply := fun s c h b => (((management P).runBlock s c h b).1, ((management P).runBlock s c h b).2, (management P).runBlockR s c h b)
  initCache := fun s _ => init P s
  getters := fun c _ => getContract P c
  noResult := []

theorem mgmtU_adequate (P : Params) (hy : Hyp P) : UAdequate (mgmtU P) (fun s c _ => MgmtJ P s c) where
  good_restart := fun s c _ g => mgmt_init P hy s c g
  good_step := fun s c h b g => runBlock_rel (management P) (mgmt_rel P hy).toInv (h + 1) b s c g
  good_det := by
    intro s c₁ c₂ h g1 g2
    exact ⟨getContract_same P s c₁ c₂ g1 g2, fun b => runBlock_blind (management P) (mgmt_rel P hy) (h + 1) b s c₁ c₂ g1 g2⟩

theorem mgmt_empty_good (P : Params) : MgmtJ P emptyStore (init P emptyStore) := by
  intro k; simp [emptyStore, init, OptRel]

/-- over any history of blocks and restarts the relation holds -/
theorem mgmt_crun_good (P : Params) (hy : Hyp P) (steps : List (CStep MOp)) :
    ∀ n : CNode MStore MCache, MgmtJ P n.store n.cache → MgmtJ P ((management P).crun n steps).store ((management P).crun n steps).cache := by
  induction steps with
  | nil => intro n h; exact h
  | cons st ss ih =>
    intro n h
    simp only [crun]
    apply ih
    cases st with
    | block txs => exact runBlock_rel (management P) (mgmt_rel P hy).toInv (n.height + 1) txs n.store n.cache h
    | restart => exact mgmt_init P hy n.store n.cache h

-- the driver's instance meets the hypotheses ------------------------------------------------------------------------------

theorem driverParams_hyp (hashOf : Nat → Bytes) : Hyp (driverParams hashOf) where
  hc := by
    intro e
    simp only [driverParams, extraItem]
    by_cases h : (e.isEmpty || e == [0x6e, 0x75, 0x6c, 0x6c]) = true
    · simp [h]
    · simp [h]

end NeoModel.Ledger.Mgmt
