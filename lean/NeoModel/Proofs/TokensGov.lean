/-
Machine-level invariants of the governance caches and of the GAS supply accounting: after every sequence of
operations the committee and the next committee have exactly committee-size pairwise different members, the
validators are the first `vcount` of them in ascending key order, and the GAS supply equals the minted minus the
burnt notifications.
-/
import NeoModel.Proofs.TokensFrame
import NeoModel.Proofs.TokensElect
namespace NeoModel.Tokens

/-- what the protocol configuration guarantees (config validation: no duplicate standby keys, at least
committee-size of them, validators count ≤ committee size). -/
structure EnvOK (e : Env) : Prop where
  standbyNodup : e.standby.Nodup
  standbyLen : e.csize ≤ e.standby.length
  vle : e.vcount ≤ e.csize

/-- one (committee, validators) pair is well formed. -/
structure PairOK (e : Env) (cvs : List (Nat × Int)) (vs : List Nat) : Prop where
  len : cvs.length = e.csize
  nodup : (cvs.map (·.1)).Nodup
  vlen : vs.length = e.vcount
  vsorted : vs.Pairwise (· < ·)
  vmem : ∀ k, k ∈ vs ↔ k ∈ (cvs.map (·.1)).take e.vcount

/-- the GAS-per-block records start with the genesis record of index 0 and hold non-negative amounts. -/
structure GpbOK (l : Ledger) : Prop where
  first : ∃ g rest, l.gpb = (0, g) :: rest
  nonneg : ∀ r ∈ l.gpb, 0 ≤ r.2

theorem GpbOK.ext {l l' : Ledger} (h : GpbOK l) (x : GpbExt l l') : GpbOK l' := by
  obtain ⟨extra, e1, p1⟩ := x
  obtain ⟨g, rest, hg⟩ := h.first
  refine ⟨⟨g, rest ++ extra, by rw [e1, hg]; rfl⟩, fun r hr => ?_⟩
  rw [e1] at hr
  rcases List.mem_append.mp hr with h1 | h1
  · exact h.nonneg r h1
  · exact p1 r h1

structure GovOK (e : Env) (l : Ledger) : Prop where
  cur : PairOK e l.committee l.nextVals
  next : PairOK e l.neCommittee l.neVals
  gap : supGap l = 0
  gpb : GpbOK l

theorem GovOK.frame {e : Env} {l l' : Ledger} (h : GovOK e l) (f : Frame l l') : GovOK e l' := by
  obtain ⟨⟨f1, f2, f3, f4⟩, f5, f6⟩ := f
  exact ⟨by rw [f1, f2]; exact h.cur, by rw [f3, f4]; exact h.next, by rw [f5]; exact h.gap, h.gpb.ext f6⟩

theorem pairOK_of (e : Env) (cvs : List (Nat × Int)) (vs : List Nat) (hl : cvs.length = e.csize)
    (hn : (cvs.map (·.1)).Nodup) (hv : valsOf e cvs = some vs) : PairOK e cvs vs := by
  obtain ⟨_, _, h3⟩ := valsOf_spec e cvs vs hv
  obtain ⟨h4, h5⟩ := valsOf_strict e cvs vs hn hv
  exact ⟨hl, hn, h3, h4, h5⟩

theorem updateNewEpoch_gov' {e : Env} {l l' : Ledger} (he : EnvOK e) (hn : (keys l.cands).Nodup)
    (hcur : PairOK e l.committee l.nextVals) (hgap : supGap l = 0) (hgpb : GpbOK l)
    (hu : updateNewEpoch e l = some l') : GovOK e l' := by
  unfold updateNewEpoch at hu
  cases hc : computeCommittee e l with
  | none => simp [hc] at hu
  | some cvs =>
    simp only [hc] at hu
    cases hv : valsOf e cvs with
    | none => simp [hv] at hu
    | some vs =>
      simp only [hv] at hu
      injection hu with hu; subst hu
      exact ⟨hcur, pairOK_of e cvs vs (committee_length e l cvs hc) (committee_nodup e l cvs he.standbyNodup hn hc) hv, hgap, ⟨hgpb.first, hgpb.nonneg⟩⟩

theorem updateNewEpoch_gov {e : Env} {l l' : Ledger} (he : EnvOK e) (hn : (keys l.cands).Nodup) (h : GovOK e l)
    (hu : updateNewEpoch e l = some l') : GovOK e l' := updateNewEpoch_gov' he hn h.cur h.gap h.gpb hu

/-- updateCachedNewEpochValues cannot fail once NEO is initialised. -/
theorem updateNewEpoch_isSome (e : Env) (l : Ledger) (he : EnvOK e) (hs : l.neoSupply ≠ 0) :
    (updateNewEpoch e l).isSome = true := by
  unfold updateNewEpoch
  have h1 := computeCommittee_isSome e l hs he.standbyLen
  cases hc : computeCommittee e l with
  | none => simp [hc] at h1
  | some cvs =>
    simp only []
    have h2 := valsOf_isSome e cvs (by rw [committee_length e l cvs hc]; exact he.vle)
    cases hv : valsOf e cvs with
    | none => simp [hv] at h2
    | some vs => rfl

theorem neoOnPersist_gov {e : Env} {l : Ledger} (h : GovOK e l) : GovOK e (neoOnPersist e l) := by
  unfold neoOnPersist
  split
  · exact ⟨h.next, h.next, h.gap, ⟨h.gpb.first, h.gpb.nonneg⟩⟩
  · exact h

theorem neoPostPersistAll_gov {e : Env} {l l' : Ledger} (he : EnvOK e)
    (hn : ∀ l1, neoPostPersist e l (l.committee.map (fun c => (c.1, acctOf e c.1, c.2))) = some l1 → (keys l1.cands).Nodup)
    (h : GovOK e l) (hp : neoPostPersistAll e l = some l') : GovOK e l' := by
  unfold neoPostPersistAll at hp
  cases hq : neoPostPersist e l (l.committee.map (fun c => (c.1, acctOf e c.1, c.2))) with
  | none => simp [hq] at hp
  | some l1 =>
    simp only [hq] at hp
    have h1 := h.frame (neoPostPersist_frame e l l1 _ hq)
    split at hp
    · split at hp
      · exact updateNewEpoch_gov he (hn l1 hq) h1 hp
      · injection hp with hp; subst hp; exact h1
    · injection hp with hp; subst hp; exact h1

/-- in a well-formed state the reward of PostPersist always finds its committee member. -/
theorem committee_index_some {e : Env} {l : Ledger} (h : GovOK e l) (hc : e.csize ≠ 0) (i : Nat) :
    (l.committee[i % e.csize]?).isSome = true := by
  have : i % e.csize < l.committee.length := by rw [h.cur.len]; exact Nat.mod_lt _ (by omega)
  simp [this]

/-! ### genesis -/

theorem genesisFrom_gov (e : Env) (l0 l : Ledger) (h : Nat) (gasInit : Int) (he : EnvOK e)
    (hcur0 : PairOK e l0.committee l0.nextVals) (g0 : supGap l0 = 0) (hv0 : VotesOK l0.neo l0.cands l0.voters)
    (hp0 : GpbOK l0) (hg : genesisFrom e l0 h gasInit = some l) : GovOK e l := by
  unfold genesisFrom at hg
  cases hm : mintNeo e l0 h 100000000 with
  | none => simp [hm] at hg
  | some l1 =>
    simp only [hm] at hg
    obtain ⟨⟨f1, f2, _, _⟩, f5, f6⟩ := mintNeo_frame _ _ _ _ _ hm
    have hn1 : (keys l1.cands).Nodup := (mintNeo_spec _ l0 l1 h 100000000 hv0 hm).1.candNodup
    cases hu : updateNewEpoch e l1 with
    | none => simp [hu] at hg
    | some l2 =>
      simp only [hu] at hg
      have hcur1 : PairOK e l1.committee l1.nextVals := by rw [f1, f2]; exact hcur0
      have h2 := updateNewEpoch_gov' he hn1 hcur1 (by rw [f5]; exact g0) (hp0.ext f6) hu
      exact (neoOnPersist_gov h2).frame (mintGas_frame _ _ _ _ hg)

theorem genesis_gov (e : Env) (h : Nat) (gasInit : Int) (l : Ledger) (he : EnvOK e) (hg : genesis e h gasInit = some l) :
    GovOK e l := by
  unfold genesis at hg
  simp only [] at hg
  split at hg
  · simp at hg
  · rename_i vs0 hv0
    have he0 : EnvOK { e with index := 0 } := ⟨he.standbyNodup, he.standbyLen, he.vle⟩
    have h3 := genesisFrom_gov _ _ l h gasInit he0 (by
        refine pairOK_of _ _ vs0 ?_ ?_ hv0
        · rw [List.length_map, List.length_take]; have := he.standbyLen; simp only []; omega
        · rw [List.map_map]
          have : ((fun x : Nat × Int => x.1) ∘ fun k => (k, (0 : Int))) = id := rfl
          rw [this, List.map_id]
          exact (List.take_sublist _ _).nodup he.standbyNodup) rfl
      ⟨by simp [keys], by simp [keys], by simp, fun c => by simp [at0, get, sumBy], by simp [sumBy], by simp⟩
      ⟨⟨500000000, [], rfl⟩, fun r hr => by simp at hr; subst hr; simp⟩ hg
    exact ⟨⟨h3.cur.len, h3.cur.nodup, h3.cur.vlen, h3.cur.vsorted, h3.cur.vmem⟩,
      ⟨h3.next.len, h3.next.nodup, h3.next.vlen, h3.next.vsorted, h3.next.vmem⟩, h3.gap, h3.gpb⟩

/-! ### the machine -/

structure GMInv (s : St) : Prop where
  env : EnvOK s.env
  cur : GovOK s.env s.cur
  snap : GovOK s.env s.snap

theorem GMInv.throw {s : St} (h : GMInv s) : GMInv s.throw := ⟨h.env, h.snap, h.snap⟩

theorem GMInv.done {s : St} (h : GMInv s) (l : Ledger) (r : Res) (f : Frame s.cur l) : GMInv (s.done l r) := by
  unfold St.done
  split
  · exact ⟨h.env, h.cur.frame f, h.snap⟩
  · exact ⟨h.env, h.cur.frame f, h.snap⟩

theorem GMInv.fin {s : St} (h : GMInv s) (l : Ledger) (d1 d2 : Option (Nat × Int)) (f : Frame s.cur l) :
    GMInv (match mintDists s.env l d1 d2 with
      | none => s.throw
      | some l'' => s.done l'' .t) := by
  cases hm : mintDists s.env l d1 d2 with
  | none => exact h.throw
  | some l'' => exact h.done l'' .t (f.trans (mintDists_frame _ _ _ _ _ hm))

theorem afterPosted_gov (s : St) (t : Tok) (l : Ledger) (src dst : Nat) (amt : Int) (recv : Recv) (data : Data)
    (d1 d2 : Option (Nat × Int)) (h : GMInv s) (f : Frame s.cur l) :
    GMInv (afterPosted s t l src dst amt recv data d1 d2) := by
  unfold afterPosted
  simp only []
  split
  · split
    · rename_i dto till
      cases hn : notaryOnPayment s.env l src amt dto till with
      | none => exact h.throw
      | some l' => exact h.fin l' d1 d2 (f.trans (notaryOnPayment_frame _ _ _ _ _ _ _ hn))
    · exact h.throw
  · split
    · split
      · rename_i p
        cases hn : neoOnPayment s.env l amt p (witOf s.env (acctOf s.env p) (some s.env.gasC) s.env.neoC) with
        | none => exact h.throw
        | some l' => exact h.fin l' d1 d2 (f.trans (neoOnPayment_frame _ _ _ _ _ _ hn))
      · exact h.throw
    · split
      · exact h.throw
      · cases recv with
        | none => exact h.fin l d1 d2 f
        | accept => exact h.fin l d1 d2 f
        | throws => exact h.throw
        | cb => exact ⟨h.env, h.cur.frame f, h.snap⟩

theorem exec_gov {nt : Nat} (s : St) (op : Op) (hm : MInv nt s) (h : GMInv s) : GMInv (exec s op) := by
  cases op with
  | block idx =>
    simp only [exec]
    have he : EnvOK { s.env with index := idx } := ⟨h.env.standbyNodup, h.env.standbyLen, h.env.vle⟩
    have h0 : GovOK { s.env with index := idx } { s.cur with events := [] } :=
      ⟨⟨h.cur.cur.len, h.cur.cur.nodup, h.cur.cur.vlen, h.cur.cur.vsorted, h.cur.cur.vmem⟩,
       ⟨h.cur.next.len, h.cur.next.nodup, h.cur.next.vlen, h.cur.next.vsorted, h.cur.next.vmem⟩, h.cur.gap,
       ⟨h.cur.gpb.first, h.cur.gpb.nonneg⟩⟩
    have := neoOnPersist_gov h0
    exact ⟨he, this, this⟩
  | onPersist pidx notaries txs =>
    simp only [exec]
    split
    · exact ⟨h.env, h.cur, h.snap⟩
    · split
      · exact h
      · split
        · exact h
        · cases h1 : gasOnPersist s.env s.cur (acctOf s.env ((s.cur.nextVals[pidx]?).getD 0)) txs with
          | none => exact ⟨h.env, h.cur, h.snap⟩
          | some l1 =>
            simp only []
            cases h2 : notaryOnPersist s.env l1 notaries txs with
            | none => exact ⟨h.env, h.cur, h.snap⟩
            | some l2 =>
              have := h.cur.frame ((gasOnPersist_frame _ _ _ _ _ h1).trans (notaryOnPersist_frame _ _ _ _ _ h2))
              exact ⟨h.env, this, this⟩
  | postPersist =>
    simp only [exec]
    split
    · exact h
    · cases hpp : neoPostPersistAll s.env s.cur with
      | none => exact ⟨h.env, h.cur, h.snap⟩
      | some l =>
        rename_i hA
        have := neoPostPersistAll_gov h.env (fun l1 hq =>
          (hm.cur.neoPostPersist (by
            rw [← hm.notary]
            simpa [List.any_map, Function.comp_def] using hA) hq).votes.candNodup) h.cur hpp
        exact ⟨h.env, this, this⟩
  | txBegin sender signers =>
    simp only [exec]
    have he : EnvOK { s.env with sender := sender, signers := signers } := ⟨h.env.standbyNodup, h.env.standbyLen, h.env.vle⟩
    have hc : GovOK { s.env with sender := sender, signers := signers } s.cur :=
      ⟨⟨h.cur.cur.len, h.cur.cur.nodup, h.cur.cur.vlen, h.cur.cur.vsorted, h.cur.cur.vmem⟩,
       ⟨h.cur.next.len, h.cur.next.nodup, h.cur.next.vlen, h.cur.next.vsorted, h.cur.next.vmem⟩, h.cur.gap, ⟨h.cur.gpb.first, h.cur.gpb.nonneg⟩⟩
    exact ⟨he, hc, hc⟩
  | txEnd abort =>
    simp only [exec]
    split
    · exact ⟨h.env, h.snap, h.snap⟩
    · exact ⟨h.env, h.cur, h.cur⟩
  | endCb =>
    simp only [exec]
    split
    · exact h
    · cases hcb : s.cbs with
      | nil => exact h
      | cons f rest =>
        simp only []
        have h' : GMInv { s with cbs := rest } := ⟨h.env, h.cur, h.snap⟩
        exact h'.fin s.cur f.d1 f.d2 (Frame.refl _)
  | transfer t src dst amt caller dk data =>
    simp only [exec]
    split
    · exact h
    · obtain ⟨fr, fp⟩ := transferPre_frame t s.env s.cur src dst amt
        (witOf s.env src caller (tokC s.env t) && src != s.env.notary) _ rfl
      cases hp : transferPre t s.env s.cur src dst amt (witOf s.env src caller (tokC s.env t) && src != s.env.notary) with
      | thr => exact h.throw
      | ret l b =>
        simp only []
        have := h.done l (resOf b) (fr l b hp)
        split
        · exact ⟨this.env, this.cur, this.snap⟩
        · exact this
      | posted l d1 d2 => exact afterPosted_gov s t l src dst amt (recvOf s.env dst dk) data d1 d2 h (fp l d1 d2 hp)
  | vote acc pub caller cb =>
    simp only [exec]
    split
    · exact h
    · have fv := votePre_frame s.env s.cur acc pub (witOf s.env acc caller s.env.neoC)
      cases hvp : votePre s.env s.cur acc pub (witOf s.env acc caller s.env.neoC) with
      | mk l r =>
        obtain ⟨b, g⟩ := r
        rw [hvp] at fv
        have noCb : ∀ s' : St, GMInv s' → GMInv (if cb = true then { s' with skip := 1 } else s') := by
          intro s' h'; split
          · exact ⟨h'.env, h'.cur, h'.snap⟩
          · exact h'
        cases b with
        | false => exact noCb _ (h.done l .f fv)
        | true =>
          simp only []
          cases g with
          | none => exact noCb _ (h.done l .t fv)
          | some g =>
            simp only []
            cases hmg : mintGasCb s.env l acc g with
            | none => exact h.throw
            | some l' =>
              simp only []
              split
              · exact ⟨h.env, h.cur.frame (fv.trans (mintGasCb_frame _ _ _ _ _ hmg)), h.snap⟩
              · exact noCb _ (h.done l' .t (fv.trans (mintGasCb_frame _ _ _ _ _ hmg)))
  | register pub caller =>
    simp only [exec]
    split
    · exact h
    · exact h.done _ .t (registerInternal_frame _ _)
  | unregister pub caller =>
    simp only [exec]
    split
    · exact h
    · exact h.done _ _ (unregister_frame _ _ _)
  | lock acc till caller =>
    simp only [exec]
    split
    · exact h
    · exact h.done _ _ (lockDeposit_frame _ _ _ _ _)
  | withdraw src dst caller =>
    simp only [exec]
    split
    · exact h
    · cases hw : withdrawPre s.env s.cur src (witOf s.env src caller s.env.notary) with
      | none => exact h.done s.cur .f (Frame.refl _)
      | some r =>
        obtain ⟨l, amt⟩ := r
        simp only []
        have f1 := withdrawPre_frame _ _ _ _ _ _ hw
        obtain ⟨_, fp⟩ := transferPre_frame .gas s.env l s.env.notary (dst.getD src) amt true _ rfl
        cases hp : transferPre .gas s.env l s.env.notary (dst.getD src) amt true with
        | thr => exact h.throw
        | ret l' b => exact h.throw
        | posted l' d1 d2 =>
          exact afterPosted_gov s .gas l' s.env.notary (dst.getD src) amt (recvOf s.env (dst.getD src) .null) .other d1 d2 h (f1.trans (fp l' d1 d2 hp))
  | setGpb gas caller =>
    simp only [exec]
    split
    · exact h
    · cases hs : setGasPerBlock s.env s.cur gas (witCommittee s.env s.cur caller s.env.neoC) with
      | none => exact h.throw
      | some l => exact h.done l .null (setGasPerBlock_frame _ _ _ _ _ hs)
  | setRegPrice price caller =>
    simp only [exec]
    split
    · exact h
    · cases hs : setRegisterPrice s.cur price (witCommittee s.env s.cur caller s.env.neoC) with
      | none => exact h.throw
      | some l => exact h.done l .null (setRegisterPrice_frame _ _ _ _ hs)
  | blockAcc acc caller =>
    simp only [exec]
    split
    · exact h
    · split
      · exact h.throw
      · split
        · exact h.throw
        · cases hb : blockAccount s.env s.cur acc with
          | none => exact h.throw
          | some r =>
            obtain ⟨l, b⟩ := r
            exact h.done l _ (blockAccount_frame _ _ _ _ _ hb)
  | unblockAcc acc caller =>
    simp only [exec]
    split
    · exact h
    · split
      · exact h.throw
      · exact h.done _ _ (unblockAccount_frame _ _)
  | designate nodes caller =>
    simp only [exec]
    split
    · exact h
    · cases hs : designateNotary s.env s.cur nodes (witCommittee s.env s.cur caller s.env.desigC) with
      | none => exact h.throw
      | some l => exact h.done l .null (designateNotary_frame _ _ _ _ _ hs)

theorem step_gov {nt : Nat} (s : St) (op : Op) (hm : MInv nt s) (h : GMInv s) : GMInv (step s op) := by
  unfold step
  split
  · (repeat' split) <;> first | exact h | exact ⟨h.env, h.cur, h.snap⟩
  · split
    · exact h.throw
    · exact exec_gov s op hm h

theorem run_gov {nt : Nat} (s : St) (ops : List Op) (hm : MInv nt s) (h : GMInv s) : GMInv (run s ops) := by
  induction ops generalizing s with
  | nil => exact h
  | cons op rest ih => exact ih (step s op) (step_inv s op hm) (step_gov s op hm h)

/-! ### PostPersist cannot fail -/

theorem gasPerBlockAt_some (recs : List (Nat × Int)) (i : Nat) (g : Int) (h : (0, g) ∈ recs) (hn : ∀ r ∈ recs, 0 ≤ r.2) :
    ∃ x, gasPerBlockAt recs i = some x ∧ 0 ≤ x := by
  induction recs with
  | nil => simp at h
  | cons r rest ih =>
    obtain ⟨idx, v⟩ := r
    simp only [gasPerBlockAt]
    split
    · exact ⟨v, rfl, hn (idx, v) (by simp)⟩
    · rename_i hi
      rcases List.mem_cons.mp h with e | h'
      · injection e with e1 _; omega
      · exact ih h' (fun r hr => hn r (by simp [hr]))

theorem mintGas_isSome (l : Ledger) (h : Nat) (amt : Int) (ha : 0 ≤ amt) : (mintGas l h amt).isSome = true := by
  unfold mintGas
  split
  · rfl
  · rename_i h0
    have hok : (gasInc l (get l.gas h) amt none).ok = true := by
      unfold gasInc
      simp only []
      rw [if_neg h0, if_neg (fun hh => absurd hh.1 (by omega))]
    unfold gasAddTokens
    simp only [hok, if_true]
    rfl

/-- `postpersist_total`: on a ledger satisfying the accounting invariant and the governance invariant, with a
committee size that is not zero, NEO.PostPersist completes: the GAS-per-block record is found, the committee
member exists, the mint cannot fail, and the re-election cannot fail. -/
theorem neoPostPersistAll_isSome {nt : Nat} (e : Env) (l : Ledger) (he : EnvOK e) (hc : e.csize ≠ 0) (hi : Inv nt l)
    (hA : ¬ (l.committee.map (fun c => (c.1, acctOf e c.1, c.2))).any (fun c => c.2.1 = nt) = true)
    (hg : GovOK e l) : (neoPostPersistAll e l).isSome = true := by
  obtain ⟨g0, rest, hfirst⟩ := hg.gpb.first
  have hmem : (0, g0) ∈ l.gpb.reverse := by rw [List.mem_reverse, hfirst]; simp
  obtain ⟨gas, hgas, hpos⟩ := gasPerBlockAt_some l.gpb.reverse (e.index + 1) g0 hmem
    (fun r hr => hg.gpb.nonneg r (List.mem_reverse.mp hr))
  have hidx : e.index % e.csize < (l.committee.map (fun c => (c.1, acctOf e c.1, c.2))).length := by
    rw [List.length_map, hg.cur.len]; exact Nat.mod_lt _ (by omega)
  have hq : (neoPostPersist e l (l.committee.map (fun c => (c.1, acctOf e c.1, c.2)))).isSome = true := by
    unfold neoPostPersist
    simp only [hgas]
    rw [if_neg hc]
    rw [List.getElem?_eq_getElem hidx]
    simp only []
    have hm := mintGas_isSome l ((l.committee.map (fun c => (c.1, acctOf e c.1, c.2)))[e.index % e.csize]).2.1 (gas * 10 / 100)
      (Int.ediv_nonneg (by omega) (by omega))
    cases hmint : mintGas l ((l.committee.map (fun c => (c.1, acctOf e c.1, c.2)))[e.index % e.csize]).2.1 (gas * 10 / 100) with
    | none => rw [hmint] at hm; cases hm
    | some l1 => simp only []; split <;> rfl
  unfold neoPostPersistAll
  cases hp : neoPostPersist e l (l.committee.map (fun c => (c.1, acctOf e c.1, c.2))) with
  | none => rw [hp] at hq; cases hq
  | some l1 =>
    simp only []
    have hi1 := hi.neoPostPersist hA hp
    split
    · split
      · exact updateNewEpoch_isSome e l1 he (by rw [hi1.neoSupply]; omega)
      · rfl
    · rfl

/-- the committee size of the configuration never changes. -/
theorem step_csize (s : St) (op : Op) : (step s op).env.csize = s.env.csize := by
  unfold step
  split
  · (repeat' split) <;> rfl
  · split
    · rfl
    · cases op <;> simp only [exec, St.throw, St.done, afterPosted] <;> (repeat' split) <;> rfl

theorem run_csize (s : St) (ops : List Op) : (run s ops).env.csize = s.env.csize := by
  induction ops generalizing s with
  | nil => rfl
  | cons op rest ih => exact (ih (step s op)).trans (step_csize s op)

end NeoModel.Tokens
