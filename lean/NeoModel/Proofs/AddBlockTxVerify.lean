/-
C06 helper lemmas about the stand-alone transaction verification model (Model/AddBlock/TxVerify):
the verdict is the class of the first failing check, acceptance is the conjunction of the conjuncts,
the witness loop is a budget inequality, and the verdict reads only a small footprint of the chain state.
-/
import NeoModel.Model.AddBlock.TxVerify
namespace NeoModel.AddBlock

def firstFailing (l : List (TxErr × Bool)) : Option TxErr := (l.find? (fun p => !p.2)).map (·.1)

theorem ite_dec {α} (p : Prop) [Decidable p] (a b : α) : (if p then a else b) = (bif decide p then a else b) := by
  by_cases h : p <;> simp [h]
theorem ite_bool {α} (p : Bool) (a b : α) : (if p = true then a else b) = (bif p then a else b) := by
  cases p <;> rfl

theorem verifyTx_eq_firstFailing (c : Chain) (t : VTx) : verifyTx c t = firstFailing (checks c t) := by
  unfold verifyTx firstFailing checks
  simp only [ite_dec (t.vub ≤ c.height), ite_dec (t.vub > c.height + c.maxVUBInc), ite_dec (t.size > maxTransactionSize),
    ite_dec (t.netFee < needFee c t), ite_bool]
  generalize t.scriptOk = b1
  generalize decide (t.vub ≤ c.height) = b2
  generalize decide (t.vub > c.height + c.maxVUBInc) = b3
  generalize t.accounts.any c.blocked = b4
  generalize decide (t.size > maxTransactionSize) = b5
  generalize decide (t.netFee < needFee c t) = b6
  generalize verifyAttrs c t = b10
  generalize verifyWitnesses c (t.netFee - needFee c t) t.wits = w
  cases b1 <;> cases b2 <;> cases b3 <;> cases b4 <;> cases b5 <;> cases b6 <;> try rfl
  cases h7 : c.lookup t.id
  all_goals simp only [List.find?, Bool.not_true, Bool.not_false, cond, Option.map]
  all_goals generalize stubHits _ t.accounts c.height c.mtb = b8
  all_goals first
    | rw [show (Rec.none == Rec.tx) = false from by decide]
    | rw [show (Rec.block == Rec.tx) = false from by decide]
    | rw [show (Rec.tx == Rec.tx) = true from by decide]
    | rw [beq_eq_false_iff_ne.mpr (by intro h; cases h)]
  all_goals cases b8 <;> cases w <;> cases b10 <;> rfl

theorem firstFailing_none (l : List (TxErr × Bool)) : firstFailing l = none ↔ ∀ p ∈ l, p.2 = true := by
  unfold firstFailing
  induction l with
  | nil => simp
  | cons a rest ih =>
    cases h : a.2 <;> simp [List.find?, h]
    try simpa using ih

/-- every conjunct of a transaction that the in-block verification lets through. -/
structure TxValid (c : Chain) (t : VTx) : Prop where
  script : t.scriptOk = true
  notExpired : c.height < t.vub
  notTooFar : t.vub ≤ c.height + c.maxVUBInc
  notBlocked : ∀ a ∈ t.accounts, c.blocked a = false
  size : t.size ≤ maxTransactionSize
  fee : needFee c t ≤ t.netFee
  notOnChain : c.lookup t.id ≠ .tx
  noConflictRecord : stubHits (c.lookup t.id) t.accounts c.height c.mtb = false
  witnesses : ∃ left, verifyWitnesses c (t.netFee - needFee c t) t.wits = some left
  attrs : ∀ a ∈ t.attrs, checkAttr c t a = true

theorem verifyTx_none_iff (c : Chain) (t : VTx) : verifyTx c t = none ↔ TxValid c t := by
  rw [verifyTx_eq_firstFailing, firstFailing_none]
  unfold checks
  constructor
  · intro h
    have h1 := h (.invalidScript, t.scriptOk) (by simp)
    have h2 := h (.expired, !decide (t.vub ≤ c.height)) (by simp)
    have h3 := h (.notYetValid, !decide (t.vub > c.height + c.maxVUBInc)) (by simp)
    have h4 := h (.policy, !t.accounts.any c.blocked) (by simp)
    have h5 := h (.tooBig, !decide (t.size > maxTransactionSize)) (by simp)
    have h6 := h (.smallNetFee, !decide (t.netFee < needFee c t)) (by simp)
    have h7 := h (.alreadyExists, !(c.lookup t.id == Rec.tx)) (by simp)
    have h8 := h (.hasConflicts, !stubHits (c.lookup t.id) t.accounts c.height c.mtb) (by simp)
    have h9 := h (.witness, (verifyWitnesses c (t.netFee - needFee c t) t.wits).isSome) (by simp)
    have h10 := h (.invalidAttr, verifyAttrs c t) (by simp)
    simp only [Bool.not_eq_true', decide_eq_false_iff_not, Nat.not_le, Nat.not_lt, gt_iff_lt] at h1 h2 h3 h4 h5 h6 h7 h8
    refine ⟨h1, h2, h3, ?_, h5, h6, ?_, h8, ?_, ?_⟩
    · intro a ha
      rw [List.any_eq_false] at h4
      simpa using h4 a ha
    · intro hc; rw [hc] at h7; simp at h7
    · exact Option.isSome_iff_exists.mp h9
    · unfold verifyAttrs at h10
      rw [List.all_eq_true] at h10
      exact h10
  · intro ⟨h1, h2, h3, h4, h5, h6, h7, h8, h9, h10⟩ p hp
    simp only [List.mem_cons, List.mem_nil_iff, or_false] at hp
    rcases hp with rfl | rfl | rfl | rfl | rfl | rfl | rfl | rfl | rfl | rfl
    · exact h1
    · simp; omega
    · simp; omega
    · simp only [Bool.not_eq_true', List.any_eq_false]
      intro a ha; simp [h4 a ha]
    · simp; omega
    · simp; omega
    · simp [h7]
    · simp [h8]
    · exact Option.isSome_iff_exists.mpr h9
    · unfold verifyAttrs; rw [List.all_eq_true]; exact h10

/-! ### the witness loop is a budget inequality -/

/-- a script witness that passes InitVerificationContext and whose run leaves `true` -/
def Witness.sound : Witness → Bool
  | .script hashOk native scriptsOk result _ => hashOk && !native && scriptsOk && result
  | .contract _ => false

def Witness.cost : Witness → Nat
  | .script _ _ _ _ cost => cost
  | .contract _ => 0

def Witness.isScript : Witness → Bool
  | .script .. => true
  | .contract _ => false

def sumCost (ws : List Witness) : Nat := (ws.map Witness.cost).sum

theorem verifyOne_script (c : Chain) (gas : Nat) (w : Witness) (hs : w.isScript = true) (used : Nat) :
    verifyOne c gas w = some used ↔ w.sound = true ∧ w.cost ≤ gas ∧ w.cost ≤ c.maxVerGas ∧ used = w.cost := by
  cases w with
  | contract f => cases hs
  | script a b d r cost =>
    unfold verifyOne Witness.sound Witness.cost
    cases a <;> cases b <;> cases d <;> cases r <;> simp <;> omega

/-- for script witnesses: all of them verify iff each is sound, none costs more than
MaxVerificationGas, and together they cost no more than the budget; what is left is the difference. -/
theorem verifyWitnesses_scripts (c : Chain) (gas : Nat) (ws : List Witness) (hs : ∀ w ∈ ws, w.isScript = true)
    (left : Nat) :
    verifyWitnesses c gas ws = some left ↔
      (∀ w ∈ ws, w.sound = true ∧ w.cost ≤ c.maxVerGas) ∧ sumCost ws ≤ gas ∧ left = gas - sumCost ws := by
  induction ws generalizing gas with
  | nil => simp [verifyWitnesses, sumCost]; omega
  | cons w rest ih =>
    have hw := hs w (by simp)
    have hrest : ∀ x ∈ rest, x.isScript = true := fun x hx => hs x (by simp [hx])
    simp only [verifyWitnesses]
    have hsum : sumCost (w :: rest) = w.cost + sumCost rest := by simp [sumCost]
    cases h1 : verifyOne c gas w with
    | none =>
      simp only [List.mem_cons, forall_eq_or_imp]
      constructor
      · intro hx; cases hx
      intro ⟨⟨⟨h2, h3⟩, _⟩, h4, _⟩
      have := (verifyOne_script c gas w hw w.cost).mpr ⟨h2, by omega, h3, rfl⟩
      rw [h1] at this; cases this
    | some used =>
      obtain ⟨h2, h3, h4, h5⟩ := (verifyOne_script c gas w hw used).mp h1
      subst h5
      simp only [List.mem_cons, forall_eq_or_imp]
      rw [ih (gas - w.cost) hrest, hsum]
      constructor
      · intro ⟨a, b, d⟩; exact ⟨⟨⟨h2, h4⟩, a⟩, by omega, by omega⟩
      · intro ⟨⟨_, a⟩, b, d⟩; exact ⟨a, by omega, by omega⟩

/-- C06: a verified transaction with script witnesses pays for its size, its attributes and the
verification of all of its witnesses: NetworkFee ≥ size·FeePerByte + attribute fees + Σ witness cost. -/
theorem valid_fee_covers_verification (c : Chain) (t : VTx) (hs : ∀ w ∈ t.wits, w.isScript = true)
    (h : verifyTx c t = none) :
    t.size * c.feePerByte + attrsFee c t.signers.length t.attrs + sumCost t.wits ≤ t.netFee ∧
      ∀ w ∈ t.wits, w.sound = true ∧ w.cost ≤ c.maxVerGas := by
  have hv := (verifyTx_none_iff c t).mp h
  obtain ⟨left, hl⟩ := hv.witnesses
  obtain ⟨h1, h2, _⟩ := (verifyWitnesses_scripts c _ t.wits hs left).mp hl
  have := hv.fee
  unfold needFee at this h2
  exact ⟨by omega, h1⟩

/-! ### what the verdict reads -/

theorem attrsFee_congr (c c' : Chain) (n : Nat) (l : List Attr) (hp : c.p2pSigExt = c'.p2pSigExt)
    (hf : ∀ a ∈ l, c.attrFee a.typ = c'.attrFee a.typ) : attrsFee c n l = attrsFee c' n l := by
  induction l with
  | nil => rfl
  | cons a rest ih =>
    have ha := hf a (by simp)
    have := ih (fun x hx => hf x (by simp [hx]))
    cases a <;> simp only [attrsFee, ha, this, hp]

theorem verifyWitnesses_congr (c c' : Chain) (hm : c.maxVerGas = c'.maxVerGas) (gas : Nat) (ws : List Witness) :
    verifyWitnesses c gas ws = verifyWitnesses c' gas ws := by
  induction ws generalizing gas with
  | nil => rfl
  | cons w rest ih =>
    have : verifyOne c gas w = verifyOne c' gas w := by
      cases w <;> simp only [verifyOne, hm]
    simp only [verifyWitnesses, this]
    cases verifyOne c' gas w with
    | none => rfl
    | some u => exact ih _

/-- the hashes named by the Conflicts attributes -/
def VTx.conflictHashes (t : VTx) : List Nat :=
  t.attrs.filterMap (fun a => match a with | .conflicts h => some h | _ => none)

/-- C06: the verdict on a transaction depends on the chain state only through the scalar settings
(MaxBlockSystemFee is not among them: the in-block path does not apply it), the blocked flag of its
signers, the fee of its attributes' types, and the on-chain record under its own hash and under the
hashes its Conflicts attributes name. In particular it does not depend on any memory pool. -/
theorem verifyTx_frame (c c' : Chain) (t : VTx)
    (h1 : c.height = c'.height) (h2 : c.maxVUBInc = c'.maxVUBInc) (h3 : c.feePerByte = c'.feePerByte)
    (h4 : c.maxVerGas = c'.maxVerGas) (h5 : c.mtb = c'.mtb) (h6 : c.p2pSigExt = c'.p2pSigExt)
    (h7 : c.reservedAttrs = c'.reservedAttrs) (h8 : c.notaryActive = c'.notaryActive)
    (h9 : c.committee = c'.committee) (h10 : c.oracleHash = c'.oracleHash) (h11 : c.notary = c'.notary)
    (hb : ∀ a ∈ t.accounts, c.blocked a = c'.blocked a)
    (hf : ∀ a ∈ t.attrs, c.attrFee a.typ = c'.attrFee a.typ)
    (hl : c.lookup t.id = c'.lookup t.id)
    (hc : ∀ x ∈ t.conflictHashes, c.lookup x = c'.lookup x) :
    verifyTx c t = verifyTx c' t := by
  have hneed : needFee c t = needFee c' t := by
    unfold needFee; rw [h3, attrsFee_congr c c' _ _ h6 hf]
  have hblk : t.accounts.any c.blocked = t.accounts.any c'.blocked := by
    have : ∀ l : List Nat, (∀ a ∈ l, c.blocked a = c'.blocked a) → l.any c.blocked = l.any c'.blocked := by
      intro l
      induction l with
      | nil => intro _; rfl
      | cons a rest ih =>
        intro h
        simp only [List.any_cons, h a (by simp), ih (fun x hx => h x (by simp [hx]))]
    exact this _ hb
  have hattr : verifyAttrs c t = verifyAttrs c' t := by
    unfold verifyAttrs
    have hall : ∀ (l : List Attr) (f g : Attr → Bool), (∀ a ∈ l, f a = g a) → l.all f = l.all g := by
      intro l f g
      induction l with
      | nil => intro _; rfl
      | cons a rest ih =>
        intro h
        simp only [List.all_cons, h a (by simp), ih (fun x hx => h x (by simp [hx]))]
    apply hall
    intro a ha
    cases a with
    | conflicts x =>
      have : x ∈ t.conflictHashes := by
        unfold VTx.conflictHashes
        rw [List.mem_filterMap]
        exact ⟨_, ha, rfl⟩
      simp only [checkAttr, hc x this]
    | _ => simp only [checkAttr, h1, h7, h8, h9, h10, h11]
  unfold verifyTx
  rw [h1, h2, hblk, hneed, hl, h5, verifyWitnesses_congr c c' h4, hattr]

end NeoModel.AddBlock
