/- C19 helper lemmas: the dBFT 2.0 liveness lock among 4 validators is permanent in the model. -/
import NeoModel.Proofs.DbftRun
namespace NeoModel.Dbft

def cfg4 : Cfg := { n := 4 }
def lockB : Block := ⟨1, 0, 7⟩

/-- The shape of the dBFT 2.0 liveness lock among 4 validators at height 1: validators 0 and 2 signed
the view-0 block, validators 1 and 3 have moved to a later view without signing anything. -/
structure Lock (s : State) : Prop where
  fresh : ∀ i, i < 4 → (s.nodes i).height = 1 ∧ (s.nodes i).chain = []
  c0 : lockB ∈ (s.nodes 0).myCommits
  c2 : lockB ∈ (s.nodes 2).myCommits
  v1 : 1 ≤ (s.nodes 1).view
  v3 : 1 ≤ (s.nodes 3).view
  n1 : ∀ b, b ∈ (s.nodes 1).myCommits → b.h ≠ 1
  n3 : ∀ b, b ∈ (s.nodes 3).myCommits → b.h ≠ 1
  p0 : ∀ b, b ∈ (s.nodes 0).myPreps → b.h = 1 → b.v = 0
  p2 : ∀ b, b ∈ (s.nodes 2).myPreps → b.h = 1 → b.v = 0

instance (s : State) : Decidable (Lock s) :=
  if h : (∀ i, i < 4 → (s.nodes i).height = 1 ∧ (s.nodes i).chain = []) ∧
      lockB ∈ (s.nodes 0).myCommits ∧ lockB ∈ (s.nodes 2).myCommits ∧
      1 ≤ (s.nodes 1).view ∧ 1 ≤ (s.nodes 3).view ∧
      (∀ b, b ∈ (s.nodes 1).myCommits → b.h ≠ 1) ∧ (∀ b, b ∈ (s.nodes 3).myCommits → b.h ≠ 1) ∧
      (∀ b, b ∈ (s.nodes 0).myPreps → b.h = 1 → b.v = 0) ∧ (∀ b, b ∈ (s.nodes 2).myPreps → b.h = 1 → b.v = 0)
  then isTrue ⟨h.1, h.2.1, h.2.2.1, h.2.2.2.1, h.2.2.2.2.1, h.2.2.2.2.2.1, h.2.2.2.2.2.2.1, h.2.2.2.2.2.2.2.1, h.2.2.2.2.2.2.2.2⟩
  else isFalse (fun l => h ⟨l.fresh, l.c0, l.c2, l.v1, l.v3, l.n1, l.n3, l.p0, l.p2⟩)

theorem countP4 (P : Nat → Bool) :
    countP 4 P = (if P 0 then 1 else 0) + (if P 1 then 1 else 0) + (if P 2 then 1 else 0) + (if P 3 then 1 else 0) := by
  rw [show (4 : Nat) = 0 + 1 + 1 + 1 + 1 from rfl, countP_succ, countP_succ, countP_succ, countP_succ]
  simp [countP]

theorem lt4 {i : Nat} (h : i < 4) : i = 0 ∨ i = 1 ∨ i = 2 ∨ i = 3 := by omega

/-- in a locked state nobody has three signatures -/
theorem lock_signed_lt (s : State) (l : Lock s) (b : Block) (hb : b.h = 1) :
    countP 4 (signed s b) ≤ 2 := by
  rw [countP4]
  have h1 : signed s b 1 = false := by
    simp only [signed, decide_eq_false_iff_not]; intro h; exact l.n1 b h hb
  have h3 : signed s b 3 = false := by
    simp only [signed, decide_eq_false_iff_not]; intro h; exact l.n3 b h hb
  simp [h1, h3]
  split <;> split <;> omega

/-- … and no block of a later view has three preparations -/
theorem lock_prepared_lt (s : State) (l : Lock s) (b : Block) (hb : b.h = 1) (hv : 1 ≤ b.v) :
    countP 4 (preparedBy s b) ≤ 2 := by
  rw [countP4]
  have h0 : preparedBy s b 0 = false := by
    simp only [preparedBy, decide_eq_false_iff_not]; intro h; have := l.p0 b h hb; omega
  have h2 : preparedBy s b 2 = false := by
    simp only [preparedBy, decide_eq_false_iff_not]; intro h; have := l.p2 b h hb; omega
  simp [h0, h2]
  split <;> split <;> omega

end NeoModel.Dbft

namespace NeoModel.Dbft

theorem lock_of {s s' : State} (l : Lock s)
    (hh : ∀ j, (s'.nodes j).height = (s.nodes j).height)
    (hc : ∀ j, (s'.nodes j).chain = (s.nodes j).chain)
    (hcm : ∀ j, (s'.nodes j).myCommits = (s.nodes j).myCommits)
    (hv : ∀ j, (s.nodes j).view ≤ (s'.nodes j).view)
    (hp0 : ∀ b, b ∈ (s'.nodes 0).myPreps → b.h = 1 → b.v = 0)
    (hp2 : ∀ b, b ∈ (s'.nodes 2).myPreps → b.h = 1 → b.v = 0) : Lock s' := by
  constructor
  · intro i hi; rw [hh, hc]; exact l.fresh i hi
  · rw [hcm]; exact l.c0
  · rw [hcm]; exact l.c2
  · exact Nat.le_trans l.v1 (hv 1)
  · exact Nat.le_trans l.v3 (hv 3)
  · rw [hcm]; exact l.n1
  · rw [hcm]; exact l.n3
  · exact hp0
  · exact hp2

theorem lock_view0 (s : State) (inv : Inv cfg4 s) (l : Lock s) : (s.nodes 0).view = 0 ∧ (s.nodes 2).view = 0 := by
  have h0 := inv.viewFrozen 0 lockB l.c0 (by rw [(l.fresh 0 (by omega)).1]; rfl)
  have h2 := inv.viewFrozen 2 lockB l.c2 (by rw [(l.fresh 2 (by omega)).1]; rfl)
  exact ⟨h0.symm, h2.symm⟩

theorem cfg4m : cfg4.m = 3 := by decide

/-- The lock is permanent: every enabled step from a locked (reachable) state leads to a locked state. -/
theorem lock_step (s : State) (a : Action) (inv : Inv cfg4 s) (l : Lock s) (en : Enabled cfg4 s a) :
    Lock (apply cfg4 s a) := by
  obtain ⟨hv0, hv2⟩ := lock_view0 s inv l
  cases a with
  | deliver to m =>
    apply lock_of l <;> simp only [apply]
    · intro j; unfold upd; split <;> (try subst_vars) <;> rfl
    · intro j; unfold upd; split <;> (try subst_vars) <;> rfl
    · intro j; unfold upd; split <;> (try subst_vars) <;> rfl
    · intro j; unfold upd; split <;> (try subst_vars) <;> exact Nat.le_refl _
    · intro b; unfold upd; split
      · next h => subst h; exact l.p0 b
      · exact l.p0 b
    · intro b; unfold upd; split
      · next h => subst h; exact l.p2 b
      · exact l.p2 b
  | drop to m => exact lock_of (s' := apply cfg4 s _) l (fun _ => rfl) (fun _ => rfl) (fun _ => rfl) (fun _ => Nat.le_refl _) l.p0 l.p2
  | dup to m => exact lock_of (s' := apply cfg4 s _) l (fun _ => rfl) (fun _ => rfl) (fun _ => rfl) (fun _ => Nat.le_refl _) l.p0 l.p2
  | timeout i => exact l
  | sendRecReq i => exact lock_of (s' := apply cfg4 s _) l (fun _ => rfl) (fun _ => rfl) (fun _ => rfl) (fun _ => Nat.le_refl _) l.p0 l.p2
  | sendRecMsg i its => exact lock_of (s' := apply cfg4 s _) l (fun _ => rfl) (fun _ => rfl) (fun _ => rfl) (fun _ => Nat.le_refl _) l.p0 l.p2
  | sendChangeView i =>
    apply lock_of l <;> simp only [apply]
    · intro j; unfold upd; split <;> (try subst_vars) <;> rfl
    · intro j; unfold upd; split <;> (try subst_vars) <;> rfl
    · intro j; unfold upd; split <;> (try subst_vars) <;> rfl
    · intro j; unfold upd; split <;> (try subst_vars) <;> exact Nat.le_refl _
    · intro b; unfold upd; split
      · next h => subst h; exact l.p0 b
      · exact l.p0 b
    · intro b; unfold upd; split
      · next h => subst h; exact l.p2 b
      · exact l.p2 b
  | sendPrepReq i p =>
    apply lock_of l <;> simp only [apply]
    · intro j; unfold upd; split <;> (try subst_vars) <;> rfl
    · intro j; unfold upd; split <;> (try subst_vars) <;> rfl
    · intro j; unfold upd; split <;> (try subst_vars) <;> rfl
    · intro j; unfold upd; split <;> (try subst_vars) <;> exact Nat.le_refl _
    · intro b; unfold upd; split
      · next h0 =>
        subst h0; intro hb _
        rcases List.mem_cons.mp hb with e | m
        · subst e; exact hv0
        · exact l.p0 b m (by assumption)
      · exact l.p0 b
    · intro b; unfold upd; split
      · next h2 =>
        subst h2; intro hb _
        rcases List.mem_cons.mp hb with e | m
        · subst e; exact hv2
        · exact l.p2 b m (by assumption)
      · exact l.p2 b
  | sendPrepResp i b' =>
    obtain ⟨_, _, hbv, _⟩ := en
    apply lock_of l <;> simp only [apply]
    · intro j; unfold upd; split <;> (try subst_vars) <;> rfl
    · intro j; unfold upd; split <;> (try subst_vars) <;> rfl
    · intro j; unfold upd; split <;> (try subst_vars) <;> rfl
    · intro j; unfold upd; split <;> (try subst_vars) <;> exact Nat.le_refl _
    · intro b; unfold upd; split
      · next h0 =>
        subst h0; intro hb _
        rcases List.mem_cons.mp hb with e | m
        · subst e; rw [hbv]; exact hv0
        · exact l.p0 b m (by assumption)
      · exact l.p0 b
    · intro b; unfold upd; split
      · next h2 =>
        subst h2; intro hb _
        rcases List.mem_cons.mp hb with e | m
        · subst e; rw [hbv]; exact hv2
        · exact l.p2 b m (by assumption)
      · exact l.p2 b
  | sendCommit i b =>
    exfalso
    obtain ⟨hi, hbh, hbv, _, hcnt, hno⟩ := en
    have hi4 : i < 4 := hi
    have hh1 : (s.nodes i).height = 1 := (l.fresh i hi4).1
    rcases lt4 hi4 with h | h | h | h <;> subst h
    · exact hno lockB l.c0 (by rw [hh1]; rfl)
    · have hle := lock_prepared_lt s l b (by omega) (by have := l.v1; omega)
      have : cfg4.m ≤ countP 4 (preparedBy s b) := Nat.le_trans hcnt (countP_mono _ _ _ (fun j _ hj => by
        simp only [preparedBy, decide_eq_true_eq]; exact prepared_imp inv 1 b j hj))
      rw [cfg4m] at this; omega
    · exact hno lockB l.c2 (by rw [hh1]; rfl)
    · have hle := lock_prepared_lt s l b (by omega) (by have := l.v3; omega)
      have : cfg4.m ≤ countP 4 (preparedBy s b) := Nat.le_trans hcnt (countP_mono _ _ _ (fun j _ hj => by
        simp only [preparedBy, decide_eq_true_eq]; exact prepared_imp inv 3 b j hj))
      rw [cfg4m] at this; omega
  | changeView i nv =>
    obtain ⟨hi, hlt, hno, _⟩ := en
    have hi4 : i < 4 := hi
    have hh1 : (s.nodes i).height = 1 := (l.fresh i hi4).1
    have hne0 : i ≠ 0 := by intro h; subst h; exact hno lockB l.c0 (by rw [hh1]; rfl)
    have hne2 : i ≠ 2 := by intro h; subst h; exact hno lockB l.c2 (by rw [hh1]; rfl)
    apply lock_of l <;> simp only [apply]
    · intro j; unfold upd; split <;> (try subst_vars) <;> rfl
    · intro j; unfold upd; split <;> (try subst_vars) <;> rfl
    · intro j; unfold upd; split <;> (try subst_vars) <;> rfl
    · intro j; unfold upd; split
      · next h => subst h; exact Nat.le_of_lt hlt
      · exact Nat.le_refl _
    · intro b; rw [upd_other _ _ _ (Ne.symm hne0)]; exact l.p0 b
    · intro b; rw [upd_other _ _ _ (Ne.symm hne2)]; exact l.p2 b
  | accept i b =>
    exfalso
    obtain ⟨hi, hbh, _, _, hcnt⟩ := en
    have hi4 : i < 4 := hi
    have hh1 : (s.nodes i).height = 1 := (l.fresh i hi4).1
    have hle := lock_signed_lt s l b (by omega)
    have : cfg4.m ≤ countP 4 (signed s b) := Nat.le_trans hcnt (countP_mono _ _ _ (fun j _ hj => by
      simp only [committed, decide_eq_true_eq] at hj
      simp only [signed, decide_eq_true_eq]
      exact (inv.knownProv i _ hj).2))
    rw [cfg4m] at this; omega
  | syncBlock i j =>
    exfalso
    obtain ⟨_, hj, hsome⟩ := en
    have hj4 : j < 4 := hj
    have := (l.fresh j hj4).2
    simp [blockAt, this] at hsome

/-- Nothing is ever decided from a locked state. -/
theorem lock_forever (s : State) (hr : Reachable cfg4 s) (l : Lock s) (as : List Action) (s' : State)
    (h : run cfg4 s as = some s') : Lock s' := by
  induction as generalizing s with
  | nil => simp [run] at h; subst h; exact l
  | cons a as ih =>
    simp only [run] at h
    split at h
    · next en => exact ih _ (Reachable.step a hr en) (lock_step s a (inv_reachable cfg4 s hr) l en) h
    · simp at h

end NeoModel.Dbft
