/-
Helper lemmas for C18 / fixedn: the accepted language of `FromString` characterised exactly (the
grammar of `big.Int.SetString` on both sides of the first dot, the length test that counts a sign
character of the fraction as a digit), hence the accepted quirks stated as theorems.
-/
import NeoModel.Proofs.CodecFixed
namespace NeoModel.Codec

theorem splitDot_cases (s : Bytes) :
    ((∀ c ∈ s, (c == chDot) = false) ∧ splitDot s = (s, none)) ∨
    (∃ P0 r, s = P0 ++ chDot :: r ∧ (∀ c ∈ P0, (c == chDot) = false) ∧ splitDot s = (P0, some r)) := by
  induction s with
  | nil => left; exact ⟨by simp, rfl⟩
  | cons c t ih =>
    by_cases hc : (c == chDot) = true
    · right
      have : c = chDot := by simpa using hc
      subst this
      exact ⟨[], t, rfl, by simp, by simp [splitDot]⟩
    · have hc' : (c == chDot) = false := by simpa using hc
      rcases ih with ⟨hnd, hs⟩ | ⟨P0, r, rfl, hnd, hs⟩
      · left
        refine ⟨?_, by simp only [splitDot, hc', Bool.false_eq_true, if_false, hs]⟩
        intro x hx
        rcases List.mem_cons.mp hx with rfl | hx
        · exact hc'
        · exact hnd x hx
      · right
        refine ⟨c :: P0, r, rfl, ?_, by simp only [splitDot, hc', Bool.false_eq_true, if_false, hs]⟩
        intro x hx
        rcases List.mem_cons.mp hx with rfl | hx
        · exact hc'
        · exact hnd x hx

/-- `FromString` accepts exactly: `[+-]?digits`, optionally followed by `.` and `[+-]?digits` of at
most `precision` CHARACTERS (a sign of the fraction counts), and the value is
`int·10^p ± frac·10^(p − len(fraction text))` with `−` iff the text starts with `-`. -/
theorem decFromString_iff (s : Bytes) (p : Nat) (v : Int) :
    decFromString s p = some v ↔
      ((∀ c ∈ s, (c == chDot) = false) ∧ ∃ z, parseInt10 s = some z ∧ v = z * (10:Int) ^ p) ∨
      (∃ P0 p1 z f, s = P0 ++ chDot :: p1 ∧ (∀ c ∈ P0, (c == chDot) = false) ∧ parseInt10 P0 = some z ∧
        p1.length ≤ p ∧ parseInt10 p1 = some f ∧
        v = (if P0.head? == some chMinus then z * (10:Int) ^ p - f * (10:Int) ^ (p - p1.length)
             else z * (10:Int) ^ p + f * (10:Int) ^ (p - p1.length))) := by
  constructor
  · intro h
    rcases splitDot_cases s with ⟨hnd, hs⟩ | ⟨P0, r, rfl, hnd, hs⟩
    · left
      refine ⟨hnd, ?_⟩
      unfold decFromString at h
      rw [hs] at h
      simp only at h
      cases hz : parseInt10 s with
      | none => rw [hz] at h; cases h
      | some z => rw [hz] at h; injection h with h; exact ⟨z, rfl, h.symm⟩
    · right
      unfold decFromString at h
      rw [hs] at h
      simp only at h
      cases hz : parseInt10 P0 with
      | none => rw [hz] at h; cases h
      | some z =>
        rw [hz] at h
        simp only at h
        by_cases hl : p < r.length
        · simp [hl] at h
        · simp only [hl, if_false] at h
          cases hf : parseInt10 r with
          | none => rw [hf] at h; cases h
          | some f =>
            rw [hf] at h
            simp only at h
            refine ⟨P0, r, z, f, rfl, hnd, hz, by omega, hf, ?_⟩
            split at h <;> rename_i hm <;> injection h with h <;> simp [hm, h]
  · rintro (⟨hnd, z, hz, rfl⟩ | ⟨P0, p1, z, f, rfl, hnd, hz, hl, hf, rfl⟩)
    · exact decFromString_int s p z hnd hz
    · exact decFromString_frac P0 p1 p z f hnd hz hl hf

/-! ### the quirks, as instances of the characterisation -/

theorem parseInt10_signed (d : Bytes) (hne : d ≠ []) (hd : ∀ c ∈ d, isDigit c = true) :
    parseInt10 (chMinus :: d) = some (-((decVal d : Nat) : Int)) ∧ parseInt10 (chPlus :: d) = some ((decVal d : Nat) : Int) := by
  constructor
  · exact parseInt10_neg d hne hd
  · simp only [parseInt10]
    have c1 : (chPlus == chMinus) = false := by decide
    simp only [c1, Bool.false_eq_true, if_false, beq_self_eq_true, if_true]
    rw [parseNat10_digits d hne hd]; rfl

/-- quirk 1: a signed fraction is accepted, its sign is applied, and the sign character is counted
as a digit position, both in the length test and in the scale: `"I.-D"` is `I − D·10^(p−len(D)−1)`
(for an unsigned-or-plus integer part), so `"1.-5"` is 0.95 at precision 2 … and is rejected at
precision 1. -/
theorem dec_signed_fraction (P0 d : Bytes) (p : Nat) (z : Int) (hnd : ∀ c ∈ P0, (c == chDot) = false)
    (hz : parseInt10 P0 = some z) (hm : (P0.head? == some chMinus) = false)
    (hne : d ≠ []) (hd : ∀ c ∈ d, isDigit c = true) :
    (d.length + 1 ≤ p → decFromString (P0 ++ chDot :: chMinus :: d) p
        = some (z * (10:Int) ^ p + (-((decVal d : Nat) : Int)) * (10:Int) ^ (p - (d.length + 1)))) ∧
    (d.length + 1 ≤ p → decFromString (P0 ++ chDot :: chPlus :: d) p
        = some (z * (10:Int) ^ p + ((decVal d : Nat) : Int) * (10:Int) ^ (p - (d.length + 1)))) ∧
    (p < d.length + 1 → decFromString (P0 ++ chDot :: chMinus :: d) p = none) := by
  obtain ⟨hneg, hpos⟩ := parseInt10_signed d hne hd
  refine ⟨?_, ?_, ?_⟩
  · intro hl
    have := decFromString_frac P0 (chMinus :: d) p z _ hnd hz (by simpa using hl) hneg
    simpa [hm] using this
  · intro hl
    have := decFromString_frac P0 (chPlus :: d) p z _ hnd hz (by simpa using hl) hpos
    simpa [hm] using this
  · intro hl
    exact decFromString_too_long P0 (chMinus :: d) p z hnd hz (by simpa using hl)

/-- quirk 2: an empty integer or fraction part is rejected (".5", "5."), as is a second dot. -/
theorem dec_empty_parts (s : Bytes) (p : Nat) :
    decFromString (chDot :: s) p = none ∧ decFromString (s ++ [chDot]) p = none := by
  constructor
  · simp [decFromString, splitDot, parseInt10]
  · rcases splitDot_cases s with ⟨hnd, _⟩ | ⟨P0, r, rfl, hnd, _⟩
    · unfold decFromString
      rw [splitDot_dot s [] hnd]
      simp only
      cases parseInt10 s <;> simp [parseInt10]
    · unfold decFromString
      have : P0 ++ chDot :: r ++ [chDot] = P0 ++ chDot :: (r ++ [chDot]) := by simp
      rw [this, splitDot_dot P0 _ hnd]
      simp only
      cases parseInt10 P0 with
      | none => rfl
      | some z =>
        simp only
        split
        · rfl
        · have : parseInt10 (r ++ [chDot]) = none := by
            have hnat : ∀ t : Bytes, parseNat10 (t ++ [chDot]) = none := by
              intro t
              unfold parseNat10
              have : (t ++ [chDot]).all isDigit = false := by
                simp [List.all_append, isDigit, chDot]
              simp [this]
            cases r with
            | nil => simp [parseInt10, chDot, chMinus, chPlus, parseNat10, isDigit]
            | cons c t =>
              simp only [List.cons_append, parseInt10]
              split
              · simp [hnat t]
              · split
                · simp [hnat t]
                · have := hnat (c :: t)
                  simp only [List.cons_append] at this
                  simp [this]
          rw [this]

end NeoModel.Codec

namespace NeoModel.Codec

/-- `big.Int.Int64()` wraps: the result is the int64 congruent to the value modulo 2^64. -/
theorem wrapInt64_spec (x : Int) :
    -(2:Int)^63 ≤ wrapInt64 x ∧ wrapInt64 x < (2:Int)^63 ∧ (wrapInt64 x - x) % (2:Int)^64 = 0 := by
  unfold wrapInt64
  simp only []
  have h64 : (2:Nat)^64 = 18446744073709551616 := by decide
  have h63 : (2:Nat)^63 = 9223372036854775808 := by decide
  have hi63 : (2:Int)^63 = 9223372036854775808 := by decide
  have hi64 : (2:Int)^64 = 18446744073709551616 := by decide
  rw [h64, h63, hi63, hi64]
  simp only [Int.ofNat_eq_natCast]
  have hlt : x.natAbs % 18446744073709551616 < 18446744073709551616 := Nat.mod_lt _ (by decide)
  split <;> split <;> (try split) <;> omega

/-- quirk 3: `Fixed8FromString` never fails on range: it returns the parsed decimal wrapped to int64. -/
theorem fixed8FromString_iff (s : Bytes) (w : Int) :
    fixed8FromString s = some w ↔ ∃ v, decFromString s 8 = some v ∧ w = wrapInt64 v := by
  unfold fixed8FromString
  cases decFromString s 8 with
  | none => simp
  | some v => simp [eq_comm]

end NeoModel.Codec

namespace NeoModel.Codec

/-- the strings on which print∘parse is the identity are exactly the strings the printer produces
(and on those parse∘print is the identity too: `dec_parse_print`). -/
theorem dec_print_parse_fixed (s : Bytes) (p : Nat) (v : Int) (h : decFromString s p = some v) :
    decToString v p = s ↔ ∃ bi, s = decToString bi p := by
  constructor
  · intro hs; exact ⟨v, hs.symm⟩
  · rintro ⟨bi, rfl⟩
    rw [dec_parse_print bi p] at h
    injection h with h
    rw [h]

theorem fixed8_print_parse_fixed (s : Bytes) (v : Int) (hr : -(2:Int)^63 ≤ v ∧ v < (2:Int)^63)
    (h : fixed8FromString s = some v) :
    fixed8String v = s ↔ ∃ w, (-(2:Int)^63 ≤ w ∧ w < (2:Int)^63) ∧ s = fixed8String w := by
  constructor
  · intro hs; exact ⟨v, hr, hs.symm⟩
  · rintro ⟨w, hw, rfl⟩
    rw [fixed8_parse_print w hw] at h
    injection h with h
    rw [h]

end NeoModel.Codec

namespace NeoModel.Codec

/-- the grammar of the strings `ToString` prints: `[-] digits-without-leading-zeros [ . digits ]` with an
unsigned fraction of 1..precision digits that does not end in '0', and "-0" only before a fraction. -/
def canonDec (s : Bytes) (p : Nat) : Prop :=
  ∃ (neg : Bool) (ip : Nat) (f : Bytes),
    s = (if neg then [chMinus] else []) ++ natDec ip ++ (if f = [] then [] else chDot :: f) ∧
    (∀ c ∈ f, isDigit c = true) ∧ f.length ≤ p ∧ (∀ h : f ≠ [], f.getLast h ≠ chZero) ∧
    (neg = true → ip ≠ 0 ∨ f ≠ [])

theorem trimRight0_last (s : Bytes) (h : trimRight0 s ≠ []) : (trimRight0 s).getLast h ≠ chZero := by
  unfold trimRight0 at h ⊢
  have hne : s.reverse.dropWhile (· == chZero) ≠ [] := by
    intro h0; apply h; rw [h0]; rfl
  rw [List.getLast_reverse]
  have := List.head_dropWhile_not (· == chZero) hne
  intro he
  rw [he] at this
  simp at this

theorem trimRight0_sub (s : Bytes) : ∀ c ∈ trimRight0 s, c ∈ s := by
  intro c hc
  obtain ⟨t, ht⟩ := trimRight0_decomp s
  rw [ht]; exact List.mem_append_left _ hc

theorem trimRight0_len (s : Bytes) : (trimRight0 s).length ≤ s.length := by
  obtain ⟨t, ht⟩ := trimRight0_decomp s
  have := congrArg List.length ht
  simp at this; omega

/-- every string `ToString` prints is in the grammar. -/
theorem decToString_canon (bi : Int) (p : Nat) : canonDec (decToString bi p) p := by
  have hM : 0 < 10 ^ p := Nat.pow_pos (by decide)
  have hcast : ((10 ^ p : Nat) : Int) = (10:Int) ^ p := by simp
  obtain ⟨hsum, hlt, hpos, hneg⟩ := tdiv_tmod_facts bi (10 ^ p) hM
  rw [hcast] at hsum hlt hpos hneg
  unfold decToString
  simp only []
  generalize bi.tdiv ((10:Int) ^ p) = dp at hsum hpos hneg
  generalize bi.tmod ((10:Int) ^ p) = fp at hsum hlt hpos hneg
  by_cases hfp : fp = 0
  · simp only [hfp, if_true]
    by_cases hd : dp < 0
    · refine ⟨true, dp.natAbs, [], ?_, by simp, by simp, by simp, fun _ => Or.inl (by omega)⟩
      rw [intDec_neg dp hd]; simp
    · refine ⟨false, dp.natAbs, [], ?_, by simp, by simp, by simp, by simp⟩
      rw [intDec_nonneg dp (by omega)]; simp
  · simp only [hfp, if_false]
    have hp1 : 1 ≤ p := by
      rcases Nat.eq_zero_or_pos p with h0 | h0
      · subst h0; simp at hlt; omega
      · exact h0
    have hfl := natDec_length_le fp.natAbs p hp1 hlt
    generalize hX : List.replicate (p - (natDec fp.natAbs).length) chZero ++ natDec fp.natAbs = X
    have hXlen : X.length = p := by rw [← hX]; simp; omega
    have hXdig : ∀ c ∈ X, isDigit c = true := by
      intro c hc; rw [← hX] at hc
      rcases List.mem_append.mp hc with h | h
      · exact replicate_zero_digits _ c h
      · exact natDec_all_digits _ c h
    have hXval : decVal X = fp.natAbs := by rw [← hX, decVal_zeros_append, decVal_natDec]
    have hfne : trimRight0 X ≠ [] := by
      intro h0
      obtain ⟨t, ht⟩ := trimRight0_decomp X
      rw [h0, List.nil_append] at ht
      have : decVal X = 0 := by
        rw [ht]; have := decVal_zeros_append t []; simpa [decVal_nil] using this
      omega
    have hcommon : (∀ c ∈ trimRight0 X, isDigit c = true) ∧ (trimRight0 X).length ≤ p ∧
        (∀ h : trimRight0 X ≠ [], (trimRight0 X).getLast h ≠ chZero) :=
      ⟨fun c hc => hXdig c (trimRight0_sub X c hc), by have := trimRight0_len X; omega, fun h => trimRight0_last X h⟩
    by_cases hd : dp < 0
    · have hc : ¬ (fp < 0 ∧ dp = 0) := by omega
      refine ⟨true, dp.natAbs, trimRight0 X, ?_, hcommon.1, hcommon.2.1, hcommon.2.2, fun _ => Or.inr hfne⟩
      simp only [hc, if_false, intDec_neg dp hd, hfne, if_true]
      simp [List.append_assoc]
    · by_cases hc : fp < 0 ∧ dp = 0
      · refine ⟨true, dp.natAbs, trimRight0 X, ?_, hcommon.1, hcommon.2.1, hcommon.2.2, fun _ => Or.inr hfne⟩
        have hi : intDec dp = natDec dp.natAbs := intDec_nonneg dp (by omega)
        simp only [hc, and_self, if_true, hfne, if_false]
        rw [← hc.2, hi]
        simp [List.append_assoc]
      · refine ⟨false, dp.natAbs, trimRight0 X, ?_, hcommon.1, hcommon.2.1, hcommon.2.2, by simp⟩
        simp only [hc, if_false, intDec_nonneg dp (by omega), hfne]
        simp [List.append_assoc]

end NeoModel.Codec
