/-
C12 proofs, part 9: the EXACT value of the counter after exception unwinding across evaluation
stacks (the known finding `unwind-across-estack`).

`handleException` unloads contexts without removing the contents of their evaluation stacks from the
counter. The items of the dropped stacks are collected in a ghost list `lk` (`droppedBy`: exactly the
contents of the stacks owned by the unloaded contexts, at the moment of unloading). As long as no
cyclic structure is built, the counter equals what a walk from the real roots PLUS the ghost list
finds — nothing more: any other over-count is a violation of this theorem.
-/
import NeoModel.Proofs.VmAcctBase
namespace NeoModel.VmAcct

/-- runs that never build a cyclic structure, together with the ghost list of the items of every
evaluation stack dropped so far by exception unwinding -/
inductive RunG : St → List Item → Prop where
  | init : RunG St.init []
  | step {s s' : St} {lk : List Item} (op : Op) (unw : Option (Nat × Bool)) (ext : Bool) :
      RunG s lk → Acyclic s.c.heap → step s op unw ext = some s' → RunG s' (lk ++ droppedBy s op unw)

theorem RunG.run {s : St} {lk : List Item} (h : RunG s lk) : Run s := by
  induction h with
  | init => exact Run.init
  | step op unw ext _ _ hs ih => exact Run.step op unw ext ih hs

theorem runG_inv {s : St} {lk : List Item} (h : RunG s lk) : InvS s lk ∧ (s.halted = true ∨ BaseOk s) := by
  induction h with
  | init => exact ⟨init_inv, Or.inr init_baseOk⟩
  | @step s0 s1 lk0 op unw ext h0 ha hs ih =>
    obtain ⟨i, hb⟩ := ih
    have hok := okFor_of_step op unw ext (run_mapInv h0.run) hs
    have hnh := step_not_halted hs
    have hbase : BaseOk s0 := by
      rcases hb with hh | hb
      · rw [hnh] at hh; cases hh
      · exact hb
    obtain ⟨lk', i', hl⟩ := step_inv op unw ext hok i hs
    rw [hl ha hbase.base] at i'
    exact ⟨i', step_baseOk op unw ext hbase hs⟩

/-- **the counter after unwinding, exactly**: without cycles, `refs` = what a walk from the roots
and from the items of the dropped evaluation stacks finds -/
theorem refs_exact_unwind {s : St} {lk : List Item} (h : RunG s lk) (ha : Acyclic s.c.heap) :
    s.c.refs = (reachFrom s.c.heap (s.roots ++ lk) : Int) := by
  have i := (runG_inv h).1
  exact refs_eq_reach s.c (s.roots ++ lk) (i.ctr.congr (by intro id; simp) (by simp)) ha

/-! ### when the dropped items are primitives: reach + their number -/

theorem walk_append (h : Heap) (w p : List Item) (vis : List Nat) : walk h (w ++ p) vis = walk h p (walk h w vis) := by
  fun_induction walk h w vis with
  | case1 vis => simp [walk]
  | case2 x w vis hx ih => simp only [List.cons_append]; rw [walk, hx]; simpa using ih
  | case3 x w vis id hx hv ih => simp only [List.cons_append]; rw [walk, hx]; simp only [hv, if_true]; exact ih
  | case4 x w vis id hx hv hl ih =>
    simp only [List.cons_append]; rw [walk, hx]; simp only [hv, hl, if_true]
    rw [← List.append_assoc]; simpa using ih
  | case5 x w vis id hx hv hl ih => simp only [List.cons_append]; rw [walk, hx]; simp only [hv, hl, if_false]; simpa using ih

theorem walk_prims (h : Heap) : ∀ (p : List Item) (vis : List Nat), (∀ x ∈ p, x = .prim) → walk h p vis = vis := by
  intro p
  induction p with
  | nil => intro vis _; simp [walk]
  | cons x t ih =>
    intro vis hp
    have hx : x = .prim := hp x (List.mem_cons_self ..)
    subst hx
    rw [walk]
    simp only [Item.cid]
    exact ih vis (fun y hy => hp y (List.mem_cons_of_mem _ hy))

/-- if only primitives were dropped (e.g. the witness of the finding), the over-count is exactly
their number -/
theorem refs_exact_unwind_prims {s : St} {lk : List Item} (h : RunG s lk) (ha : Acyclic s.c.heap) (hp : ∀ x ∈ lk, x = .prim) :
    s.c.refs = (s.reach : Int) + lk.length := by
  rw [refs_exact_unwind h ha]
  simp only [reachFrom, St.reach, walk_append, walk_prims _ lk _ hp, List.length_append]
  push_cast; omega

end NeoModel.VmAcct
