/-
Helper lemmas for C13: EQUAL is reflexive and symmetric (verdict and consumed budgets) in the model.
-/
import NeoModel.Model.Vm
open NeoModel NeoModel.Vm
namespace NeoModel.Vm

theorem simpleEquals_symm (a b : Item) : simpleEquals a b = simpleEquals b a := by
  cases a <;> cases b <;> simp [simpleEquals, Bool.beq_comm] <;>
    first | exact eq_comm | (constructor <;> intro h <;> exact ⟨h.1.symm, h.2.symm⟩)

theorem simpleEquals_refl (a : Item) (h1 : ∀ b, a ≠ .bytes b) : simpleEquals a a = true := by
  cases a <;> simp_all [simpleEquals]

/-- agreement of two comparison results: same verdict, and same remaining budget when equal. -/
def Agree (p q : Option (Bool × Nat)) : Prop :=
  ∀ r1 c1 r2 c2, p = some (r1, c1) → q = some (r2, c2) → r1 = r2 ∧ (r1 = true → c1 = c2)

theorem bytesEq_symm (x y : Bytes) (sz : Nat) :
    Agree (bytesEqualsLimited x (.bytes y) sz) (bytesEqualsLimited y (.bytes x) sz) := by
  intro r1 c1 r2 c2 h1 h2
  unfold bytesEqualsLimited at h1 h2
  split at h1 <;> try simp at h1
  split at h2 <;> try simp at h2
  obtain ⟨_, rfl, rfl⟩ := h1
  obtain ⟨_, rfl, rfl⟩ := h2
  refine ⟨Bool.beq_comm, fun _ => by rw [Nat.max_comm]⟩

theorem bytesEq_nonbytes (x : Bytes) (b : Item) (hb : ∀ y, b ≠ .bytes y) (sz : Nat) (r : Bool) (c : Nat)
    (h : bytesEqualsLimited x b sz = some (r, c)) : r = false := by
  unfold bytesEqualsLimited at h
  split at h <;> try simp at h
  exact h.1

theorem simpleEquals_bytes_right (a : Item) (y : Bytes) : simpleEquals a (.bytes y) = false := by
  cases a <;> simp [simpleEquals]
theorem simpleEquals_bytes_left (a : Item) (y : Bytes) : simpleEquals (.bytes y) a = false := by
  cases a <;> simp [simpleEquals]

theorem both_false {r1 r2 : Bool} {c1 c2 : Nat} (h1 : r1 = false) (h2 : r2 = false) :
    r1 = r2 ∧ (r1 = true → c1 = c2) := by subst h1 h2; simp

theorem agree_simple (p q : Option (Bool × Nat)) (hpq : Agree p q) (sz cnt : Nat) (e1 e2 : Bool) (he : e1 = e2) :
    Agree (if sz = 0 then none else if e1 = true then p else some (false, cnt))
          (if sz = 0 then none else if e2 = true then q else some (false, cnt)) := by
  subst he
  intro r1 c1 r2 c2 h1 h2
  by_cases hz : sz = 0
  · simp [hz] at h1
  · simp only [hz, if_false] at h1 h2
    by_cases he : e1 = true
    · simp only [he, if_true] at h1 h2; exact hpq _ _ _ _ h1 h2
    · simp only [he, if_false] at h1 h2
      simp at h1 h2
      exact both_false h1.1 h2.1

theorem agree_false_left (q : Option (Bool × Nat)) (hq : ∀ r c, q = some (r, c) → r = false) (c0 : Nat) :
    Agree (some (false, c0)) q := by
  intro r1 c1 r2 c2 h1 h2
  simp at h1
  exact both_false h1.1 (hq _ _ h2)

/-- the element loop is symmetric when the nested-struct comparison is. -/
theorem equalFields_symm (rec : Nat → Nat → Nat → Option (Bool × Nat))
    (hrec : ∀ i j c, Agree (rec i j c) (rec j i c)) :
    ∀ (xs ys : List Item) (cnt sz : Nat),
      Agree (equalFields rec xs ys cnt sz) (equalFields rec ys xs cnt sz) := by
  intro xs
  induction xs with
  | nil =>
    intro ys cnt sz r1 c1 r2 c2 h1 h2
    cases ys <;> simp [equalFields] at h1 h2 <;> simp_all
  | cons a as ih =>
    intro ys cnt sz r1 c1 r2 c2 h1 h2
    cases ys with
    | nil => simp [equalFields] at h1 h2; simp_all
    | cons b bs =>
      simp only [equalFields] at h1 h2
      by_cases hc : cnt ≤ 1
      · simp [hc] at h1
      · simp only [hc, if_false] at h1 h2
        have hsimple : ∀ (a b : Item), Agree
            (if sz = 0 then none else if simpleEquals a b = true then equalFields rec as bs (cnt - 1) (sz - 1) else some (false, cnt - 1))
            (if sz = 0 then none else if simpleEquals b a = true then equalFields rec bs as (cnt - 1) (sz - 1) else some (false, cnt - 1)) :=
          fun a b => agree_simple _ _ (ih bs (cnt - 1) (sz - 1)) sz (cnt - 1) _ _ (simpleEquals_symm a b)
        cases a with
        | bytes x =>
          cases b with
          | bytes y =>
            simp only at h1 h2
            have hb := bytesEq_symm x y sz
            cases hx : bytesEqualsLimited x (.bytes y) sz with
            | none => simp [hx] at h1
            | some p1 =>
              cases hy : bytesEqualsLimited y (.bytes x) sz with
              | none => simp [hy] at h2
              | some p2 =>
                obtain ⟨e1, s1⟩ := p1
                obtain ⟨e2, s2⟩ := p2
                have := hb e1 s1 e2 s2 hx hy
                rw [hx] at h1; rw [hy] at h2
                cases e1 <;> cases e2 <;> simp at this
                · simp at h1 h2; exact both_false h1.1 h2.1
                · subst this; simp only at h1 h2; exact ih bs _ _ _ _ _ _ h1 h2
          | _ =>
            all_goals
              have hf1 : r1 = false := by
                unfold bytesEqualsLimited at h1
                simp only at h1
                split at h1 <;> simp_all
              have hf2 : r2 = false := by
                simp only [simpleEquals] at h2
                split at h2 <;> simp at h2
                exact h2.1
              exact both_false hf1 hf2
        | _ =>
          all_goals
            cases b
          all_goals
            first
            | exact hsimple _ _ r1 c1 r2 c2 h1 h2
            | (have hf2 : r2 = false := by
                 unfold bytesEqualsLimited at h2
                 simp only at h2
                 split at h2 <;> simp_all
               have hf1 : r1 = false := by
                 simp only [simpleEquals] at h1
                 split at h1 <;> simp at h1
                 exact h1.1
               exact both_false hf1 hf2)
            | (rename_i i j
               simp only at h1 h2
               by_cases hz : sz = 0
               · simp [hz] at h1
               · simp only [hz, if_false] at h1 h2
                 have hr := hrec i j (cnt - 1)
                 cases hx : rec i j (cnt - 1) with
                 | none => simp [hx] at h1
                 | some p1 =>
                   cases hy : rec j i (cnt - 1) with
                   | none => simp [hy] at h2
                   | some p2 =>
                     obtain ⟨e1, s1⟩ := p1
                     obtain ⟨e2, s2⟩ := p2
                     have := hr e1 s1 e2 s2 hx hy
                     rw [hx] at h1; rw [hy] at h2
                     cases e1 <;> cases e2 <;> simp at this
                     · simp at h1 h2; exact both_false h1.1 h2.1
                     · subst this; simp only at h1 h2; exact ih bs _ _ _ _ _ _ h1 h2)


/-- `equalStruct` is symmetric (verdict and consumed budget) whenever both directions are defined. -/
theorem equalStructAux_symm (h : Heap) : ∀ (f i j cnt : Nat),
    Agree (equalStructAux h f i j cnt) (equalStructAux h f j i cnt) := by
  intro f
  induction f with
  | zero => intro i j cnt r1 c1 r2 c2 h1; simp [equalStructAux] at h1
  | succ f ih =>
    intro i j cnt r1 c1 r2 c2 h1 h2
    simp only [equalStructAux] at h1 h2
    by_cases hij : i = j
    · subst hij; simp at h1 h2
      obtain ⟨rfl, rfl⟩ := h1
      obtain ⟨rfl, rfl⟩ := h2
      simp
    · have hji : ¬ j = i := fun e => hij e.symm
      simp only [hij, hji, if_false] at h1 h2
      cases hx : h.getItems i with
      | none => simp [hx] at h1
      | some xs =>
        cases hy : h.getItems j with
        | none => simp [hx, hy] at h1
        | some ys =>
          simp only [hx, hy] at h1 h2
          by_cases hl : xs.length = ys.length
          · simp only [hl, ne_eq, not_true_eq_false, if_false] at h1 h2
            exact equalFields_symm _ (fun a b c => ih a b c) xs ys cnt _ r1 c1 r2 c2 h1 h2
          · have hl' : ¬ ys.length = xs.length := fun e => hl e.symm
            simp [hl, hl'] at h1 h2
            exact both_false h1.1 h2.1

end NeoModel.Vm

namespace NeoModel.Vm

/-- **equals_symm.** Whenever `a EQUAL b` and `b EQUAL a` are both defined (neither FAULTs on the
comparable-size limits) they give the same verdict. -/
theorem itemEquals_symm (h : Heap) (a b : Item) (x y : Bool)
    (h1 : itemEquals h a b = some x) (h2 : itemEquals h b a = some y) : x = y := by
  cases a <;> cases b <;>
    first
    | (simp [itemEquals, simpleEquals] at h1 h2
       first
       | (rw [← h1, ← h2]; done)
       | (rw [← h1, ← h2]; exact Bool.beq_comm)
       | (obtain ⟨rfl, rfl⟩ := h1; obtain ⟨rfl, rfl⟩ := h2; rfl)
       | (subst h1; subst h2; exact Bool.beq_comm)
       | skip)
    | skip
  all_goals
    first
    | (obtain ⟨c, hc⟩ := h2
       have := bytesEq_nonbytes _ _ (by intro y; simp) _ _ _ hc
       rw [h1, this]; done)
    | (obtain ⟨c, hc⟩ := h1
       have := bytesEq_nonbytes _ _ (by intro y; simp) _ _ _ hc
       rw [h2, this]; done)
    | (obtain ⟨c1, hc1⟩ := h1
       obtain ⟨c2, hc2⟩ := h2
       exact (bytesEq_symm _ _ _ _ _ _ _ hc1 hc2).1)
    | (obtain ⟨c1, hc1⟩ := h1
       obtain ⟨c2, hc2⟩ := h2
       exact (equalStructAux_symm _ _ _ _ _ _ _ _ _ hc1 hc2).1)
    | skip
  all_goals
    rw [← h1, ← h2, Bool.beq_comm (a := _) (b := _)]
    congr 1
    exact Bool.beq_comm

/-- **equals_refl.** An item equals itself; the only exception is a ByteString longer than the
comparable size (65536), for which `EQUAL` FAULTs. -/
theorem itemEquals_refl (h : Heap) (a : Item) (hb : ∀ b, a = .bytes b → b.length ≤ maxComparableSize) :
    itemEquals h a a = some true := by
  cases a <;> simp [itemEquals, simpleEquals, equalStructAux, maxComparableItems]
  case bytes b =>
    have := hb b rfl
    simp [bytesEqualsLimited, maxComparableSize] at this ⊢
    omega

theorem itemEquals_refl_big (h : Heap) (b : Bytes) (hb : b.length > maxComparableSize) :
    itemEquals h (.bytes b) (.bytes b) = none := by
  simp [itemEquals, bytesEqualsLimited, hb]

end NeoModel.Vm
