/-
C13 — EQUAL on Structs is structural equality.

`SEq h i j` is the mathematical definition: two Structs are equal iff they are the same object, or have the
same number of fields and the fields are pairwise equal, where two fields are equal iff they are
  * ByteStrings with the same bytes, or
  * both Structs that are (recursively) equal, or
  * otherwise (the left one is not a ByteString and they are not both Structs) equal as primitive values /
    identical references (`simpleEquals`: Integer, Boolean, Null by value and type; Buffer, Array, Map,
    InteropInterface, Pointer by identity).
`struct_equal_is_structural`: whenever the specification's comparison is defined (it FAULTs only through its
budgets: MaxComparableNumOfItems fields in total, MaxByteArrayComparableSize bytes per Struct, nesting depth),
its verdict is exactly `SEq`.
-/
import NeoModel.Proofs.VmSpecConvB
open NeoModel NeoModel.Vm
namespace NeoModel.Vm.Spec

mutual
/-- structural equality of two Struct objects of heap `h`. -/
inductive SEq (h : Heap) : Nat → Nat → Prop
  | same (i : Nat) : SEq h i i
  | fields (i j : Nat) (xs ys : List Item) : h.getItems i = some xs → h.getItems j = some ys →
      FieldsEq h xs ys → SEq h i j
/-- pairwise equality of two field lists (of the same length). -/
inductive FieldsEq (h : Heap) : List Item → List Item → Prop
  | nil : FieldsEq h [] []
  | bytes (x : Bytes) (as bs : List Item) : FieldsEq h as bs → FieldsEq h (.bytes x :: as) (.bytes x :: bs)
  | struct (i j : Nat) (as bs : List Item) : SEq h i j → FieldsEq h as bs →
      FieldsEq h (.struct i :: as) (.struct j :: bs)
  | simple (a b : Item) (as bs : List Item) : (∀ x, a ≠ .bytes x) → (∀ i j, ¬ (a = .struct i ∧ b = .struct j)) →
      simpleEquals a b = true → FieldsEq h as bs → FieldsEq h (a :: as) (b :: bs)
end

theorem fieldsEq_length (h : Heap) : ∀ (xs ys : List Item), FieldsEq h xs ys → xs.length = ys.length := by
  intro xs
  induction xs with
  | nil => intro ys hf; cases hf; rfl
  | cons a as ih =>
    intro ys hf
    cases hf with
    | bytes x _ bs ht => simp [ih bs ht]
    | struct i j _ bs _ ht => simp [ih bs ht]
    | simple _ b _ bs _ _ _ ht => simp [ih bs ht]

/-- what a comparison of two nested structs must guarantee. -/
def RecSound (h : Heap) (rec : Nat → Nat → Nat → Option (Bool × Nat)) : Prop :=
  ∀ i j c r c', rec i j c = some (r, c') → (r = true ↔ SEq h i j)

theorem bytesEq_true (x : Bytes) (b : Item) (lim : Nat) (c : Nat) (hb : bytesEqualsLimited x b lim = some (true, c)) :
    b = .bytes x := by
  unfold bytesEqualsLimited at hb
  split at hb
  · simp at hb
  · cases b <;> simp at hb
    rename_i y
    rw [hb.2.1]

theorem bytesEq_false (x : Bytes) (b : Item) (lim : Nat) (c : Nat) (hb : bytesEqualsLimited x b lim = some (false, c)) :
    b ≠ .bytes x := by
  intro he
  subst he
  unfold bytesEqualsLimited at hb
  split at hb
  · simp at hb
  · simp only at hb
    split at hb
    · simp at hb
    · simp at hb

theorem equalFields_structural (h : Heap) (rec : Nat → Nat → Nat → Option (Bool × Nat)) (hrec : RecSound h rec) :
    ∀ (xs ys : List Item) (cnt sz : Nat) (r : Bool) (c' : Nat), xs.length = ys.length →
      equalFields rec xs ys cnt sz = some (r, c') → (r = true ↔ FieldsEq h xs ys) := by
  intro xs
  induction xs with
  | nil =>
    intro ys cnt sz r c' hl he
    have : ys = [] := by cases ys <;> simp_all
    subst this
    simp only [equalFields, Option.some.injEq, Prod.mk.injEq] at he
    exact ⟨fun _ => FieldsEq.nil, fun _ => he.1.symm⟩
  | cons a as ih =>
    intro ys cnt sz r c' hl he
    cases ys with
    | nil => simp at hl
    | cons b bs =>
      have hl' : as.length = bs.length := by simpa using hl
      simp only [equalFields] at he
      split at he
      · simp at he
      · -- the verdict on the tail
        by_cases hab : ∃ x, a = .bytes x
        · obtain ⟨x, rfl⟩ := hab
          simp only at he
          cases hbq : bytesEqualsLimited x b sz with
          | none => simp [hbq] at he
          | some p =>
            obtain ⟨v, s2⟩ := p
            cases v with
            | false =>
              simp only [hbq, Option.some.injEq, Prod.mk.injEq] at he
              have hne := bytesEq_false x b sz s2 hbq
              constructor
              · intro hr; rw [← he.1] at hr; cases hr
              · intro hf
                exfalso
                cases hf with
                | bytes _ _ _ _ => exact hne rfl
                | simple _ _ _ _ hnb _ _ _ => exact hnb x rfl
            | true =>
              simp only [hbq] at he
              have hbe := bytesEq_true x b sz s2 hbq
              subst hbe
              have := ih bs (cnt - 1) s2 r c' hl' he
              constructor
              · intro hr; exact FieldsEq.bytes x as bs (this.mp hr)
              · intro hf
                cases hf with
                | bytes _ _ _ ht => exact this.mpr ht
                | simple _ _ _ _ hnb _ _ _ => exact absurd rfl (hnb x)
        · have hnb : ∀ x, a ≠ .bytes x := fun x hx => hab ⟨x, hx⟩
          have he2 : (if sz = 0 then none else
              match a, b with
              | .struct i, .struct j =>
                match rec i j (cnt - 1) with
                | none => none
                | some (false, cnt) => some (false, cnt)
                | some (true, cnt) => equalFields rec as bs cnt (sz - 1)
              | _, _ => if simpleEquals a b then equalFields rec as bs (cnt - 1) (sz - 1) else some (false, cnt - 1)) =
              some (r, c') := by
            cases a <;> first | exact he | exact absurd rfl (hnb _)
          split at he2
          · simp at he2
          · by_cases hss : ∃ i j, a = .struct i ∧ b = .struct j
            · obtain ⟨i, j, rfl, rfl⟩ := hss
              simp only at he2
              cases hq : rec i j (cnt - 1) with
              | none => simp [hq] at he2
              | some p =>
                obtain ⟨v, c2⟩ := p
                have hv := hrec i j (cnt - 1) v c2 hq
                cases v with
                | false =>
                  simp only [hq, Option.some.injEq, Prod.mk.injEq] at he2
                  constructor
                  · intro hr; rw [← he2.1] at hr; cases hr
                  · intro hf
                    exfalso
                    cases hf with
                    | struct _ _ _ _ hs _ => exact absurd (hv.mpr hs) (by simp)
                    | simple _ _ _ _ _ hns _ _ => exact hns i j ⟨rfl, rfl⟩
                | true =>
                  simp only [hq] at he2
                  have := ih bs c2 (sz - 1) r c' hl' he2
                  constructor
                  · intro hr; exact FieldsEq.struct i j as bs (hv.mp rfl) (this.mp hr)
                  · intro hf
                    cases hf with
                    | struct _ _ _ _ _ ht => exact this.mpr ht
                    | simple _ _ _ _ _ hns _ _ => exact absurd ⟨rfl, rfl⟩ (hns i j)
            · have hns : ∀ i j, ¬ (a = .struct i ∧ b = .struct j) := fun i j hx => hss ⟨i, j, hx⟩
              have he3 : (if simpleEquals a b then equalFields rec as bs (cnt - 1) (sz - 1) else some (false, cnt - 1)) =
                  some (r, c') := by
                cases a <;> cases b <;> first | exact he2 | exact absurd ⟨rfl, rfl⟩ (hns _ _)
              by_cases hse : simpleEquals a b = true
              · simp only [hse, if_true] at he3
                have := ih bs (cnt - 1) (sz - 1) r c' hl' he3
                constructor
                · intro hr; exact FieldsEq.simple a b as bs hnb hns hse (this.mp hr)
                · intro hf
                  cases hf with
                  | bytes x _ _ _ => exact absurd rfl (hnb x)
                  | struct i j _ _ _ _ => exact absurd ⟨rfl, rfl⟩ (hns i j)
                  | simple _ _ _ _ _ _ _ ht => exact this.mpr ht
              · simp only [hse] at he3
                simp only [Bool.false_eq_true, if_false, Option.some.injEq, Prod.mk.injEq] at he3
                constructor
                · intro hr; rw [← he3.1] at hr; cases hr
                · intro hf
                  exfalso
                  cases hf with
                  | bytes x _ _ _ => exact hnb x rfl
                  | struct i j _ _ _ _ => exact hns i j ⟨rfl, rfl⟩
                  | simple _ _ _ _ _ _ hs _ => exact hse hs

theorem equalStructAux_structural (h : Heap) : ∀ f, RecSound h (equalStructAux h f) := by
  intro f
  induction f with
  | zero => intro i j c r c' he; simp [equalStructAux] at he
  | succ f ih =>
    intro i j c r c' he
    simp only [equalStructAux] at he
    split at he
    · rename_i hij
      subst hij
      simp only [Option.some.injEq, Prod.mk.injEq] at he
      exact ⟨fun _ => SEq.same i, fun _ => he.1.symm⟩
    · rename_i hij
      cases hx : h.getItems i with
      | none => simp [hx] at he
      | some xs =>
        cases hy : h.getItems j with
        | none => simp [hx, hy] at he
        | some ys =>
          simp only [hx, hy] at he
          split at he
          · rename_i hlen
            simp only [Option.some.injEq, Prod.mk.injEq] at he
            constructor
            · intro hr; rw [← he.1] at hr; cases hr
            · intro hs
              exfalso
              cases hs with
              | same => exact hij rfl
              | fields _ _ xs' ys' h1 h2 hf =>
                rw [hx] at h1; rw [hy] at h2
                cases h1; cases h2
                exact hlen (fieldsEq_length h _ _ hf)
          · rename_i hlen
            have hl : xs.length = ys.length := by
              apply Classical.byContradiction; intro hn; exact hlen hn
            have := equalFields_structural h _ ih xs ys c maxComparableSize r c' hl he
            constructor
            · intro hr; exact SEq.fields i j xs ys hx hy (this.mp hr)
            · intro hs
              cases hs with
              | same => exact absurd rfl hij
              | fields _ _ xs' ys' h1 h2 hf =>
                rw [hx] at h1; rw [hy] at h2
                cases h1; cases h2
                exact this.mpr hf

/-- **struct_equal_is_structural.** Whenever EQUAL on two Structs is defined (no budget FAULT) it pushes `true`
exactly when the two Structs are structurally equal (`SEq`), and NOTEQUAL the negation. -/
theorem struct_equal_is_structural (h : Heap) (i j : Nat) (r : Bool) (st : List Item)
    (hr : itemEquals h (.struct i) (.struct j) = some r) :
    (r = true ↔ SEq h i j) ∧
    execPure .equal [] (.struct j :: .struct i :: st) h = .ok (.next (.bool r :: st) h) ∧
    execPure .notEqual [] (.struct j :: .struct i :: st) h = .ok (.next (.bool (!r) :: st) h) := by
  refine ⟨?_, equal_exec _ _ r h st hr⟩
  simp only [itemEquals] at hr
  cases hq : equalStructAux h (maxComparableItems + 1) i j (maxComparableItems - 1) with
  | none => simp [hq] at hr
  | some p =>
    obtain ⟨v, c⟩ := p
    simp only [hq, Option.map, Option.some.injEq] at hr
    subst hr
    exact equalStructAux_structural h _ i j _ v c hq

/-- a Struct is EQUAL to a non-Struct never (whatever it holds). -/
theorem struct_vs_other (h : Heap) (i : Nat) (b : Item) (hb : ∀ j, b ≠ .struct j) :
    itemEquals h (.struct i) b = some false := by
  cases b <;> first | rfl | exact absurd rfl (hb _)

-- non-vacuity: two distinct structs [1, "ab", T[true]] with distinct nested structs are structurally equal;
-- changing the nested Boolean makes them different
example : let h : Heap := #[.items [.int ⟨1, by decide⟩, .bytes [0x61, 0x62], .struct 2], .items [.int ⟨1, by decide⟩, .bytes [0x61, 0x62], .struct 3],
      .items [.bool true], .items [.bool true], .items [.bool false]]
    itemEquals h (.struct 0) (.struct 1) = some true ∧ SEq h 0 1 ∧ itemEquals h (.struct 2) (.struct 4) = some false ∧
      ¬ SEq h 2 4 := by
  intro h
  have e1 : itemEquals h (.struct 0) (.struct 1) = some true := by decide +kernel
  have e2 : itemEquals h (.struct 2) (.struct 4) = some false := by decide +kernel
  refine ⟨e1, (struct_equal_is_structural h 0 1 true [] e1).1.mp rfl, e2, ?_⟩
  intro hs
  have := (struct_equal_is_structural h 2 4 false [] e2).1.mpr hs
  cases this

end NeoModel.Vm.Spec
