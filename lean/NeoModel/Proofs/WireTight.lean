/-
C17 — `Codec.Tight`: the canonical encoding is the shortest accepted one and the only accepted one of its length
(proved per combinator; used for the "iff canonical" statement of the transaction arrival paths).
-/
import NeoModel.Proofs.WireCodec
import NeoModel.Proofs.WireTx
namespace NeoModel.Wire
open Codec
open NeoModel.Generated

/-- the canonical encoding is the SHORTEST accepted one, and the only accepted one of that length: what the decoder
reads from `b` re-encodes to at most the consumed bytes, with equality only when `b` starts with the canonical bytes.
Holds for every combinator built from var-uints, fixed fields and keys (a non-minimal var-uint and an uncompressed
key are longer); fails for `boolC` (byte 02 reads as true and re-encodes, in one byte, as 01). -/
def Codec.Tight {α : Type} (c : Codec α) : Prop :=
  ∀ b v r, c.dec b = some (v, r) →
    (c.enc v).length + r.length ≤ b.length ∧ ((c.enc v).length + r.length = b.length → b = c.enc v ++ r)

theorem leBytes_leVal (x : Bytes) : leBytes x.length (leVal x) = x := by
  induction x with
  | nil => rfl
  | cons a t ih =>
    simp only [List.length_cons, leBytes, leVal]
    have h1 : (a.toNat + 256 * leVal t) % 256 = a.toNat := by have := a.toNat_lt; omega
    have h2 : (a.toNat + 256 * leVal t) / 256 = leVal t := by have := a.toNat_lt; omega
    rw [h1, h2, ih]
    simp

theorem byte_tight : byte.Tight := by
  intro b v r h
  cases b with
  | nil => simp [byte] at h
  | cons x t =>
    simp [byte] at h
    obtain ⟨rfl, rfl⟩ := h
    simp [byte]; omega

theorem fixed_tight (n : Nat) : (fixed n).Tight := by
  intro b v r h
  simp only [fixed] at h
  obtain ⟨h1, h2⟩ := takeN_some h
  subst h2
  simp [fixed]

theorem uintLE_tight (n : Nat) : (uintLE n).Tight := by
  intro b v r h
  simp only [uintLE, Option.map_eq_some_iff] at h
  obtain ⟨⟨x, r'⟩, ht, he⟩ := h
  simp at he
  obtain ⟨rfl, rfl⟩ := he
  obtain ⟨h1, h2⟩ := takeN_some ht
  subst h1 h2
  simp only [uintLE]
  rw [leBytes_leVal]
  simp

theorem const_tight {α : Type} (d : α) : (const d).Tight := by
  intro b v r h
  simp [const] at h
  obtain ⟨rfl, rfl⟩ := h
  simp [const]

theorem readVarUint_tight : ∀ b v r, readVarUint b = some (v, r) →
    (putVarUint v).length + r.length ≤ b.length ∧ ((putVarUint v).length + r.length = b.length → b = putVarUint v ++ r) := by
  intro b v r h
  cases b with
  | nil => simp [readVarUint] at h
  | cons p t =>
    simp only [readVarUint] at h
    have hlen := putVarUint_length v
    split at h
    · rename_i hp
      simp only [Option.map_eq_some_iff] at h
      obtain ⟨⟨x, r'⟩, ht, he⟩ := h
      simp at he
      obtain ⟨rfl, rfl⟩ := he
      obtain ⟨h1, h2⟩ := takeN_some ht
      subst h2
      have hv := leVal_lt x
      rw [h1] at hv
      subst hp
      unfold putVarUint
      split
      · simp; omega
      · rw [if_pos (by omega)]
        have : leBytes 2 (leVal x) = x := by rw [← h1]; exact leBytes_leVal x
        simp [this, h1]; omega
    · split at h
      · rename_i _ hp
        simp only [Option.map_eq_some_iff] at h
        obtain ⟨⟨x, r'⟩, ht, he⟩ := h
        simp at he
        obtain ⟨rfl, rfl⟩ := he
        obtain ⟨h1, h2⟩ := takeN_some ht
        subst h2
        have hv := leVal_lt x
        rw [h1] at hv
        subst hp
        unfold putVarUint
        split
        · simp; omega
        · split
          · simp [leBytes_length]; omega
          · rw [if_pos (by omega)]
            have : leBytes 4 (leVal x) = x := by rw [← h1]; exact leBytes_leVal x
            simp [this, h1]; omega
      · split at h
        · rename_i _ _ hp
          simp only [Option.map_eq_some_iff] at h
          obtain ⟨⟨x, r'⟩, ht, he⟩ := h
          simp at he
          obtain ⟨rfl, rfl⟩ := he
          obtain ⟨h1, h2⟩ := takeN_some ht
          subst h2
          have hv := leVal_lt x
          rw [h1] at hv
          subst hp
          unfold putVarUint
          split
          · simp; omega
          · split
            · simp [leBytes_length]; omega
            · split
              · simp [leBytes_length]; omega
              · have : leBytes 8 (leVal x) = x := by rw [← h1]; exact leBytes_leVal x
                simp [this, h1]; omega
        · rename_i n1 n2 n3
          simp at h
          obtain ⟨rfl, rfl⟩ := h
          have hp : p.toNat < 0xfd := by
            have := p.toNat_lt
            apply Classical.byContradiction
            intro hc
            have : p.toNat = 0xfd ∨ p.toNat = 0xfe ∨ p.toNat = 0xff := by omega
            rcases this with h | h | h
            · exact n1 (UInt8.toNat_inj.mp h)
            · exact n2 (UInt8.toNat_inj.mp h)
            · exact n3 (UInt8.toNat_inj.mp h)
          unfold putVarUint
          rw [if_pos hp]
          simp; omega

theorem varUint_tight : varUint.Tight := fun b v r h => readVarUint_tight b v r h

theorem varBytes_tight (max : Nat) : (varBytes max).Tight := by
  intro b v r h
  simp only [varBytes] at h
  split at h
  · simp at h
  · rename_i n r1 hr
    split at h
    · simp at h
    · obtain ⟨h1, h2⟩ := takeN_some h
      obtain ⟨t1, t2⟩ := readVarUint_tight _ _ _ hr
      subst h1 h2
      simp only [varBytes, List.length_append] at *
      constructor
      · omega
      · intro he
        have := t2 (by omega)
        rw [this]; simp

theorem bind_tight {α β : Type} {c₁ : Codec α} {f : α → Codec β} {K C : Nat} (t₁ : c₁.Tight) (t₂ : ∀ a, (f a).Tight) :
    (Codec.bind c₁ f K C).Tight := by
  intro b v r h
  simp only [Codec.bind] at h
  split at h
  · simp at h
  · rename_i a r1 h1
    split at h
    · simp at h
    · rename_i x r2 h2
      simp at h
      obtain ⟨rfl, rfl⟩ := h
      obtain ⟨a1, a2⟩ := t₁ _ _ _ h1
      obtain ⟨b1, b2⟩ := t₂ a _ _ _ h2
      simp only [Codec.bind, List.length_append]
      constructor
      · omega
      · intro he
        have e1 := a2 (by omega)
        have e2 := b2 (by omega)
        rw [e1, e2]; simp

theorem seq_tight {α β : Type} {c₁ : Codec α} {c₂ : Codec β} (t₁ : c₁.Tight) (t₂ : c₂.Tight) : (seq c₁ c₂).Tight :=
  bind_tight t₁ (fun _ => t₂)

/-- `map` keeps tightness when the decoded value is mapped back exactly (`g (f a) = a`, true for every tuple ↔
structure map of the models). -/
theorem map_tight {α β : Type} {c : Codec α} {f : α → β} {g : β → α} (t : c.Tight) (hg : ∀ a, g (f a) = a) :
    (map c f g).Tight := by
  intro b v r h
  simp only [map, Option.map_eq_some_iff] at h
  obtain ⟨⟨a, r'⟩, hd, he⟩ := h
  simp at he
  obtain ⟨rfl, rfl⟩ := he
  simp only [map, hg]
  exact t _ _ _ hd

theorem refine_tight {α : Type} {c : Codec α} {p : α → Bool} (t : c.Tight) : (refine c p).Tight := by
  intro b v r h
  simp only [refine] at h
  split at h
  · simp at h
  · rename_i v' r' hd
    split at h
    · simp at h
      obtain ⟨rfl, rfl⟩ := h
      exact t _ _ _ hd
    · simp at h

theorem decN_tight {α : Type} {c : Codec α} (t : c.Tight) : ∀ (n : Nat) (b : Bytes) (l : List α) (r : Bytes),
    decN c n b = some (l, r) →
      (encL c l).length + r.length ≤ b.length ∧ ((encL c l).length + r.length = b.length → b = encL c l ++ r) := by
  intro n
  induction n with
  | zero =>
    intro b l r h
    simp [decN] at h
    obtain ⟨rfl, rfl⟩ := h
    simp [encL]
  | succ n ih =>
    intro b l r h
    simp only [decN] at h
    split at h
    · simp at h
    · rename_i a r1 h1
      split at h
      · simp at h
      · rename_i as r2 h2
        simp at h
        obtain ⟨rfl, rfl⟩ := h
        obtain ⟨a1, a2⟩ := t _ _ _ h1
        obtain ⟨b1, b2⟩ := ih _ _ _ h2
        simp only [encL, List.length_append]
        constructor
        · omega
        · intro he
          have e1 := a2 (by omega)
          have e2 := b2 (by omega)
          rw [e1, e2]; simp

theorem decN_length {α : Type} {c : Codec α} : ∀ (n : Nat) (b : Bytes) (l : List α) (r : Bytes),
    decN c n b = some (l, r) → l.length = n := by
  intro n
  induction n with
  | zero => intro b l r h; simp [decN] at h; simp [h.1.symm]
  | succ n ih =>
    intro b l r h
    simp only [decN] at h
    split at h
    · simp at h
    · split at h
      · simp at h
      · rename_i as r2 h2
        simp at h
        obtain ⟨rfl, rfl⟩ := h
        simp [ih _ _ _ h2]

theorem array_tight {α : Type} {max slot : Nat} {c : Codec α} (t : c.Tight) : (array max slot c).Tight := by
  intro b v r h
  simp only [array] at h
  split at h
  · simp at h
  · rename_i n r1 hr
    split at h
    · simp at h
    · obtain ⟨t1, t2⟩ := readVarUint_tight _ _ _ hr
      obtain ⟨d1, d2⟩ := decN_tight t _ _ _ _ h
      have hl := decN_length _ _ _ _ h
      simp only [array, List.length_append, hl]
      constructor
      · omega
      · intro he
        have e1 := t2 (by omega)
        have e2 := d2 (by omega)
        rw [e1, e2]; simp

theorem witnessC_tight : witnessC.Tight :=
  map_tight (seq_tight (varBytes_tight _) (varBytes_tight _)) (fun _ => rfl)

theorem txWitnessesC_tight (ns : Nat) : (txWitnessesC ns).Tight := refine_tight (array_tight witnessC_tight)

end NeoModel.Wire
