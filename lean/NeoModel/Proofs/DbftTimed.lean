/-
C19 — timer arithmetic of dBFT as the validator machine computes it (Model/DbftMach.lean `baseTimeout`,
`roundTimeout`, `afterRequest`, `afterChangeView`, `extension`: dbft.go:141-159, send.go:50-53, 74-75,
check.go:46, dbft.go:747-751), with the durations symbolic, and the real-time reading of the synchronous
round: under message delay `δ` with `3δ < TimePerBlock` the only timer that fires in a round is the
primary's — one TimePerBlock after the PREVIOUS proposal (the block-time wait) — every validator's ledger
has the block within `3δ` of the proposal, and the next round starts from the same picture.
-/
import NeoModel.Model.DbftMach
namespace NeoModel.Dbft.Mach

theorem shl_eq (a k : Nat) : a <<< k = a * 2 ^ k := Nat.shiftLeft_eq a k

/-- the view timeout doubles with every view (dbft.go:150, send.go:75) -/
theorem view_timeout_doubles (tpb v : Nat) :
    baseTimeout tpb false v v = tpb * 2 ^ (v + 1) ∧
    baseTimeout tpb false (v + 1) (v + 1) = 2 * baseTimeout tpb false v v ∧
    afterChangeView tpb v = baseTimeout tpb false (v + 1) (v + 1) ∧
    afterChangeView tpb (v + 1) = 2 * afterChangeView tpb v := by
  simp only [baseTimeout, afterChangeView, shl_eq, Bool.false_eq_true, if_false]
  have e1 : tpb * 2 ^ (v + 1 + 1) = 2 * (tpb * 2 ^ (v + 1)) := by
    rw [Nat.pow_succ 2 (v + 1), Nat.mul_comm 2, Nat.mul_assoc]
  have e2 : tpb * 2 ^ (v + 1 + 2) = 2 * (tpb * 2 ^ (v + 2)) := by
    rw [show v + 1 + 2 = (v + 2) + 1 from rfl, Nat.pow_succ 2 (v + 2), Nat.mul_comm 2, Nat.mul_assoc]
  exact ⟨trivial, e1, trivial, e2⟩

/-- a primary of a later view starts at once; a primary of view 0 waits one block time (dbft.go:142-148) -/
theorem primary_timeouts (tpb v : Nat) :
    baseTimeout tpb true 0 0 = tpb ∧ baseTimeout tpb true (v + 1) (v + 1) = 0 ∧ afterRequest tpb 0 = tpb ∧
    afterRequest tpb (v + 1) = tpb * 2 ^ (v + 2) := by
  simp only [baseTimeout, afterRequest, shl_eq, if_true, beq_self_eq_true]
  refine ⟨trivial, by simp, by omega, by simp⟩

/-- the block-time wait: a primary whose dBFT is reset at `reset`, having started the previous round
(`lastBlockTime`) at `lb`, proposes at `lb + TimePerBlock` — the wait counts from the previous proposal -/
theorem primary_block_time_wait (tpb lb reset : Nat) (h1 : lb ≤ reset) (h2 : reset - lb ≤ tpb) :
    reset + roundTimeout tpb true 0 0 (some (some (reset - lb))) = lb + tpb := by
  simp only [roundTimeout, baseTimeout, if_true, beq_self_eq_true]
  omega

/-- … and a backup's view-0 deadline is two block times after the previous proposal reached it -/
theorem backup_round_deadline (tpb lb reset : Nat) (h1 : lb ≤ reset) (h2 : reset - lb ≤ 2 * tpb) :
    reset + roundTimeout tpb false 0 0 (some (some (reset - lb))) = lb + 2 * tpb := by
  simp only [roundTimeout, baseTimeout, shl_eq, Bool.false_eq_true, if_false]
  omega

/-- dbft.go:92-160 on the machine: when nothing is cached for the height, `initializeConsensus` arms the
timer with `roundTimeout` of the fresh context -/
theorem initConsensus_timer (k : W → Pl → W) (e : Env) (w : W) (view ts : Nat)
    (hc : (reset e w.nd view ts).cache.find? (fun x => x.1 == (reset e w.nd view ts).bi) = none) :
    let nd := reset e w.nd view ts
    (initConsensus k e w view ts).nd.timer =
      { h := nd.bi, v := nd.view, armed := true,
        dur := roundTimeout e.tpb (nd.isPrimary && !nd.recovering) view nd.view
          (if nd.lbIndex + 1 == nd.bi then some (nd.lbTime.map fun t => w.now - t) else none) } := by
  simp only [initConsensus, W.upd, stopTx, W.emit, hc, Option.map_none, changeTimer, Node.isPrimary]

/-! ### the synchronous round in real time -/

/-- what is known about one validator when a synchronous round starts: `lb` = its lastBlockTime (when the
previous round's PrepareRequest was sent/reached it), `reset` = when its ledger took the previous block -/
structure Clock where
  lb : Nat
  reset : Nat

/-- the previous round was proposed at `P0` and went through with delays ≤ δ -/
def Clock.ok (c : Clock) (P0 δ : Nat) : Prop := P0 ≤ c.lb ∧ c.lb ≤ P0 + δ ∧ c.lb ≤ c.reset ∧ c.reset ≤ P0 + 3 * δ

instance (c : Clock) (P0 δ : Nat) : Decidable (c.ok P0 δ) := by unfold Clock.ok; infer_instance

/-- the primary's timer: when it fires, the primary proposes -/
def proposalTime (tpb : Nat) (pr : Clock) : Nat :=
  pr.reset + roundTimeout tpb true 0 0 (some (some (pr.reset - pr.lb)))

/-- a backup's view-0 deadline, extensions not counted -/
def backupDeadline (tpb : Nat) (c : Clock) : Nat :=
  c.reset + roundTimeout tpb false 0 0 (some (some (c.reset - c.lb)))

/-- C19 (liveness under synchrony, with time bounds; one round). Message delay at most `δ`, `3δ <
TimePerBlock`, the previous round proposed at `P0` (every validator's clock `ok`). Then
(1) the primary proposes at `P1 = lb + TimePerBlock ∈ [P0 + tpb, P0 + tpb + δ]`, after everybody's ledger
    has the previous block;
(2) for a backup that receives the request at `tPR ≤ P1 + δ`, sends its Commit at `c ≤ P1 + 2δ` and has the
    block at `a ≤ P1 + 3δ`: its view timer (deadline `backupDeadline`, before any extension) has not fired
    when it commits, and the timer it arms when committing (`TimePerBlock`, check.go:46) has not fired when the
    block arrives — no ChangeView is sent;
(3) the primary's own timer after proposing (`afterRequest tpb 0 = tpb`) does not fire before it has the block;
(4) the next round starts from the same picture: the new clocks are `ok` for `P1`. -/
theorem sync_round_timed (tpb δ P0 : Nat) (hδ : 3 * δ < tpb) (pr : Clock) (hpr : pr.ok P0 δ) :
    let P1 := proposalTime tpb pr
    P1 = pr.lb + tpb ∧ P0 + tpb ≤ P1 ∧ P1 ≤ P0 + tpb + δ ∧
    (∀ b : Clock, b.ok P0 δ → b.reset < P1) ∧
    (∀ (b : Clock) (tPR c a : Nat), b.ok P0 δ → P1 ≤ tPR → tPR ≤ P1 + δ → tPR ≤ c → c ≤ P1 + 2 * δ → c ≤ a →
        a ≤ P1 + 3 * δ →
        c < backupDeadline tpb b ∧ a < c + tpb ∧ (Clock.mk tPR a).ok P1 δ) ∧
    (∀ a : Nat, P1 ≤ a → a ≤ P1 + 3 * δ → a < P1 + afterRequest tpb 0 ∧ (Clock.mk P1 a).ok P1 δ) := by
  obtain ⟨h1, h2, h3, h4⟩ := hpr
  have hP1 : proposalTime tpb pr = pr.lb + tpb := primary_block_time_wait tpb pr.lb pr.reset h3 (by omega)
  simp only [hP1]
  refine ⟨trivial, by omega, by omega, ?_, ?_, ?_⟩
  · intro b hb
    obtain ⟨_, _, _, hb4⟩ := hb
    omega
  · intro b tPR c a hb q1 q2 q3 q4 q5 q6
    obtain ⟨b1, b2, b3, b4⟩ := hb
    have hd : backupDeadline tpb b = b.lb + 2 * tpb := backup_round_deadline tpb b.lb b.reset b3 (by omega)
    rw [hd]
    refine ⟨by omega, by omega, ?_⟩
    simp only [Clock.ok]
    omega
  · intro a q1 q2
    have := (primary_timeouts tpb 0).2.2.1
    rw [this]
    refine ⟨by omega, ?_⟩
    simp only [Clock.ok]
    omega

/-- C19 (blocks keep being produced, with a rate): the proposal times of consecutive synchronous rounds are
one TimePerBlock (+ at most δ) apart, so after `k` rounds the `k`-th block is on every ledger no later than
`P 0 + k·(tpb + δ) + 3δ`, and no earlier than `P 0 + k·tpb` -/
theorem sync_rounds_timed (tpb δ : Nat) (P : Nat → Nat)
    (hstep : ∀ r, P r + tpb ≤ P (r + 1) ∧ P (r + 1) ≤ P r + tpb + δ) (k : Nat) :
    P 0 + k * tpb ≤ P k ∧ P k + 3 * δ ≤ P 0 + k * (tpb + δ) + 3 * δ := by
  induction k with
  | zero => simp
  | succ k ih =>
    obtain ⟨a, b⟩ := hstep k
    obtain ⟨c, d⟩ := ih
    rw [Nat.add_mul, Nat.add_mul]
    constructor <;> omega

-- non-vacuity: TimePerBlock 15 s, δ = 1 s, previous proposal at t = 100 s; the primary got the previous block
-- at 102 s, a backup saw the previous request at 101 s and the block at 103 s
example : (Clock.mk 100 102).ok 100 1 ∧ (Clock.mk 101 103).ok 100 1 ∧ proposalTime 15 ⟨100, 102⟩ = 115 ∧
    backupDeadline 15 ⟨101, 103⟩ = 131 := by decide

end NeoModel.Dbft.Mach
