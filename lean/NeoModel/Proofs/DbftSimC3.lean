/- C19 simulation, part C3: counting slots, learning what is true, and sending a Commit. -/
import NeoModel.Proofs.DbftSimC2
namespace NeoModel.Dbft
/-- make a list of items known to `i`, each either known already or deliverable -/
theorem ext_get_all (c : Cfg) (i : Nat) (S : List Item) (s : State)
    (h : ∀ it ∈ S, it ∈ (s.nodes i).known ∨ (i, Msg.item it) ∈ s.net) :
    ∃ s', SimExt c i s s' ∧ (∀ it ∈ S, it ∈ (s'.nodes i).known) ∧
      (s'.nodes i).height = (s.nodes i).height ∧ (s'.nodes i).view = (s.nodes i).view ∧
      (s'.nodes i).chain = (s.nodes i).chain ∧ (s'.nodes i).myPreps = (s.nodes i).myPreps ∧
      (s'.nodes i).myCommits = (s.nodes i).myCommits := by
  induction S generalizing s with
  | nil => exact ⟨s, SimExt.refl c i s, by simp, rfl, rfl, rfl, rfl, rfl⟩
  | cons a rest ih =>
    have step1 : ∃ s1, SimExt c i s s1 ∧ a ∈ (s1.nodes i).known ∧
        (s1.nodes i).height = (s.nodes i).height ∧ (s1.nodes i).view = (s.nodes i).view ∧
        (s1.nodes i).chain = (s.nodes i).chain ∧ (s1.nodes i).myPreps = (s.nodes i).myPreps ∧
        (s1.nodes i).myCommits = (s.nodes i).myCommits := by
      rcases h a (by simp) with hk | hn
      · exact ⟨s, SimExt.refl c i s, hk, rfl, rfl, rfl, rfl, rfl⟩
      · obtain ⟨s1, e1, k1, _, h1, v1, c1, p1, m1⟩ := ext_learn c s i a hn
        exact ⟨s1, e1, k1, h1, v1, c1, p1, m1⟩
    obtain ⟨s1, e1, k1, h1, v1, c1, p1, m1⟩ := step1
    obtain ⟨s2, e2, k2, h2, v2, c2, p2, m2⟩ := ih s1 (by
      intro it hit
      rcases h it (by simp [hit]) with hk | hn
      · exact Or.inl (e1.known _ _ hk)
      · exact Or.inr (e1.net _ hn))
    refine ⟨s2, e1.trans e2, ?_, by rw [h2, h1], by rw [v2, v1], by rw [c2, c1], by rw [p2, p1], by rw [m2, m1]⟩
    intro it hit
    rcases List.mem_cons.mp hit with rfl | hit
    · exact e2.known _ _ k1
    · exact k2 it hit
end NeoModel.Dbft

namespace NeoModel.Dbft.Mach
open NeoModel.Dbft

theorem filter_le_range' (l : List (Option Pl)) (f : Option Pl → Bool) (g : Nat → Bool) (off : Nat)
    (h : ∀ k s, l[k]? = some s → f s = true → g (off + k) = true) :
    (l.filter f).length ≤ ((List.range' off l.length).filter g).length := by
  induction l generalizing off with
  | nil => simp
  | cons a t ih =>
    have iht := ih (off + 1) (by
      intro k s hk hf
      have := h (k + 1) s (by simpa using hk) hf
      rw [show off + 1 + k = off + (k + 1) by omega]; exact this)
    simp only [List.length_cons, List.range'_succ, List.filter_cons]
    by_cases hfa : f a = true
    · have hg : g off = true := by simpa using h 0 a (by simp) hfa
      simp only [hfa, hg, if_true, List.length_cons]
      omega
    · simp only [hfa, Bool.false_eq_true, if_false]
      split
      · simp only [List.length_cons]; omega
      · exact iht

/-- slots that pass a test are at most the validators that pass a test implied by it -/
theorem filter_le_countP (l : List (Option Pl)) (f : Option Pl → Bool) (g : Nat → Bool) (hf : f none = false)
    (h : ∀ j m, slot l j = some m → f (some m) = true → g j = true) :
    (l.filter f).length ≤ countP l.length g := by
  unfold countP
  rw [List.range_eq_range']
  apply filter_le_range' l f g 0
  intro k s hk hfs
  cases s with
  | none => rw [hf] at hfs; cases hfs
  | some m => simpa using h k m (slot_eq_some.mpr hk) hfs

/-- the relation survives an extension that leaves the validator's own abstract node where it is -/
theorem Good.ext_same {e : Env} {as as' : State} {i : Nat} {w : W} (h : Good e as i w) (x : SimExt (cfgOf e) i as as')
    (hh : (as'.nodes i).height = (as.nodes i).height) (hv : (as'.nodes i).view = (as.nodes i).view)
    (hc : (as'.nodes i).chain = (as.nodes i).chain) (hp : (as'.nodes i).myPreps = (as.nodes i).myPreps)
    (hm : (as'.nodes i).myCommits = (as.nodes i).myCommits) : Good e as' i w :=
  ⟨h.g.ext x, h.rn.mono x hh hv hc hp hm, fun pl hpl => (h.outs pl hpl).ext x, h.blk, h.st, h.lt⟩

/-- a machine that is started and has not handed a block to its ledger works on its abstract node's height and view -/
theorem Good.synced {e : Env} {as : State} {i : Nat} {w : W} (h : Good e as i w) (hb : w.nd.blockProcessed = false) :
    w.nd.bi = (as.nodes i).height ∧ w.nd.view = (as.nodes i).view ∧
    ((∃ b ∈ (as.nodes i).myPreps, b.h = w.nd.bi ∧ b.v = w.nd.view) → w.nd.requestSOR = true ∧ w.nd.responseSent = true) ∧
    ((∃ b ∈ (as.nodes i).myCommits, b.h = w.nd.bi) → w.nd.commitSent = true) := by
  rcases h.rn.phase with h1 | h2 | h3
  · exact h1
  · rw [hb] at h2; cases h2.1
  · exact absurd h3.1 h.st

/-- whoever prepared something at the machine's height and view prepared the block of the request it holds -/
theorem prepared_is_request {e : Env} {as : State} {j h v p : Nat} (g : G e as)
    (hreq : (⟨h, v, p⟩ : Block) ∈ (as.nodes (e.primary h v)).myPreps) (hj : PreparedAt as j h v) :
    (⟨h, v, p⟩ : Block) ∈ (as.nodes j).myPreps := by
  have inv := inv_reachable (cfgOf e) as g.1
  obtain ⟨b', hb', hh, hv⟩ := hj
  have hf := inv.prepFollows j b' hb'
  have hprim : (cfgOf e).primary b'.h b'.v = e.primary h v := by rw [hh, hv]; rfl
  rw [hprim] at hf
  have := inv.prepUniq (e.primary h v) b' ⟨h, v, p⟩ hf hreq hh hv
  rw [← this]; exact hb'

end NeoModel.Dbft.Mach
