/-
Helper lemmas for C02, `reset_equals_sync`: the canonical content of a node that has only added canonical
headers/blocks (`FInv`), the exact effect of every reset stage on each API-visible key class, transfer-log
truncation, conflict records. Core Lean only.
-/
import NeoModel.Proofs.PersistReset
namespace NeoModel.Persist

/-! ### canonical content of a node that synchronised h blocks -/

def lookupItem (it : List (Nat × Nat)) (k : Nat) : Option Nat := (it.find? (fun p => p.1 == k)).map (·.2)

theorem find?_filter_ne (it : List (Nat × Nat)) (k k' : Nat) (h : k' ≠ k) :
    (it.filter (fun p => p.1 != k)).find? (fun p => p.1 == k') = it.find? (fun p => p.1 == k') := by
  induction it with
  | nil => rfl
  | cons p r ih =>
    by_cases e : p.1 = k
    · have : (p.1 != k) = false := by simp [e]
      simp only [List.filter_cons, this]
      have : (p.1 == k') = false := by simp [e]; exact fun x => h x.symm
      simp [List.find?_cons, this, ih]
    · have : (p.1 != k) = true := by simp [e]
      simp only [List.filter_cons, this, if_true, List.find?_cons, ih]

theorem lookupItem_setItem (it : List (Nat × Nat)) (k : Nat) (v : Option Nat) (k' : Nat) :
    lookupItem (setItem it k v) k' = if k' = k then v else lookupItem it k' := by
  unfold lookupItem setItem
  by_cases e : k' = k
  · subst e
    cases v with
    | some x => simp [List.find?_cons]
    | none =>
      simp only [if_true]
      have : (it.filter (fun p => p.1 != k')).find? (fun p => p.1 == k') = none := by
        rw [List.find?_eq_none]; intro p hp; simp at hp; simpa using hp.2
      simp [this]
  · cases v with
    | some x =>
      have : ((k, x).1 == k') = false := by simp; exact fun h => e h.symm
      simp [List.find?_cons, this, e, find?_filter_ne it k k' e]
    | none => simp [e, find?_filter_ne it k k' e]

/-- the flat contract storage follows the in-memory state through a block's changes. -/
theorem stor_sync (p : Bool) (e : List (Nat × Option Nat)) :
    ∀ (v : Db) (it : List (Nat × Nat)), (∀ k, v (Key.stor p k) = (lookupItem it k).map Val.item) →
    ∀ k, applyWrites (e.map (fun q => (Key.stor p q.1, q.2.map Val.item))) v (Key.stor p k) = (lookupItem (applyEff e it) k).map Val.item := by
  induction e with
  | nil => intro v it h k; exact h k
  | cons q r ih =>
    intro v it h k
    obtain ⟨kq, vq⟩ := q
    simp only [List.map_cons, applyWrites, applyEff]
    apply ih
    intro k'
    rw [lookupItem_setItem]
    by_cases e : k' = kq
    · subst e; simp [Db.set]
    · simp [Db.set, e, h k']

theorem stor_other (p : Bool) (e : List (Nat × Option Nat)) (v : Db) (k : Key) (h : ∀ q, k ≠ Key.stor p q) :
    applyWrites (e.map (fun q => (Key.stor p q.1, q.2.map Val.item))) v k = v k := by
  apply applyWrites_notin
  intro x hx
  simp only [List.mem_map] at hx
  obtain ⟨q, _, rfl⟩ := hx
  exact fun e => h _ e.symm

/-- transfer log of account a at height h. -/
def logAt (H : Hist) : Nat → Nat → Option Val
  | 0, a => if a ∈ H.touched 0 then some (appendLog none 0) else none
  | h + 1, a => if a ∈ H.touched (h + 1) then some (appendLog (logAt H h a) (h + 1)) else logAt H h a

/-- conflict record of hash c at height h. -/
def stubAt (H : Hist) : Nat → Nat → Option Val
  | 0, c => if c ∈ (H.confl 0).map (·.1) then some (Val.stubv 0) else none
  | h + 1, c => if c ∈ (H.confl (h + 1)).map (·.1) then some (Val.stubv (h + 1)) else stubAt H h c

theorem xfer_lookup (view : Db) (h : Nat) (l : List Nat) (v : Db) (a : Nat) :
    applyWrites (xferWrites view h l) v (Key.xlog a) = if a ∈ l then some (appendLog (view (Key.xlog a)) h) else v (Key.xlog a) := by
  induction l generalizing v with
  | nil => simp [xferWrites, applyWrites]
  | cons b r ih =>
    simp only [xferWrites, applyWrites]
    rw [ih]
    by_cases e : a = b
    · subst e
      by_cases m : a ∈ r
      · simp [m]
      · simp [m, Db.set]
    · by_cases m : a ∈ r
      · simp [m, e]
      · simp [m, e, Db.set]

theorem stub_lookup (h : Nat) (l : List (Nat × Nat)) (v : Db) (c : Nat) :
    applyWrites (l.flatMap (fun p => [(Key.stub p.1, some (Val.stubv h)), (Key.stubSig p.1 p.2, some (Val.stubv h))])) v (Key.stub c)
      = if c ∈ l.map (·.1) then some (Val.stubv h) else v (Key.stub c) := by
  induction l generalizing v with
  | nil => simp [applyWrites]
  | cons p r ih =>
    simp only [List.flatMap_cons, List.cons_append, List.nil_append, applyWrites]
    rw [ih]
    by_cases e : c = p.1
    · subst e
      by_cases m : p.1 ∈ r.map (·.1)
      · simp [m]
      · simp [m, Db.set]
    · by_cases m : c ∈ r.map (·.1)
      · simp [m]
      · simp [m, e, Db.set]

theorem tx_lookup (h n : Nat) (v : Db) (i j : Nat) :
    applyWrites ((List.range n).map (fun x => (Key.tx h x, some (Val.txv h)))) v (Key.tx i j)
      = if i = h ∧ j < n then some (Val.txv h) else v (Key.tx i j) := by
  by_cases c : i = h ∧ j < n
  · obtain ⟨rfl, hj⟩ := c
    rw [if_pos ⟨rfl, hj⟩]
    apply applyWrites_const
    · intro p hp _; simp only [List.mem_map] at hp; obtain ⟨x, _, rfl⟩ := hp; rfl
    · exact ⟨(Key.tx i j, some (Val.txv i)), by simp [List.mem_map]; exact hj, rfl⟩
  · rw [if_neg c]
    apply applyWrites_notin
    intro p hp e
    simp only [List.mem_map, List.mem_range] at hp
    obtain ⟨x, hx, rfl⟩ := hp
    simp at e
    exact c ⟨e.1.symm, e.2 ▸ hx⟩


theorem xfer_other (view : Db) (h : Nat) (l : List Nat) (v : Db) (k : Key) (h1 : ∀ a, k ≠ Key.xlog a) (h2 : ∀ a, k ≠ Key.xinfo a) :
    applyWrites (xferWrites view h l) v k = v k := by
  apply applyWrites_notin
  intro p hp e
  rcases mem_xferWrites hp with ⟨a, ha⟩ | ⟨a, ha⟩
  · exact h1 a (e ▸ ha)
  · exact h2 a (e ▸ ha)

theorem stub_other (h : Nat) (l : List (Nat × Nat)) (v : Db) (k : Key) (h1 : ∀ c, k ≠ Key.stub c) (h2 : ∀ c s, k ≠ Key.stubSig c s) :
    applyWrites (l.flatMap (fun p => [(Key.stub p.1, some (Val.stubv h)), (Key.stubSig p.1 p.2, some (Val.stubv h))])) v k = v k := by
  apply applyWrites_notin
  intro p hp e
  simp only [List.mem_flatMap, List.mem_cons, List.not_mem_nil, or_false] at hp
  obtain ⟨q, _, rfl | rfl⟩ := hp
  · exact h1 _ e.symm
  · exact h2 _ _ e.symm

theorem tx_other (h n : Nat) (v : Db) (k : Key) (h1 : ∀ i j, k ≠ Key.tx i j) :
    applyWrites ((List.range n).map (fun x => (Key.tx h x, some (Val.txv h)))) v k = v k := by
  apply applyWrites_notin
  intro p hp e
  simp only [List.mem_map] at hp
  obtain ⟨x, _, rfl⟩ := hp
  exact h1 _ _ e.symm

/-- what a block leaves under every API-visible key class. -/
theorem block_content (H : Hist) (pfx : Bool) (view : Db) (it : List (Nat × Nat)) (h : Nat) (v : Db) (it0 : List (Nat × Nat))
    (hsto : ∀ k, v (Key.stor pfx k) = (lookupItem it0 k).map Val.item) (hit : it = applyEff (H.eff h) it0) :
    let v' := applyWrites (blockWrites H pfx view it h) v
    (∀ i j, v' (Key.tx i j) = if i = h ∧ j < H.ntx h then some (Val.txv h) else v (Key.tx i j)) ∧
    (∀ c, v' (Key.stub c) = if c ∈ (H.confl h).map (·.1) then some (Val.stubv h) else v (Key.stub c)) ∧
    (∀ k, v' (Key.stor pfx k) = (lookupItem it k).map Val.item) ∧
    (∀ k, v' (Key.stor (!pfx) k) = v (Key.stor (!pfx) k)) ∧
    (∀ a, v' (Key.xlog a) = if a ∈ H.touched h then some (appendLog (view (Key.xlog a)) h) else v (Key.xlog a)) ∧
    (∀ i, i ≠ h → v' (Key.exec i) = v (Key.exec i)) ∧
    (∀ i, i ≠ h → v' (Key.trie i) = v (Key.trie i)) := by
  intro v'
  have hv' : v' = applyWrites [(Key.trie h, some (Val.snap it)), (Key.root h, some (Val.rootv (H.hashOf it))), (Key.mptLocal, some (Val.ptr h)), (Key.curBlock, some (Val.ptr h))]
      (applyWrites (xferWrites view h (H.touched h))
        (applyWrites ((H.eff h).map (fun p => (Key.stor pfx p.1, p.2.map Val.item)))
          (applyWrites ((H.confl h).flatMap (fun p => [(Key.stub p.1, some (Val.stubv h)), (Key.stubSig p.1 p.2, some (Val.stubv h))]))
            (applyWrites ((List.range (H.ntx h)).map (fun i => (Key.tx h i, some (Val.txv h))))
              (applyWrites [(Key.exec h, some (Val.blk h))] v))))) := by
    simp only [v', blockWrites, applyWrites_append]
  have tail : ∀ (d : Db) (k : Key), k ≠ Key.trie h → k ≠ Key.root h → k ≠ Key.mptLocal → k ≠ Key.curBlock →
      applyWrites [(Key.trie h, some (Val.snap it)), (Key.root h, some (Val.rootv (H.hashOf it))), (Key.mptLocal, some (Val.ptr h)), (Key.curBlock, some (Val.ptr h))] d k = d k := by
    intro d k h1 h2 h3 h4
    simp [applyWrites, Db.set, h1, h2, h3, h4]
  have head : ∀ (k : Key), k ≠ Key.exec h → applyWrites [(Key.exec h, some (Val.blk h))] v k = v k := by
    intro k hk; simp [applyWrites, Db.set, hk]
  refine ⟨?_, ?_, ?_, ?_, ?_, ?_, ?_⟩
  · intro i j
    rw [hv', tail _ _ (by simp) (by simp) (by simp) (by simp), xfer_other _ _ _ _ _ (by simp) (by simp),
      stor_other _ _ _ _ (by simp), stub_other _ _ _ _ (by simp) (by simp), tx_lookup, head _ (by simp)]
  · intro c
    rw [hv', tail _ _ (by simp) (by simp) (by simp) (by simp), xfer_other _ _ _ _ _ (by simp) (by simp),
      stor_other _ _ _ _ (by simp), stub_lookup, tx_other _ _ _ _ (by simp), head _ (by simp)]
  · intro k
    rw [hv', tail _ _ (by simp) (by simp) (by simp) (by simp), xfer_other _ _ _ _ _ (by simp) (by simp), hit]
    apply stor_sync
    intro k'
    rw [stub_other _ _ _ _ (by simp) (by simp), tx_other _ _ _ _ (by simp), head _ (by simp)]
    exact hsto k'
  · intro k
    rw [hv', tail _ _ (by simp) (by simp) (by simp) (by simp), xfer_other _ _ _ _ _ (by simp) (by simp),
      stor_other _ _ _ _ (by intro q e; simp at e), stub_other _ _ _ _ (by simp) (by simp), tx_other _ _ _ _ (by simp), head _ (by simp)]
  · intro a
    rw [hv', tail _ _ (by simp) (by simp) (by simp) (by simp), xfer_lookup]
    rw [stor_other _ _ _ _ (by simp), stub_other _ _ _ _ (by simp) (by simp), tx_other _ _ _ _ (by simp), head _ (by simp)]
  · intro i hi
    rw [hv', tail _ _ (by simp) (by simp) (by simp) (by simp), xfer_other _ _ _ _ _ (by simp) (by simp),
      stor_other _ _ _ _ (by simp), stub_other _ _ _ _ (by simp) (by simp), tx_other _ _ _ _ (by simp), head _ (by simp; exact hi)]
  · intro i hi
    rw [hv', tail _ _ (by simp; exact hi) (by simp) (by simp) (by simp), xfer_other _ _ _ _ _ (by simp) (by simp),
      stor_other _ _ _ _ (by simp), stub_other _ _ _ _ (by simp) (by simp), tx_other _ _ _ _ (by simp), head _ (by simp)]


/-- everything the API can see, for a node that has only ever added canonical headers and blocks. -/
structure FInv (H : Hist) (n : Node) : Prop where
  exb : ∀ i, i ≤ n.height → n.view (Key.exec i) = some (Val.blk i)
  exh : ∀ i, n.height < i → n.view (Key.exec i) = if i ≤ n.hdrHeight then some (Val.hdr i) else none
  txs : ∀ i j, n.view (Key.tx i j) = if i ≤ n.height ∧ j < H.ntx i then some (Val.txv i) else none
  rts : ∀ i, n.height < i → n.view (Key.root i) = none
  tri : ∀ i, i ≤ n.height → n.view (Key.trie i) = some (Val.snap (itemsAt H i))
  sto : ∀ k, n.view (Key.stor n.pfx k) = (lookupItem n.items k).map Val.item
  sto' : ∀ k, n.view (Key.stor (!n.pfx) k) = none
  stb : ∀ c, n.view (Key.stub c) = stubAt H n.height c
  xlg : ∀ a, n.view (Key.xlog a) = logAt H n.height a
  sp : n.view Key.syncPoint = none

theorem hdrs_exec_exact {B lo hi : Nat} (w : Writes) (hw : ∀ p ∈ w, HdrKey B lo hi p)
    (hcov : ∀ i, lo < i → i ≤ hi → (Key.exec i, some (Val.hdr i)) ∈ w) (v : Db) (i : Nat) :
    applyWrites w v (Key.exec i) = if lo < i ∧ i ≤ hi then some (Val.hdr i) else v (Key.exec i) := by
  by_cases c : lo < i ∧ i ≤ hi
  · rw [if_pos c]
    apply applyWrites_const
    · intro p hp e
      cases hw p hp with
      | exec j _ _ => simp at e; subst e; rfl
      | page j _ _ _ => simp at e
    · exact ⟨_, hcov i c.1 c.2, rfl⟩
  · rw [if_neg c]
    apply applyWrites_notin
    intro p hp e
    cases hw p hp with
    | exec j h1 h2 => simp at e; subst e; exact c ⟨h1, h2⟩
    | page j _ _ _ => simp at e

theorem hdrs_other {B lo hi : Nat} (w : Writes) (hw : ∀ p ∈ w, HdrKey B lo hi p) (v : Db) (k : Key)
    (h1 : ∀ i, k ≠ Key.exec i) (h2 : ∀ q, k ≠ Key.page q) : applyWrites w v k = v k := by
  apply applyWrites_notin
  intro p hp e
  cases hw p hp with
  | exec j _ _ => exact h1 j e.symm
  | page j _ _ _ => exact h2 _ e.symm

theorem finv_flush {H n} (h : FInv H n) : FInv H { n with db := applyWrites n.cache n.db, cache := [] } := by
  have hv : Node.view { n with db := applyWrites n.cache n.db, cache := [] } = n.view := by simp [Node.view, applyWrites]
  exact ⟨by rw [hv]; exact h.exb, by rw [hv]; exact h.exh, by rw [hv]; exact h.txs, by rw [hv]; exact h.rts, by rw [hv]; exact h.tri,
    by rw [hv]; exact h.sto, by rw [hv]; exact h.sto', by rw [hv]; exact h.stb, by rw [hv]; exact h.xlg, by rw [hv]; exact h.sp⟩

theorem finv_headers {H B n} (hi : Inv H B n) (h : FInv H n) (upTo : Nat) (hgt : n.hdrHeight < upTo) :
    FInv H { n with cache := n.cache ++ (headersRange B n.hdrHeight (upTo - n.hdrHeight) ++ [(Key.curHeader, some (Val.ptr upTo))]), hdrHeight := upTo } := by
  have hup : n.hdrHeight + (upTo - n.hdrHeight) = upTo := by omega
  have hv : Node.view { n with cache := n.cache ++ (headersRange B n.hdrHeight (upTo - n.hdrHeight) ++ [(Key.curHeader, some (Val.ptr upTo))]), hdrHeight := upTo }
      = (applyWrites (headersRange B n.hdrHeight (upTo - n.hdrHeight)) n.view).set Key.curHeader (some (Val.ptr upTo)) := by
    simp [Node.view, applyWrites_append, applyWrites]
  have hk : ∀ p ∈ headersRange B n.hdrHeight (upTo - n.hdrHeight), HdrKey B n.hdrHeight upTo p :=
    fun p hp => by have := mem_headersRange hp; rwa [hup] at this
  have hex := hdrs_exec_exact _ hk (fun i h1 h2 => headersRange_exec _ _ _ _ h1 (by omega)) n.view
  have hot := hdrs_other _ hk n.view
  have hle := hi.le
  refine ⟨?_, ?_, ?_, ?_, ?_, ?_, ?_, ?_, ?_, ?_⟩
  · intro i hi'
    rw [hv, Db.set_other _ _ (by simp), hex]
    have : ¬ (n.hdrHeight < i ∧ i ≤ upTo) := by have : i ≤ n.height := hi'; omega
    rw [if_neg this]; exact h.exb i hi'
  · intro i hi'
    have hi'' : n.height < i := hi'
    rw [hv, Db.set_other _ _ (by simp), hex]
    show _ = if i ≤ upTo then _ else _
    by_cases c : n.hdrHeight < i ∧ i ≤ upTo
    · rw [if_pos c, if_pos c.2]
    · rw [if_neg c, h.exh i hi'']
      by_cases c2 : i ≤ n.hdrHeight
      · rw [if_pos c2, if_pos (by omega)]
      · rw [if_neg c2, if_neg (by omega)]
  · intro i j; rw [hv, Db.set_other _ _ (by simp), hot _ (by simp) (by simp)]; exact h.txs i j
  · intro i hi'; rw [hv, Db.set_other _ _ (by simp), hot _ (by simp) (by simp)]; exact h.rts i hi'
  · intro i hi'; rw [hv, Db.set_other _ _ (by simp), hot _ (by simp) (by simp)]; exact h.tri i hi'
  · intro k; rw [hv, Db.set_other _ _ (by simp), hot _ (by simp) (by simp)]; exact h.sto k
  · intro k; rw [hv, Db.set_other _ _ (by simp), hot _ (by simp) (by simp)]; exact h.sto' k
  · intro c; rw [hv, Db.set_other _ _ (by simp), hot _ (by simp) (by simp)]; exact h.stb c
  · intro a; rw [hv, Db.set_other _ _ (by simp), hot _ (by simp) (by simp)]; exact h.xlg a
  · rw [hv, Db.set_other _ _ (by simp), hot _ (by simp) (by simp)]; exact h.sp


theorem hw_other (B h : Nat) (c : Prop) [Decidable c] (v : Db) (k : Key)
    (h1 : k ≠ Key.exec h) (h2 : ∀ q, k ≠ Key.page q) (h3 : k ≠ Key.curHeader) :
    applyWrites (if c then headerWrites B h ++ [(Key.curHeader, some (Val.ptr h))] else ([] : Writes)) v k = v k := by
  apply applyWrites_notin
  intro p hp e
  split at hp
  · rcases List.mem_append.mp hp with hp | hp
    · simp only [headerWrites, List.mem_cons] at hp
      rcases hp with rfl | hp
      · exact h1 e.symm
      · split at hp
        · simp at hp; subst hp; exact h2 _ e.symm
        · simp at hp
    · simp at hp; subst hp; exact h3 e.symm
  · simp at hp

theorem finv_block {H B n} (hi : Inv H B n) (h : FInv H n) : FInv H (step H B n .block).1 := by
  generalize hhw : (if n.height + 1 = n.hdrHeight + 1 then headerWrites B (n.height + 1) ++ [(Key.curHeader, some (Val.ptr (n.height + 1)))] else ([] : Writes)) = hw
  have hv : (step H B n .block).1.view
      = applyWrites (blockWrites H n.pfx (applyWrites hw n.view) (applyEff (H.eff (n.height + 1)) n.items) (n.height + 1)) (applyWrites hw n.view) := by
    rw [view_ext n (step H B n .block).1 (hw ++ blockWrites H n.pfx (applyWrites hw n.view) (applyEff (H.eff (n.height + 1)) n.items) (n.height + 1)) rfl (by subst hhw; rfl)]
    rw [applyWrites_append]
  have hh : (step H B n .block).1.height = n.height + 1 := rfl
  have hhd : (step H B n .block).1.hdrHeight = max n.hdrHeight (n.height + 1) := rfl
  have hit : (step H B n .block).1.items = applyEff (H.eff (n.height + 1)) n.items := rfl
  have hpf : (step H B n .block).1.pfx = n.pfx := rfl
  have v1 : ∀ k, k ≠ Key.exec (n.height + 1) → (∀ q, k ≠ Key.page q) → k ≠ Key.curHeader → applyWrites hw n.view k = n.view k := by
    intro k h1 h2 h3; subst hhw; exact hw_other B _ _ _ k h1 h2 h3
  obtain ⟨c1, c2, c3, c4, c5, c6, c7⟩ := block_content H n.pfx (applyWrites hw n.view) (applyEff (H.eff (n.height + 1)) n.items) (n.height + 1)
    (applyWrites hw n.view) n.items (fun k => by rw [v1 _ (by simp) (by simp) (by simp)]; exact h.sto k) rfl
  obtain ⟨b1, b2, b3, b4, b5, b6, b7, b8, b9⟩ := block_effect H n.pfx (applyWrites hw n.view) (applyEff (H.eff (n.height + 1)) n.items) (n.height + 1) (applyWrites hw n.view)
  have hle := hi.le
  refine ⟨?_, ?_, ?_, ?_, ?_, ?_, ?_, ?_, ?_, ?_⟩
  · intro i hi'
    rw [hh] at hi'
    rw [hv]
    by_cases c : i = n.height + 1
    · subst c; exact block_exec _ _ _ _ _ _
    · rw [c6 i c, v1 _ (by simp; exact c) (by simp) (by simp)]; exact h.exb i (by omega)
  · intro i hi'
    rw [hh] at hi'
    rw [hv, c6 i (by omega), v1 _ (by simp; omega) (by simp) (by simp), h.exh i (by omega), hhd]
    by_cases c : i ≤ n.hdrHeight
    · rw [if_pos c, if_pos (by omega)]
    · rw [if_neg c, if_neg (by omega)]
  · intro i j
    rw [hv, c1, v1 _ (by simp) (by simp) (by simp), h.txs, hh]
    by_cases c : i = n.height + 1
    · subst c
      by_cases d : j < H.ntx (n.height + 1)
      · simp [d]
      · simp [d]
    · have e1 : ¬ (i = n.height + 1 ∧ j < H.ntx (n.height + 1)) := fun x => c x.1
      rw [if_neg e1]
      by_cases d : i ≤ n.height ∧ j < H.ntx i
      · rw [if_pos d, if_pos ⟨by omega, d.2⟩]
      · rw [if_neg d, if_neg (fun x => d ⟨by omega, x.2⟩)]
  · intro i hi'
    rw [hh] at hi'
    rw [hv, b8 i (by omega), v1 _ (by simp) (by simp) (by simp)]; exact h.rts i (by omega)
  · intro i hi'
    rw [hh] at hi'
    rw [hv]
    by_cases c : i = n.height + 1
    · subst c; rw [b3, itemsAt_succ, hi.it]
    · rw [c7 i c, v1 _ (by simp) (by simp) (by simp)]; exact h.tri i (by omega)
  · intro k; rw [hv, hpf, hit]; exact c3 k
  · intro k; rw [hv, hpf, c4, v1 _ (by simp) (by simp) (by simp)]; exact h.sto' k
  · intro c
    rw [hv, c2, v1 _ (by simp) (by simp) (by simp), h.stb, hh]; rfl
  · intro a
    rw [hv, c5, v1 _ (by simp) (by simp) (by simp), h.xlg, hh]; rfl
  · rw [hv]
    have : applyWrites (blockWrites H n.pfx (applyWrites hw n.view) (applyEff (H.eff (n.height + 1)) n.items) (n.height + 1)) (applyWrites hw n.view) Key.syncPoint
        = applyWrites hw n.view Key.syncPoint := by
      apply applyWrites_notin
      intro p hp e
      cases mem_blockWrites hp <;> simp at e
    rw [this, v1 _ (by simp) (by simp) (by simp)]; exact h.sp


theorem finv_fresh (H : Hist) : FInv H (fresh H) := by
  have hv : (fresh H).view = applyWrites (blockWrites H false (applyWrites [(Key.version, some (Val.ver false)), (Key.curHeader, some (Val.ptr 0))] Db.empty) (itemsAt H 0) 0)
      (applyWrites [(Key.version, some (Val.ver false)), (Key.curHeader, some (Val.ptr 0))] Db.empty) := by
    show applyWrites ([(Key.version, some (Val.ver false)), (Key.curHeader, some (Val.ptr 0))] ++ _) Db.empty = _
    rw [applyWrites_append]
  have v0 : ∀ k, k ≠ Key.version → k ≠ Key.curHeader → applyWrites [(Key.version, some (Val.ver false)), (Key.curHeader, some (Val.ptr 0))] Db.empty k = none := by
    intro k h1 h2; simp [applyWrites, Db.set, Db.empty, h1, h2]
  obtain ⟨c1, c2, c3, c4, c5, c6, c7⟩ := block_content H false (applyWrites [(Key.version, some (Val.ver false)), (Key.curHeader, some (Val.ptr 0))] Db.empty) (itemsAt H 0) 0
    (applyWrites [(Key.version, some (Val.ver false)), (Key.curHeader, some (Val.ptr 0))] Db.empty) [] (fun k => by rw [v0 _ (by simp) (by simp)]; rfl) rfl
  obtain ⟨b1, b2, b3, b4, b5, b6, b7, b8, b9⟩ := block_effect H false (applyWrites [(Key.version, some (Val.ver false)), (Key.curHeader, some (Val.ptr 0))] Db.empty) (itemsAt H 0) 0
    (applyWrites [(Key.version, some (Val.ver false)), (Key.curHeader, some (Val.ptr 0))] Db.empty)
  have h0 : (fresh H).height = 0 := rfl
  have hd0 : (fresh H).hdrHeight = 0 := rfl
  refine ⟨?_, ?_, ?_, ?_, ?_, ?_, ?_, ?_, ?_, ?_⟩
  · intro i hi
    have : i = 0 := by rw [h0] at hi; omega
    subst this; rw [hv]; exact block_exec _ _ _ _ _ _
  · intro i hi
    rw [h0] at hi
    rw [hv, c6 i (by omega), v0 _ (by simp) (by simp), hd0, if_neg (by omega)]
  · intro i j
    rw [hv, c1, v0 _ (by simp) (by simp), h0]
    by_cases c : i = 0 ∧ j < H.ntx 0
    · obtain ⟨rfl, hj⟩ := c; simp [hj]
    · rw [if_neg c]
      by_cases d : i ≤ 0 ∧ j < H.ntx i
      · exfalso; apply c; have : i = 0 := by omega
        subst this; exact ⟨rfl, d.2⟩
      · rw [if_neg d]
  · intro i hi; rw [h0] at hi; rw [hv, b8 i (by omega), v0 _ (by simp) (by simp)]
  · intro i hi
    have : i = 0 := by rw [h0] at hi; omega
    subst this; rw [hv]; exact b3
  · intro k; rw [hv]; exact c3 k
  · intro k; rw [hv]; show applyWrites _ _ (Key.stor (!false) k) = none; rw [c4, v0 _ (by simp) (by simp)]
  · intro c; rw [hv, c2, v0 _ (by simp) (by simp)]; rfl
  · intro a; rw [hv, c5]; simp only [v0 (Key.xlog a) (by simp) (by simp)]; rfl
  · rw [hv]
    have : ∀ v : Db, applyWrites (blockWrites H false (applyWrites [(Key.version, some (Val.ver false)), (Key.curHeader, some (Val.ptr 0))] Db.empty) (itemsAt H 0) 0) v Key.syncPoint = v Key.syncPoint := by
      intro v; apply applyWrites_notin; intro p hp e; cases mem_blockWrites hp <;> simp at e
    rw [this, v0 _ (by simp) (by simp)]

theorem finv_step {H : Hist} {B : Nat} {n : Node} (hi : Inv H B n) (h : FInv H n) (o : Op) (hno : o.isGc = false) : FInv H (step H B n o).1 := by
  cases o with
  | headers upTo =>
    simp only [step]; split
    · exact h
    · exact finv_headers hi h upTo (by omega)
  | block => exact finv_block hi h
  | flush =>
    simp only [step]; split
    · exact h
    · exact finv_flush h
  | gc tgt g => simp [Op.isGc] at hno

theorem finv_runFrom {H : Hist} {B : Nat} (hB : 1 < B) {n : Node} (hi : Inv H B n) (h : FInv H n) (ops : List Op)
    (hno : ∀ o ∈ ops, o.isGc = false) : FInv H (runFrom H B n ops).1 := by
  induction ops generalizing n with
  | nil => exact h
  | cons o r ih =>
    simp only [runFrom]
    exact ih (inv_step hB hi o) (finv_step hi h o (hno o (by simp))) (fun x hx => hno x (by simp [hx]))


/-! ### exact effect of the block-removal stage -/

theorem deleteBlock_view {H : Hist} {v vd : Db} {i : Nat} {w : Writes} (h : deleteBlock H v i = .ok (vd, w)) : vd = applyWrites w v := by
  unfold deleteBlock at h
  split at h
  · simp at h; obtain ⟨rfl, rfl⟩ := h; rfl
  · simp at h; obtain ⟨rfl, rfl⟩ := h; rfl
  · simp at h

theorem removeBlock_view {H : Hist} {v vd : Db} {i : Nat} {w : Writes} (h : removeBlock H v i = .ok (vd, w)) : vd = applyWrites w v := by
  unfold removeBlock at h
  split at h
  · simp at h
  · rename_i v1 w1 hd
    simp at h
    obtain ⟨rfl, rfl⟩ := h
    rw [applyWrites_append, ← deleteBlock_view hd]; rfl

/-- the returned view is the unpersisted writes over the fold of the intermediate batches. -/
theorem removeBlocks_fold {H : Hist} {S : Nat} (fuel : Nat) :
    ∀ (i : Nat) (v : Db) (acc : Writes) (cnt : Nat) (bs : List Batch) (v' : Db) (rest : Writes) (db0 : Db),
    removeBlocks H S i fuel v acc cnt = .ok (bs, v', rest) → v = applyWrites acc db0 →
    v' = applyWrites rest (foldBatches bs db0) := by
  induction fuel with
  | zero =>
    intro i v acc cnt bs v' rest db0 h hv
    simp [removeBlocks] at h
    obtain ⟨rfl, rfl, rfl⟩ := h
    exact hv
  | succ fuel ih =>
    intro i v acc cnt bs v' rest db0 h hv
    simp only [removeBlocks] at h
    split at h
    · simp at h
    · rename_i vd w hd
      have hvd : vd = applyWrites (acc ++ w) db0 := by rw [removeBlock_view hd, applyWrites_append, hv]
      split at h
      · split at h
        · simp at h
        · rename_i bs' v'' rest' hr
          simp at h
          obtain ⟨rfl, rfl, rfl⟩ := h
          have := ih (i + 1) vd [] 0 bs' v'' rest' vd hr rfl
          rw [this]
          simp [foldBatches, applyBatch_ofWrites, hvd]
      · exact ih (i + 1) vd (acc ++ w) (cnt + 1) bs v' rest db0 h hvd

/-- what the removal loop leaves under a key it touches: the header for a record, nothing for a transaction. -/
def rmVal : Key → Option Val
  | Key.exec x => some (Val.hdr x)
  | _ => none

open Classical in
/-- if the records i … i+fuel-1 are blocks, the loop leaves exactly those records replaced by their headers
and their transactions deleted. -/
theorem removeBlocks_view {H : Hist} {S : Nat} (fuel : Nat) :
    ∀ (i : Nat) (v : Db) (acc : Writes) (cnt : Nat) (bs : List Batch) (v' : Db) (rest : Writes),
    removeBlocks H S i fuel v acc cnt = .ok (bs, v', rest) →
    (∀ x, i ≤ x → x < i + fuel → ∃ y, v (Key.exec x) = some (Val.blk y)) →
    ∀ k, v' k = if (∃ x, i ≤ x ∧ x < i + fuel ∧ (k = Key.exec x ∨ ∃ j, j < H.ntx x ∧ k = Key.tx x j)) then rmVal k else v k := by
  induction fuel with
  | zero =>
    intro i v acc cnt bs v' rest h _ k
    simp [removeBlocks] at h
    obtain ⟨_, rfl, _⟩ := h
    have : ¬ ∃ x, i ≤ x ∧ x < i + 0 ∧ (k = Key.exec x ∨ ∃ j, j < H.ntx x ∧ k = Key.tx x j) := by
      rintro ⟨x, h1, h2, _⟩; omega
    rw [if_neg this]
  | succ fuel ih =>
    intro i v acc cnt bs v' rest h hb k
    simp only [removeBlocks] at h
    split at h
    · simp at h
    · rename_i vd w hd
      obtain ⟨y, hy⟩ := hb i (Nat.le_refl _) (by omega)
      -- the view after deleting block i
      have hvd : ∀ k, vd k = if (k = Key.exec i ∨ ∃ j, j < H.ntx i ∧ k = Key.tx i j) then rmVal k else v k := by
        intro k
        unfold removeBlock deleteBlock at hd
        rw [hy] at hd
        simp at hd
        obtain ⟨rfl, _⟩ := hd
        by_cases e0 : k = Key.exec i
        · subst e0; simp [Db.set, rmVal]
        · rw [Db.set_other _ _ e0]
          by_cases c : ∃ j, j < H.ntx i ∧ k = Key.tx i j
          · rw [if_pos (Or.inr c)]
            obtain ⟨j, hj, rfl⟩ := c
            simp only [rmVal]
            apply applyWrites_const
            · intro p hp _
              simp only [List.mem_cons, List.mem_map] at hp
              rcases hp with rfl | ⟨j, _, rfl⟩ <;> rfl
            · exact ⟨(Key.tx i j, none), List.mem_cons_of_mem _ (List.mem_map.mpr ⟨j, List.mem_range.mpr hj, rfl⟩), rfl⟩
          · rw [if_neg (by rintro (h | h); exact e0 h; exact c h)]
            apply applyWrites_notin
            intro p hp e
            simp only [List.mem_cons, List.mem_map, List.mem_range] at hp
            rcases hp with rfl | ⟨j, hj, rfl⟩
            · exact e0 e.symm
            · exact c ⟨j, hj, e.symm⟩
      have hb' : ∀ x, i + 1 ≤ x → x < i + 1 + fuel → ∃ y, vd (Key.exec x) = some (Val.blk y) := by
        intro x h1 h2
        rw [hvd, if_neg]
        · exact hb x (by omega) (by omega)
        · rintro (e | ⟨j, _, e⟩) <;> simp at e; omega
      have key : ∀ v'' : Db, (∀ k, v'' k = if (∃ x, i + 1 ≤ x ∧ x < i + 1 + fuel ∧ (k = Key.exec x ∨ ∃ j, j < H.ntx x ∧ k = Key.tx x j)) then rmVal k else vd k) →
          v'' k = if (∃ x, i ≤ x ∧ x < i + (fuel + 1) ∧ (k = Key.exec x ∨ ∃ j, j < H.ntx x ∧ k = Key.tx x j)) then rmVal k else v k := by
        intro v'' hv''
        rw [hv'', hvd]
        by_cases c1 : ∃ x, i + 1 ≤ x ∧ x < i + 1 + fuel ∧ (k = Key.exec x ∨ ∃ j, j < H.ntx x ∧ k = Key.tx x j)
        · obtain ⟨x, h1, h2, h3⟩ := c1
          rw [if_pos ⟨x, h1, h2, h3⟩, if_pos ⟨x, by omega, by omega, h3⟩]
        · rw [if_neg c1]
          by_cases c2 : k = Key.exec i ∨ ∃ j, j < H.ntx i ∧ k = Key.tx i j
          · rw [if_pos c2, if_pos ⟨i, Nat.le_refl _, by omega, c2⟩]
          · rw [if_neg c2, if_neg]
            rintro ⟨x, h1, h2, h3⟩
            by_cases e : x = i
            · subst e; exact c2 h3
            · exact c1 ⟨x, by omega, by omega, h3⟩
      split at h
      · split at h
        · simp at h
        · rename_i bs' v'' rest' hr
          simp at h
          obtain ⟨_, rfl, _⟩ := h
          exact key _ (ih (i + 1) vd [] 0 bs' _ rest' hr hb')
      · exact key _ (ih (i + 1) vd (acc ++ w) (cnt + 1) bs v' rest h hb')

open Classical in
/-- the database after the block-removal stage, key by key. -/
theorem stageBlocks_exact {H : Hist} {S t cur : Nat} {db d2 : Db} {bs : List Batch} (h : stageBlocks H S t cur db = .ok (bs, d2))
    (hb : ∀ x, t < x → x ≤ cur → ∃ y, db (Key.exec x) = some (Val.blk y)) (k : Key) (hk : k ≠ Key.stage) :
    d2 k = if (∃ x, t < x ∧ x ≤ cur ∧ (k = Key.exec x ∨ ∃ j, j < H.ntx x ∧ k = Key.tx x j)) then rmVal k else db k := by
  unfold stageBlocks at h
  split at h
  · simp at h
  · rename_i bs' v' rest hr
    simp at h
    obtain ⟨_, rfl⟩ := h
    have hf := removeBlocks_fold (H := H) (S := S) (cur - t) (t + 1) db [] 0 bs' v' rest db hr rfl
    have hvw := removeBlocks_view (H := H) (S := S) (cur - t) (t + 1) db [] 0 bs' v' rest hr
      (fun x h1 h2 => hb x (by omega) (by omega)) k
    rw [foldBatches_append]
    simp only [foldBatches, applyBatch_ofWrites, applyWrites_append, applyWrites, marker]
    rw [Db.set_other _ _ hk, ← hf, hvw]
    by_cases c : ∃ x, t + 1 ≤ x ∧ x < t + 1 + (cur - t) ∧ (k = Key.exec x ∨ ∃ j, j < H.ntx x ∧ k = Key.tx x j)
    · obtain ⟨x, h1, h2, h3⟩ := c
      rw [if_pos ⟨x, h1, h2, h3⟩, if_pos ⟨x, by omega, by omega, h3⟩]
    · rw [if_neg c, if_neg]
      rintro ⟨x, h1, h2, h3⟩
      exact c ⟨x, by omega, by omega, h3⟩


/-! ### storage copy, transfer-log truncation, conflict records -/

def KeysNodup (it : List (Nat × Nat)) : Prop := (it.map (·.1)).Nodup

theorem keysNodup_setItem (it : List (Nat × Nat)) (k : Nat) (v : Option Nat) (h : KeysNodup it) : KeysNodup (setItem it k v) := by
  unfold KeysNodup setItem at *
  have hf : ((it.filter (fun p => p.1 != k)).map (·.1)).Nodup := by
    have : (it.filter (fun p => p.1 != k)).map (·.1) = (it.map (·.1)).filter (fun x => x != k) := by
      rw [List.filter_map]; rfl
    rw [this]; exact h.filter _
  cases v with
  | none => exact hf
  | some x =>
    simp only [List.map_cons, List.nodup_cons]
    refine ⟨?_, hf⟩
    simp [List.mem_map, List.mem_filter]

theorem keysNodup_applyEff (e : List (Nat × Option Nat)) (it : List (Nat × Nat)) (h : KeysNodup it) : KeysNodup (applyEff e it) := by
  induction e generalizing it with
  | nil => exact h
  | cons q r ih => obtain ⟨k, v⟩ := q; exact ih _ (keysNodup_setItem it k v h)

theorem keysNodup_itemsAt (H : Hist) (h : Nat) : KeysNodup (itemsAt H h) := by
  induction h with
  | zero => exact keysNodup_applyEff _ _ (by simp [KeysNodup])
  | succ h ih => exact keysNodup_applyEff _ _ ih

theorem copy_lookup (q : Bool) (it : List (Nat × Nat)) (hn : KeysNodup it) (v : Db) (k : Nat) :
    applyWrites (it.map (fun kv => (Key.stor q kv.1, some (Val.item kv.2)))) v (Key.stor q k)
      = match lookupItem it k with | some x => some (Val.item x) | none => v (Key.stor q k) := by
  induction it generalizing v with
  | nil => simp [applyWrites, lookupItem]
  | cons p r ih =>
    obtain ⟨k0, x0⟩ := p
    have hn' : KeysNodup r := by unfold KeysNodup at *; simp at hn; exact hn.2
    have hk0 : k0 ∉ r.map (·.1) := by unfold KeysNodup at hn; simp at hn; simpa using hn.1
    simp only [List.map_cons, applyWrites]
    by_cases e : k = k0
    · subst e
      rw [applyWrites_notin]
      · simp [lookupItem, List.find?_cons, Db.set]
      · intro p hp e
        simp only [List.mem_map] at hp
        obtain ⟨kv, hkv, rfl⟩ := hp
        simp at e
        exact hk0 (List.mem_map.mpr ⟨kv, hkv, e⟩)
    · rw [ih hn']
      have : lookupItem ((k0, x0) :: r) k = lookupItem r k := by
        have hb : (k0 == k) = false := by simp; exact fun h => e h.symm
        simp [lookupItem, List.find?_cons, hb]
      rw [this]
      cases lookupItem r k with
      | some x => rfl
      | none => simp [Db.set, e]

/-- shape of a transfer log: absent, or a non-empty list of heights ≤ h. -/
theorem logAt_form (H : Hist) (h a : Nat) :
    logAt H h a = none ∨ ∃ hs, logAt H h a = some (Val.log hs) ∧ hs ≠ [] ∧ ∀ x ∈ hs, x ≤ h := by
  induction h with
  | zero =>
    simp only [logAt]
    split
    · right; exact ⟨[0], rfl, by simp, by simp⟩
    · left; rfl
  | succ h ih =>
    simp only [logAt]
    split
    · right
      rcases ih with e | ⟨hs, e, _, hle⟩
      · rw [e]; exact ⟨[h + 1], rfl, by simp, by simp⟩
      · rw [e]; refine ⟨hs ++ [h + 1], rfl, by simp, ?_⟩
        intro x hx
        rcases List.mem_append.mp hx with hx | hx
        · exact Nat.le_succ_of_le (hle x hx)
        · simp at hx; omega
    · rcases ih with e | ⟨hs, e, hne, hle⟩
      · left; exact e
      · right; exact ⟨hs, e, hne, fun x hx => Nat.le_succ_of_le (hle x hx)⟩

/-- what resetTransfers leaves of a log. -/
def truncVal (t : Nat) : Option Val → Option Val
  | some (Val.log hs) => if (truncLog t hs).isEmpty then none else some (Val.log (truncLog t hs))
  | o => o

theorem truncLog_all {t : Nat} {hs : List Nat} (h : ∀ x ∈ hs, x ≤ t) : truncLog t hs = hs := by
  unfold truncLog; rw [List.filter_eq_self]; intro x hx; simpa using h x hx

theorem trunc_logAt (H : Hist) (t a : Nat) (d : Nat) : truncVal t (logAt H (t + d) a) = logAt H t a := by
  induction d with
  | zero =>
    rcases logAt_form H t a with e | ⟨hs, e, hne, hle⟩
    · simp [e, truncVal]
    · simp only [Nat.add_zero, e, truncVal, truncLog_all hle]
      cases hs with
      | nil => exact absurd rfl hne
      | cons x r => simp
  | succ d ih =>
    show truncVal t (logAt H (t + d + 1) a) = _
    simp only [logAt]
    split
    · rcases logAt_form H (t + d) a with e | ⟨hs, e, hne, hle⟩
      · rw [e] at ih ⊢
        have hf : truncLog t [t + d + 1] = [] := by simp [truncLog]; omega
        simp only [appendLog, truncVal, hf]
        simpa [truncVal] using ih
      · rw [e] at ih ⊢
        simp only [appendLog, truncVal] at ih ⊢
        have : truncLog t (hs ++ [t + d + 1]) = truncLog t hs := by simp [truncLog]; omega
        rw [this]; exact ih
    · exact ih

theorem stubAt_none (H : Hist) (h c : Nat) (hn : ∀ j, j ≤ h → c ∉ (H.confl j).map (·.1)) : stubAt H h c = none := by
  induction h with
  | zero => simp [stubAt, hn 0 (Nat.le_refl _)]
  | succ h ih => simp only [stubAt, if_neg (hn (h + 1) (Nat.le_refl _))]; exact ih (fun j hj => hn j (by omega))

theorem stubAt_succ (H : Hist) (h c : Nat) :
    stubAt H (h + 1) c = if c ∈ (H.confl (h + 1)).map (·.1) then some (Val.stubv (h + 1)) else stubAt H h c := rfl

theorem stubAt_above (H : Hist) (t c : Nat) (d : Nat) :
    stubAt H (t + d) c = stubAt H t c ∨ ∃ i, t < i ∧ i ≤ t + d ∧ c ∈ (H.confl i).map (·.1) ∧ stubAt H (t + d) c = some (Val.stubv i) := by
  induction d with
  | zero => left; rfl
  | succ d ih =>
    have hs : t + (d + 1) = (t + d) + 1 := rfl
    rw [hs]
    by_cases hm : c ∈ (H.confl (t + d + 1)).map (·.1)
    · right; exact ⟨t + d + 1, by omega, by omega, hm, by rw [stubAt_succ, if_pos hm]⟩
    · have e0 : stubAt H (t + d + 1) c = stubAt H (t + d) c := by rw [stubAt_succ, if_neg hm]
      rcases ih with e | ⟨i, h1, h2, h3, h4⟩
      · left; rw [e0]; exact e
      · right; exact ⟨i, h1, by omega, h3, by rw [e0]; exact h4⟩


/-! ### a completed reset, seen through the API -/

theorem initHeaders_ptr {B : Nat} {db : Db} {hh : Nat} (h : initHeaders B db = .ok hh) : db Key.curHeader = some (Val.ptr hh) := by
  unfold initHeaders at h
  split at h
  · rename_i x hx
    simp only at h
    split at h
    · simp at h
    · split at h
      · simp at h
      · simp at h; subst h; exact hx
  · simp at h

theorem nodeAfterReset_fields {B t : Nat} {D : Db} {rdy : Bool} {n' : Node} (h : nodeAfterReset B t D rdy = .ok n') :
    n'.db = D ∧ n'.cache = [] ∧ n'.height = t ∧ D Key.curHeader = some (Val.ptr n'.hdrHeight) ∧
    D Key.version = some (Val.ver n'.pfx) ∧ D (Key.trie t) = some (Val.snap n'.items) := by
  unfold nodeAfterReset at h
  split at h
  · simp at h
  · rename_i hh hih
    split at h
    · rename_i x p it h1 h2 h3
      simp at h; subst h
      exact ⟨rfl, rfl, rfl, initHeaders_ptr hih, h2, h3⟩
    · simp at h


theorem reset_equals_sync_aux (H : Hist) {B S : Nat} (n n' m : Node)
    (hn : Inv H B n) (hf : FInv H n) (hc : n.cache = [])
    (hm : Inv H B m) (hfm : FInv H m) (hmh : m.hdrHeight = m.height)
    (bs : List Batch) (hreset : reset H B S n m.height = .ok (bs, n')) (hbs : bs ≠ [])
    (hconf : ∀ c i, m.height < i → i ≤ n.height → c ∈ (H.confl i).map (·.1) → ∀ j, j ≤ m.height → c ∉ (H.confl j).map (·.1)) :
    apiObs n' = apiObs m := by
  generalize ht : m.height = t at *
  obtain ⟨bs', D, rdy, _, _, hnar, hle⟩ := reset_unfold hreset hbs
  obtain ⟨b2, d2, cur, x, r, p0, hr, hsb, _, _, hdb, _⟩ := reset_resumable_concrete H n n' t bs hreset hbs
  obtain ⟨hndb, hncache, hnh, hnhd, hnver, hntrie⟩ := nodeAfterReset_fields hnar
  have hv : n.view = n.db := by simp [Node.view, hc, applyWrites]
  have hv' : n'.view = n'.db := by simp [Node.view, hncache, applyWrites]
  -- the first batch only sets the sync point and the marker
  have hd1 : ∀ k, k ≠ Key.syncPoint → k ≠ Key.stage → applyBatch (ofWrites [(Key.syncPoint, some (Val.ptr t)), marker stJumpStarted]) n.db k = n.db k := by
    intro k h1 h2
    apply applyBatch_fixes
    apply ofWrites_fixes
    intro p hp e
    simp [marker] at hp
    rcases hp with rfl | rfl
    · exact h1 e.symm
    · exact h2 e.symm
  -- the reads
  have hcur : cur = n.height := by
    have := hr.cb; rw [hd1 _ (by simp) (by simp), ← hv, hn.cb] at this; simp at this; exact this.symm
  have hp0 : p0 = n.pfx := by
    have := hr.ver; rw [hd1 _ (by simp) (by simp), ← hv, hn.ver] at this; simp at this; exact this.symm
  have hrr : r = H.hashOf (itemsAt H t) := by
    have := hr.rt; rw [hd1 _ (by simp) (by simp), ← hv, hn.rt t hle] at this; simp at this; exact this.symm
  subst hcur
  -- the database after the block removal
  have hblk : ∀ i, t < i → i ≤ n.height → ∃ y, applyBatch (ofWrites [(Key.syncPoint, some (Val.ptr t)), marker stJumpStarted]) n.db (Key.exec i) = some (Val.blk y) := by
    intro i _ h2; rw [hd1 _ (by simp) (by simp), ← hv]; exact ⟨i, hf.exb i h2⟩
  have hd2 := fun k hk => stageBlocks_exact hsb hblk k hk
  -- abbreviations for the later stages
  have hcopy : ∀ k, (∀ q i, k ≠ Key.stor q i) → k ≠ Key.stage → applyBatch (stageCopy t p0 d2) d2 k = d2 k :=
    fun k h1 h2 => applyBatch_fixes _ _ _ (stageCopy_fixes t p0 d2 k h1 h2)
  -- D, class by class
  have Dexec : ∀ i, n'.view (Key.exec i) = if i ≤ t then some (Val.blk i) else none := by
    intro i
    rw [hv', hdb]
    simp only [stageDone, stageGc, stageMpt, stageHeaders, applyBatch, W.apply, Db.set, dropStor, resetMptXfer, purgeHeaders]
    simp
    by_cases c : i ≤ t
    · have c' : ¬ (t < i ∧ i ≤ n.hdrHeight) := by omega
      rw [if_neg c', if_pos c, hcopy _ (by simp) (by simp), hd2 _ (by simp), if_neg, hd1 _ (by simp) (by simp), ← hv]
      · exact hf.exb i (by omega)
      · rintro ⟨y, h1, _, e | ⟨j, _, e⟩⟩ <;> simp at e; omega
    · rw [if_neg c]
      by_cases c2 : i ≤ n.hdrHeight
      · rw [if_pos ⟨by omega, c2⟩]
      · have c' : ¬ (t < i ∧ i ≤ n.hdrHeight) := fun h => c2 h.2
        rw [if_neg c', hcopy _ (by simp) (by simp), hd2 _ (by simp), if_neg, hd1 _ (by simp) (by simp), ← hv,
          hf.exh i (by have := hn.le; omega), if_neg c2]
        rintro ⟨y, _, h2, e | ⟨j, _, e⟩⟩ <;> simp at e
        have := hn.le; omega
  have Dtx : ∀ i j, n'.view (Key.tx i j) = if i ≤ t ∧ j < H.ntx i then some (Val.txv i) else none := by
    intro i j
    rw [hv', hdb]
    simp only [stageDone, stageGc, stageMpt, stageHeaders, applyBatch, W.apply, Db.set, dropStor, resetMptXfer, purgeHeaders]
    simp
    rw [hcopy _ (by simp) (by simp), hd2 _ (by simp)]
    by_cases c : t < i ∧ i ≤ n.height ∧ j < H.ntx i
    · rw [if_pos ⟨i, c.1, c.2.1, Or.inr ⟨j, c.2.2, rfl⟩⟩, if_neg (by omega)]; rfl
    · rw [if_neg, hd1 _ (by simp) (by simp), ← hv, hf.txs]
      · by_cases d : i ≤ t ∧ j < H.ntx i
        · rw [if_pos d, if_pos ⟨by omega, d.2⟩]
        · rw [if_neg d, if_neg]
          rintro ⟨h1, h2⟩
          by_cases e : i ≤ t
          · exact d ⟨e, h2⟩
          · exact c ⟨by omega, h1, h2⟩
      · rintro ⟨y, h1, h2, e | ⟨j', hj', e⟩⟩ <;> simp at e
        obtain ⟨rfl, rfl⟩ := e
        exact c ⟨h1, h2, hj'⟩
  have Droot : ∀ i, n'.view (Key.root i) = if i ≤ t then some (Val.rootv (H.hashOf (itemsAt H i))) else none := by
    intro i
    rw [hv', hdb]
    simp only [stageDone, stageGc, stageMpt, stageHeaders, applyBatch, W.apply, Db.set, dropStor, resetMptXfer, purgeHeaders]
    simp
    by_cases c : i ≤ t
    · have c' : ¬ t < i := by omega
      rw [if_neg c', if_pos c]
      by_cases e : i = t
      · subst e; simp [hrr]
      · rw [if_neg e, hcopy _ (by simp) (by simp), hd2 _ (by simp), if_neg, hd1 _ (by simp) (by simp), ← hv]
        · exact hn.rt i (by omega)
        · rintro ⟨y, _, _, e | ⟨j, _, e⟩⟩ <;> simp at e
    · rw [if_pos (by omega), if_neg c]
  have Dtrie : applyBatch (stageCopy t p0 d2) d2 (Key.trie t) = some (Val.snap (itemsAt H t)) ∧ d2 (Key.trie t) = some (Val.snap (itemsAt H t)) := by
    have : d2 (Key.trie t) = some (Val.snap (itemsAt H t)) := by
      rw [hd2 _ (by simp), if_neg, hd1 _ (by simp) (by simp), ← hv]
      · exact hf.tri t hle
      · rintro ⟨y, _, _, e | ⟨j, _, e⟩⟩ <;> simp at e
    exact ⟨by rw [hcopy _ (by simp) (by simp)]; exact this, this⟩
  have hDv : n'.db Key.version = some (Val.ver n'.pfx) := by rw [hndb]; exact hnver
  have hDh : n'.db Key.curHeader = some (Val.ptr n'.hdrHeight) := by rw [hndb]; exact hnhd
  have hDt : n'.db (Key.trie t) = some (Val.snap n'.items) := by rw [hndb]; exact hntrie
  have hpfx : n'.pfx = !p0 := by
    rw [hdb] at hDv
    simp [stageDone, stageGc, stageMpt, stageHeaders, applyBatch, W.apply, Db.set, dropStor, resetMptXfer, purgeHeaders] at hDv
    revert hDv; generalize n'.pfx = q; intro hDv; cases q <;> cases p0 <;> simp at hDv ⊢
  have hhd : n'.hdrHeight = t := by
    rw [hdb] at hDh
    simp [stageDone, stageGc, stageMpt, stageHeaders, applyBatch, W.apply, Db.set, dropStor, resetMptXfer, purgeHeaders] at hDh
    exact hDh.symm
  have hitems : n'.items = itemsAt H t := by
    rw [hdb] at hDt
    simp only [stageDone, stageGc, stageMpt, stageHeaders, applyBatch, W.apply, Db.set, dropStor, resetMptXfer, purgeHeaders] at hDt
    simp at hDt
    rw [Dtrie.1] at hDt
    simp at hDt
    exact hDt.symm
  have Dstor : ∀ k, n'.view (Key.stor n'.pfx k) = (lookupItem (itemsAt H t) k).map Val.item := by
    intro k
    rw [hv', hdb, hpfx]
    simp only [stageDone, stageGc, stageMpt, stageHeaders, applyBatch, W.apply, Db.set, dropStor, resetMptXfer, purgeHeaders]
    simp
    simp only [stageCopy, Dtrie.2, applyBatch_ofWrites, applyWrites_append, applyWrites, marker]
    rw [Db.set_other _ _ (by simp), copy_lookup _ _ (keysNodup_itemsAt H t)]
    cases lookupItem (itemsAt H t) k with
    | some x => rfl
    | none =>
      simp only [Option.map]
      rw [hd2 _ (by simp), if_neg, hd1 _ (by simp) (by simp), ← hv, hp0]
      · exact hf.sto' k
      · rintro ⟨y, _, _, e | ⟨j, _, e⟩⟩ <;> simp at e
  have Dxlog : ∀ a, n'.view (Key.xlog a) = logAt H t a := by
    intro a
    rw [hv', hdb]
    simp only [stageDone, stageGc, stageMpt, stageHeaders, applyBatch, W.apply, Db.set, dropStor, resetMptXfer, purgeHeaders]
    simp
    rw [hcopy _ (by simp) (by simp), hd2 _ (by simp), if_neg, hd1 _ (by simp) (by simp), ← hv, hf.xlg]
    · have := trunc_logAt H t a (n.height - t)
      rw [show t + (n.height - t) = n.height by omega] at this
      rw [← this]
      unfold truncVal
      split <;> simp_all
    · rintro ⟨y, _, _, e | ⟨j, _, e⟩⟩ <;> simp at e
  have Dstub : ∀ c, n'.view (Key.stub c) = stubAt H n.height c := by
    intro c
    rw [hv', hdb]
    simp only [stageDone, stageGc, stageMpt, stageHeaders, applyBatch, W.apply, Db.set, dropStor, resetMptXfer, purgeHeaders]
    simp
    rw [hcopy _ (by simp) (by simp), hd2 _ (by simp), if_neg, hd1 _ (by simp) (by simp), ← hv, hf.stb]
    rintro ⟨y, _, _, e | ⟨j, _, e⟩⟩ <;> simp at e
  -- the synchronised node
  have hmit := hm.it; rw [ht] at hmit
  unfold apiObs
  congr 1
  · rw [hnh, ht]
  · rw [hhd, hmh]
  · funext i
    rw [Dexec]
    by_cases c : i ≤ t
    · rw [if_pos c, hfm.exb i (by omega)]
    · rw [if_neg c, hfm.exh i (by omega), if_neg (by omega)]
  · funext i j
    rw [Dtx, hfm.txs, ht]
  · funext i
    rw [Droot]
    by_cases c : i ≤ t
    · rw [if_pos c, hm.rt i (by omega)]
    · rw [if_neg c, hfm.rts i (by omega)]
  · funext k
    rw [Dstor, hfm.sto, hmit]
  · funext a
    rw [Dxlog, hfm.xlg, ht]
  · funext c
    unfold conflictKnown
    rw [Dstub, hfm.stb, hnh, ht]
    have := stubAt_above H t c (n.height - t)
    rw [show t + (n.height - t) = n.height by omega] at this
    rcases this with e | ⟨i, h1, h2, h3, h4⟩
    · rw [e]
    · rw [h4, stubAt_none H t c (hconf c i h1 h2 h3)]
      simp; omega


theorem blocks_heights (H : Hist) (B : Nat) (k : Nat) : ∀ n : Node, n.hdrHeight = n.height →
    (runFrom H B n (List.replicate k Op.block)).1.height = n.height + k ∧
    (runFrom H B n (List.replicate k Op.block)).1.hdrHeight = n.height + k := by
  induction k with
  | zero => intro n h; exact ⟨rfl, h⟩
  | succ k ih =>
    intro n h
    simp only [List.replicate_succ, runFrom]
    have h1 : (step H B n .block).1.height = n.height + 1 := rfl
    have h2 : (step H B n .block).1.hdrHeight = max n.hdrHeight (n.height + 1) := rfl
    have h3 : (step H B n .block).1.hdrHeight = (step H B n .block).1.height := by rw [h1, h2, h]; omega
    obtain ⟨e1, e2⟩ := ih (step H B n .block).1 h3
    rw [e1, e2, h1]; omega

theorem syncedTo_spec (H : Hist) {B : Nat} (hB : 1 < B) (t : Nat) :
    Inv H B (syncedTo H B t) ∧ FInv H (syncedTo H B t) ∧ (syncedTo H B t).height = t ∧ (syncedTo H B t).hdrHeight = t := by
  have hno : ∀ o ∈ List.replicate t Op.block ++ [Op.flush], o.isGc = false := by
    intro o ho
    rcases List.mem_append.mp ho with ho | ho
    · rw [List.eq_of_mem_replicate ho]; rfl
    · simp at ho; subst ho; rfl
  refine ⟨inv_runFrom hB (inv_fresh H hB) _, finv_runFrom hB (inv_fresh H hB) (finv_fresh H) _ hno, ?_, ?_⟩
  all_goals
    simp only [syncedTo, run, runFrom_append]
    obtain ⟨e1, e2⟩ := blocks_heights H B t (fresh H) rfl
    have hz : (fresh H).height = 0 := rfl
    simp only [runFrom, step]
    split <;> simp_all


/-- **reset_resumable**: on a consistent stopped node (`Inv`, `FInv`, empty cache) the reset resumes to the
uninterrupted node from the database after EVERY complete stage. -/
theorem reset_resumable_all_stages (H : Hist) {B S : Nat} (hB : 1 < B) (n n' : Node) (hn : Inv H B n) (hb : ∀ i, i ≤ n.height → ∃ y, n.view (Key.exec i) = some (Val.blk y)) (hc : n.cache = [])
    (t : Nat) (bs : List Batch) (hreset : reset H B S n t = .ok (bs, n')) (hbs : bs ≠ []) :
    let b1 := ofWrites [(Key.syncPoint, some (Val.ptr t)), marker stJumpStarted]
    let d1 := applyBatch b1 n.db
    ∃ (b2 : List Batch) (d2 : Db) (x r : Nat) (p0 : Bool),
      stageBlocks H S t n.height d1 = .ok (b2, d2) ∧ d2 = foldBatches b2 d1 ∧
      let c3 := stageCopy t p0 d2
      let c4 := stageHeaders B t n.hdrHeight p0
      let c5 := stageMpt t r
      let c6 := stageGc p0
      let d3 := applyBatch c3 d2
      let d4 := applyBatch c4 d3
      let d5 := applyBatch c5 d4
      let d6 := applyBatch c6 d5
      bs = b1 :: b2 ++ [c3, c4, c5, c6, stageDone] ∧ n'.db = applyBatch stageDone d6 ∧
      recover H B S d1 = .ok n' ∧ recover H B S d2 = .ok n' ∧ recover H B S d3 = .ok n' ∧
      recover H B S d4 = .ok n' ∧ recover H B S d5 = .ok n' ∧ recover H B S d6 = .ok n' := by
  intro b1 d1
  obtain ⟨b2, d2, cur, x, r, p0, hr, hsb, hd2, hbs', hdb, h1, h2, h3, h4, h5, h6⟩ := reset_resumable_concrete H n n' t bs hreset hbs
  obtain ⟨_, _, _, _, _, _, hle⟩ := reset_unfold hreset hbs
  obtain ⟨_, _, hfix2⟩ := stageBlocks_spec hsb
  have hv : n.view = n.db := by simp [Node.view, hc, applyWrites]
  have hch := hn.ch; have hex := hn.ex; have hpg := hn.pg
  rw [hv] at hch hex hpg
  have hd1 : ∀ k, k ≠ Key.syncPoint → k ≠ Key.stage → applyBatch (ofWrites [(Key.syncPoint, some (Val.ptr t)), marker stJumpStarted]) n.db k = n.db k := by
    intro k h1 h2
    apply applyBatch_fixes
    apply ofWrites_fixes
    intro p hp e
    simp [marker] at hp
    rcases hp with rfl | rfl
    · exact h1 e.symm
    · exact h2 e.symm
  have i1 : initHeaders B (applyBatch (ofWrites [(Key.syncPoint, some (Val.ptr t)), marker stJumpStarted]) n.db) = .ok n.hdrHeight := by
    rw [initHeaders_congr B n.db (applyBatch (ofWrites [(Key.syncPoint, some (Val.ptr t)), marker stJumpStarted]) n.db) (hd1 _ (by simp) (by simp)) (fun q => hd1 _ (by simp) (by simp)) (fun i => hd1 _ (by simp) (by simp))]
    exact initHeaders_of_inv n.db n.hdrHeight hch hex hpg
  -- the database after the header reset
  have hd3 : ∀ k, (∀ p q, k ≠ Key.stor p q) → k ≠ Key.stage → applyBatch (stageCopy t p0 d2) d2 k = d2 k :=
    fun k h1 h2 => applyBatch_fixes _ _ _ (stageCopy_fixes t p0 d2 k h1 h2)
  have e4h : applyBatch (stageHeaders B t n.hdrHeight p0) (applyBatch (stageCopy t p0 d2) d2) Key.curHeader = some (Val.ptr t) := by
    simp [stageHeaders, applyBatch, W.apply, Db.set]
  have e4e : ∀ i, i ≤ t → applyBatch (stageHeaders B t n.hdrHeight p0) (applyBatch (stageCopy t p0 d2) d2) (Key.exec i) = n.db (Key.exec i) := by
    intro i hi
    have : ¬ (t < i ∧ i ≤ n.hdrHeight) := by omega
    simp only [stageHeaders, applyBatch, W.apply, Db.set, purgeHeaders]
    simp [this]
    rw [hd3 _ (by simp) (by simp), hfix2 _ (not_rm_le hi) (by simp), hd1 _ (by simp) (by simp)]
  have e4p : ∀ q, q < (t + 1) / B * B → applyBatch (stageHeaders B t n.hdrHeight p0) (applyBatch (stageCopy t p0 d2) d2) (Key.page q) = n.db (Key.page q) := by
    intro q hq
    have : ¬ (q ≥ (t + 1) / B * B) := by omega
    simp only [stageHeaders, applyBatch, W.apply, Db.set, purgeHeaders]
    simp [this]
    rw [hd3 _ (by simp) (by simp), hfix2 _ (not_rm_page t q) (by simp), hd1 _ (by simp) (by simp)]
  have hthh : t ≤ n.hdrHeight := Nat.le_trans hle hn.le
  have i4 : initHeaders B (applyBatch (stageHeaders B t n.hdrHeight p0) (applyBatch (stageCopy t p0 d2) d2)) = .ok t := by
    apply initHeaders_of_inv _ t e4h
    · intro i hi; rw [e4e i hi]; exact hex i (by omega)
    · intro q hq hle'
      rw [e4p q (page_below_stored (by omega) hq hle')]
      exact hpg q hq (by omega)
  have i5 : initHeaders B (applyBatch (stageMpt t r) (applyBatch (stageHeaders B t n.hdrHeight p0) (applyBatch (stageCopy t p0 d2) d2))) = .ok t := by
    rw [initHeaders_congr B (applyBatch (stageHeaders B t n.hdrHeight p0) (applyBatch (stageCopy t p0 d2) d2))]
    · exact i4
    · simp [stageMpt, applyBatch, W.apply, Db.set, resetMptXfer]
    · intro q; simp [stageMpt, applyBatch, W.apply, Db.set, resetMptXfer]
    · intro i; simp [stageMpt, applyBatch, W.apply, Db.set, resetMptXfer]
  have i6 : initHeaders B (applyBatch (stageGc p0) (applyBatch (stageMpt t r) (applyBatch (stageHeaders B t n.hdrHeight p0) (applyBatch (stageCopy t p0 d2) d2)))) = .ok t := by
    rw [initHeaders_congr B (applyBatch (stageMpt t r) (applyBatch (stageHeaders B t n.hdrHeight p0) (applyBatch (stageCopy t p0 d2) d2)))]
    · exact i5
    · exact stageGc_apply _ _ _ (by simp)
    · intro q; exact stageGc_apply _ _ _ (by simp)
    · intro i; exact stageGc_apply _ _ _ (by simp)
  have hcur : cur = n.height := by
    have := hr.cb; rw [hd1 _ (by simp) (by simp), ← hv, hn.cb] at this; simp at this; exact this.symm
  subst hcur
  have hblk : ∀ i, t < i → i ≤ n.height → ∃ y, applyBatch (ofWrites [(Key.syncPoint, some (Val.ptr t)), marker stJumpStarted]) n.db (Key.exec i) = some (Val.blk y) := by
    intro i _ h2; rw [hd1 _ (by simp) (by simp), ← hv]; exact hb i h2
  have hx := fun k hk => stageBlocks_exact hsb hblk k hk
  have i2 : initHeaders B d2 = .ok n.hdrHeight := by
    apply initHeaders_of_inv
    · rw [hx _ (by simp), if_neg (by rintro ⟨y, _, _, e | ⟨j, _, e⟩⟩ <;> simp at e), hd1 _ (by simp) (by simp)]; exact hch
    · intro i hi
      rw [hx _ (by simp)]
      split
      · rfl
      · rw [hd1 _ (by simp) (by simp)]; exact hex i hi
    · intro q hq hle'
      rw [hx _ (by simp), if_neg (by rintro ⟨y, _, _, e | ⟨j, _, e⟩⟩ <;> simp at e), hd1 _ (by simp) (by simp)]; exact hpg q hq hle'
  have i3 : initHeaders B (applyBatch (stageCopy t p0 d2) d2) = .ok n.hdrHeight := by
    rw [initHeaders_congr B d2 _ (hd3 _ (by simp) (by simp)) (fun q => hd3 _ (by simp) (by simp)) (fun i => hd3 _ (by simp) (by simp))]
    exact i2
  exact ⟨b2, d2, x, r, p0, hsb, hd2, hbs', hdb, h1 i1, h2 i2, h3 i3, h4 t i4, h5 t i5, h6 t i6⟩

end NeoModel.Persist
