/-
C08 helper: the resend rule of `RemoveStale` over whole histories. `item.blockStamp` and `item.data` of a pooled
transaction are those of the `Add` call that pooled it (nothing else writes them), so the resend callback fires
for a kept transaction exactly when its age in blocks is `resendThreshold * 2^k` (uint32 arithmetic).
-/
import NeoModel.Proofs.MempoolRun
namespace NeoModel.Mempool

/-! ### `bits.OnesCount32(n) == 1` and the age rule -/

theorem isPow2_iff (n : Nat) : isPow2 n = true ↔ ∃ k, n = 2 ^ k := by
  unfold isPow2
  rw [Bool.and_eq_true, bne_iff_ne, beq_iff_eq]
  exact Nat.ne_zero_and_sub_one_eq_zero_iff_isPowerOfTwo

/-- the age of an item in blocks, as the uint32 subtraction `height - itm.blockStamp` computes it -/
def age (height stamp : Nat) : Nat := (height + 2 ^ 32 - stamp % 2 ^ 32) % 2 ^ 32

theorem dueForResend_iff (thr height stamp : Nat) :
    dueForResend thr height stamp = true ↔ thr ≠ 0 ∧ ∃ k, age height stamp = thr * 2 ^ k := by
  unfold dueForResend age
  simp only [Bool.and_eq_true, bne_iff_ne, beq_iff_eq, isPow2_iff]
  generalize (height + 2 ^ 32 - stamp % 2 ^ 32) % 2 ^ 32 = diff
  constructor
  · rintro ⟨h0, h1, k, hk⟩
    refine ⟨h0, k, ?_⟩
    have := Nat.div_add_mod diff thr
    rw [h1, hk] at this; omega
  · rintro ⟨h0, k, hk⟩
    have hpos : 0 < thr := Nat.pos_of_ne_zero h0
    refine ⟨h0, ?_, k, ?_⟩
    · rw [hk]; exact Nat.mul_mod_right _ _
    · rw [hk]; exact Nat.mul_div_cancel_left _ hpos

/-! ### who writes `stamp` and `data` -/

/-- stamps and data are untouched -/
def SameSD (mp mp' : Pool) : Prop := mp'.stamp = mp.stamp ∧ mp'.data = mp.data

theorem SameSD.rfl' (mp : Pool) : SameSD mp mp := ⟨rfl, rfl⟩

theorem SameSD.trans {a b c : Pool} (h1 : SameSD a b) (h2 : SameSD b c) : SameSD a c :=
  ⟨h2.1.trans h1.1, h2.2.trans h1.2⟩

theorem sameSD_removeInternal (mp : Pool) (h : Nat) : SameSD mp (removeInternal mp h) := by
  unfold removeInternal
  split
  · exact ⟨rfl, rfl⟩
  · simp only
    split <;> exact ⟨rfl, rfl⟩

theorem sameSD_removeAll : ∀ (l : List Tx) (mp : Pool), SameSD mp (removeAll mp l) := by
  intro l
  induction l with
  | nil => intro mp; exact ⟨rfl, rfl⟩
  | cons c cs ih => intro mp; exact (sameSD_removeInternal mp c.id).trans (ih _)

theorem sameSD_checkTxConflicts (mp : Pool) (t : Tx) (feer : Feer) : SameSD mp (checkTxConflicts mp t feer).1 := by
  unfold checkTxConflicts
  simp only
  repeat' split
  all_goals exact ⟨rfl, rfl⟩

theorem sameSD_oracleStage (mp : Pool) (t : Tx) : SameSD mp (oracleStage mp t).1 := by
  unfold oracleStage
  repeat' split
  all_goals first | exact ⟨rfl, rfl⟩ | exact sameSD_removeInternal _ _

theorem sameSD_placeLast (mp : Pool) (t : Tx) : SameSD mp (placeLast mp t) := by
  unfold placeLast
  repeat' split
  all_goals exact ⟨rfl, rfl⟩

theorem sameSD_tryAdd (mp : Pool) (t : Tx) (feer : Feer) (b : Bool) : SameSD mp (tryAddSendersFee mp t feer b).1 :=
  ⟨(tryAdd_aux mp t feer b).1, (tryAdd_aux mp t feer b).2.2.2⟩

/-- `Add`: on failure nothing is written; on success exactly the entry of the new transaction is written -/
theorem add_stamp_data (mp : Pool) (t : Tx) (feer : Feer) (d : Nat) :
    ((add mp t feer d).2 ≠ none → SameSD mp (add mp t feer d).1) ∧
    ((add mp t feer d).2 = none →
      (add mp t feer d).1.stamp = (fun x => if x = t.id then feer.height else mp.stamp x) ∧
      (add mp t feer d).1.data = (fun x => if x = t.id then d else mp.data x)) := by
  unfold add
  split
  · exact ⟨fun _ => ⟨rfl, rfl⟩, fun h => by cases h⟩
  · have hc := sameSD_checkTxConflicts mp t feer
    cases hck : checkTxConflicts mp t feer with
    | mk mp1 r =>
      rw [hck] at hc
      cases r with
      | error e => exact ⟨fun _ => hc, fun h => by cases h⟩
      | ok rm =>
        simp only
        have ho := hc.trans (sameSD_oracleStage mp1 t)
        split
        · exact ⟨fun _ => ho, fun h => by cases h⟩
        · split
          · exact ⟨fun _ => ho, fun h => by cases h⟩
          · have hr := ho.trans (sameSD_removeAll rm (oracleStage mp1 t).1)
            generalize removeAll (oracleStage mp1 t).1 rm = mp3 at hr
            unfold insertStage
            simp only
            split
            · exact ⟨fun _ => hr, fun h => by cases h⟩
            · refine ⟨fun h => absurd rfl h, fun _ => ?_⟩
              have hp := sameSD_placeLast mp3 t
              generalize placeLast mp3 t = mp4 at hp
              have ht := sameSD_tryAdd (register { mp4 with txs := shiftInsert mp4.txs (insertIdx mp3.txs t) t } t feer.height d) t feer false
              constructor
              · show (tryAddSendersFee _ t feer false).1.stamp = _
                rw [ht.1]; show (fun x => if x = t.id then feer.height else mp4.stamp x) = _
                rw [hp.1, hr.1]
              · show (tryAddSendersFee _ t feer false).1.data = _
                rw [ht.2]; show (fun x => if x = t.id then d else mp4.data x) = _
                rw [hp.2, hr.2]

/-- what one operation does to the stamp and data of hash `x` -/
theorem stamp_data_applyOp (mp : Pool) (op : Op) (x : Nat) :
    ((applyOp mp op).stamp x = mp.stamp x ∧ (applyOp mp op).data x = mp.data x) ∨
    ∃ t f d, op = .add t f d ∧ t.id = x ∧ (add mp t f d).2 = none ∧
      (applyOp mp op).stamp x = f.height ∧ (applyOp mp op).data x = d := by
  cases op with
  | add t f d =>
    obtain ⟨h1, h2⟩ := add_stamp_data mp t f d
    by_cases hs : (add mp t f d).2 = none
    · obtain ⟨a, b⟩ := h2 hs
      by_cases hx : x = t.id
      · refine Or.inr ⟨t, f, d, rfl, hx.symm, hs, ?_, ?_⟩
        · show (add mp t f d).1.stamp x = _; rw [a]; simp [hx]
        · show (add mp t f d).1.data x = _; rw [b]; simp [hx]
      · refine Or.inl ⟨?_, ?_⟩
        · show (add mp t f d).1.stamp x = _; rw [a]; simp [hx]
        · show (add mp t f d).1.data x = _; rw [b]; simp [hx]
    · obtain ⟨a, b⟩ := h1 hs
      exact Or.inl ⟨by show (add mp t f d).1.stamp x = _; rw [a], by show (add mp t f d).1.data x = _; rw [b]⟩
  | remove h =>
    obtain ⟨a, b⟩ := sameSD_removeInternal mp h
    exact Or.inl ⟨by show (removeInternal mp h).stamp x = _; rw [a], by show (removeInternal mp h).data x = _; rw [b]⟩
  | removeStale isOK f =>
    obtain ⟨_, _, a, b⟩ := removeStale_resent mp isOK f
    exact Or.inl ⟨by show (removeStale mp isOK f).stamp x = _; rw [a], by show (removeStale mp isOK f).data x = _; rw [b]⟩
  | verify t f =>
    have := sameSD_checkTxConflicts mp t f
    refine Or.inl ⟨?_, ?_⟩
    · show (verify mp t f).1.stamp x = _
      unfold verify; split <;> (rename_i h; rw [h] at this; simp only; rw [this.1])
    · show (verify mp t f).1.data x = _
      unfold verify; split <;> (rename_i h; rw [h] at this; simp only; rw [this.2])
  | setResendThreshold h => exact Or.inl ⟨rfl, rfl⟩
  | setSubs on => exact Or.inl ⟨rfl, rfl⟩

/-- no operation of the list adds a transaction with hash `x` -/
def NoAddOf (x : Nat) (ops : List Op) : Prop := ∀ t f d, Op.add t f d ∈ ops → t.id ≠ x

theorem stamp_data_foldl (x : Nat) : ∀ (ops : List Op) (mp : Pool), NoAddOf x ops →
    (ops.foldl applyOp mp).stamp x = mp.stamp x ∧ (ops.foldl applyOp mp).data x = mp.data x := by
  intro ops
  induction ops with
  | nil => intro mp _; exact ⟨rfl, rfl⟩
  | cons op ops ih =>
    intro mp hn
    rw [List.foldl_cons]
    obtain ⟨a, b⟩ := ih (applyOp mp op) (fun t f d h => hn t f d (List.mem_cons_of_mem _ h))
    rcases stamp_data_applyOp mp op x with ⟨c, e⟩ | ⟨t, f, d, h1, h2, _⟩
    · exact ⟨a.trans c, b.trans e⟩
    · exact absurd h2 (hn t f d (by rw [h1]; exact List.mem_cons_self))

/-- After a successful `Add t` at height `f.height` with data `d`, and as long as `t` is not added again, the
pool remembers that height and that data for `t` - whatever else happens. -/
theorem stamp_data_after_add (c : Nat) (pre mid : List Op) (t : Tx) (f : Feer) (d : Nat)
    (hs : (add (run c pre) t f d).2 = none) (hn : NoAddOf t.id mid) :
    (run c (pre ++ [.add t f d] ++ mid)).stamp t.id = f.height ∧
    (run c (pre ++ [.add t f d] ++ mid)).data t.id = d := by
  unfold run
  rw [List.foldl_append, List.foldl_append]
  obtain ⟨a, b⟩ := stamp_data_foldl t.id mid (([Op.add t f d]).foldl applyOp (pre.foldl applyOp (new c))) hn
  rw [a, b]
  obtain ⟨a', b'⟩ := (add_stamp_data (pre.foldl applyOp (new c)) t f d).2 hs
  constructor
  · show (add _ t f d).1.stamp t.id = _; rw [a']; simp
  · show (add _ t f d).1.data t.id = _; rw [b']; simp

/-- `RemoveStale` on a pool that satisfies the invariant: the resend callback is called for hash `x` iff the
transaction with that hash is kept and its age is `resendThreshold * 2^k` blocks; it is then called once, with
the item's data. -/
theorem resent_iff {U : Tx → Prop} (hw : WF U) {mp : Pool} (hi : Inv U mp) (isOK : Tx → Bool) (feer : Feer)
    (hF : FeerOk feer) (x : Tx) (hx : U x) (d : Nat) :
    (x.id, d) ∈ (removeStale mp isOK feer).resent ↔
      x ∈ (removeStale mp isOK feer).txs ∧ d = mp.data x.id ∧ mp.resendThreshold ≠ 0 ∧
        ∃ k, age feer.height (mp.stamp x.id) = mp.resendThreshold * 2 ^ k := by
  obtain ⟨hr, _⟩ := removeStale_resent mp isOK feer
  have hi' := (inv_removeStale hw hi isOK feer hF).1
  rw [hr, List.mem_map]
  constructor
  · rintro ⟨y, hy, he⟩
    obtain ⟨hy1, hy2⟩ := List.mem_filter.mp hy
    have hid : y.id = x.id := congrArg Prod.fst he
    have hyx : y = x := hw.idInj y x (hi'.list.inU y hy1) hx hid
    subst hyx
    rw [dueForResend_iff] at hy2
    exact ⟨hy1, (congrArg Prod.snd he).symm, hy2.1, hy2.2⟩
  · rintro ⟨h1, h2, h3, h4⟩
    refine ⟨x, List.mem_filter.mpr ⟨h1, (dueForResend_iff _ _ _).mpr ⟨h3, h4⟩⟩, by rw [h2]⟩

theorem resent_nodup {U : Tx → Prop} (hw : WF U) {mp : Pool} (hi : Inv U mp) (isOK : Tx → Bool) (feer : Feer)
    (hF : FeerOk feer) : ((removeStale mp isOK feer).resent.map (·.1)).Nodup := by
  obtain ⟨hr, _⟩ := removeStale_resent mp isOK feer
  have hi' := (inv_removeStale hw hi isOK feer hF).1
  rw [hr, List.map_map]
  have : ((fun (p : Nat × Nat) => p.1) ∘ fun (t : Tx) => (t.id, mp.data t.id)) = (·.id) := rfl
  rw [this]
  exact hi'.list.nodup.sublist (List.filter_sublist.map _)

end NeoModel.Mempool
