/-
CompileOperands — the first conjunct of `encodable (compProg P)` from source-level size conditions (C14 target 2):
every operand the compiler emits is representable in the byte encoding.  Literals are below 2^255 (`LitsS`), local slot
indices are below the function's final slot count, which is at most `declBound` ≤ 255 (`compS_cnt_le`; one slot per
`:=` / `var`, one per labeled `break`/`continue` for the phantom local), argument indices are below the arity ≤ 255,
INITSLOT carries those two counts, and `dropItems` never needs PUSHINT/PACK because at most three `switch` tags are on
the stack (`Shape`).  With `targetsMarked_of_allowed` this gives `encodable_compProg`, hence `layoutOK (compProg P)`
for every allowed program within the size limits — the hypothesis that the byte-level theorems used to take per
program.
-/
import NeoModel.Proofs.CompileTargets
set_option linter.unusedSimpArgs false
set_option linter.unnecessarySimpa false
namespace NeoModel.CompileProofs
open NeoModel.MiniVm NeoModel.MiniVm.Asm NeoModel.MiniGo NeoModel.Compile

/-- integer literals fit the VM's 256-bit integers (any Go `int` literal does: it is below 2^63). -/
def LitsE : Expr → Prop
  | .lit n => n < 2 ^ 255
  | .paren e | .neg e | .not e => LitsE e
  | .bin _ a b => LitsE a ∧ LitsE b
  | .call1 _ a => LitsE a
  | .call2 _ a b => LitsE a ∧ LitsE b
  | .call3 _ a b c => LitsE a ∧ LitsE b ∧ LitsE c
  | _ => True

def LitsO : Option Expr → Prop
  | none => True
  | some e => LitsE e

def LitsS : Stmt → Prop
  | .seq a b => LitsS a ∧ LitsS b
  | .define _ e | .assign _ e | .opAssign _ _ e | .exprStmt e | .discard e | .panicS e => LitsE e
  | .varDecl _ _ i => LitsO i
  | .ite c t _ e => LitsE c ∧ LitsS t ∧ LitsS e
  | .loop i c p b => LitsS i ∧ LitsO c ∧ LitsS p ∧ LitsS b
  | .ret e => LitsO e
  | .ret2 e1 e2 => LitsE e1 ∧ LitsE e2
  | .define2 _ _ e => LitsE e
  | .block b => LitsS b
  | .labeled _ s => LitsS s
  | .switchS t _ cl => LitsO t ∧ LitsS cl
  | .caseS e1 e2 b _ rest => LitsE e1 ∧ LitsO e2 ∧ LitsS b ∧ LitsS rest
  | .defaultS b => LitsS b
  | _ => True

/-- an upper bound on the number of local slots a statement allocates: one per `:=` / `var`, one per labeled
    `break` / `continue` (the phantom local named after the label). -/
def declBound : Stmt → Nat
  | .define _ _ | .varDecl _ _ _ | .brkL _ | .contL _ => 1
  | .define2 _ _ _ => 2
  | .seq a b => declBound a + declBound b
  | .ite _ t _ e => declBound t + declBound e
  | .loop i _ p b => declBound i + declBound p + declBound b
  | .block b => declBound b
  | .labeled _ s => declBound s
  | .switchS _ _ cl => declBound cl
  | .caseS _ _ b _ rest => declBound b + declBound rest
  | .defaultS b => declBound b
  | _ => 0

/-- operands within the bounds: `N` local slots, `A` arguments. -/
def ItemBelow (N A : Nat) : Item → Prop
  | .ins (.pushInt n) => fits256 n = true
  | .ins (.ldloc i) | .ins (.stloc i) => i < N
  | .ins (.ldarg j) | .ins (.starg j) => j < A
  | .ins (.initSlot _ _) => False          -- INITSLOT is emitted by convertFuncDecl only
  | _ => True

theorem itemBelow_enc {N A : Nat} (hN : N ≤ 256) (hA : A ≤ 256) {it : Item} (h : ItemBelow N A it) : itemEnc it = true := by
  cases it with
  | lbl k => rfl
  | ins op =>
    cases op <;> simp only [itemEnc, ItemBelow] at h ⊢ <;> first | rfl | exact h | (simp; omega) | exact h.elim

/-- the local counter grows by at most `declBound`. -/
theorem compS_cnt_le (cx : Ctx) : ∀ (s : Stmt) (lp : LoopCtx) (st : St), (compS cx lp s st).2.cnt ≤ st.cnt + declBound s := by
  intro s
  induction s with
  | skip => intro lp st; simp [compS, declBound]
  | seq a b iha ihb =>
    intro lp st; simp only [compS, declBound]
    have h1 := iha lp st
    have h2 := ihb lp (compS cx lp a st).2
    omega
  | define x e => intro lp st; simp [compS, declBound, newLocal_cnt]
  | assign x e => intro lp st; simp [compS, declBound]
  | opAssign x op e => intro lp st; simp [compS, declBound]
  | inc x => intro lp st; simp [compS, declBound]
  | dec x => intro lp st; simp [compS, declBound]
  | varDecl x b init => intro lp st; cases init <;> simp [compS, declBound, newLocal_cnt]
  | exprStmt e => intro lp st; simp [compS, declBound]
  | discard e => intro lp st; simp [compS, declBound]
  | panicS e => intro lp st; simp [compS, declBound]
  | ite c thn k els iht ihe =>
    intro lp st
    have ht := iht lp (ifStT cx c st)
    simp only [ifStT_cnt] at ht
    have h1 : (ifSt1 cx lp c thn st).cnt ≤ st.cnt + declBound thn := by simpa [ifSt1] using ht
    cases k with
    | none => rw [compS_ite_none]; simp only [declBound, pop_cnt]; omega
    | block =>
      rw [compS_ite_block]
      have he := ihe lp (ifSt1 cx lp c thn st).push
      simp only [push_cnt] at he
      simp only [declBound, pop_cnt]; omega
    | elif =>
      rw [compS_ite_elif]
      have he := ihe lp (ifSt1 cx lp c thn st)
      simp only [declBound, pop_cnt]; omega
  | loop init cond post body ihi ihp ihb =>
    intro lp st
    rw [compS_loop]
    have h0 := ihi lp (forSt0 st)
    simp only [forSt0_cnt] at h0
    have hb := ihb (forEnt st :: lp) (forStB cx lp init cond st)
    simp only [forStB_cnt] at hb
    have h3 : (forSt3 cx lp init cond body st).cnt ≤ st.cnt + declBound init + declBound body := by
      simp only [forSt3, pop_cnt]
      have : (forSt1 cx lp init st).cnt ≤ st.cnt + declBound init := h0
      omega
    have hp := ihp lp (forSt3 cx lp init cond body st)
    simp only [declBound, pop_cnt]; omega
  | ret e => intro lp st; cases e <;> simp [compS, declBound]
  | ret2 e1 e2 => intro lp st; simp [compS, declBound]
  | define2 x y e => intro lp st; simp [compS, declBound, newLocal_cnt]
  | brk => intro lp st; simp [compS, declBound]
  | cont => intro lp st; simp [compS, declBound]
  | block body ih =>
    intro lp st
    rw [compS_block]
    have := ih lp st.push
    simpa [declBound] using this
  | labeled l s ih => intro lp st; rw [compS_labeled]; simpa [declBound] using ih lp { st with nextLabel := some l }
  | brkL l =>
    intro lp st
    simp only [compS, declBound]
    rcases phantom_cases cx st l with h | h <;> rw [h]
    · omega
    · simp [newLocal_cnt]
  | contL l =>
    intro lp st
    simp only [compS, declBound]
    rcases phantom_cases cx st l with h | h <;> rw [h]
    · omega
    · simp [newLocal_cnt]
  | switchS tag ti cl ih =>
    intro lp st
    rw [compS_switch]
    have := ih (swEnt cx tag ti st :: lp) (swSt1 cx tag cl st)
    simpa [declBound] using this
  | caseS e1 e2 body ft rest ihb ihr =>
    intro lp st
    rw [compS_case]
    have hb := ihb lp (csStB cx lp e1 e2 st)
    simp only [csStB_cnt] at hb
    have hr := ihr lp (csStR cx lp e1 e2 body st)
    have hc : (csStR cx lp e1 e2 body st).cnt = (compS cx lp body (csStB cx lp e1 e2 st)).2.cnt := rfl
    simp only [declBound]; omega
  | defaultS body ih =>
    intro lp st
    rw [compS_default]
    have := ih lp (dfStB st)
    simpa [declBound] using this


def AllB (c : Code) (Q : Item → Prop) : Prop := ∀ it ∈ c, Q it

theorem AllB.nil (Q : Item → Prop) : AllB [] Q := by intro it h; cases h
theorem AllB.append {a b : Code} {Q : Item → Prop} (ha : AllB a Q) (hb : AllB b Q) : AllB (a ++ b) Q := by
  intro it h; rcases List.mem_append.mp h with h | h
  · exact ha it h
  · exact hb it h
theorem AllB.one {it : Item} {Q : Item → Prop} (h : Q it) : AllB [it] Q := by
  intro x hx; simp at hx; subst hx; exact h
theorem AllB.snoc {a : Code} {it : Item} {Q : Item → Prop} (ha : AllB a Q) (h : Q it) : AllB (a ++ [it]) Q := ha.append (AllB.one h)

theorem indexOf_lt {l : List String} {x : String} {j : Nat} (h : indexOf l x = some j) : j < l.length := by
  induction l generalizing j with
  | nil => simp [indexOf] at h
  | cons y r ih =>
    simp only [indexOf] at h
    split at h
    · cases h; simp
    · simp only [Option.map_eq_some_iff] at h
      obtain ⟨k, hk, rfl⟩ := h
      have := ih hk
      simp; omega

theorem loadVar_items {cx : Ctx} {sc : Scopes} {N A : Nat} (hs : ∀ i ∈ slotsOf sc, i < N) (ha : cx.args.length ≤ A) (x : String) :
    AllB (loadVar cx sc x) (ItemBelow N A) := by
  unfold loadVar
  cases hl : lookupSlot sc x with
  | some i => exact AllB.one (hs i (lookupSlot_mem hl))
  | none =>
    simp only
    cases hi : indexOf cx.args x with
    | some j => exact AllB.one (show j < A from Nat.lt_of_lt_of_le (indexOf_lt hi) ha)
    | none => exact AllB.one trivial

theorem storeVar_items {cx : Ctx} {sc : Scopes} {N A : Nat} (hs : ∀ i ∈ slotsOf sc, i < N) (ha : cx.args.length ≤ A) (x : String) :
    AllB (storeVar cx sc x) (ItemBelow N A) := by
  unfold storeVar
  cases hl : lookupSlot sc x with
  | some i => exact AllB.one (hs i (lookupSlot_mem hl))
  | none =>
    simp only
    cases hi : indexOf cx.args x with
    | some j => exact AllB.one (show j < A from Nat.lt_of_lt_of_le (indexOf_lt hi) ha)
    | none => exact AllB.one trivial

theorem withMode_items {m : Mode} {c : Code} {N A : Nat} (h : AllB c (ItemBelow N A)) : AllB (withMode m c) (ItemBelow N A) := by
  cases m with
  | val => exact h
  | jump cond t => simp only [withMode]; exact h.snoc (by cases cond <;> exact trivial)

theorem lit_fits {n : Nat} (h : n < 2 ^ 255) : fits256 (n : Int) = true := by
  have h1 : ((n : Nat) : Int) < ((2 ^ 255 : Nat) : Int) := Int.ofNat_lt.mpr h
  have h2 : (((2 : Nat) ^ 255 : Nat) : Int) = (2 : Int) ^ 255 := Int.natCast_pow 2 255
  rw [h2] at h1
  have h0 : (0 : Int) ≤ n := Int.natCast_nonneg n
  unfold fits256
  generalize (2 : Int) ^ 255 = B at h1
  have hB : 0 < B := by omega
  simp only [Bool.and_eq_true, decide_eq_true_eq]
  constructor <;> omega

/-- the operands of the code of an expression are within the bounds. -/
theorem compE_items (cx : Ctx) (sc : Scopes) (N A : Nat) (hs : ∀ i ∈ slotsOf sc, i < N) (ha : cx.args.length ≤ A) :
    ∀ (e : Expr) (m : Mode) (nl : Nat), LitsE e → AllB (compE cx sc e m nl).1 (ItemBelow N A) := by
  intro e
  induction e with
  | lit n => intro m nl h; simp only [compE]; exact withMode_items (AllB.one (lit_fits h))
  | tt => intro m nl _; simp only [compE]; exact withMode_items (AllB.one trivial)
  | ff => intro m nl _; simp only [compE]; exact withMode_items (AllB.one trivial)
  | var x => intro m nl _; simp only [compE]; exact withMode_items (loadVar_items hs ha x)
  | paren e ih => intro m nl h; simp only [compE]; exact withMode_items (ih .val nl h)
  | neg e ih => intro m nl h; simp only [compE]; exact withMode_items ((ih .val nl h).snoc trivial)
  | not e ih => intro m nl h; simp only [compE]; exact withMode_items ((ih .val nl h).snoc trivial)
  | bin op a b iha ihb =>
    intro m nl h
    by_cases hlog : op = .land ∨ op = .lor
    · cases m with
      | jump cond t =>
        rw [compE_logic_jump cx sc op a b cond t nl hlog]
        exact ((iha _ _ h.1).append (ihb _ _ h.2)).snoc trivial
      | val =>
        rw [compE_logic_val cx sc op a b nl hlog]
        refine ((iha _ _ h.1).append (ihb _ _ h.2)).append ?_
        intro it hit
        simp at hit
        rcases hit with rfl | rfl | rfl | rfl
        · trivial
        · trivial
        · split <;> trivial
        · trivial
    · have hc : (op == .land || op == .lor) = false := by cases op <;> simp_all
      simp only [compE, hc, Bool.false_eq_true, if_false]
      have hab := (iha .val nl h.1).append (ihb .val (compE cx sc a .val nl).2 h.2)
      have htok : ItemBelow N A (.ins (tokenOp op)) := by cases op <;> trivial
      cases m with
      | val => exact hab.snoc htok
      | jump cond t =>
        simp only
        cases jumpFor op with
        | some c => exact hab.snoc trivial
        | none =>
          have := (hab.snoc htok).snoc (it := jumpOn cond t) (by cases cond <;> trivial)
          simpa using this
  | call0 f => intro m nl _; simp only [compE]; exact withMode_items (AllB.one trivial)
  | call1 f a iha => intro m nl h; simp only [compE]; exact withMode_items ((iha .val nl h).snoc trivial)
  | call2 f a b iha ihb =>
    intro m nl h
    simp only [compE, emitReverse]
    refine withMode_items ?_
    have := (((iha .val nl h.1).append (ihb .val (compE cx sc a .val nl).2 h.2)).snoc (it := .ins .swap) trivial).snoc
      (it := .ins (.call (cx.func f).1)) trivial
    simpa using this
  | call3 f a b c iha ihb ihc =>
    intro m nl h
    simp only [compE, emitReverse]
    refine withMode_items ?_
    have := ((((iha .val nl h.1).append (ihb .val (compE cx sc a .val nl).2 h.2.1)).append
      (ihc .val (compE cx sc b .val (compE cx sc a .val nl).2).2 h.2.2)).snoc (it := .ins .reverse3) trivial).snoc
      (it := .ins (.call (cx.func f).1)) trivial
    simpa using this


theorem dropN_items (n N A : Nat) : AllB (dropN n) (ItemBelow N A) := by
  induction n with
  | zero => exact AllB.nil _
  | succ k ih => intro it h; simp [dropN] at h; rcases h with rfl | h; exact trivial; exact ih it h

theorem dropItems_items {n N A : Nat} (h : n ≤ 3) : AllB (dropItems n) (ItemBelow N A) := by
  rw [dropItems_small h]; exact dropN_items n N A

theorem slots_lt {st : St} {N : Nat} (hwf : Wf st) (h : st.cnt ≤ N) : ∀ i ∈ slotsOf st.scopes, i < N :=
  fun i hi => Nat.lt_of_lt_of_le (hwf.bound i hi) h

theorem brk_items {lp : LoopCtx} {N A : Nat} (l : Option String) (h3 : totalSz lp ≤ 3) :
    AllB (match (generalizing := false) findBrk l lp 0 with | some (d, e) => dropItems d ++ [Item.ins (.jmp e.endL)] | none => [])
      (ItemBelow N A) := by
  cases hf : findBrk l lp 0 with
  | none => exact AllB.nil _
  | some p =>
    obtain ⟨d, e⟩ := p
    have := findBrk_le hf
    exact (dropItems_items (by omega)).snoc trivial

theorem cont_items {lp : LoopCtx} {N A : Nat} (l : Option String) (h3 : totalSz lp ≤ 3) :
    AllB (match (generalizing := false) findCont l lp 0 with | some (d, e) => dropItems d ++ [Item.ins (.jmp e.postL)] | none => [])
      (ItemBelow N A) := by
  cases hf : findCont l lp 0 with
  | none => exact AllB.nil _
  | some p =>
    obtain ⟨d, e⟩ := p
    have := findCont_le hf
    exact (dropItems_items (by omega)).snoc trivial

theorem phantom_items {cx : Ctx} {st : St} {N A : Nat} (l : String) (hwf : Wf st) (hc : (st.phantom cx l).cnt ≤ N) (ha : cx.args.length ≤ A) :
    AllB (loadVar cx (st.phantom cx l).scopes l) (ItemBelow N A) := by
  have hw : Wf (st.phantom cx l) := by
    rcases phantom_cases cx st l with h | h <;> rw [h]
    · exact hwf
    · exact wf_newLocal hwf l
  exact loadVar_items (slots_lt hw hc) ha l


mutual
/-- what the operand bounds need to know about a statement: at most three nested `switch` statements (`k` = the number
    of enclosing ones), clauses only in clause chains. -/
def Shape (k : Nat) : Stmt → Prop
  | .seq a b => Shape k a ∧ Shape k b
  | .ite _ t _ e => Shape k t ∧ Shape k e
  | .loop i _ p b => Shape k i ∧ Shape k p ∧ Shape k b
  | .block b => Shape k b
  | .labeled _ s => Shape k s
  | .switchS _ _ cl => k < 3 ∧ ShapeCl (k + 1) cl
  | .caseS _ _ _ _ _ | .defaultS _ => False
  | _ => True
def ShapeCl (k : Nat) : Stmt → Prop
  | .skip => True
  | .defaultS b => Shape k b
  | .caseS _ _ b _ rest => Shape k b ∧ ShapeCl k rest
  | _ => False
end

/-- the hypotheses that travel through the induction. -/
structure OpCtx (cx : Ctx) (lp : LoopCtx) (k A : Nat) : Prop where
  few : totalSz lp ≤ k
  k3 : k ≤ 3
  args : cx.args.length ≤ A

theorem OpCtx.few3 {cx : Ctx} {lp : LoopCtx} {k A : Nat} (h : OpCtx cx lp k A) : totalSz lp ≤ 3 := Nat.le_trans h.few h.k3

set_option maxHeartbeats 1000000 in
/-- the operands of the code of a statement (clause chain) are within the bounds: literals fit 256 bits, local slots
    are below the number of locals the function ends up with, argument slots below its arity. -/
theorem compS_items_aux (cx : Ctx) (N A : Nat) : ∀ (s : Stmt),
    (∀ (lp : LoopCtx) (k : Nat) (st : St), Shape k s → OpCtx cx lp k A → Wf st → (compS cx lp s st).2.cnt ≤ N → LitsS s →
      AllB (compS cx lp s st).1 (ItemBelow N A)) ∧
    (∀ (lp : LoopCtx) (k : Nat) (st : St), ShapeCl k s → OpCtx cx lp k A → Wf st → (compS cx lp s st).2.cnt ≤ N → LitsS s →
      AllB (compS cx lp s st).1 (ItemBelow N A)) := by
  intro s
  induction s with
  | skip => exact ⟨fun _ _ _ _ _ _ _ _ => AllB.nil _, fun _ _ _ _ _ _ _ _ => AllB.nil _⟩
  | seq a b iha ihb =>
    refine ⟨?_, fun lp k st h => by simp [ShapeCl] at h⟩
    intro lp k st hal hc hwf hcnt hl
    simp only [Shape] at hal
    simp only [compS] at hcnt ⊢
    have hmb := compS_mono cx b lp (compS cx lp a st).2 (compS_wf cx a lp st hwf).nonempty
    exact (iha.1 lp k st hal.1 hc hwf (Nat.le_trans hmb.1 hcnt) hl.1).append
      (ihb.1 lp k _ hal.2 hc (compS_wf cx a lp st hwf) hcnt hl.2)
  | define x e =>
    refine ⟨?_, fun lp k st h => by simp [ShapeCl] at h⟩
    intro lp k st hal hc hwf hcnt hl
    simp only [compS] at hcnt ⊢
    have hcn : st.cnt + 1 ≤ N := by simpa [newLocal_cnt] using hcnt
    exact (compE_items cx st.scopes N A (slots_lt hwf (by omega)) hc.args e .val st.nl hl).append
      (storeVar_items (slots_lt (wf_newLocal (wf_nl hwf _) x) hcnt) hc.args x)
  | assign x e =>
    refine ⟨?_, fun lp k st h => by simp [ShapeCl] at h⟩
    intro lp k st hal hc hwf hcnt hl
    simp only [compS] at hcnt ⊢
    exact (compE_items cx st.scopes N A (slots_lt hwf hcnt) hc.args e .val st.nl hl).append (storeVar_items (slots_lt hwf hcnt) hc.args x)
  | opAssign x op e =>
    refine ⟨?_, fun lp k st h => by simp [ShapeCl] at h⟩
    intro lp k st hal hc hwf hcnt hl
    simp only [compS] at hcnt ⊢
    have htok : ItemBelow N A (.ins (tokenOp op)) := by cases op <;> trivial
    exact (((loadVar_items (slots_lt hwf hcnt) hc.args x).append
      (compE_items cx st.scopes N A (slots_lt hwf hcnt) hc.args e .val st.nl hl)).snoc htok).append (storeVar_items (slots_lt hwf hcnt) hc.args x)
  | inc x =>
    refine ⟨?_, fun lp k st h => by simp [ShapeCl] at h⟩
    intro lp k st hal hc hwf hcnt hl
    simp only [compS] at hcnt ⊢
    exact ((loadVar_items (slots_lt hwf hcnt) hc.args x).snoc (it := .ins .inc) trivial).append (storeVar_items (slots_lt hwf hcnt) hc.args x)
  | dec x =>
    refine ⟨?_, fun lp k st h => by simp [ShapeCl] at h⟩
    intro lp k st hal hc hwf hcnt hl
    simp only [compS] at hcnt ⊢
    exact ((loadVar_items (slots_lt hwf hcnt) hc.args x).snoc (it := .ins .dec) trivial).append (storeVar_items (slots_lt hwf hcnt) hc.args x)
  | varDecl x b init =>
    refine ⟨?_, fun lp k st h => by simp [ShapeCl] at h⟩
    intro lp k st hal hc hwf hcnt hl
    cases init with
    | none =>
      simp only [compS] at hcnt ⊢
      refine AllB.append (AllB.one ?_) (storeVar_items (slots_lt (wf_newLocal hwf x) hcnt) hc.args x)
      cases b
      · exact lit_fits (n := 0) (by decide)
      · trivial
    | some e =>
      simp only [compS] at hcnt ⊢
      have hcn : st.cnt + 1 ≤ N := by simpa [newLocal_cnt] using hcnt
      exact (compE_items cx st.scopes N A (slots_lt hwf (by omega)) hc.args e .val st.nl hl).append
        (storeVar_items (slots_lt (wf_newLocal (wf_nl hwf _) x) hcnt) hc.args x)
  | exprStmt e =>
    refine ⟨?_, fun lp k st h => by simp [ShapeCl] at h⟩
    intro lp k st hal hc hwf hcnt hl
    simp only [compS] at hcnt ⊢
    exact (compE_items cx st.scopes N A (slots_lt hwf hcnt) hc.args e .val st.nl hl).append (dropN_items _ _ _)
  | discard e =>
    refine ⟨?_, fun lp k st h => by simp [ShapeCl] at h⟩
    intro lp k st hal hc hwf hcnt hl
    simp only [compS] at hcnt ⊢
    exact (compE_items cx st.scopes N A (slots_lt hwf hcnt) hc.args e .val st.nl hl).snoc trivial
  | panicS e =>
    refine ⟨?_, fun lp k st h => by simp [ShapeCl] at h⟩
    intro lp k st hal hc hwf hcnt hl
    simp only [compS] at hcnt ⊢
    exact (compE_items cx st.scopes N A (slots_lt hwf hcnt) hc.args e .val st.nl hl).snoc trivial
  | ret e =>
    refine ⟨?_, fun lp k st h => by simp [ShapeCl] at h⟩
    intro lp k st hal hc hwf hcnt hl
    cases e with
    | none => simp only [compS]; exact (dropItems_items hc.few3).snoc trivial
    | some e =>
      simp only [compS] at hcnt ⊢
      exact ((dropItems_items hc.few3).append (compE_items cx st.scopes N A (slots_lt hwf hcnt) hc.args e .val st.nl hl)).snoc trivial
  | ret2 e1 e2 =>
    refine ⟨?_, fun lp k st h => by simp [ShapeCl] at h⟩
    intro lp k st hal hc hwf hcnt hl
    simp only [compS] at hcnt ⊢
    exact (((dropItems_items hc.few3).append (compE_items cx st.scopes N A (slots_lt hwf hcnt) hc.args e2 .val st.nl hl.2)).append
      (compE_items cx st.scopes N A (slots_lt hwf hcnt) hc.args e1 .val _ hl.1)).snoc trivial
  | define2 x y e =>
    refine ⟨?_, fun lp k st h => by simp [ShapeCl] at h⟩
    intro lp k st hal hc hwf hcnt hl
    simp only [compS] at hcnt ⊢
    have hcn : st.cnt + 2 ≤ N := by simpa [newLocal_cnt] using hcnt
    have hwy : Wf ({ st with nl := (compE cx st.scopes e .val st.nl).2 }.newLocal y) := wf_newLocal (wf_nl hwf _) y
    have hcy : ({ st with nl := (compE cx st.scopes e .val st.nl).2 }.newLocal y).cnt ≤ N := by rw [newLocal_cnt]; simp; omega
    refine (((compE_items cx st.scopes N A (slots_lt hwf (by omega)) hc.args e .val st.nl hl).append ?_).append
      (storeVar_items (slots_lt hwy hcy) hc.args y)).append (storeVar_items (slots_lt (wf_newLocal hwy x) hcnt) hc.args x)
    intro it hit; simp at hit; rcases hit with rfl | rfl
    · exact lit_fits (n := 2) (by decide)
    · trivial
  | brk =>
    refine ⟨?_, fun lp k st h => by simp [ShapeCl] at h⟩
    intro lp k st hal hc hwf hcnt hl
    simp only [compS]
    exact brk_items none hc.few3
  | cont =>
    refine ⟨?_, fun lp k st h => by simp [ShapeCl] at h⟩
    intro lp k st hal hc hwf hcnt hl
    simp only [compS]
    exact cont_items none hc.few3
  | brkL l =>
    refine ⟨?_, fun lp k st h => by simp [ShapeCl] at h⟩
    intro lp k st hal hc hwf hcnt hl
    simp only [compS] at hcnt ⊢
    exact (brk_items (some l) hc.few3).append (phantom_items l hwf hcnt hc.args)
  | contL l =>
    refine ⟨?_, fun lp k st h => by simp [ShapeCl] at h⟩
    intro lp k st hal hc hwf hcnt hl
    simp only [compS] at hcnt ⊢
    exact (cont_items (some l) hc.few3).append (phantom_items l hwf hcnt hc.args)
  | block body ih =>
    refine ⟨?_, fun lp k st h => by simp [ShapeCl] at h⟩
    intro lp k st hal hc hwf hcnt hl
    simp only [Shape] at hal
    rw [compS_block] at hcnt ⊢
    exact ih.1 lp k st.push hal hc (wf_push hwf) (by simpa using hcnt) hl
  | ite c thn ek els iht ihe =>
    refine ⟨?_, fun lp k st h => by simp [ShapeCl] at h⟩
    intro lp k st hal hc hwf hcnt hl
    simp only [Shape] at hal
    have hwfC : Wf { ifSt0 st with nl := (ifCond cx c st).2 } := wf_nl (wf_push (wf_nl hwf _)) _
    have hwfT : Wf (ifStT cx c st) := wf_push hwfC
    have hwf1 : Wf (ifSt1 cx lp c thn st) := by
      have := compS_wf cx (.block thn) lp _ hwfC
      rwa [compS_block] at this
    have hc1 : (ifSt1 cx lp c thn st).cnt = (compS cx lp thn (ifStT cx c st)).2.cnt := rfl
    cases ek with
    | none =>
      rw [compS_ite_none] at hcnt ⊢
      have hcT : (compS cx lp thn (ifStT cx c st)).2.cnt ≤ N := by simpa [hc1] using hcnt
      have hst : st.cnt ≤ N := Nat.le_trans (by simpa using (compS_mono cx thn lp (ifStT cx c st) (by simp)).1) hcT
      have hcond : AllB (ifCond cx c st).1 (ItemBelow N A) :=
        compE_items cx (ifSt0 st).scopes N A (by simpa [ifSt0, slotsOf] using slots_lt hwf hst) hc.args c _ _ hl.1
      refine (((hcond.snoc (it := Item.lbl st.nl) trivial).append (iht.1 lp k _ hal.1 hc hwfT hcT hl.2.1)).append ?_)
      intro it hit; simp at hit; rcases hit with rfl | rfl <;> trivial
    | block =>
      rw [compS_ite_block] at hcnt ⊢
      have hcE : (compS cx lp els (ifSt1 cx lp c thn st).push).2.cnt ≤ N := by simpa using hcnt
      have hme := (compS_mono cx els lp (ifSt1 cx lp c thn st).push (by simp)).1
      have hcT : (compS cx lp thn (ifStT cx c st)).2.cnt ≤ N := by
        have : (ifSt1 cx lp c thn st).push.cnt = (compS cx lp thn (ifStT cx c st)).2.cnt := rfl
        omega
      have hst : st.cnt ≤ N := Nat.le_trans (by simpa using (compS_mono cx thn lp (ifStT cx c st) (by simp)).1) hcT
      have hcond : AllB (ifCond cx c st).1 (ItemBelow N A) :=
        compE_items cx (ifSt0 st).scopes N A (by simpa [ifSt0, slotsOf] using slots_lt hwf hst) hc.args c _ _ hl.1
      refine (((((hcond.snoc (it := Item.lbl st.nl) trivial).append (iht.1 lp k _ hal.1 hc hwfT hcT hl.2.1)).append ?_).append
        (ihe.1 lp k _ hal.2 hc (wf_push hwf1) hcE hl.2.2)).snoc trivial)
      intro it hit; simp at hit; rcases hit with rfl | rfl <;> trivial
    | elif =>
      rw [compS_ite_elif] at hcnt ⊢
      have hcE : (compS cx lp els (ifSt1 cx lp c thn st)).2.cnt ≤ N := by simpa using hcnt
      have hme := (compS_mono cx els lp (ifSt1 cx lp c thn st) hwf1.nonempty).1
      have hcT : (compS cx lp thn (ifStT cx c st)).2.cnt ≤ N := by omega
      have hst : st.cnt ≤ N := Nat.le_trans (by simpa using (compS_mono cx thn lp (ifStT cx c st) (by simp)).1) hcT
      have hcond : AllB (ifCond cx c st).1 (ItemBelow N A) :=
        compE_items cx (ifSt0 st).scopes N A (by simpa [ifSt0, slotsOf] using slots_lt hwf hst) hc.args c _ _ hl.1
      refine (((((hcond.snoc (it := Item.lbl st.nl) trivial).append (iht.1 lp k _ hal.1 hc hwfT hcT hl.2.1)).append ?_).append
        (ihe.1 lp k _ hal.2 hc hwf1 hcE hl.2.2)).snoc trivial)
      intro it hit; simp at hit; rcases hit with rfl | rfl <;> trivial
  | loop init cond post body ihi ihp ihb =>
    refine ⟨?_, fun lp k st h => by simp [ShapeCl] at h⟩
    intro lp k st hal hc hwf hcnt hl
    simp only [Shape] at hal
    rw [compS_loop] at hcnt ⊢
    have hwf0 : Wf (forSt0 st) := wf_push (wf_mono (st' := { st with nl := st.nl + 3, nextLabel := none }) hwf rfl (Nat.le_refl _))
    have hwf1 : Wf (forSt1 cx lp init st) := compS_wf cx init lp _ hwf0
    have hwfB : Wf (forStB cx lp init cond st) := wf_push (wf_nl hwf1 _)
    have hwf3 : Wf (forSt3 cx lp init cond body st) := by
      have := compS_wf cx (.block body) (forEnt st :: lp) { forSt1 cx lp init st with nl := (forCond cx lp init cond st).2 } (wf_nl hwf1 _)
      rwa [compS_block] at this
    have hcP : (compS cx lp post (forSt3 cx lp init cond body st)).2.cnt ≤ N := by simpa using hcnt
    have hmP := (compS_mono cx post lp (forSt3 cx lp init cond body st) hwf3.nonempty).1
    have hc3 : (forSt3 cx lp init cond body st).cnt ≤ N := by omega
    have hcB : (compS cx (forEnt st :: lp) body (forStB cx lp init cond st)).2.cnt ≤ N := by simpa [forSt3] using hc3
    have hmB := (compS_mono cx body (forEnt st :: lp) (forStB cx lp init cond st) (by simp)).1
    have hc1 : (forSt1 cx lp init st).cnt ≤ N := by simp only [forStB_cnt] at hmB; omega
    have hcx' : OpCtx cx (forEnt st :: lp) k A := ⟨by simpa [totalSz, forEnt, LEntry.sz] using hc.few, hc.k3, hc.args⟩
    have hcnd : AllB (forCond cx lp init cond st).1 (ItemBelow N A) := by
      cases cond with
      | none => exact AllB.nil _
      | some c =>
        simp only [forCond]
        exact (compE_items cx _ N A (slots_lt hwf1 hc1) hc.args c .val _ hl.2.1).snoc trivial
    refine ((((((ihi.1 lp k _ hal.1 hc hwf0 hc1 hl.1).snoc (it := Item.lbl st.nl) trivial).append hcnd).append
      (ihb.1 (forEnt st :: lp) k _ hal.2.2 hcx' hwfB hcB hl.2.2.2)).snoc (it := Item.lbl (st.nl + 2)) trivial).append
      (ihp.1 lp k _ hal.2.1 hc hwf3 hcP hl.2.2.1)).append ?_
    intro it hit; simp at hit; rcases hit with rfl | rfl <;> trivial
  | labeled l s ih =>
    refine ⟨?_, fun lp k st h => by simp [ShapeCl] at h⟩
    intro lp k st hal hc hwf hcnt hl
    simp only [Shape] at hal
    rw [compS_labeled] at hcnt ⊢
    exact ih.1 lp k _ hal hc (wf_mono hwf rfl (Nat.le_refl _)) hcnt hl
  | switchS tag ti cl ih =>
    refine ⟨?_, fun lp k st h => by simp [ShapeCl] at h⟩
    intro lp k st hal hc hwf hcnt hl
    simp only [Shape] at hal
    rw [compS_switch] at hcnt ⊢
    have hwf1 : Wf (swSt1 cx tag cl st) := wf_mono (wf_push hwf) rfl (Nat.le_refl _)
    have hcC : (compS cx (swEnt cx tag ti st :: lp) cl (swSt1 cx tag cl st)).2.cnt ≤ N := by simpa using hcnt
    have hmC := (compS_mono cx cl (swEnt cx tag ti st :: lp) (swSt1 cx tag cl st) (by simp)).1
    have hst : st.cnt ≤ N := by simp only [swSt1_cnt] at hmC; omega
    have hcx' : OpCtx cx (swEnt cx tag ti st :: lp) (k + 1) A :=
      ⟨by have := hc.few; simp [totalSz, swEnt, LEntry.sz]; omega, by omega, hc.args⟩
    have htag : AllB (swTag cx tag st).1 (ItemBelow N A) := by
      cases tag with
      | none => exact AllB.one trivial
      | some e => exact compE_items cx st.push.scopes N A (by simpa [slotsOf] using slots_lt hwf hst) hc.args e .val st.nl hl.1
    refine (htag.append (ih.2 (swEnt cx tag ti st :: lp) (k + 1) _ hal.2 hcx' hwf1 hcC hl.2)).append ?_
    intro it hit; simp at hit; rcases hit with rfl | rfl <;> trivial
  | caseS e1 e2 body ft rest ihb ihr =>
    refine ⟨fun lp k st h => by simp [Shape] at h, ?_⟩
    intro lp k st hal hc hwf hcnt hl
    simp only [ShapeCl] at hal
    rw [compS_case] at hcnt ⊢
    simp only at hcnt
    have hwfB : Wf (csStB cx lp e1 e2 st) := wf_push (wf_nl hwf _)
    have hwfR : Wf (csStR cx lp e1 e2 body st) := by
      have := compS_wf cx (.block body) lp { st with nl := (csTests cx lp e1 e2 st).2 } (wf_nl hwf _)
      rw [compS_block] at this
      exact wf_mono this rfl (Nat.le_refl _)
    have hmR := (compS_mono cx rest lp (csStR cx lp e1 e2 body st) hwfR.nonempty).1
    have hcB : (compS cx lp body (csStB cx lp e1 e2 st)).2.cnt ≤ N := by
      have : (csStR cx lp e1 e2 body st).cnt = (compS cx lp body (csStB cx lp e1 e2 st)).2.cnt := rfl
      omega
    have hmB := (compS_mono cx body lp (csStB cx lp e1 e2 st) (by simp)).1
    have hst : st.cnt ≤ N := by simp only [csStB_cnt] at hmB; omega
    have hEq : ItemBelow N A (.ins (csEq lp)) := by
      unfold csEq; split
      · split <;> trivial
      · trivial
    have hT : AllB (csTests cx lp e1 e2 st).1 (ItemBelow N A) := by
      have h1 := compE_items cx st.scopes N A (slots_lt hwf hst) hc.args e1 .val (st.nl + 1) hl.1
      cases e2 with
      | none =>
        simp only [csTests]
        refine ((AllB.one (it := Item.ins .dup) trivial).append h1).append ?_
        intro it hit; simp at hit; rcases hit with rfl | rfl
        · exact hEq
        · trivial
      | some e2 =>
        simp only [csTests]
        have h2 := compE_items cx st.scopes N A (slots_lt hwf hst) hc.args e2 .val (compE cx st.scopes e1 .val (st.nl + 1)).2 hl.2.1
        have hj : ∀ (j : Op Nat), Op.target? j ≠ none → AllB [Item.ins (csEq lp), Item.ins j] (ItemBelow N A) := by
          intro j hj it hit; simp at hit; rcases hit with rfl | rfl
          · exact hEq
          · cases j <;> first | trivial | (simp [Op.target?] at hj)
        exact (((((AllB.one (it := Item.ins .dup) trivial).append h1).append (hj (.jmpIf st.sb) (by simp [Op.target?]))).append
          (AllB.one (it := Item.ins .dup) trivial)).append h2).append (hj (.jmpIfNot st.nl) (by simp [Op.target?]))
    have hfall : AllB (if ft then [Item.ins (.jmp (st.sb + 1))] else ([] : Code)) (ItemBelow N A) := by
      split
      · exact AllB.one trivial
      · exact AllB.nil _
    refine ((((hT.snoc (it := Item.lbl st.sb) trivial).append (ihb.1 lp k _ hal.1 hc hwfB hcB hl.2.2.1)).append hfall).append ?_).append
      (ihr.2 lp k _ hal.2 hc hwfR hcnt hl.2.2.2)
    intro it hit; simp at hit; rcases hit with rfl | rfl <;> trivial
  | defaultS body ih =>
    refine ⟨fun lp k st h => by simp [Shape] at h, ?_⟩
    intro lp k st hal hc hwf hcnt hl
    simp only [ShapeCl] at hal
    rw [compS_default] at hcnt ⊢
    refine ((AllB.one (it := Item.lbl st.sb) trivial).append (ih.1 lp k (dfStB st) hal hc (wf_push (wf_nl hwf _)) (by simpa using hcnt) hl)).append ?_
    intro it hit; simp at hit; rcases hit with rfl | rfl <;> trivial


mutual
theorem allowed_shape : ∀ (s : Stmt) (ls : Sigs), Allowed ls s → Shape (swCount ls) s
  | .seq a b, ls, h => by simp only [Allowed] at h; exact ⟨allowed_shape a ls h.1, allowed_shape b ls h.2⟩
  | .ite _ t _ e, ls, h => by simp only [Allowed] at h; exact ⟨allowed_shape t ls h.1, allowed_shape e ls h.2⟩
  | .loop i _ p b, ls, h => by
    simp only [Allowed] at h
    exact ⟨allowed_shape i ls h.1, allowed_shape p ls (noDecl_allowed h.2.1 ls), by simpa [swCount] using allowed_shape b _ h.2.2⟩
  | .block b, ls, h => by simp only [Allowed] at h; exact allowed_shape b ls h
  | .labeled _ (.loop i _ p b), ls, h => by
    simp only [Allowed] at h
    exact ⟨allowed_shape i ls h.1, allowed_shape p ls (noDecl_allowed h.2.1 ls), by simpa [swCount] using allowed_shape b _ h.2.2⟩
  | .labeled _ (.switchS _ _ cl), ls, h => by
    simp only [Allowed] at h
    exact ⟨h.1, by have := allowedCl_shape cl _ h.2; simpa [swCount, Nat.add_comm] using this⟩
  | .switchS _ _ cl, ls, h => by
    simp only [Allowed] at h
    exact ⟨h.1, by have := allowedCl_shape cl _ h.2; simpa [swCount, Nat.add_comm] using this⟩
  | .caseS _ _ _ _ _, _, h => by simp [Allowed] at h
  | .defaultS _, _, h => by simp [Allowed] at h
  | .skip, _, _ | .define _ _, _, _ | .assign _ _, _, _ | .opAssign _ _ _, _, _ | .inc _, _, _ | .dec _, _, _
  | .varDecl _ _ _, _, _ | .exprStmt _, _, _ | .discard _, _, _ | .panicS _, _, _ | .ret _, _, _ | .ret2 _ _, _, _ | .define2 _ _ _, _, _ | .brk, _, _ | .cont, _, _
  | .brkL _, _, _ | .contL _, _, _ => trivial
  | .labeled _ .skip, _, h | .labeled _ (.seq _ _), _, h | .labeled _ (.define _ _), _, h | .labeled _ (.assign _ _), _, h
  | .labeled _ (.opAssign _ _ _), _, h | .labeled _ (.inc _), _, h | .labeled _ (.dec _), _, h | .labeled _ (.varDecl _ _ _), _, h
  | .labeled _ (.exprStmt _), _, h | .labeled _ (.discard _), _, h | .labeled _ (.panicS _), _, h | .labeled _ (.ite _ _ _ _), _, h
  | .labeled _ (.ret _), _, h | .labeled _ (.ret2 _ _), _, h | .labeled _ (.define2 _ _ _), _, h | .labeled _ .brk, _, h | .labeled _ .cont, _, h | .labeled _ (.block _), _, h
  | .labeled _ (.labeled _ _), _, h | .labeled _ (.brkL _), _, h | .labeled _ (.contL _), _, h
  | .labeled _ (.caseS _ _ _ _ _), _, h | .labeled _ (.defaultS _), _, h => by simp [Allowed] at h
theorem allowedCl_shape : ∀ (cl : Stmt) (ls : Sigs), AllowedCl ls cl → ShapeCl (swCount ls) cl
  | .skip, _, _ => trivial
  | .defaultS b, ls, h => by simp only [AllowedCl] at h; exact allowed_shape b ls h
  | .caseS _ _ b _ rest, ls, h => by simp only [AllowedCl] at h; exact ⟨allowed_shape b ls h.1, allowedCl_shape rest ls h.2.1⟩
  | .seq _ _, _, h | .define _ _, _, h | .assign _ _, _, h | .opAssign _ _ _, _, h | .inc _, _, h | .dec _, _, h
  | .varDecl _ _ _, _, h | .exprStmt _, _, h | .discard _, _, h | .panicS _, _, h | .ite _ _ _ _, _, h
  | .loop _ _ _ _, _, h | .ret _, _, h | .ret2 _ _, _, h | .define2 _ _ _, _, h | .brk, _, h | .cont, _, h | .block _, _, h | .labeled _ _, _, h
  | .brkL _, _, h | .contL _, _, h | .switchS _ _ _, _, h => by simp [AllowedCl] at h
end

/-- the source-level size conditions of one function: at most 255 parameters, at most 255 local slots
    (writeJumps rejects more: codegen.go:2925-2927), integer literals within 256 bits. -/
def SmallFn (d : FuncDecl) : Prop := d.params.length ≤ 255 ∧ declBound d.body ≤ 255 ∧ LitsS d.body

theorem compFunc_enc (tbl : List (String × Nat × Nat)) (d : FuncDecl) (label nl : Nat) (hal : Allowed [] d.body) (hs : SmallFn d) :
    ∀ it ∈ (compFunc tbl d label nl).1, itemEnc it = true := by
  obtain ⟨hpar, hdecl, hlits⟩ := hs
  have hcode : (compFunc tbl d label nl).1 =
      [Item.lbl label, initSlotItem (compS { funcs := tbl, args := d.params } [] (.block d.body) { nl := nl, cnt := 0, scopes := [[]] }).2.cnt d.params.length] ++
        (compS { funcs := tbl, args := d.params } [] (.block d.body) { nl := nl, cnt := 0, scopes := [[]] }).1 ++
        (if lastIsRet d.body then [] else [Item.ins .ret]) := rfl
  have hcnt := compS_cnt_le { funcs := tbl, args := d.params } (.block d.body) [] { nl := nl, cnt := 0, scopes := [[]] }
  have hwf : Wf { nl := nl, cnt := 0, scopes := [[]] } := ⟨by simp [slotsOf], by simp [slotsOf], by simp⟩
  have hitems := (compS_items_aux { funcs := tbl, args := d.params }
    (compS { funcs := tbl, args := d.params } [] (.block d.body) { nl := nl, cnt := 0, scopes := [[]] }).2.cnt d.params.length (.block d.body)).1
    [] 0 { nl := nl, cnt := 0, scopes := [[]] } (by simpa [Shape, swCount] using allowed_shape d.body [] hal)
    ⟨by simp [totalSz], by omega, Nat.le_refl _⟩ hwf (Nat.le_refl _) hlits
  rw [hcode]
  generalize compS { funcs := tbl, args := d.params } [] (.block d.body) { nl := nl, cnt := 0, scopes := [[]] } = r at hcnt hitems ⊢
  simp only [declBound, Nat.zero_add] at hcnt
  have hN : r.2.cnt ≤ 255 := by omega
  intro it hit
  simp only [List.mem_append, List.mem_cons, List.not_mem_nil, or_false] at hit
  rcases hit with ((rfl | rfl) | h) | h
  · rfl
  · unfold initSlotItem
    split
    · rfl
    · simp [itemEnc]; omega
  · exact itemBelow_enc (N := r.2.cnt) (A := d.params.length) (by omega) (by omega) (hitems it h)
  · split at h
    · cases h
    · simp at h; subst h; rfl

theorem compFuncs_enc (tbl : List (String × Nat × Nat)) : ∀ (l : List FuncDecl) (i nl : Nat),
    (∀ d ∈ l, Allowed [] d.body) → (∀ d ∈ l, SmallFn d) → ∀ it ∈ compFuncs tbl l i nl, itemEnc it = true := by
  intro l
  induction l with
  | nil => intro i nl _ _ it h; simp [compFuncs] at h
  | cons d r ih =>
    intro i nl hal hs it hit
    simp only [compFuncs, List.mem_append] at hit
    rcases hit with h | h
    · exact compFunc_enc tbl d i nl (hal d (by simp)) (hs d (by simp)) it h
    · exact ih (i + 1) _ (fun d' hd' => hal d' (List.mem_cons_of_mem _ hd')) (fun d' hd' => hs d' (List.mem_cons_of_mem _ hd')) it h

/-- **`encodable (compProg P)` from source-level conditions**: for a program of allowed functions, each with at
    most 255 parameters, at most 255 local slots and literals within 256 bits, whose long layout stays below 2^31
    bytes, the compiler's output is `encodable` — hence `layoutOK` (Proofs/CompileLayout.lean). -/
theorem encodable_compProg (P : Prog) (hall : ∀ d ∈ P, Allowed [] d.body) (hs : ∀ d ∈ P, SmallFn d)
    (hlen : longLen (compProg P) < 2 ^ 31) : encodable (compProg P) = true := by
  simp only [encodable, Bool.and_eq_true, decide_eq_true_eq]
  refine ⟨⟨?_, targetsMarked_of_allowed P hall⟩, hlen⟩
  rw [List.all_eq_true]
  exact compFuncs_enc (funcTable P) P 0 P.length hall hs

end NeoModel.CompileProofs
