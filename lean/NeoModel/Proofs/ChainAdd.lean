/-
C20 (a): several producers calling Blockchain.AddBlock (Model/ChainAdd.lean): with the index check under the
lock the applied blocks are h0+1..height in order, each once, for every interleaving of the producers' steps.
-/
import NeoModel.Model.ChainAdd
namespace NeoModel.ChainAdd

/-- Invariant: whoever has verified its index holds the lock and its index is the next one; the applied
blocks are `h0+1 .. height`. -/
structure Inv (h0 : Nat) (s : St) : Prop where
  ver : ∀ p b, s.pc p = .verified b → s.holder = some p ∧ b = s.height + 1
  lck : ∀ p b, s.pc p = .locked b → s.holder = some p
  log : h0 ≤ s.height ∧ s.applied = List.range' (h0 + 1) (s.height - h0)

theorem inv_init (h0 : Nat) : Inv h0 (St.init h0) :=
  ⟨fun p b h => by simp [St.init] at h, fun p b h => by simp [St.init] at h, by simp [St.init]⟩

theorem inv_step (h0 : Nat) (s : St) (a : Act) (hi : Inv h0 s) : Inv h0 (step s a) := by
  obtain ⟨hv, hl, hlog⟩ := hi
  cases a with
  | lock p b =>
    simp only [step]
    split
    · rename_i hc
      refine ⟨?_, ?_, hlog⟩
      · intro q c hq
        simp only [setPc] at hq
        split at hq
        · cases hq
        · have := (hv q c hq).1; rw [hc.1] at this; cases this
      · intro q c hq
        simp only [setPc] at hq
        split at hq
        · rename_i e; subst e; rfl
        · have := hl q c hq; rw [hc.1] at this; cases this
    · exact ⟨hv, hl, hlog⟩
  | check p =>
    simp only [step]
    cases hp : s.pc p with
    | idle => exact ⟨hv, hl, hlog⟩
    | verified b => exact ⟨hv, hl, hlog⟩
    | locked b =>
      have hh := hl p b hp
      simp only
      split
      · rename_i hb
        refine ⟨?_, ?_, hlog⟩
        · intro q c hq
          simp only [setPc] at hq
          split at hq
          · rename_i e; subst e; cases hq; exact ⟨hh, hb⟩
          · exact hv q c hq
        · intro q c hq
          simp only [setPc] at hq
          split at hq
          · cases hq
          · exact hl q c hq
      · refine ⟨?_, ?_, hlog⟩
        · intro q c hq
          simp only [setPc] at hq
          split at hq
          · cases hq
          · rename_i hne
            have := (hv q c hq).1; rw [hh] at this; cases this; exact absurd rfl hne
        · intro q c hq
          simp only [setPc] at hq
          split at hq
          · cases hq
          · rename_i hne
            have := hl q c hq; rw [hh] at this; cases this; exact absurd rfl hne
  | store p =>
    simp only [step]
    cases hp : s.pc p with
    | idle => exact ⟨hv, hl, hlog⟩
    | locked b => exact ⟨hv, hl, hlog⟩
    | verified b =>
      obtain ⟨hh, hb⟩ := hv p b hp
      simp only
      refine ⟨?_, ?_, ?_⟩
      · intro q c hq
        simp only [setPc] at hq
        split at hq
        · cases hq
        · rename_i hne
          have := (hv q c hq).1; rw [hh] at this; cases this; exact absurd rfl hne
      · intro q c hq
        simp only [setPc] at hq
        split at hq
        · cases hq
        · rename_i hne
          have := hl q c hq; rw [hh] at this; cases this; exact absurd rfl hne
      · refine ⟨by show h0 ≤ s.height + 1; omega, ?_⟩
        show s.applied ++ [b] = List.range' (h0 + 1) (s.height + 1 - h0)
        rw [hlog.2, hb]
        have e1 : s.height + 1 = (h0 + 1) + (s.height - h0) := by omega
        have e2 : s.height + 1 - h0 = (s.height - h0) + 1 := by omega
        rw [e2, List.range'_concat]; simp only [Nat.one_mul]; rw [← e1]

theorem inv_run (h0 : Nat) (as : List Act) : ∀ s, Inv h0 s → Inv h0 (run s as) := by
  unfold run
  induction as with
  | nil => intro s h; exact h
  | cons a r ih => intro s h; exact ih _ (inv_step h0 s a h)

end NeoModel.ChainAdd
